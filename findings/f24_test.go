package demo

import (
	"sync"
	"testing"

	"github.com/AdguardTeam/urlfilter"
	"github.com/AdguardTeam/urlfilter/filterlist"
	"github.com/AdguardTeam/urlfilter/rules"
)

// gatedList makes the retrievals of every rule happen in pairs: a retrieval
// returns only when a second goroutine asks for the same rule, so that two
// goroutines querying a cold cache both miss it, and both have stored their
// copy of the first rule by the time they are given the second one.
type gatedList struct {
	filterlist.RuleList
	mu    sync.Mutex
	gates map[int]chan struct{}
	armed bool
}

func (l *gatedList) RetrieveRule(idx int) (rules.Rule, error) {
	l.mu.Lock()
	if l.armed {
		if ch, ok := l.gates[idx]; ok {
			close(ch)
			delete(l.gates, idx)
			l.mu.Unlock()
		} else {
			ch = make(chan struct{})
			l.gates[idx] = ch
			l.mu.Unlock()
			<-ch
		}
	} else {
		l.mu.Unlock()
	}
	r, err := l.RuleList.RetrieveRule(idx)

	return r, err
}

// F24 (C14, repaired by 5d32eff): two goroutines that miss the cold cache for the same rule
// each stored their own instance; the shortcut table tells rules apart by pointer and reported
// the rule twice.  The gates make both goroutines miss together and store before either of them
// meets the rule again.
func TestF24(t *testing.T) {
	inner := &filterlist.StringRuleList{ID: 1, RulesText: "||example.org^\n||tracker.net^\n", IgnoreCosmetic: true}
	gl := &gatedList{RuleList: inner, gates: map[int]chan struct{}{}}
	st, err := filterlist.NewRuleStorage([]filterlist.RuleList{gl})
	if err != nil {
		t.Fatal(err)
	}
	eng := urlfilter.NewNetworkEngine(st)
	req := func() *rules.Request {
		return rules.NewRequest("http://example.org/?a=tracker.net&b=example.org", "", rules.TypeDocument)
	}
	// sequential answer on a storage of its own
	st2, _ := filterlist.NewRuleStorage([]filterlist.RuleList{&filterlist.StringRuleList{ID: 1, RulesText: inner.RulesText, IgnoreCosmetic: true}})
	want := len(urlfilter.NewNetworkEngine(st2).MatchAll(req()))
	gl.mu.Lock()
	gl.armed = true
	gl.mu.Unlock()
	var wg sync.WaitGroup
	got := make([]int, 2)
	for i := 0; i < 2; i++ {
		wg.Add(1)
		go func(i int) {
			defer wg.Done()
			got[i] = len(eng.MatchAll(req()))
		}(i)
	}
	wg.Wait()

	for i, n := range got {
		if n != want {
			t.Errorf("goroutine %d: MatchAll returned %d rules, sequentially it returns %d", i, n, want)
		}
	}
}
