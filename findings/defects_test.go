package demo

import (
	"strings"
	"testing"

	"github.com/AdguardTeam/urlfilter"
	"github.com/AdguardTeam/urlfilter/filterlist"
	"github.com/AdguardTeam/urlfilter/rules"
)

func storage(t *testing.T, text string) *filterlist.RuleStorage {
	s, err := filterlist.NewRuleStorage([]filterlist.RuleList{&filterlist.StringRuleList{ID: 1, RulesText: text}})
	if err != nil {
		t.Fatal(err)
	}
	return s
}

func TestF1(t *testing.T) {
	e := urlfilter.NewNetworkEngine(storage(t, "||x^$domain=google.*\n"))
	r := rules.NewRequest("http://x/", "http://www.google.com/", rules.TypeScript)
	if len(e.MatchAll(r)) != 1 {
		t.Fatal("wildcard domain rule lost by index")
	}
}

func TestF2(t *testing.T) {
	r, err := rules.NewNetworkRule("a$domain=example.org", 1)
	if err != nil {
		t.Skip(err)
	}
	req := rules.NewRequest("http://a.com/", "http://example.org/", rules.TypeScript)
	_ = r.Match(req)
	r2, err := rules.NewNetworkRule("|a$domain=example.org", 1)
	if err == nil {
		_ = r2.Match(req)
	}
	r3, err := rules.NewNetworkRule("||$domain=example.org", 1)
	if err == nil {
		_ = r3.Match(req)
	}
	r4, err := rules.NewNetworkRule("||a$domain=example.org", 1)
	if err == nil {
		_ = r4.Match(req)
	}
}

func mk(t *testing.T, s string) *rules.NetworkRule {
	r, err := rules.NewNetworkRule(s, 1)
	if err != nil {
		t.Fatal(s, err)
	}
	return r
}

func TestF3(t *testing.T) {
	a := mk(t, "||e^$client=1.2.3.4")
	b := mk(t, "||e^$denyallow=x.com")
	if a.IsHigherPriority(a) {
		t.Error("a>a")
	}
	if a.IsHigherPriority(b) && b.IsHigherPriority(a) {
		t.Error("a>b && b>a")
	}
	d := mk(t, "||e^$domain=x.com")
	e := mk(t, "||e^$script,image,third-party")
	if d.IsHigherPriority(e) && e.IsHigherPriority(d) {
		t.Error("d>e && e>d")
	}
}

func TestF4(t *testing.T) {
	x := mk(t, "||e^")
	xb := mk(t, "||e^$badfilter")
	y := mk(t, "||e^$image")
	yb := mk(t, "||e^$image,badfilter")
	res := rules.NewMatchingResult([]*rules.NetworkRule{x, xb, y, yb}, nil)
	if res.BasicRule != nil {
		t.Fatalf("basic rule %s should be disabled", res.BasicRule.RuleText)
	}
}

func TestF5(t *testing.T) {
	x := mk(t, "||e^$denyallow=b.com")
	xb := mk(t, "||e^$denyallow=a.com,badfilter")
	res := rules.NewMatchingResult([]*rules.NetworkRule{x, xb}, nil)
	if res.BasicRule != x {
		t.Fatalf("denyallow rule wrongly disabled")
	}
	y := mk(t, "||e^$dnstype=A")
	yb := mk(t, "||e^$dnstype=AAAA,badfilter")
	if rules.GetDNSBasicRule([]*rules.NetworkRule{y, yb}) != y {
		t.Fatalf("dnstype rule wrongly disabled")
	}
	z := mk(t, "||e^$dnsrewrite=1.2.3.4")
	zb := mk(t, "||e^$dnsrewrite=1.2.3.5,badfilter")
	dres := &urlfilter.DNSResult{NetworkRules: []*rules.NetworkRule{z, zb}}
	_ = dres
}

func TestF6(t *testing.T) {
	a := mk(t, "||e^$dnsrewrite=1.1.1.1")
	b := mk(t, "@@||e^$dnsrewrite=2.2.2.2")
	c := mk(t, "@@||e^$dnsrewrite=1.1.1.1")
	res := &urlfilter.DNSResult{NetworkRules: []*rules.NetworkRule{a, b, c}}
	out := res.DNSRewrites()
	if len(out) != 0 {
		for _, r := range out {
			t.Log(r.RuleText)
		}
		t.Fatal("expected no rewrites")
	}
}

func TestF7(t *testing.T) {
	a := mk(t, "||e^$dnsrewrite=NOERROR;MX;10 mail.example.com")
	c := mk(t, "@@||e^$dnsrewrite=NOERROR;MX;10 mail.example.com")
	res := &urlfilter.DNSResult{NetworkRules: []*rules.NetworkRule{a, c}}
	if out := res.DNSRewrites(); len(out) != 0 {
		t.Fatal("MX rewrite not cancelled by identical exception")
	}
	a = mk(t, "||e^$dnsrewrite=NOERROR;HTTPS;10 x.example.com alpn=h3")
	c = mk(t, "@@||e^$dnsrewrite=NOERROR;HTTPS;10 x.example.com alpn=h3")
	res = &urlfilter.DNSResult{NetworkRules: []*rules.NetworkRule{a, c}}
	if out := res.DNSRewrites(); len(out) != 0 {
		t.Fatal("HTTPS rewrite not cancelled by identical exception")
	}
}

func TestF8(t *testing.T) {
	e := urlfilter.NewCosmeticEngine(storage(t, "example.org##.banner\nexample.org,~example.org##.x\ngoogle.*##.w\nexample.org,sub.example.org##.dup\n~sub.example.org,example.org##.neg\n"))
	r := e.Match("sub.example.org", true, true, true)
	got := map[string]int{}
	for _, s := range r.ElementHiding.Specific {
		got[s]++
	}
	if got[".banner"] != 1 {
		t.Error("subdomain not matched", got)
	}
	if got[".dup"] != 1 {
		t.Error("dup", got)
	}
	if got[".neg"] != 0 {
		t.Error("neg", got)
	}
	r = e.Match("example.org", true, true, true)
	for _, s := range r.ElementHiding.Specific {
		if s == ".x" {
			t.Error("returned although Match false")
		}
	}
	r = e.Match("www.google.com", true, true, true)
	found := false
	for _, s := range r.ElementHiding.Specific {
		if s == ".w" {
			found = true
		}
	}
	if !found {
		t.Error("wildcard tld rule not found")
	}
}

func TestF9(t *testing.T) {
	r := mk(t, "@@||e^$elemhide,generichide")
	res := rules.NewMatchingResult([]*rules.NetworkRule{r}, nil)
	if o := res.GetCosmeticOption(); o != rules.CosmeticOptionJS {
		t.Fatalf("option = %d", o)
	}
}

func TestF10(t *testing.T) {
	r := mk(t, "||example.org^")
	if !r.Match(rules.NewRequest("http://EXAMPLE.org", "", rules.TypeDocument)) {
		t.Skip("url request does not match either")
	}
	if !r.Match(rules.NewRequestForHostname("EXAMPLE.org")) {
		t.Fatal("hostname request not matched")
	}
}

func TestF11(t *testing.T) {
	h, err := rules.NewHostRule("0.0.0.0 example.org#note", 1)
	if err != nil {
		t.Fatal(err)
	}
	if len(h.Hostnames) != 1 || h.Hostnames[0] != "example.org" {
		t.Fatal(h.Hostnames)
	}
}

func TestF5b(t *testing.T) {
	x := mk(t, "||e^")
	xb := mk(t, "||e^$dnsrewrite=1.2.3.4,badfilter")
	if rules.GetDNSBasicRule([]*rules.NetworkRule{x, xb}) != x {
		t.Fatalf("plain rule disabled by a dnsrewrite badfilter")
	}
	y := mk(t, "||e^$dnsrewrite=NOERROR;MX;10 m.example.com")
	yb := mk(t, "||e^$dnsrewrite=NOERROR;MX;10 m.example.com,badfilter")
	z := mk(t, "||e^$important")
	res := rules.NewMatchingResult([]*rules.NetworkRule{y, yb, z}, nil)
	if res.BasicRule != z {
		t.Fatal("z")
	}
}

// regexRuleFires: the rule /body/ accepts the URL (its regular expression matches), so it must match
// the request, shortcut pre-check included.
func regexRuleFires(t *testing.T, rule, url string) bool {
	t.Helper()
	f, err := rules.NewNetworkRule(rule, 1)
	if err != nil {
		t.Fatal(err)
	}
	return f.Match(rules.NewRequest(url, "", rules.TypeScript))
}

// F12: the letter of a class escape (\d, \w) becomes part of the shortcut.
func TestF12(t *testing.T) {
	if !regexRuleFires(t, `/ad\dzonebanner/`, "http://example.org/ad5zonebanner") {
		t.Fatalf(`/ad\dzonebanner/ does not fire on ad5zonebanner (shortcut %q)`, mk(t, `/ad\dzonebanner/`).Shortcut)
	}
}

// F13: one branch of a top-level alternation becomes the shortcut.
func TestF13(t *testing.T) {
	if !regexRuleFires(t, `/adverts|banners/`, "http://example.org/banners/1.js") {
		t.Fatalf(`/adverts|banners/ does not fire on banners (shortcut %q)`, mk(t, `/adverts|banners/`).Shortcut)
	}
}

// F14: a character that may repeat zero times (x*) stays in the shortcut.
func TestF14(t *testing.T) {
	if !regexRuleFires(t, `/advertx*zone/`, "http://example.org/advertzone") {
		t.Fatalf(`/advertx*zone/ does not fire on advertzone (shortcut %q)`, mk(t, `/advertx*zone/`).Shortcut)
	}
}

// F15: the same with a counted repetition whose minimum is zero (x{0,2}).
func TestF15(t *testing.T) {
	if !regexRuleFires(t, `/advertx{0,2}zone/`, "http://example.org/advertzone") {
		t.Fatalf(`/advertx{0,2}zone/ does not fire on advertzone (shortcut %q)`, mk(t, `/advertx{0,2}zone/`).Shortcut)
	}
}

// F16: of two class escapes in a row only the first is stripped; the letter of the second
// becomes literal text of the shortcut.
func TestF16(t *testing.T) {
	if !regexRuleFires(t, `/adzone\d\wbanner/`, "http://example.org/adzone5_banner") {
		t.Fatalf(`/adzone\d\wbanner/ does not fire on adzone5_banner (shortcut %q)`, mk(t, `/adzone\d\wbanner/`).Shortcut)
	}
}

// F17: the digits of a hexadecimal escape (\xHH) become literal text of the shortcut.
func TestF17(t *testing.T) {
	if !regexRuleFires(t, `/ad\x41zonebanner/`, "http://example.org/adAzonebanner") {
		t.Fatalf(`/ad\x41zonebanner/ does not fire on adAzonebanner (shortcut %q)`, mk(t, `/ad\x41zonebanner/`).Shortcut)
	}
}

// F18: the same for an octal escape.
func TestF18(t *testing.T) {
	if !regexRuleFires(t, `/ad\101zonebanner/`, "http://example.org/adAzonebanner") {
		t.Fatalf(`/ad\101zonebanner/ does not fire on adAzonebanner (shortcut %q)`, mk(t, `/ad\101zonebanner/`).Shortcut)
	}
}

// F19: the name of a one-letter Unicode class (\pL) becomes literal text of the shortcut.
func TestF19(t *testing.T) {
	if !regexRuleFires(t, `/ad\pLzonebanner/`, "http://example.org/adxzonebanner") {
		t.Fatalf(`/ad\pLzonebanner/ does not fire on adxzonebanner (shortcut %q)`, mk(t, `/ad\pLzonebanner/`).Shortcut)
	}
}

// F20: a character repeated exactly zero times (x{0}) stays in the shortcut.
func TestF20(t *testing.T) {
	if !regexRuleFires(t, `/advertx{0}zone/`, "http://example.org/advertzone") {
		t.Fatalf(`/advertx{0}zone/ does not fire on advertzone (shortcut %q)`, mk(t, `/advertx{0}zone/`).Shortcut)
	}
}

// F23 (C05, repaired by 8458cab): the bracket strippers are greedy, so an alternation between two
// groups (classes, counted repetitions) was stripped with them and the first branch became the
// shortcut.
func TestF23(t *testing.T) {
	for _, tc := range [][2]string{
		{`/xxx(a)yyy|zzz(b)/`, "http://example.org/zzzb"},
		{`/foo{1}|bar{1}baz/`, "http://example.org/barbaz"},
		{`/aaaa[x]|bbbb[y]cc/`, "http://example.org/bbbbycc"},
	} {
		if !regexRuleFires(t, tc[0], tc[1]) {
			t.Errorf("%s does not fire on %s (shortcut %q)", tc[0], tc[1], mk(t, tc[0]).Shortcut)
		}
	}
}

// F25 (C04, repaired by 9ad6b38): the option splitter copied only the first byte of every
// non-ASCII character of an option value.
func TestF25(t *testing.T) {
	r := mk(t, "||example.org^$client='Мой ноутбук'")
	req := rules.NewRequest("http://example.org/", "", rules.TypeOther)
	req.ClientName = "Мой ноутбук"
	if !r.Match(req) {
		t.Fatalf("$client='Мой ноутбук' does not match the client named so")
	}
}

// F26 (C18, repaired by 051c4b6): a hosts-file comment introduced by "##" after a tab was taken
// for element-hiding syntax and the line was rejected.
func TestF26(t *testing.T) {
	for _, line := range []string{"0.0.0.0 example.org\t## phishing", "0.0.0.0\texample.org\t##phishing", "example.org\t## note"} {
		r, err := rules.NewRule(line, 1)
		hr, ok := r.(*rules.HostRule)
		if err != nil || !ok || len(hr.Hostnames) != 1 || hr.Hostnames[0] != "example.org" {
			t.Errorf("%q: rule %T, err %v", line, r, err)
		}
	}
}

// F27 (C18): a '$$' or '$@$' inside the comment of a hosts line was taken for the marker of an
// HTML-filtering rule: the line was rejected as a broken cosmetic rule and its names were lost.
func TestF27(t *testing.T) {
	for _, line := range []string{"0.0.0.0 example.org # a$$b", "0.0.0.0 example.org #a$@$b", "0.0.0.0 example.org#a$$b", "example.org # costs 5$$"} {
		r, err := rules.NewRule(line, 1)
		hr, ok := r.(*rules.HostRule)
		if err != nil || !ok || len(hr.Hostnames) != 1 || hr.Hostnames[0] != "example.org" {
			t.Errorf("%q: rule %T, err %v", line, r, err)
		}
	}
	// real HTML-filtering and element-hiding rules are still recognised
	for _, line := range []string{"example.org##.banner", "##.banner", "example.org#@#.banner"} {
		r, err := rules.NewRule(line, 1)
		if _, ok := r.(*rules.CosmeticRule); err != nil || !ok {
			t.Errorf("%q: rule %T, err %v", line, r, err)
		}
	}
	// (HTML-filtering rules are recognised and rejected as unsupported, as before)
	for _, line := range []string{`example.org$$script[data-src="a#b"]`, `example.org$@$script[data-src="a #b"]`, `$$script[tag-content="#x"]`} {
		_, err := rules.NewRule(line, 1)
		if err == nil || !strings.Contains(err.Error(), "unsupported") {
			t.Errorf("%q: err %v", line, err)
		}
	}
}

// F21 (C06, recorded, not repaired): a $urlblock and a $genericblock exception matching the
// referrer tie in priority; the one listed first becomes the document rule, so a
// domain-specific blocking rule is suppressed under one order of the rules and blocks under
// the other.  The property demands a verdict that does not depend on the order.
func TestF21_KnownFinding(t *testing.T) {
	urlblock := mk(t, "@@||example.org^$urlblock")
	genericblock := mk(t, "@@||example.org^$genericblock")
	block := mk(t, "||ads.example.net^$domain=example.org")
	class := func(source []*rules.NetworkRule) string {
		res := rules.NewMatchingResult([]*rules.NetworkRule{block}, source)
		r := res.GetBasicResult()
		switch {
		case r == nil:
			return "none"
		case r.Whitelist:
			return "allow"
		default:
			return "block"
		}
	}
	a := class([]*rules.NetworkRule{urlblock, genericblock})
	b := class([]*rules.NetworkRule{genericblock, urlblock})
	if a == b {
		t.Fatalf("the verdict no longer depends on the order (%s): remove F21 from known_findings.json", a)
	}
	t.Logf("known finding F21: verdict %q with the $urlblock exception first, %q with the $genericblock exception first", a, b)
}
