#!/bin/bash
# seedall.sh <seed>: apply a seeded change and list every property whose quick check reports it
d=/verif/seeded/$1
[ -z "$(git -C /repo status --porcelain --untracked-files=no)" ] || { echo "repo not clean"; exit 2; }
git -C /repo apply "$d/patch.diff" || exit 2
trap 'git -C /repo checkout -q -- .; rm -rf "$tmp"' EXIT
tmp=$(mktemp -d)
for i in $(seq -w 1 20); do ( cd /verif && ./check C$i quick >$tmp/C$i.out 2>&1; echo $? >$tmp/C$i.rc ) & done; wait
hit=""
for i in $(seq -w 1 20); do [ "$(cat $tmp/C$i.rc)" = 1 ] && hit="$hit C$i($(grep -c ': C[0-9][0-9]\.' $tmp/C$i.out))"; done
echo "$1: reported by:${hit:- nobody}"
for i in $(seq -w 1 20); do [ "$(cat $tmp/C$i.rc)" = 1 ] && grep ': C[0-9][0-9]\.' $tmp/C$i.out | head -1 | cut -c1-240 | sed 's/^/    /'; done
