#!/usr/bin/env python3-vt
import json, jsonschema, glob, sys
m=json.load(open('/verif/MANIFEST.json')); s=json.load(open('/root/.vp/MANIFEST.schema.json')); jsonschema.validate(m,s)
es=json.load(open('/root/.vp/EVIDENCE.schema.json'))
for c in m['checks']:
    try:
        e=json.load(open('/verif/'+c['evidence_file'])); jsonschema.validate(e,es)
    except Exception as ex:
        print("EVIDENCE PROBLEM", c['property_id'], str(ex)[:200])
ids={json.loads(l)['id'] for l in open('/verif/properties.jsonl')}
cl={c['property_id'] for c in m['checks']}; na={n['property_id'] for n in m.get('not_applicable',[])}
assert cl|na==ids and not (cl&na), (ids-cl-na, cl&na)
print("manifest valid; claimed", len(cl), "not_applicable", len(na))
