#!/bin/bash
# rebase_patch.sh <dir with patch.diff>...: re-express a catalogued change against /repo's current HEAD when a
# later "fix:" commit touched neighbouring lines (3-way merge on the blobs named in the patch); the original is
# kept as patch.orig.diff.  Uses a temporary worktree outside /repo and /verif, removed afterwards.
set -u
wt=$(mktemp -d /tmp/rebase-XXXXXX); rmdir $wt
git -C /repo worktree add -q --detach $wt HEAD || exit 2
trap 'git -C /repo worktree remove --force $wt; git -C /repo worktree prune' EXIT
for d in "$@"; do
  d=$(readlink -f $d)
  git -C $wt checkout -q -- . ; git -C $wt clean -fdq
  if git -C $wt apply --check $d/patch.diff 2>/dev/null; then echo "$(basename $d): applies as is"; continue; fi
  if git -C $wt apply --3way $d/patch.diff >/dev/null 2>&1 && [ -z "$(git -C $wt diff --name-only --diff-filter=U)" ]; then
    [ -f $d/patch.orig.diff ] || cp $d/patch.diff $d/patch.orig.diff
    git -C $wt diff HEAD > $d/patch.diff; git -C $wt reset -q --hard
    echo "$(basename $d): rebased"
  else
    git -C $wt reset -q --hard; echo "$(basename $d): CONFLICT (left as is)"
  fi
done
