#!/bin/bash
# intake13.sh benign|seed <ids...>: confirm and take in the round-13 outputs of the sub-agents.
# benign: /tmp/benign13/<id>/<a|b|c>  -> /verif/benign/r13_<id><x>   (confirmed with worktree /tmp/wtb/<id>)
# seed:   /tmp/seed13/<id>/<u|v|w>    -> /verif/seeded/<id><x>      (confirmed with worktree /tmp/wt3/<id>)
kind=$1; shift
for id in "$@"; do
  if [ $kind = benign ]; then
    for x in a b c; do
      src=/tmp/benign13/$id/$x; [ -f $src/patch.diff ] || { echo "$id$x: missing"; continue; }
      if /verif/tools/confirm_benign.sh $src /tmp/wtb/$id >/tmp/intake13.log 2>&1; then
        dst=/verif/benign/r13_$id$x; mkdir -p $dst; cp $src/patch.diff $src/notes.md $dst/ 2>/dev/null; echo "$id$x: confirmed"
      else echo "$id$x: NOT CONFIRMED: $(tail -1 /tmp/intake13.log)"; fi
    done
  else
    for x in J; do
      src=/tmp/seed13/$id/$x; [ -f $src/patch.diff ] || { echo "$id$x: missing"; continue; }
      if /verif/tools/confirm_seed.sh $src /tmp/wt3/$id >/tmp/intake13.log 2>&1; then
        dst=/verif/seeded/$id$x; mkdir -p $dst; cp $src/patch.diff $src/notes.md $src/demo_test.go $dst/ 2>/dev/null; echo "$id$x: confirmed"
      else echo "$id$x: NOT CONFIRMED: $(tail -1 /tmp/intake13.log)"; fi
    done
  fi
done
