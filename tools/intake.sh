#!/bin/bash
# intake.sh <srcroot> <wtroot> <ids...>: confirm seeds, store them under /verif/seeded, run the property check on each.
src=$1; wt=$2; shift 2
for id in "$@"; do
  for v in $(ls $src/$id 2>/dev/null); do
    d=$src/$id/$v
    [ -f $d/patch.diff ] && [ -f $d/demo_test.go ] || continue
    name=$id$v
    res=$(/verif/tools/confirm_seed.sh $d $wt/$id 2>&1 | tail -1)
    if echo "$res" | grep -q 'suite_nonok_lines=0 demo_with_patch=FAIL demo_without=ok'; then
      mkdir -p /verif/seeded/$name
      cp $d/patch.diff $d/demo_test.go $d/notes.md /verif/seeded/$name/ 2>/dev/null
      r=$(SEEDRUN_LINES=1 /verif/tools/seedrun.sh $name 2>&1)
      echo "$name confirmed | $(echo "$r" | head -1 | sed 's/^[^:]*: //') | $(echo "$r" | sed -n 2p | cut -c1-200)"
    else
      echo "$name NOT CONFIRMED: $res"
    fi
  done
done
