#!/bin/bash
# confirm_benign.sh <dir with patch.diff> <scratch worktree>: patch applies, builds, suite passes.
set -u
export GOFLAGS=-mod=mod GOPROXY=off GOSUMDB=off GOTOOLCHAIN=local; unset GOWORK
src=$1; wt=$2
git -C "$wt" checkout -q -- . && git -C "$wt" clean -fdq
git -C "$wt" apply "$src/patch.diff" || { echo "RESULT patch-does-not-apply"; exit 1; }
suite=$(cd "$wt" && go test -vet=off -count=1 ./... 2>&1 | grep -v 'no test files' | grep -vc '^ok')
git -C "$wt" checkout -q -- .; git -C "$wt" clean -fdq
echo "RESULT $src suite_nonok_lines=$suite"
[ "$suite" = 0 ]
