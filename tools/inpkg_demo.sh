#!/bin/bash
# inpkg_demo.sh: run the demonstrations that need unexported functions (findings/inpkg/*_test.go) against a
# scratch copy of /repo's HEAD outside /repo and /verif; the copy is removed afterwards.
set -u
export GOFLAGS=-mod=mod GOPROXY=off GOSUMDB=off GOTOOLCHAIN=local; unset GOWORK
tmp=$(mktemp -d "${TMPDIR:-/tmp}/inpkg-XXXXXX"); trap 'rm -rf "$tmp"' EXIT
git -C /repo archive HEAD | tar -x -C "$tmp" --exclude=examples/proxy/adguard_base_filter.txt
cp /verif/findings/inpkg/proxy_window_test.go.in "$tmp/proxy/zz_f22_test.go"
(cd "$tmp" && go test -vet=off -count=1 -run 'TestF22' -v ./proxy/ 2>&1 | tail -6)
