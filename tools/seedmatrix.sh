#!/bin/bash
# Runs every seeded change against the check of its own property and writes seeded/MATRIX.md.
cd /verif
out=seeded/MATRIX.md
echo "| seed | property | verdict | first report |" > $out
echo "|---|---|---|---|" >> $out
for d in seeded/C*/; do
  n=$(basename $d); p=${n:0:3}
  r=$(SEEDRUN_LINES=1 tools/seedrun.sh $n 2>&1)
  v=$(echo "$r" | head -1 | sed 's/^[^:]*: //')
  first=$(echo "$r" | sed -n 2p | sed 's/^ *//' | cut -c1-220 | tr '|' '/')
  echo "| $n | $p | $v | $first |" >> $out
  echo "$n: $v"
done
