#!/bin/bash
# benignsweep.sh [pattern]: run every catalogued behaviour-preserving change (benign/<pattern>*) against all 20 quick checks
cd /verif
for d in benign/${1:-}*/; do
  [ -f $d/patch.diff ] || continue
  BENIGN_LINES=1 BENIGN_COLS=300 tools/benignrun.sh /verif/$d 2>&1 | grep -v "^$"
done
