#!/bin/bash
# fixsweep.sh: every repaired defect F1..F20, F23..F27 is detected again when its fix is reverted
cd /verif
tools/fixrevert.sh d6a87fc C01
tools/fixrevert.sh 177e609 C03 C12
tools/fixrevert.sh a74d2b0 C07
tools/fixrevert.sh f2ba31d C08
tools/fixrevert.sh 260f14e C08
tools/fixrevert.sh 16fe26e C09
tools/fixrevert.sh 9f50ab1 C09
tools/fixrevert.sh 31674af C15
tools/fixrevert.sh 5aff920 C16
tools/fixrevert.sh e100ca7 C17
tools/fixrevert.sh 1e9c587 C18
tools/fixrevert.sh 42ad752+b915926 C05
tools/fixrevert.sh 8458cab+7b0fc1d C05
tools/fixrevert.sh ec5b90a+b88f452 C05
tools/fixrevert.sh 42ad752 C05
tools/fixrevert.sh ec5b90a C05
tools/fixrevert.sh 8458cab C05
tools/fixrevert.sh 5d32eff C14
tools/fixrevert.sh 9ad6b38 C04
tools/fixrevert.sh 051c4b6 C18
tools/fixrevert.sh 1d5e508 C18
