#!/bin/bash
# benignrun.sh <dir with patch.diff> [property ...]: apply a behaviour-preserving change to /repo,
# run the quick checks of the given properties (default: all 20; they must all stay silent), undo
# the change.  Prints one line per property that alarms and a summary line.
set -u
d=$(readlink -f "$1"); shift
name=$(basename "$(dirname "$d")")/$(basename "$d")
props=${*:-C01 C02 C03 C04 C05 C06 C07 C08 C09 C10 C11 C12 C13 C14 C15 C16 C17 C18 C19 C20}
[ -z "$(git -C /repo status --porcelain --untracked-files=no)" ] || { echo "repo not clean"; exit 2; }
git -C /repo apply "$d/patch.diff" || { echo "$name: patch does not apply"; exit 2; }
trap 'git -C /repo apply -R "$d/patch.diff" 2>/dev/null; git -C /repo checkout -q -- .; rm -rf "$tmp"' EXIT
tmp=$(mktemp -d)
(cd /verif && ./check C01 quick >/dev/null 2>&1)   # make sure the binary is built once
for p in $props; do
  ( cd /verif && ./check $p quick >"$tmp/$p.out" 2>&1; echo $? >"$tmp/$p.rc" ) &
done
wait
alarms=0
for p in $props; do
  rc=$(cat "$tmp/$p.rc")
  if [ "$rc" = 0 ]; then :
  elif [ "$rc" = 1 ]; then alarms=$((alarms+1)); echo "$name $p: FALSE ALARM"; grep ': C[0-9][0-9]\.' "$tmp/$p.out" | head -${BENIGN_LINES:-3} | cut -c1-${BENIGN_COLS:-420} | sed 's/^/    /'
  else alarms=$((alarms+1)); echo "$name $p: CHECK ERROR rc=$rc"; tail -5 "$tmp/$p.out" | cut -c1-300; fi
done
echo "$name: $alarms alarming properties of $(echo $props | wc -w)"
[ $alarms -eq 0 ]
