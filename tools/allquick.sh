#!/bin/bash
# allquick.sh: run the quick tier of all 20 properties in parallel on the current /repo; print non-ok lines
cd /verif && ./check C01 quick >/dev/null 2>&1
tmp=$(mktemp -d)
for i in $(seq -w 1 20); do ( ./check C$i quick >$tmp/C$i.out 2>&1; echo $? >$tmp/C$i.rc ) & done; wait
for i in $(seq -w 1 20); do rc=$(cat $tmp/C$i.rc); if [ "$rc" != 0 ]; then echo "C$i rc=$rc"; grep ': C[0-9][0-9]\.' $tmp/C$i.out | head -${LINES_PER:-4} | cut -c1-${COLS:-400}; tail -2 $tmp/C$i.out | cut -c1-300; fi; done
echo "allquick done: $(cat $tmp/*.rc | grep -c '^0$')/20 ok"; rm -rf $tmp
