#!/bin/bash
# intake11.sh benign|seed <ids...>: confirm and take in the round-11 outputs of the sub-agents.
# benign: /tmp/benign11/<id>/<a|b|c>  -> /verif/benign/r11_<id><x>   (confirmed with worktree /tmp/wtb/<id>)
# seed:   /tmp/seed11/<id>/<u|v|w>    -> /verif/seeded/<id><x>      (confirmed with worktree /tmp/wt3/<id>)
kind=$1; shift
for id in "$@"; do
  if [ $kind = benign ]; then
    for x in a b c; do
      src=/tmp/benign11/$id/$x; [ -f $src/patch.diff ] || { echo "$id$x: missing"; continue; }
      if /verif/tools/confirm_benign.sh $src /tmp/wtb/$id >/tmp/intake11.log 2>&1; then
        dst=/verif/benign/r11_$id$x; mkdir -p $dst; cp $src/patch.diff $src/notes.md $dst/ 2>/dev/null; echo "$id$x: confirmed"
      else echo "$id$x: NOT CONFIRMED: $(tail -1 /tmp/intake11.log)"; fi
    done
  else
    for x in D E F; do
      src=/tmp/seed11/$id/$x; [ -f $src/patch.diff ] || { echo "$id$x: missing"; continue; }
      if /verif/tools/confirm_seed.sh $src /tmp/wt3/$id >/tmp/intake11.log 2>&1; then
        dst=/verif/seeded/$id$x; mkdir -p $dst; cp $src/patch.diff $src/notes.md $src/demo_test.go $dst/ 2>/dev/null; echo "$id$x: confirmed"
      else echo "$id$x: NOT CONFIRMED: $(tail -1 /tmp/intake11.log)"; fi
    done
  fi
done
