#!/bin/bash
# fixrevert.sh <fix-commit> <property ...>: transiently revert one "fix:" commit in /repo's working
# tree, run the quick checks (each must report the original defect), restore the tree.
set -u
cm=$1; shift
[ -z "$(git -C /repo status --porcelain --untracked-files=no)" ] || { echo "repo not clean"; exit 2; }
trap 'git -C /repo checkout -q -- .' EXIT
# a fix whose lines a later fix changed again is reverted together with the later one:
# <later>+<fix> reverts <later> first; the defect of <fix> must then be reported
for one in $(echo "$cm" | tr '+' ' '); do
  (git -C /repo show "$one" -- . ':!*_test.go' | git -C /repo apply -R 2>/dev/null) || (git -C /repo show -U0 "$one" -- . ':!*_test.go' | git -C /repo apply -R --unidiff-zero) || { echo "cannot revert $one"; exit 2; }
done
cm=${cm##*+}
for p in "$@"; do
  out=$(cd /verif && ./check $p quick 2>&1); rc=$?
  if [ $rc -eq 1 ]; then echo "$cm $p: DETECTED"; echo "$out" | grep ': C[0-9][0-9]\.' | head -2 | cut -c1-300 | sed 's/^/    /'
  elif [ $rc -eq 0 ]; then echo "$cm $p: MISSED"
  else echo "$cm $p: CHECK ERROR rc=$rc"; fi
done
