# Table consumed by gen_manifest.py.  check(id, technique, claim, level_note, design_ref)
PENDING = "check not built yet in this revision of /verif (work in progress; see DESIGN.md section 4 for the planned static rules)"
for i in range(1, 21):
    na("C%02d" % i, PENDING)

check("C16",
      "static analysis: decision table extracted from SSA (gated evaluation, BDD over opaque atoms) and compared exhaustively with the documented table; constant-table and wiring rules",
      "Static verdict, for every input at once, on the function that computes the cosmetic option: its full decision table (3 verdict kinds x 2^8 modifier subsets) equals All &^ union(disabled(m)); IsOptionEnabled is the mask test; each document-level modifier ors exactly its documented bits whatever was set before; the engine decodes the bits into the right gates; the proxy filters only when the option is not None. This is the right level because the property is a finite table over modifier bits, which the source determines completely.",
      "Trusted: go/ssa construction; the gated evaluator; exported constant names denote the documented modifiers. Not decided: nothing value-dependent remains for this property; the runtime behaviour is derived from the table, not observed.",
      "DESIGN.md section 4, C16")
