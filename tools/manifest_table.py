# Table consumed by gen_manifest.py.  check(id, technique, claim, level_note, design_ref)
PENDING = "check not built yet in this revision of /verif (work in progress; see DESIGN.md section 4 for the planned static rules)"
for i in range(1, 21):
    na("C%02d" % i, PENDING)

check("C16",
      "static analysis: decision table extracted from SSA (gated evaluation, BDD over opaque atoms) and compared exhaustively with the documented table; constant-table and wiring rules",
      "Static verdict, for every input at once, on the function that computes the cosmetic option: its full decision table (3 verdict kinds x 2^8 modifier subsets) equals All &^ union(disabled(m)); IsOptionEnabled is the mask test; each document-level modifier ors exactly its documented bits whatever was set before; the engine decodes the bits into the right gates; the proxy filters only when the option is not None. This is the right level because the property is a finite table over modifier bits, which the source determines completely.",
      "Trusted: go/ssa construction; the gated evaluator; exported constant names denote the documented modifiers. Not decided: nothing value-dependent remains for this property; the runtime behaviour is derived from the table, not observed.",
      "DESIGN.md section 4, C16")

GATE = "static analysis over go/ssa: gated evaluation (block reach conditions as BDDs over opaque atoms), decision tables compared by enumeration inside the checker, wiring/ownership rules over the resolved program"
TB = "Trusted: go/types+go/ssa construction, the gated evaluator (distinct address expressions assumed not to alias), the library purity table. "

check("C01", GATE + "; IDX contract of lookup tables, counted-loop completeness evaluated on all small lengths",
      "Static verdict on the structural contract that makes index lookup equal to a linear scan: every returned element re-validated by Match; every table consulted; complete window enumeration with the same width, hash and request field on insert and probe side; complete dot-suffix probe; wildcard-TLD rules declined by the exact-key table; Match implies the shortcut conjunct. Right level because these are all-paths/all-sites facts of the code's shape; set equality on concrete lists is derived from them, not observed.",
      TB + "Not decided: that Match itself is right (C04), shortcut soundness for regex rules (C05).", "DESIGN.md section 4, C01")
check("C02", GATE + "; ownership (freshness) analysis for writes through the argument slice",
      "Static verdict on the DNS engine's wiring: host-table hits re-validated with the hashed name, every name keyed, constructor routing guarded by IsHostLevelNetworkRule, the full decision table of MatchRequest (empty host, unfiltered NetworkRules, basic rule wins and hosts not consulted, matched flag, v4/v6 split), lookup flag = len>0, selector never writes through its argument.",
      TB + "Not decided: which modifiers are browser-only (product decision); pieces decided by C01/C06/C07/C18.", "DESIGN.md section 4, C02")
check("C06", GATE,
      "Static verdict: admission conditions of the document rule, the basic rule and the DNS basic rule, extracted as BDDs and compared with the statement's precedence table on every combination of the rule features they read; filters applied before selection; GetBasicResult table; engine wiring of request/referrer; twin test of badfilter covers every modifier field.",
      TB + "Order independence is derived from C07 (strict weak order, complete scans), not observed.", "DESIGN.md section 4, C06")
check("C07", GATE + "; SYM: order axioms by exhaustion over the abstracted comparison",
      "Static verdict on the comparison function for all rules at once: same observables on both operands, identical key terms under f<->r, irreflexivity/asymmetry/transitivity/transitivity of incomparability by exhaustion over all abstract rules, equality with the documented lexicographic order, every modifier field counted, selection sites replace-if-higher with complete scans.",
      TB + "Abstraction: observables and key treated as independent (more abstract rules than real ones); maximality of the scan result is the textbook consequence, not re-proved.", "DESIGN.md section 4, C07")
check("C08", GATE + "; MULT: for-all scan structure of the badfilter filter; COV/SYM on the twin test",
      "Static verdict: each candidate emitted at most once and only after a complete scan of all collected badfilter rules found no twin; badfilter rules never emitted; the twin test is a conjunction of same-field comparisons covering every modifier field; the option comparison drops exactly the badfilter bit; both selectors filter first.",
      TB + "Accepted loop idioms for the for-all scan: inner loop with flag/break or labelled continue; other spellings are reported as undecided (fail closed).", "DESIGN.md section 4, C08")
check("C09", GATE + "; ITER/TYFLOW/WIRE rules on the rewrite filter",
      "Static verdict: no shrink-while-index-iterating; every returned value passed the filter deleting exception rules; decision tables of the exception matcher and remover equal the statement on all valuations; rewrite values never compared by interface ==; only order-preserving operations; in-place operations on the fresh slice only; every exception applied by a complete scan of a complete exception list.",
      TB + "slices.DeleteFunc order preservation and reflect.DeepEqual semantics are library contracts.", "DESIGN.md section 4, C09")

check("C15", GATE + "; IDX contract of the cosmetic lookup table",
      "Static verdict: every emitted cosmetic rule is on the true edge of CosmeticRule.Match(rule, hostname) and the false edge of the exception test for that hostname/rule; the domain table is probed with the hostname and all parent domains, wildcard-TLD rules are scanned and never exact-keyed, every permitted domain is keyed; CSS/generic flag gating; generic/specific filing by the rule; exceptions keyed and looked up by content; every element-hiding rule reaches the table.",
      TB + "Accepted probe idioms: loop-carried strings.Cut tail or a range over a suffix enumerator (other spellings: undecided, fail closed).", "DESIGN.md section 4, C15")
check("C17", GATE + "; final field values by store forwarding compared with the documented derivation",
      "Static verdict on the derivation of request fields (all inputs): 4 KiB cap before derivation, URLLowerCase = ToLower(URL), hostnames = extractor(capped URL), Domain = eTLD+1 else hostname, ThirdParty table, hostname requests; the hand-written eTLD+1 has exactly the decision table of publicsuffix.EffectiveTLDPlusOne.",
      TB + "NOT decided (value-level, the core of the property): equality of filterutil.ExtractHostname with net/url on the stated URL shapes; the PSL data itself is the library's.", "DESIGN.md section 4, C17")
check("C18", GATE + "; tokenizer scans evaluated on all 256 byte values; cut arithmetic on constants",
      "Static verdict: comment cut is line[:index('#')]; the three tokenizer scans agree with the blank set {space, tab} on every byte value and are chained (token = s[i1:i2], remainder = s[i3:]); every token becomes a name; bare domain gives the unspecified IPv4; HostRule.Match is true iff some name equals the query; dispatch order cosmetic > hosts > network with the blank-before-marker exemption; DNS engine re-validates host-table hits.",
      TB + "Not decided: address parsing (netip) and domain-name validation (value-level).", "DESIGN.md section 4, C18")
check("C19", GATE + "; nil-guard (NIL) and who-may-write rules",
      "Static verdict: typed retrieval helpers return nil on error with comma-ok assertions; every use of a retrieved rule at every call site lies on the non-nil edge; returned rules are re-validated (subset); cache consulted first, list only on a miss, cache written only by the retrieval insert (never cleared); Seek/line-reader errors propagate; no unchecked assertion, panic or Must* on the retrieval path.",
      TB + "Not decided: operating-system behaviour on closed descriptors (assumed to be an error return).", "DESIGN.md section 4, C19")
check("C20", GATE + "; splice partition and loop bound evaluated on constants; marker table",
      "Static verdict: new text is body[:i]+tag+body[i:] with one body and one i = finder(body), unchanged iff i == -1, tag inserted once; Latin-1 decode/encode pairing; response body, Content-Length and Content-Encoding removal refer to the final bytes; the finder is an ascending first-hit scan over min(window, len(body)) with the four documented markers applied to the unmodified body; the matcher is bounds-guarded and case-folding.",
      TB + "Not decided: bijectivity of the Latin-1 transcoder and gzip (library).", "DESIGN.md section 4, C20")
