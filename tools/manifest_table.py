# Table consumed by gen_manifest.py.  check(id, technique, claim, level_note, design_ref)
PENDING = "check not built yet in this revision of /verif (work in progress; see DESIGN.md section 4 for the planned static rules)"
for i in range(1, 21):
    na("C%02d" % i, PENDING)

check("C16",
      "static analysis: decision table extracted from SSA (gated evaluation, BDD over opaque atoms) and compared exhaustively with the documented table; constant-table and wiring rules",
      "Static verdict, for every input at once, on the function that computes the cosmetic option: its full decision table (3 verdict kinds x 2^8 modifier subsets) equals All &^ union(disabled(m)); IsOptionEnabled is the mask test; each document-level modifier ors exactly its documented bits whatever was set before; the engine decodes the bits into the right gates; the proxy filters only when the option is not None. This is the right level because the property is a finite table over modifier bits, which the source determines completely.",
      "Trusted: go/ssa construction; the gated evaluator; exported constant names denote the documented modifiers. Not decided: nothing value-dependent remains for this property; the runtime behaviour is derived from the table, not observed.",
      "DESIGN.md section 4, C16")

GATE = "static analysis over go/ssa: gated evaluation (block reach conditions as BDDs over opaque atoms), decision tables compared by enumeration inside the checker, wiring/ownership rules over the resolved program"
TB = "Trusted: go/types+go/ssa construction, the gated evaluator (distinct address expressions assumed not to alias), the library purity table. "

check("C01", GATE + "; IDX contract of lookup tables, counted-loop completeness evaluated on all small lengths",
      "Static verdict on the structural contract that makes index lookup equal to a linear scan: every returned element re-validated by Match; every table consulted; complete window enumeration with the same width, hash and request field on insert and probe side; complete dot-suffix probe; wildcard-TLD rules declined by the exact-key table; Match implies the shortcut conjunct. Right level because these are all-paths/all-sites facts of the code's shape; set equality on concrete lists is derived from them, not observed.",
      TB + "Not decided: that Match itself is right (C04), shortcut soundness for regex rules (C05).", "DESIGN.md section 4, C01")
check("C02", GATE + "; ownership (freshness) analysis for writes through the argument slice",
      "Static verdict on the DNS engine's wiring: host-table hits re-validated with the hashed name, every name keyed, constructor routing guarded by IsHostLevelNetworkRule, the full decision table of MatchRequest (empty host, unfiltered NetworkRules, basic rule wins and hosts not consulted, matched flag, v4/v6 split), lookup flag = len>0, selector never writes through its argument.",
      TB + "Not decided: which modifiers are browser-only (product decision); pieces decided by C01/C06/C07/C18.", "DESIGN.md section 4, C02")
check("C06", GATE,
      "Static verdict: admission conditions of the document rule, the basic rule and the DNS basic rule, extracted as BDDs and compared with the statement's precedence table on every combination of the rule features they read; filters applied before selection; GetBasicResult table; engine wiring of request/referrer; twin test of badfilter covers every modifier field.",
      TB + "Order independence is derived from C07 (strict weak order, complete scans), not observed.", "DESIGN.md section 4, C06")
check("C07", GATE + "; SYM: order axioms by exhaustion over the abstracted comparison",
      "Static verdict on the comparison function for all rules at once: same observables on both operands, identical key terms under f<->r, irreflexivity/asymmetry/transitivity/transitivity of incomparability by exhaustion over all abstract rules, equality with the documented lexicographic order, every modifier field counted, selection sites replace-if-higher with complete scans.",
      TB + "Abstraction: observables and key treated as independent (more abstract rules than real ones); maximality of the scan result is the textbook consequence, not re-proved.", "DESIGN.md section 4, C07")
check("C08", GATE + "; MULT: for-all scan structure of the badfilter filter; COV/SYM on the twin test",
      "Static verdict: each candidate emitted at most once and only after a complete scan of all collected badfilter rules found no twin; badfilter rules never emitted; the twin test is a conjunction of same-field comparisons covering every modifier field; the option comparison drops exactly the badfilter bit; both selectors filter first.",
      TB + "Accepted loop idioms for the for-all scan: inner loop with flag/break or labelled continue; other spellings are reported as undecided (fail closed).", "DESIGN.md section 4, C08")
check("C09", GATE + "; ITER/TYFLOW/WIRE rules on the rewrite filter",
      "Static verdict: no shrink-while-index-iterating; every returned value passed the filter deleting exception rules; decision tables of the exception matcher and remover equal the statement on all valuations; rewrite values never compared by interface ==; only order-preserving operations; in-place operations on the fresh slice only; every exception applied by a complete scan of a complete exception list.",
      TB + "slices.DeleteFunc order preservation and reflect.DeepEqual semantics are library contracts.", "DESIGN.md section 4, C09")
