#!/usr/bin/env python3
"""Generates /verif/MANIFEST.json from the table below (single source of truth)."""
import json, os, sys

ROOT = os.path.dirname(os.path.dirname(os.path.abspath(__file__)))

# id -> (technique, claim text, level_note, design_ref)
CHECKS = {}
NA = {}

def check(pid, technique, text, note, ref):
    CHECKS[pid] = dict(technique=technique, text=text, note=note, ref=ref)

def na(pid, reason):
    NA[pid] = reason

exec(open(os.path.join(ROOT, "tools", "manifest_table.py")).read())

BASELINE = "cd /repo && GOFLAGS=-mod=mod GOPROXY=off GOSUMDB=off GOTOOLCHAIN=local go test -vet=off -count=1 ./..."

m = {
    "version": 1,
    "setup_cmd": "cd /verif/ufcheck && GOFLAGS=-mod=mod GOPROXY=off GOSUMDB=off GOTOOLCHAIN=local GOWORK=off go build -o /verif/bin/ufcheck .",
    "hooks": {
        "guard": "verif",
        "enable": "none needed: the checks are static analyses of /repo's source; no hook or instrumentation exists in /repo (the build tag 'verif' is reserved and guards no code)",
        "baseline_off_cmd": BASELINE,
        "source_commits": [],
        "add_only": True,
    },
    "engines": [
        {"name": "ufcheck", "path": "ufcheck/", "serves_properties": sorted(CHECKS),
         "kind_free_text": "purpose-built static analyser over go/packages + go/ssa (x/tools v0.29.0): gated SSA evaluation (reach conditions as BDDs over opaque atoms, decision tables compared by enumeration inside the checker), zone-domain bounds prover with the Go compiler's bounds-check prover as oracle, lockset/effect/wiring rules over the resolved program; never executes urlfilter code"},
    ],
    "checks": [],
    "not_applicable": [],
    "notes": "All claims are at level 'other': a static-analysis verdict on the structural clauses named in DESIGN.md section 4 for each property; clauses that depend on string/byte values are listed as undecided there and in each level_note. Genuine defects found while building the checks were repaired in /repo as separate 'fix:' commits and are recorded (as fixed) in known_findings.json.",
}
for pid in sorted(CHECKS):
    c = CHECKS[pid]
    m["checks"].append({
        "property_id": pid,
        "quick_cmd": f"./check {pid} quick",
        "thorough_cmd": f"./check {pid} thorough",
        "evidence_file": f"evidence/{pid}.json",
        "replay_cmd_template": "./check --replay {path}",
        "engine": "ufcheck",
        "level_claimed": {"category": "other", "text": c["text"], "design_ref": c["ref"]},
        "level_note": c["note"],
        "technique": c["technique"],
    })
for pid in sorted(NA):
    if pid not in CHECKS:
        m["not_applicable"].append({"property_id": pid, "reason": NA[pid]})
json.dump(m, open(os.path.join(ROOT, "MANIFEST.json"), "w"), indent=1)
print("checks:", len(m["checks"]), "not_applicable:", len(m["not_applicable"]))
