#!/bin/bash
# confirm_seed.sh <src-dir with patch.diff+demo_test.go> <scratch worktree>
# Confirms: patch applies, suite passes with patch, demo fails with patch, demo passes without.
set -u
export GOFLAGS=-mod=mod GOPROXY=off GOSUMDB=off GOTOOLCHAIN=local; unset GOWORK
src=$1; wt=$2
git -C "$wt" checkout -q -- . && git -C "$wt" clean -fdq
pkg=$(grep -m1 '^package ' "$src/demo_test.go" | awk '{print $2}')
case "$pkg" in
  rules|rules_test) d=rules;;
  urlfilter|urlfilter_test) d=.;;
  filterlist|filterlist_test) d=filterlist;;
  filterutil|filterutil_test) d=filterutil;;
  proxy|proxy_test) d=proxy;;
  lookup|lookup_test) d=lookup;;
  *) echo "UNKNOWN demo package $pkg"; exit 2;;
esac
race=""; grep -qi -- '-race' "$src/notes.md" 2>/dev/null && race="-race"
git -C "$wt" apply "$src/patch.diff" || { echo "RESULT patch-does-not-apply"; exit 1; }
suite=$(cd "$wt" && go test -vet=off -count=1 ./... 2>&1 | grep -v 'no test files' | grep -vc '^ok')
cp "$src/demo_test.go" "$wt/$d/zz_seed_demo_test.go"
with=$(cd "$wt" && go test $race -vet=off -count=1 ./$d 2>&1 | tail -1 | awk '{print $1}')
git -C "$wt" checkout -q -- .
without=$(cd "$wt" && go test $race -vet=off -count=1 ./$d 2>&1 | tail -1 | awk '{print $1}')
rm -f "$wt/$d/zz_seed_demo_test.go"; git -C "$wt" clean -fdq
echo "RESULT suite_nonok_lines=$suite demo_with_patch=$with demo_without=$without dir=$d race=$race"
[ "$suite" = 0 ] && [ "$with" = FAIL ] && [ "$without" = ok ]
