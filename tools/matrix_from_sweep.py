#!/usr/bin/env python3
"""Writes seeded/MATRIX.md from the output of `tools/fastsweep.sh seeded` (stdin)."""
import re, sys
rows = []
sys.stdin.reconfigure(errors='replace')
for line in sys.stdin:
    m = re.match(r'^(\S+): (CAUGHT|MISSED|PATCH DOES NOT APPLY)(?: \(([^)]*)\))?(?: :: (.*))?$', line.rstrip('\n'))
    if not m:
        continue
    n, v, hits, first = m.group(1), m.group(2), (m.group(3) or '').strip(), (m.group(4) or '').strip()
    own = re.sub(r'^r\d+_', '', n)[:3]
    others = ' '.join(h.split(':')[0] for h in hits.split() if not h.startswith(own))
    rows.append((n, own, v, others, first))
rows.sort()
with open('/verif/seeded/MATRIX.md', 'w', errors='replace') as f:
    f.write('| seed | property | verdict | also reported by | first report of the own property |\n|---|---|---|---|---|\n')
    for r in rows:
        f.write('| %s | %s | %s | %s | %s |\n' % r)
print(len(rows), 'rows;', sum(1 for r in rows if r[2] == 'CAUGHT'), 'caught')
