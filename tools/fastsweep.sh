#!/bin/bash
# fastsweep.sh <benign|seeded> [glob] : run every catalogued change (default: all) against all 20 properties.
# Each change is applied to its own scratch copy of /repo's HEAD under $TMPDIR (removed afterwards), and the
# checker runs once per copy in its tooling mode (-p all: one load, all properties, no evidence).  /repo itself is
# not touched, so up to $JOBS (default 12) changes run at the same time.
#   benign: prints the properties that alarm (expected: none)
#   seeded: prints CAUGHT/MISSED for the seed's own property (first three characters of the directory name,
#           rN_ prefixes skipped), and which other properties report it
set -u
kind=$1; glob=${2:-*}
cd /verif
export GOFLAGS=-mod=mod GOPROXY=off GOSUMDB=off GOTOOLCHAIN=local GOWORK=off
# UFBIN=<frozen binary>: sweep with the checker as it was (as-found measurements); default: rebuild
if [ -z "${UFBIN:-}" ]; then (cd ufcheck && go build -o ../bin/ufcheck .) || exit 2; UFBIN=/verif/bin/ufcheck; fi
export UFBIN
root=$(mktemp -d "${TMPDIR:-/tmp}/fastsweep-XXXXXX")
trap 'rm -rf "$root"' EXIT
git -C /repo archive HEAD | (mkdir -p $root/base && tar -x -C $root/base --exclude=examples/proxy/adguard_base_filter.txt)
one() {
  kind=$1; d=$2; root=$3
  n=$(basename $d)
  sc=$root/$n
  cp -r $root/base $sc
  if ! (cd $sc && patch -s -p1 < /verif/$d/patch.diff >/dev/null 2>&1); then echo "$n: PATCH DOES NOT APPLY"; rm -rf $sc; return; fi
  out=$($UFBIN -repo $sc -verif /verif -p all 2>&1)
  rm -rf $sc
  hits=$(echo "$out" | grep '^RESULT' | grep -v 'rc=0' | sed 's/RESULT //; s/ rc=/:/' | tr '\n' ' ')
  if [ "$kind" = benign ]; then
    if [ -z "$hits" ]; then echo "$n: silent"; else echo "$n: ALARM $hits :: $(echo "$out" | grep ': C[0-9][0-9]\.' | grep -v '\[C[0-9][0-9]\.' | sort -u | head -2 | cut -c1-260 | tr '\n' '|')"; fi
  else
    own=$(echo $n | sed 's/^r[0-9]*_//' | cut -c1-3)
    if echo "$hits" | grep -q "$own:1"; then v=CAUGHT; else v=MISSED; fi
    first=$(echo "$out" | grep ": $own\.R" | head -1 | cut -c1-220 | tr '|' '/')
    echo "$n: $v ($hits) :: $first"
  fi
}
export -f one
ls -d $kind/$glob/ 2>/dev/null | sed 's:/$::' | while read d; do [ -f $d/patch.diff ] && echo $d; done | xargs -P ${JOBS:-12} -I{} bash -c "one $kind {} $root" | sort
