#!/bin/bash
# mut.sh <props,comma> <file relative to /repo> <perl -0pi expression>: apply an ad-hoc mutation to /repo, run checks, revert.
set -u
export GOFLAGS=-mod=mod GOPROXY=off GOSUMDB=off GOTOOLCHAIN=local; unset GOWORK
props=$1; file=$2; expr=$3
[ -z "$(git -C /repo status --porcelain --untracked-files=no)" ] || { echo "repo not clean"; exit 2; }
trap 'git -C /repo checkout -q -- .' EXIT
perl -0pi -e "$expr" /repo/$file
if git -C /repo diff --quiet; then echo "MUTATION DID NOT APPLY: $expr"; exit 2; fi
(cd /repo && go build ./... 2>&1 | head -3) | grep -q . && { echo "DOES NOT COMPILE: $expr"; (cd /repo && go build ./... 2>&1 | head -3); exit 2; }
if [ "${MUT_TESTS:-0}" = 1 ]; then (cd /repo && go test -vet=off -count=1 ./... 2>&1 | grep -v 'no test files' | grep -v '^ok' | head -3); fi
for p in ${props//,/ }; do
  out=$(cd /verif && ./check $p quick 2>&1); rc=$?
  if [ $rc -eq 1 ]; then echo "[$p] CAUGHT: $(echo "$out" | grep ': C[0-9][0-9]\.' | head -1 | cut -c1-260)"; elif [ $rc -eq 0 ]; then echo "[$p] missed   : $expr"; else echo "[$p] ERROR rc=$rc"; fi
done
