#!/bin/bash
# seedrun.sh <seed-name e.g. C16a> [property ...]: apply the seeded change to /repo, run the
# property checks (default: the seed's own property), undo the change straight afterwards.
set -u
name=$1; shift
d=/verif/seeded/$name
props=${*:-${name:0:3}}
[ -z "$(git -C /repo status --porcelain --untracked-files=no)" ] || { echo "repo not clean"; exit 2; }
git -C /repo apply "$d/patch.diff" || { echo "$name: patch does not apply"; exit 2; }
trap 'git -C /repo checkout -q -- .' EXIT
for p in $props; do
  out=$(cd /verif && ./check $p quick 2>&1); rc=$?
  n=$(echo "$out" | grep -c ': C[0-9][0-9]\.')
  if [ $rc -eq 1 ]; then echo "$name $p: CAUGHT ($n report lines)"; echo "$out" | grep ': C[0-9][0-9]\.' | head -${SEEDRUN_LINES:-3} | cut -c1-400 | sed 's/^/    /'
  elif [ $rc -eq 0 ]; then echo "$name $p: missed"
  else echo "$name $p: CHECK ERROR rc=$rc"; echo "$out" | tail -5; fi
done
