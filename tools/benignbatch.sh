#!/bin/bash
# benignbatch.sh <benign-root> <worktree-root> ids... : confirm + run all checks for each variant
root=$1; wtroot=$2; shift 2
for id in "$@"; do
  for v in a b c; do
    d=$root/$id/$v
    [ -f $d/patch.diff ] || { echo "$id/$v: no patch"; continue; }
    /verif/tools/confirm_benign.sh $d $wtroot/$id >/dev/null 2>&1 || { echo "$id/$v: NOT CONFIRMED (suite fails or patch does not apply)"; continue; }
    /verif/tools/benignrun.sh $d
  done
done
