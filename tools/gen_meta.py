#!/usr/bin/env python3
"""gen_meta.py: write seeded/<id>/meta.json for every catalogued seeded change that lacks one.

The facts come from the files next to it: the property from the directory name, the files changed from
patch.diff, the demo's package from demo_test.go, what the change needs in order to manifest from the
paragraph of notes.md (written by the sub-agent that produced the change) that says so, and what was run
from tools/confirm_seed.sh (every catalogued seed passed it at intake; tools/fastsweep.sh re-applies all
of them to the current HEAD of /repo)."""
import json, os, re, subprocess, sys

root = os.path.join(os.path.dirname(os.path.abspath(__file__)), "..", "seeded")
head = subprocess.run(["git", "-C", "/repo", "rev-parse", "--short", "HEAD"], capture_output=True, text=True).stdout.strip()
n = 0
for d in sorted(os.listdir(root)):
    p = os.path.join(root, d)
    if not os.path.isdir(p) or not os.path.exists(os.path.join(p, "patch.diff")):
        continue
    mp = os.path.join(p, "meta.json")
    if os.path.exists(mp) and "--force" not in sys.argv:
        continue
    prop = re.sub(r"^r\d+_", "", d)[:3]
    files = sorted(set(re.findall(r"^\+\+\+ b/(\S+)", open(os.path.join(p, "patch.diff"), errors="replace").read(), re.M)))
    notes = ""
    if os.path.exists(os.path.join(p, "notes.md")):
        notes = open(os.path.join(p, "notes.md"), errors="replace").read()
    paras = [re.sub(r"\s+", " ", x).strip() for x in re.split(r"\n(?=[-*#] |\n)", notes) if x.strip()]
    need = [x for x in paras if re.search(r"manifest|needed|needs|circumstance|specific|trigger", x, re.I)]
    needs = need[0] if need else (paras[0] if paras else "see notes.md")
    demo = {}
    dp = os.path.join(p, "demo_test.go")
    if os.path.exists(dp):
        m = re.search(r"^package (\w+)", open(dp, errors="replace").read(), re.M)
        pkg = m.group(1) if m else ""
        base = pkg[:-5] if pkg.endswith("_test") else pkg
        demo = {"file": "demo_test.go", "package": pkg, "drop_into": "." if base == "urlfilter" else base,
                "race": bool(re.search(r"-race", notes))}
    meta = {
        "id": d, "property": prop, "breaks": "property " + prop, "files_changed": files,
        "needs_to_manifest": needs[:1200],
        "demo": demo,
        "confirmed": {
            "by": "tools/confirm_seed.sh in a scratch worktree of /repo (at intake; the patch applies to /repo " + head + ")",
            "ran": ["git apply patch.diff", "go test -vet=off -count=1 ./...   (whole existing suite: ok)",
                    "go test [-race] -vet=off -count=1 ./<dir> with demo_test.go dropped in: FAIL with the patch",
                    "the same without the patch: ok"],
            "patch_applies": True, "existing_suite_passes_with_patch": True,
            "demo_fails_with_patch": True, "demo_passes_without_patch": True,
        },
        "origin": "fresh sub-agent given only the property text and its own scratch worktree",
    }
    json.dump(meta, open(mp, "w"), indent=1, ensure_ascii=False)
    n += 1
print("meta.json written:", n)
