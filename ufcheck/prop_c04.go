package main

// C04 — a rule matches iff its pattern and every modifier are satisfied.

import (
	"fmt"
	"go/token"
	"go/types"
	"sort"
	"strings"

	"golang.org/x/tools/go/ssa"
)

func init() {
	register(&PropDef{
		ID:  "C04",
		Run: runC04,
		Explanation: "Static decision of the structural clauses of C04. R1: the decision function of NetworkRule.Match (extracted from SSA) is exactly the conjunction of its modifier checks and the third-party table, and each check receives the request field " +
			"its modifier constrains. R2 (COV): every field the option loaders write is read by some check reachable from Match. R3 (TYPESTATE): slices that are binary-searched / merge-scanned are sorted by every path that fills them. " +
			"R4: the five include/exclude checks have the table 'not excluded and (no include list or included)', membership loops summarised as 'exists'. R5: domain membership requires equality or a suffix at a label boundary; the wildcard-TLD branch requires " +
			"the public-suffix conditions. R6: $denyallow polarity and the IP exemption (only for a hostname request whose host parses as an address). R7: hostname requests match the hostname on the true edge of the target selector, URLs otherwise. " +
			"R8: membership scans of $client are complete (no early exit except on a hit). R10: the include and the exclude word of content types are each only ever or-ed into (the documented forcing to the document type aside). R3 also: every field that some function of the library binary-searches is sorted by the function that stores it or by the loader it comes from. R12: $client values become entries as written. R13: a loop of package rules that copies the bytes of a string does not take its index from a range over that string. R5 also: the scan over the values of a domain list answers 'no' only once the list is exhausted. R10 also: whether a content type is or-ed into its word does not depend on what the words already hold. R1 resolves a check that is gone to the method Match calls that reads the same fields, and accepts the shortcut test written out in Match. R14: the test for URL-only patterns (found by its test of the \"://\" prefix, wherever it lives) checks exactly the four documented prefixes, and the stay-condition of its scan over the inside of a '/name.' pattern, evaluated on all 256 byte values, is the class [A-Za-z0-9.-].",
		Trusted: []string{"publicsuffix, netip.Prefix.Contains, slices.BinarySearch (library)", "the heuristic of shouldMatchHostname and the pattern language (C03) are not judged here"},
	})
}

// fieldsReadFrom computes the NetworkRule fields loaded by fn and its library callees.
func fieldsReadFrom(c *Ctx, fn *ssa.Function, pkg, typ string) map[string]bool {
	out := map[string]bool{}
	for f := range c.P.Reachable(fn) {
		if !c.P.IsLibFunc(f) {
			continue
		}
		eachInstr(f, func(_ *ssa.BasicBlock, in ssa.Instruction) {
			if v, ok := in.(ssa.Value); ok {
				switch v.(type) {
				case *ssa.FieldAddr, *ssa.Field:
					if n, fld, ok := fieldOf(v); ok && namedIs(n, pkg, typ) {
						// only loads count: a FieldAddr used by a Store is a write
						if fa, isFA := v.(*ssa.FieldAddr); isFA {
							loaded := false
							if rs := fa.Referrers(); rs != nil {
								for _, r := range *rs {
									if u, ok := r.(*ssa.UnOp); ok && u.Op == token.MUL {
										loaded = true
									}
									if _, ok := r.(*ssa.Call); ok {
										loaded = true // address passed on (e.g. embedded mutex)
									}
								}
							}
							if !loaded {
								return
							}
						}
						out[fld] = true
					}
				}
			}
		})
	}
	return out
}

func runC04(c *Ctx) {
	c.Rule("C04.R1", "WIRE/PDT", "Match = conjunction of all modifier checks, each with the right request field; third-party table", 9)
	c.Rule("C04.R10", "WIRE", "the include and exclude lists of content types are independent: each word is only ever or-ed into", 3)
	if td, ok := (&anchors{c: c, rule: "C04.R10"}).constInt("rules", "TypeDocument"); ok {
		monotoneConstOK["permittedRequestTypes"] = td
	}
	checkOptionWordMonotone(c, "C04.R10", "permittedRequestTypes", 0,
		"a content type given later removes one given earlier from the include list: $~script,script behaves like $script, and an emptied include list means 'every type'")
	checkOptionWordMonotone(c, "C04.R10", "restrictedRequestTypes", 0,
		"a modifier parsed later removes content types from the exclude list: $script,~script matches everything but scripts instead of nothing, and the negated type no longer counts as a modifier")
	c.Rule("C04.R2", "COV", "every restriction field written by the option loaders is read under Match", 12)
	c.Rule("C04.R3", "TYPESTATE", "sorted-before-searched for $client and $ctag lists", 3)
	c.Rule("C04.R4", "PDT", "include/exclude precedence of the five sibling checks", 5)
	c.Rule("C04.R5", "PDT", "domain membership: equality or suffix at a label boundary; wildcard-TLD conditions", 2)
	c.Rule("C04.R6", "PDT", "$denyallow polarity and IP exemption", 1)
	c.Rule("C04.R7", "WIRE", "match target: hostname vs URL", 1)
	c.Rule("C04.R8", "WIRE", "$client membership scans are complete", 1)

	checkClientValues(c, "C04.R12")
	checkByteCopyLoops(c, "C04.R13")
	checkTargetHeuristic(c)
	importRules(c, runC03, map[string]string{"C03.R9": "C04.R11"}, map[string]string{"C04.R11": "the constants a mask is compiled with mean what the syntax documents, so the pattern conjunct holds for every URL the mask describes (shared with C03.R9)"})
	importRules(c, runC17, map[string]string{"C17.R1": "C04.R9", "C17.R2": "C04.R9", "C17.R6": "C04.R9"},
		map[string]string{"C04.R9": "the request fields $third-party and $domain read are derived as documented: third-party flag, registrable domains, eTLD+1 table (shared with C17.R1/R2/R6)"})
	a := &anchors{c: c, rule: "C04.R1"}
	match := a.method("rules", "NetworkRule", "Match")
	lo := a.method("rules", "NetworkRule", "loadOptions")
	kTP, _ := a.constInt("rules", "OptionThirdParty")
	if a.bad {
		return
	}
	// conjuncts by role
	type conj struct {
		fn     *ssa.Function
		reads  map[string]bool
		role   string
		argFld []string
	}
	var conjs []*conj
	seen := map[*ssa.Function]bool{}
	// (over Match and the helpers outside the vocabulary it delegates to, which are transparent)
	eachInstrG(c.P, match, func(_ *ssa.BasicBlock, in ssa.Instruction) {
		if ci, ok := in.(ssa.CallInstruction); ok {
			cal := ci.Common().StaticCallee()
			if cal == nil || seen[cal] || !c.P.IsLibFunc(cal) || c.P.IsNewHelper(cal) || cal.Signature.Recv() == nil || cal.Signature.Results().Len() != 1 || typeStr(cal.Signature.Results().At(0).Type()) != "bool" {
				return
			}
			if cal.Name() == "IsOptionEnabled" || cal.Name() == "IsOptionDisabled" {
				return
			}
			seen[cal] = true
			conjs = append(conjs, &conj{fn: cal, reads: fieldsReadFrom(c, cal, "rules", "NetworkRule")})
		}
	})
	roleOf := func(r map[string]bool) (string, []string) {
		switch {
		case r["Shortcut"]:
			return "shortcut", []string{"URLLowerCase"} // handed the request (and reading that field), or that field itself
		case r["regex"] || r["pattern"]:
			return "pattern", []string{"*"}
		case r["denyAllowDomains"]:
			return "$denyallow", []string{"Hostname", "IsHostnameRequest"}
		case r["permittedDomains"] || r["restrictedDomains"]:
			return "$domain", []string{"SourceHostname"}
		case r["permittedDNSTypes"] || r["restrictedDNSTypes"]:
			return "$dnstype", []string{"DNSType"}
		case r["permittedClientTags"] || r["restrictedClientTags"]:
			return "$ctag", []string{"SortedClientTags"}
		case r["permittedClients"] || r["restrictedClients"]:
			return "$client", []string{"ClientName", "ClientIP"}
		case r["permittedRequestTypes"] || r["restrictedRequestTypes"]:
			return "content type", []string{"RequestType"}
		}
		return "", nil
	}
	byRole := map[string]*conj{}
	for _, cj := range conjs {
		cj.role, cj.argFld = roleOf(cj.reads)
		if cj.role != "" {
			byRole[cj.role] = cj
		}
		c.Fn(FuncName(cj.fn))
	}
	// a check of the vocabulary that is gone (renamed, given another parameter list) is succeeded
	// by the method outside the vocabulary that Match calls directly and that reads the same fields
	eachInstr(match, func(_ *ssa.BasicBlock, in ssa.Instruction) {
		ci, ok := in.(ssa.CallInstruction)
		if !ok || in.Parent() != match {
			return
		}
		cal := ci.Common().StaticCallee()
		if cal == nil || seen[cal] || !c.P.IsLibFunc(cal) || !c.P.IsNewHelper(cal) || cal.Signature.Recv() == nil || cal.Signature.Results().Len() != 1 || typeStr(cal.Signature.Results().At(0).Type()) != "bool" {
			return
		}
		reads := fieldsReadFrom(c, cal, "rules", "NetworkRule")
		role, argFld := roleOf(reads)
		if role == "" || byRole[role] != nil {
			return
		}
		seen[cal] = true
		if c.P.adopted == nil {
			c.P.adopted = map[*ssa.Function]bool{}
		}
		c.P.adopted[cal] = true
		cj := &conj{fn: cal, reads: reads, role: role, argFld: argFld}
		conjs = append(conjs, cj)
		byRole[role] = cj
		c.Fn(FuncName(cal))
	})

	// ---------- R1 ----------
	{
		g := NewGate(c.P)
		g.Inline = inlineOnly("(*rules.NetworkRule).IsOptionEnabled", "(*rules.NetworkRule).IsOptionDisabled")
		for _, cj := range conjs {
			g.Pure[FuncName(cj.fn)] = true
		}
		s := g.Eval(match)
		u := g.U
		ps := g.ParamExprs(match)
		f, r := ps[0], ps[1]
		H := u.ToBool(g.RetExpr(s, 0))
		want := True
		for _, role := range []string{"shortcut", "content type", "$denyallow", "$domain", "$dnstype", "$ctag", "$client", "pattern"} {
			cj := byRole[role]
			key := "NetworkRule.Match: conjunct " + role
			if cj == nil && role == "shortcut" {
				// the one-line shortcut test written out in Match itself
				var atom *E
				for _, at := range u.AtomsOf(H) {
					if at.Op == "call" && at.Aux == "strings.Contains" && len(at.Args) == 2 &&
						at.Args[0].Op == "field" && at.Args[0].Aux == "URLLowerCase" && at.Args[0].Args[0] == r &&
						at.Args[1].Op == "field" && at.Args[1].Aux == "Shortcut" && at.Args[1].Args[0] == f {
						atom = at
					}
				}
				if atom != nil {
					want = u.bdd.And(want, u.Atom(atom))
					c.OK("C04.R1", key, match.Pos(), "strings.Contains(Request.URLLowerCase, rule.Shortcut) written out in Match")
					continue
				}
			}
			if cj == nil {
				c.Fail("C04.R1", key, match.Pos(), "Match calls no check that reads the fields of this modifier: the modifier is not enforced")
				continue
			}
			var atom *E
			for _, at := range u.AtomsOf(H) {
				if at.Op == "call" && at.Aux == calleeName(cj.fn) {
					atom = at
				}
			}
			if atom == nil {
				c.Fail("C04.R1", key, match.Pos(), "the result of Match does not depend on "+shortFn(cj.fn)+": the modifier is not enforced")
				continue
			}
			want = u.bdd.And(want, u.Atom(atom))
			bad := ""
			if atom.Args[0] != f {
				bad = "not called on the rule itself"
			}
			wholeReq := len(atom.Args) == 2 && atom.Args[1] == r
			if wholeReq && !(len(cj.argFld) == 1 && cj.argFld[0] == "*") {
				// the check is handed the request: it must read the constrained fields from it
				rr := fieldsReadFrom(c, cj.fn, "rules", "Request")
				for _, fld := range cj.argFld {
					if !rr[fld] {
						bad = fmt.Sprintf("the check receives the request but never reads Request.%s, which the modifier constrains", fld)
					}
				}
			}
			for i, fld := range cj.argFld {
				if wholeReq {
					break
				}
				if 1+i >= len(atom.Args) {
					bad = fmt.Sprintf("the check receives %d argument(s); the modifier constrains Request.%s", len(atom.Args)-1, strings.Join(cj.argFld, ", Request."))
					break
				}
				arg := atom.Args[1+i]
				if fld == "*" {
					if arg != r {
						bad = "does not receive the request"
					}
				} else if !(arg.Op == "field" && arg.Args[0] == r && arg.Aux == fld) {
					bad = fmt.Sprintf("argument %d is %s, the modifier constrains Request.%s", i+1, u.Show(arg), fld)
				}
			}
			c.Check(bad == "", "C04.R1", key, match.Pos(), shortFn(cj.fn)+" receives "+strings.Join(cj.argFld, ", "), bad)
		}
		// third-party table
		mask := func(fld string) Ref {
			en := u.Field(f, fld, types.Typ[types.Uint64])
			k := u.ConstVal(constantInt(kTP), types.Typ[types.Uint64])
			return u.ToBool(u.Eq(u.Bin(token.AND, en, k, types.Typ[types.Uint64]), k))
		}
		tp := u.Atom(u.Field(r, "ThirdParty", types.Typ[types.Bool]))
		want = u.bdd.And(want, u.bdd.Not(u.bdd.And(mask("enabledOptions"), u.bdd.Not(tp))))
		want = u.bdd.And(want, u.bdd.Not(u.bdd.And(mask("disabledOptions"), tp)))
		diff := u.bdd.Xor(H, want)
		c.Check(diff == False, "C04.R1", "NetworkRule.Match: result = conjunction of all checks and the third-party table", match.Pos(),
			"$third-party requires a third-party request, ~third-party a first-party one; all eight checks conjoined",
			"Match differs from the conjunction of its checks when "+clip(u.ShowBool(diff), 260))
		for _, at := range u.AtomsOf(H) {
			c.Atoms[at.key] = true
		}
	}

	// ---------- R2 ----------
	{
		written := map[string]token.Pos{}
		for fn := range c.P.Reachable(lo) {
			if !c.P.IsLibFunc(fn) {
				continue
			}
			eachInstr(fn, func(_ *ssa.BasicBlock, in ssa.Instruction) {
				if st, ok := in.(*ssa.Store); ok {
					if n, fl, ok := fieldOf(st.Addr); ok && namedIs(n, "rules", "NetworkRule") {
						if _, seen := written[fl]; !seen {
							written[fl] = st.Pos()
						}
					}
				}
			})
		}
		reads := fieldsReadFrom(c, match, "rules", "NetworkRule")
		exempt := map[string]string{"DNSRewrite": "payload of the rule, not a restriction"}
		var fs []string
		for fl := range written {
			fs = append(fs, fl)
		}
		sort.Strings(fs)
		for _, fl := range fs {
			key := "Match enforces NetworkRule." + fl
			if why, ok := exempt[fl]; ok {
				c.OK("C04.R2", key, written[fl], "exempt: "+why)
				continue
			}
			c.Check(reads[fl], "C04.R2", key, written[fl], "read by a function reachable from Match", "the option loaders store this restriction but nothing reachable from Match ever reads it")
		}
	}

	// ---------- R3 sorted-before-searched ----------
	checkSorted(c)

	// ---------- R4 sibling tables ----------
	type sib struct {
		role string
		p, r string // permitted / restricted field names
	}
	sibs := []sib{{"$domain", "permittedDomains", "restrictedDomains"}, {"$dnstype", "permittedDNSTypes", "restrictedDNSTypes"}, {"$ctag", "permittedClientTags", "restrictedClientTags"},
		{"$client", "permittedClients", "restrictedClients"}, {"content type", "permittedRequestTypes", "restrictedRequestTypes"}}
	for _, sb := range sibs {
		cj := byRole[sb.role]
		key := "include/exclude table of the " + sb.role + " check"
		if cj == nil {
			c.Fail("C04.R4", key, match.Pos(), "no such check")
			continue
		}
		g := NewGate(c.P)
		g.Inline = inlineOnly()
		// membership helpers are opaque, deterministic predicates
		eachInstrG(c.P, cj.fn, func(_ *ssa.BasicBlock, in ssa.Instruction) {
			if ci, ok := in.(ssa.CallInstruction); ok {
				if cal := ci.Common().StaticCallee(); cal != nil && c.P.IsLibFunc(cal) && !c.P.IsNewHelper(cal) {
					g.Pure[FuncName(cal)] = true
				}
			}
		})
		s := g.Eval(cj.fn)
		u := g.U
		f := g.ParamExprs(cj.fn)[0]
		sums := summariseLoops(u, s, cj.fn)
		H := False
		bad := ""
		for _, r := range s.Rets {
			v := r.Vals[0]
			cond := applyLoopSums(u, sums, r.Cond)
			switch {
			case v.Op == "bool":
				H = u.bdd.Or(H, u.bdd.And(cond, v.B))
			default:
				H = u.bdd.Or(H, u.bdd.And(cond, u.ToBool(v)))
			}
		}
		for _, ls := range sums {
			if ls.Why != "" {
				bad = "UNDECIDED: a loop of the check cannot be summarised as a membership test: " + ls.Why
			}
		}
		// role atoms
		mentionsFld := func(e *E, fld string) bool {
			return u.Mentions(e, func(x *E) bool { return x.Op == "field" && x.Aux == fld && x.Args[0] == f })
		}
		var pEmpty, rEmpty, inP, inR []int
		for _, v := range u.bdd.Support(H) {
			at := u.atoms[v]
			isEmptyTest := at.Op == "eq" && isIntConst(at.Args[1], 0) && !(at.Args[0].Op == "bin")
			isAny := at.Op == "anyiter"
			switch {
			case isEmptyTest && mentionsFld(at, sb.p):
				pEmpty = append(pEmpty, v)
			case isEmptyTest && mentionsFld(at, sb.r):
				rEmpty = append(rEmpty, v)
			case mentionsFld(at, sb.p) && !mentionsFld(at, sb.r):
				inP = append(inP, v)
			case mentionsFld(at, sb.r) && !mentionsFld(at, sb.p):
				inR = append(inR, v)
			case isAny:
				bad = "UNDECIDED: membership loop over an unknown collection"
			default:
				if bad == "" {
					bad = "UNDECIDED: unexpected predicate " + clip(u.Show(at), 100)
				}
			}
		}
		if bad == "" && (len(pEmpty) != 1 || len(rEmpty) > 1 || len(inP) != 1 || len(inR) != 1) {
			for _, v := range append(append([]int{}, inP...), inR...) {
				c.Notes = append(c.Notes, sb.role+" membership atom: "+clip(u.Show(u.atoms[v]), 200))
			}
			bad = fmt.Sprintf("UNDECIDED: expected one emptiness test and one membership test per list (permitted: %d/%d, restricted: %d/%d)", len(pEmpty), len(inP), len(rEmpty), len(inR))
		}
		if bad == "" {
			// membership polarity: for bit masks, "in" is (mask & t) == t; for calls/anyiter: atom true
			n := 0
			for m := 0; m < 16 && bad == ""; m++ {
				pe, re, ip, ir := m&1 != 0, m&2 != 0, m&4 != 0, m&8 != 0
				if (pe && ip) || (re && ir) {
					continue // an empty list has no members
				}
				asg := map[int]bool{pEmpty[0]: pe, inP[0]: ip, inR[0]: ir}
				if len(rEmpty) == 1 {
					asg[rEmpty[0]] = re
				}
				got := u.bdd.Eval(H, func(v int) bool { return asg[v] })
				want := !ir && (pe || ip)
				n++
				if got != want {
					bad = fmt.Sprintf("include list empty=%v, exclude list empty=%v, value included=%v, value excluded=%v: check returns %v, documented %v", pe, re, ip, ir, got, want)
				}
			}
			c.Paths += n
		}
		c.Check(bad == "", "C04.R4", key, cj.fn.Pos(), "not excluded and (no include list or included), on all consistent valuations", bad)
	}

	// ---------- R5 label boundary ----------
	if idso := c.P.Func("rules", "isDomainOrSubdomainOfAny"); idso == nil {
		c.Fail("C04.R5", "anchor:isDomainOrSubdomainOfAny", 0, "unresolved anchor")
	} else {
		c.Fn(FuncName(idso))
		g := NewGate(c.P)
		g.Inline = inlineOnly()
		s := g.Eval(idso)
		u := g.U
		ps := g.ParamExprs(idso)
		dom := ps[0]
		var d *E
		u.Mentions(u.Bool(s.RC[idso.Blocks[len(idso.Blocks)-1]]), func(*E) bool { return false })
		for _, at := range u.atoms {
			if at.Op == "call" && at.Aux == "strings.HasSuffix" && isStr(at.Args[1], ".*") && at.Args[0].Op == "index" && at.Args[0].Args[0] == ps[1] {
				d = at.Args[0]
			}
		}
		badPlain, badWild := "", ""
		nPlain, nWild := 0, 0
		rets := s.Rets
		if d == nil {
			// the scan may be slices.ContainsFunc(list, per-value test): the per-value test, stated over
			// the bound element, is then what "true" means
			g2 := NewGate(c.P)
			g2.Inline = inlineOnly()
			g2.Search = true
			s2 := g2.Eval(idso)
			u2 := g2.U
			ps2 := g2.ParamExprs(idso)
			if res := g2.RetExpr(s2, 0); res != nil && isBoolE(res) {
				R := u2.ToBool(res)
				for _, at := range u2.AtomsOf(R) {
					if at.Op != "exists" || len(at.Args) != 2 || at.Args[0] != ps2[1] || R != u2.Atom(at) || at.Args[1].Op != "bool" {
						continue
					}
					pred := at.Args[1].B
					var bv *E
					for _, a2 := range u2.AtomsOf(pred) {
						for _, x := range u2.Collect(a2, func(x *E) bool { return x.Op == "bvar" }) {
							bv = x
						}
					}
					if bv == nil {
						continue
					}
					g, s, u, ps, dom, d = g2, s2, u2, ps2, ps2[0], bv
					w := u.Atom(u.Call("strings.HasSuffix", types.Typ[types.Bool], d, u.Str(".*")))
					rets = nil
					if c1 := u.bdd.And(pred, u.bdd.Not(w)); c1 != False {
						rets = append(rets, Ret{Cond: c1, Vals: []*E{u.Bool(True)}})
					}
					if c2 := u.bdd.And(pred, w); c2 != False {
						rets = append(rets, Ret{Cond: c2, Vals: []*E{u.Bool(True)}})
					}
				}
			}
		}
		if d == nil {
			badPlain = "UNDECIDED: no test for the wildcard suffix on the list element"
			badWild = badPlain
		} else {
			wild := u.Atom(u.Call("strings.HasSuffix", types.Typ[types.Bool], d, u.Str(".*")))
			eq := u.ToBool(u.Eq(dom, d))
			dotSuf := u.ToBool(u.Call("strings.HasSuffix", types.Typ[types.Bool], dom, u.Bin(token.ADD, u.Str("."), d, types.Typ[types.String])))
			for _, r := range rets {
				if !(r.Vals[0].Op == "bool" && r.Vals[0].B == True) {
					continue
				}
				if u.bdd.Implies(r.Cond, u.bdd.Not(wild)) {
					nPlain++
					// the same boundary test without building "."+d: HasSuffix(domain, d) and the byte in
					// front of that suffix is '.'
					accepted := u.bdd.Or(eq, dotSuf)
					plainSuf := u.ToBool(u.Call("strings.HasSuffix", types.Typ[types.Bool], dom, d))
					for _, at := range u.AtomsOf(r.Cond) {
						if at.Op != "eq" {
							continue
						}
						for i := 0; i < 2; i++ {
							x, k := at.Args[i], at.Args[1-i]
							if x.Op != "index" || x.Args[0] != dom || !isIntConst(k, '.') {
								continue
							}
							L := NewLin(u)
							want := u.Bin(token.SUB, u.Bin(token.SUB, u.Len(dom), u.Len(d), types.Typ[types.Int]), u.Int(1), types.Typ[types.Int])
							if L.entails(L.linearize(x.Args[1]), L.linearize(want), 0) && L.entails(L.linearize(want), L.linearize(x.Args[1]), 0) {
								accepted = u.bdd.Or(accepted, u.bdd.And(plainSuf, u.Atom(at)))
							}
						}
					}
					// HasSuffix(domain, d) with equal lengths is domain == d
					for _, at := range u.AtomsOf(r.Cond) {
						if at.Op != "eq" {
							continue
						}
						L := NewLin(u)
						a, b := L.linearize(at.Args[0]), L.linearize(at.Args[1])
						a.addScaled(b, minusOne) // a - b == 0
						want := L.linearize(u.Bin(token.SUB, u.Len(dom), u.Len(d), types.Typ[types.Int]))
						neg := newLin()
						neg.addScaled(want, minusOne) // -want
						if isIntLike(at.Args[0]) && (L.entails(a, want, 0) && L.entails(want, a, 0) || L.entails(a, neg, 0) && L.entails(neg, a, 0)) {
							accepted = u.bdd.Or(accepted, u.bdd.And(plainSuf, u.Atom(at)))
						}
					}
					if !u.bdd.Implies(r.Cond, accepted) {
						badPlain = "a plain list value d accepts a domain that is neither d nor ends in \".\"+d (e.g. $domain=example.org would apply on notexample.org): " + clip(u.ShowBool(r.Cond), 200)
					}
				} else if u.bdd.Implies(r.Cond, wild) {
					nWild++
					// requires: public suffix non-empty, icann, and HasSuffix(domain, withoutWildcard + tld)
					var needs []string
					hasTld, hasIcann, hasSuf, hasBoundary := false, false, false, false
					for _, at := range u.AtomsOf(r.Cond) {
						pos := u.bdd.Implies(r.Cond, u.Atom(at))
						neg := u.bdd.Implies(r.Cond, u.bdd.Not(u.Atom(at)))
						k := at.key
						switch {
						case strings.Contains(k, "publicsuffix.PublicSuffix") && at.Op == "eq" && neg:
							hasTld = true
						case strings.Contains(k, "publicsuffix.PublicSuffix") && at.Op == "extract" && at.Aux == "1" && pos:
							hasIcann = true
						case at.Op == "call" && at.Aux == "strings.HasSuffix" && at.Args[0] == dom && strings.Contains(at.Args[1].key, "publicsuffix.PublicSuffix") && pos:
							hasSuf = true
						}
					}
					// label boundary of the candidate: HasPrefix(domain, w) or Index(domain, "."+w) > 0
					for _, at := range u.AtomsOf(r.Cond) {
						if at.Op == "call" && at.Aux == "strings.HasPrefix" && at.Args[0] == dom {
							hasBoundary = true
						}
						if strings.Contains(at.key, "strings.Index(") && strings.Contains(at.key, "const<\".\">") {
							hasBoundary = true
						}
					}
					if !hasTld {
						needs = append(needs, "public suffix non-empty")
					}
					if !hasIcann {
						needs = append(needs, "ICANN-managed suffix")
					}
					if !hasSuf {
						needs = append(needs, "domain ends in name+\".\"+suffix")
					}
					if !hasBoundary {
						needs = append(needs, "name starts at a label boundary")
					}
					if len(needs) > 0 {
						badWild = "a wildcard-TLD value accepts a domain without: " + strings.Join(needs, ", ")
					}
				} else {
					badPlain = "UNDECIDED: a true result is not specific to the plain or the wildcard form"
				}
			}
			if nPlain == 0 {
				badPlain = "plain list values never match"
			}
			if nWild == 0 {
				badWild = "wildcard-TLD list values never match"
			}
		}
		c.Check(badPlain == "", "C04.R5", shortFn(idso)+": plain value => equal or suffix at a label boundary", idso.Pos(), "true implies domain == d || HasSuffix(domain, \".\"+d)", badPlain)
		c.Check(badWild == "", "C04.R5", shortFn(idso)+": wildcard-TLD value => public-suffix conditions", idso.Pos(), "true implies tld != \"\" && icann && HasSuffix(domain, name.+tld) at a label boundary", badWild)
		// every value of the list gets its turn: "no" is said only once the list is exhausted (a
		// `return false` inside the scan makes the answer depend on the order the values are
		// written in, the one thing the statement rules out)
		{
			badScan := ""
			nRet := 0
			for _, fn := range append([]*ssa.Function{idso}, newHelpersOf(c.P, idso)...) {
				loops := loopsOf(fn)
				eachInstr(fn, func(b *ssa.BasicBlock, in ssa.Instruction) {
					r, ok := in.(*ssa.Return)
					if !ok || in.Parent() != fn || len(r.Results) != 1 {
						return
					}
					if fn != idso {
						return // a helper answers for one value; the scan is in the vocabulary function
					}
					nRet++
					// reached by leaving a scan early (an exit edge that does not start at the loop
					// header), or still inside it
					early := innermostLoop(loops, b) != nil
					for _, l := range loops {
						for _, ex := range l.Exits {
							if ex[0] != l.Header && (ex[1] == b || ex[1].Dominates(b)) {
								early = true
							}
						}
					}
					if !early {
						return
					}
					// inside the scan: only "yes" may be returned from here
					mayBeFalse := true
					if cst, isC := r.Results[0].(*ssa.Const); isC && cst.Value != nil && cst.Value.String() == "true" {
						mayBeFalse = false
					}
					if ph, isPhi := r.Results[0].(*ssa.Phi); isPhi {
						mayBeFalse = false
						for _, e := range ph.Edges {
							if cst, isC := e.(*ssa.Const); !isC || cst.Value == nil || cst.Value.String() != "true" {
								mayBeFalse = true
							}
						}
					}
					if mayBeFalse {
						badScan = c.P.Pos(r.Pos()) + ": the scan over the list values returns before the last value was looked at, with an answer that can be \"no\": values written after this one are never examined ($domain=nas.*|nas.lan and $domain=nas.lan|nas.* differ)"
					}
				})
			}
			c.Check(badScan == "" && nRet > 0, "C04.R5", shortFn(idso)+": \"no\" only after every list value was examined", idso.Pos(), fmt.Sprintf("%d return sites; those inside the scan return true", nRet), badScan)
		}
	}

	// ---------- R6 denyallow ----------
	if cj := byRole["$denyallow"]; cj != nil {
		g := NewGate(c.P)
		g.Inline = inlineOnly()
		eachInstrG(c.P, cj.fn, func(_ *ssa.BasicBlock, in ssa.Instruction) {
			if ci, ok := in.(ssa.CallInstruction); ok {
				if cal := ci.Common().StaticCallee(); cal != nil && c.P.IsLibFunc(cal) && !c.P.IsNewHelper(cal) {
					g.Pure[FuncName(cal)] = true
				}
			}
		})
		// evaluated as part of Match: host and the hostname-request flag are the request's fields
		// whether the check is handed the two fields or the request
		_, sub := evalInner(g, match, cj.fn)
		u := g.U
		mps := g.ParamExprs(match)
		f := mps[0]
		dom := u.Field(mps[1], "Hostname", types.Typ[types.String])
		hq := u.Field(mps[1], "IsHostnameRequest", types.Typ[types.Bool])
		H := False
		if sub != nil {
			H = localBool(g, sub, 0)
		}
		var emp, P, okA, in Ref = False, False, False, False
		bad := ""
		for _, at := range u.AtomsOf(H) {
			switch {
			case at.Op == "eq" && at.Args[0].Op == "len" && isIntConst(at.Args[1], 0) && u.Mentions(at, func(x *E) bool { return x.Op == "field" && x.Aux == "denyAllowDomains" && x.Args[0] == f }):
				emp = u.Atom(at)
			case at == hq:
			case at.Op == "call" && strings.HasSuffix(at.Aux, "IsProbablyIP") && at.Args[0] == dom:
				P = u.Atom(at)
			case at.Op == "eq" && at.Args[1].IsNil() && at.Args[0].Op == "extract" && at.Args[0].Args[0].Op == "call" && at.Args[0].Args[0].Aux == "net/netip.ParseAddr" && at.Args[0].Args[0].Args[0] == dom:
				okA = u.Atom(at)
			case at.Op == "call" && len(at.Args) == 2 && at.Args[0] == dom && at.Args[1].Op == "field" && at.Args[1].Aux == "denyAllowDomains":
				in = u.Atom(at)
			default:
				bad = "UNDECIDED: unexpected predicate " + clip(u.Show(at), 100)
			}
		}
		if sub == nil {
			bad = "UNDECIDED: the $denyallow check is not evaluated as part of Match"
		}
		if bad == "" {
			if emp == False || in == False {
				bad = "the check does not test the $denyallow list for emptiness and membership of the request host"
			} else if okA == False {
				bad = "the IP exemption does not require the host to parse as an address: hostnames made of hex digits and dots (cafe.de) are treated as IPs and never matched by $denyallow rules"
			} else {
				isIP := u.bdd.And(u.ToBool(hq), okA)
				if P != False {
					isIP = u.bdd.And(isIP, P)
				}
				want := u.bdd.Or(emp, u.bdd.And(u.bdd.Not(isIP), u.bdd.Not(in)))
				if H != want {
					bad = "differs from: no list => true; hostname request for an IP address => false; otherwise host not in the list — when " + clip(u.ShowBool(u.bdd.Xor(H, want)), 200)
				}
			}
		}
		c.Check(bad == "", "C04.R6", shortFn(cj.fn)+": $denyallow polarity and IP exemption", cj.fn.Pos(), "decision function equals the documented one", bad)
	} else {
		c.Fail("C04.R6", "$denyallow check", match.Pos(), "no such check")
	}

	// ---------- R7 match target ----------
	if cj := byRole["pattern"]; cj != nil {
		g := NewGate(c.P)
		g.Inline = inlineOnly()
		eachInstrG(c.P, cj.fn, func(_ *ssa.BasicBlock, in ssa.Instruction) {
			if ci, ok := in.(ssa.CallInstruction); ok {
				if cal := ci.Common().StaticCallee(); cal != nil && c.P.IsLibFunc(cal) && !c.P.IsNewHelper(cal) && cal.Signature.Results().Len() == 1 && typeStr(cal.Signature.Results().At(0).Type()) == "bool" {
					g.Pure[FuncName(cal)] = true
				}
			}
		})
		s := g.Eval(cj.fn)
		u := g.U
		ps := g.ParamExprs(cj.fn)
		r := ps[1]
		bad := ""
		var sel Ref = False
		for _, at := range u.atoms {
			if at.Op == "call" && len(at.Args) == 2 && at.Args[0] == ps[0] && at.Args[1] == r && c.P.Method("rules", "NetworkRule", at.Aux[strings.LastIndex(at.Aux, ".")+1:]) != nil && at.Aux != calleeName(cj.fn) {
				sel = u.Atom(at)
			}
		}
		writtenOut := false
		if sel == False {
			// no single selector predicate over (rule, request): the selector may be written out where
			// it is used ("the request is a hostname request and the pattern is a hostname pattern",
			// the pattern part possibly expanded).  The hostname must then be the target only for
			// hostname requests, and the two targets must exclude each other.
			var hostCond, urlCond Ref = False, False
			for _, rt := range s.Rets {
				for v, c1 := range u.Leaves(rt.Vals[0]) {
					if v.Op != "call" || !strings.HasSuffix(v.Aux, "regexp.Regexp).MatchString") {
						continue
					}
					for arg, c2 := range u.Leaves(v.Args[1]) {
						cc := u.bdd.And(rt.Cond, u.bdd.And(c1, c2))
						if arg.Op == "field" && arg.Args[0] == r && arg.Aux == "Hostname" {
							hostCond = u.bdd.Or(hostCond, cc)
						}
						if arg.Op == "field" && arg.Args[0] == r && arg.Aux == "URL" {
							urlCond = u.bdd.Or(urlCond, cc)
						}
					}
				}
			}
			flag := u.Atom(u.Field(r, "IsHostnameRequest", types.Typ[types.Bool]))
			if hostCond != False && urlCond != False && u.bdd.Implies(hostCond, flag) && u.bdd.And(hostCond, urlCond) == False {
				writtenOut = true
				sel = hostCond
			}
		}
		nH, nU := 0, 0
		for _, rt := range s.Rets {
			for v, c1 := range u.Leaves(rt.Vals[0]) {
				if v.Op != "call" || !strings.HasSuffix(v.Aux, "regexp.Regexp).MatchString") {
					continue
				}
				// the matched text may itself be selected by a condition (target := URL; if sel { target = Hostname })
				for arg, c2 := range u.Leaves(v.Args[1]) {
					cond := u.bdd.And(rt.Cond, u.bdd.And(c1, c2))
					if cond == False {
						continue
					}
					switch {
					case arg.Op == "field" && arg.Args[0] == r && arg.Aux == "Hostname":
						nH++
						if sel == False || !u.bdd.Implies(cond, sel) {
							bad = "the hostname is matched outside the true edge of the target selector"
						}
					case arg.Op == "field" && arg.Args[0] == r && arg.Aux == "URL":
						nU++
						if sel == False || !u.bdd.Implies(cond, u.bdd.Not(sel)) {
							bad = "the URL is matched outside the false edge of the target selector"
						}
						_ = writtenOut
					default:
						bad = "the pattern is matched against " + clip(u.Show(arg), 60)
					}
				}
			}
		}
		if (nH == 0 || nU == 0) && bad == "" {
			bad = fmt.Sprintf("expected a hostname and a URL match site, found %d/%d", nH, nU)
		}
		c.Check(bad == "", "C04.R7", shortFn(cj.fn)+": hostname on the true edge of the target selector, URL on the false edge", cj.fn.Pos(), "regex.MatchString(r.Hostname) / regex.MatchString(r.URL)", bad)
	} else {
		c.Fail("C04.R7", "pattern check", match.Pos(), "no such check")
	}

	// ---------- R8 $client membership ----------
	// containsAny(host, ip) is "host is one of the names, or some subnet contains ip": stated over the
	// canonical search form, so that a loop, a helper and slices.ContainsFunc are the same thing
	if ca := c.P.Method("rules", "clients", "containsAny"); ca == nil {
		c.Fail("C04.R8", "anchor:clients.containsAny", 0, "unresolved anchor")
	} else {
		c.Fn(FuncName(ca))
		g := NewGate(c.P)
		g.Inline = inlineOnly()
		g.Search = true
		s := g.Eval(ca)
		u := g.U
		ps := g.ParamExprs(ca)
		cl, host, ip := ps[0], ps[1], ps[2]
		H := u.ToBool(g.RetExpr(s, 0))
		cNil := u.ToBool(u.Eq(cl, u.mk("nil", "", nil)))
		inSupport := false
		for _, v := range u.bdd.Support(H) {
			if u.bdd.Var(v) == cNil {
				inSupport = true
			}
		}
		if !inSupport {
			cNil = False // no nil test here: the callers guarantee a non-nil set (dereferences are audited by C12.R2)
		}
		hostEmpty := u.ToBool(u.Eq(host, u.Str("")))
		var m1, m2, ipZero Ref = False, False, False
		for _, at := range u.AtomsOf(H) {
			switch {
			case at.Op == "extract" && at.Aux == "1" && at.Args[0].Op == "call" && strings.HasPrefix(at.Args[0].Aux, "slices.BinarySearch") && len(at.Args[0].Args) >= 2 &&
				at.Args[0].Args[0].Op == "field" && at.Args[0].Args[0].Args[0] == cl && at.Args[0].Args[1] == host:
				m1 = u.Atom(at)
			case at.Op == "exists" && at.Args[0].Op == "field" && at.Args[0].Args[0] == cl:
				pr := u.ToBool(at.Args[1])
				pats := u.AtomsOf(pr)
				if len(pats) == 1 && pr == u.Atom(pats[0]) && pats[0].Op == "call" && strings.HasSuffix(pats[0].Aux, "netip.Prefix).Contains") && pats[0].Args[0].Op == "bvar" && pats[0].Args[1] == ip {
					m2 = u.Atom(at)
				}
			case at.Op == "call" && strings.HasPrefix(at.Aux, "slices.Contains") && len(at.Args) == 2 && at.Args[0].Op == "field" && at.Args[0].Args[0] == cl && at.Args[1] == host:
				m1 = u.Atom(at)
			case at.Op == "eq" && (at.Args[0] == ip || at.Args[1] == ip):
				ipZero = u.bdd.Or(ipZero, u.Atom(at))
			case at.Op == "call" && strings.HasSuffix(at.Aux, "netip.Addr).IsValid") && at.Args[0] == ip:
				ipZero = u.bdd.Or(ipZero, u.bdd.Not(u.Atom(at)))
			}
		}
		bad := ""
		switch {
		case m1 == False:
			bad = "the client name is never looked up in the set's names"
		case m2 == False:
			bad = "the client address is never tested against every subnet of the set (no complete scan of the subnets with Contains)"
		case !u.bdd.Implies(u.bdd.And(u.bdd.And(u.bdd.Not(cNil), u.bdd.Not(hostEmpty)), m1), H):
			bad = "a listed client name is not always reported as contained"
		case !u.bdd.Implies(u.bdd.And(u.bdd.And(u.bdd.Not(cNil), u.bdd.Not(ipZero)), m2), H):
			bad = "an address inside one of the subnets is not always reported as contained: " + clip(u.ShowBool(u.bdd.And(u.bdd.And(u.bdd.And(u.bdd.Not(cNil), u.bdd.Not(ipZero)), m2), u.bdd.Not(H))), 200) + " (e.g. a request with an unknown client name and a listed address against $client=name|subnet)"
		case !u.bdd.Implies(H, u.bdd.And(u.bdd.Not(cNil), u.bdd.Or(u.bdd.And(m1, u.bdd.Not(hostEmpty)), m2))):
			bad = "a client can be reported as contained although neither its name is listed nor a subnet contains its address"
		}
		c.Check(bad == "", "C04.R8", shortFn(ca)+": contained iff the name is listed or some subnet contains the address", ca.Pos(), "decision function over the canonical search form", bad)
	}
}

// checkSorted implements R3.
func checkSorted(c *Ctx) {
	// (1) clients.hosts / clients.nets: every function that calls a writer also calls the sorter afterwards
	clT := c.P.Type("rules", "clients")
	if clT == nil {
		c.Fail("C04.R3", "anchor:rules.clients", 0, "unresolved anchor")
		return
	}
	// consumers: BinarySearch on a field
	for _, fld := range []string{"hosts"} {
		var writers, sorters []*ssa.Function
		for _, fn := range c.P.AllLibFuncs() {
			sorts, writes := false, false
			eachInstr(fn, func(_ *ssa.BasicBlock, in ssa.Instruction) {
				switch in := in.(type) {
				case *ssa.Store:
					if n, f, ok := fieldOf(in.Addr); ok && f == fld && namedIs(n, "rules", "clients") {
						writes = true
					}
				case *ssa.Call:
					if cal := in.Call.StaticCallee(); cal != nil && strings.HasPrefix(calleeName(cal), "slices.Sort") && len(in.Call.Args) > 0 {
						if ld, ok := in.Call.Args[0].(*ssa.UnOp); ok {
							if n, f, ok := fieldOf(ld.X); ok && f == fld && namedIs(n, "rules", "clients") {
								sorts = true
							}
						}
					}
				}
			})
			if writes {
				writers = append(writers, fn)
			}
			if sorts {
				sorters = append(sorters, fn)
			}
		}
		key := "rules.clients." + fld + " is sorted before it is binary-searched"
		if len(sorters) == 0 {
			c.Fail("C04.R3", key, 0, "no function sorts this list although containsAny binary-searches it: $client values written in another order stop matching")
			continue
		}
		bad := ""
		nCallers := 0
		// a helper outside the vocabulary that fills a set for its caller (and hands it back, in the
		// manner of append) is a filling function itself: its callers sort
		viaResult := map[*ssa.Function]bool{}
		for wi := 0; wi < len(writers); wi++ {
			w := writers[wi]
			for _, fn := range c.P.AllLibFuncs() {
				if len(callsTo(fn, w)) == 0 || !c.P.IsNewHelper(fn) {
					continue
				}
				callsSorter := false
				for _, so := range sorters {
					if len(callsTo(fn, so)) > 0 {
						callsSorter = true
					}
				}
				known := false
				for _, w2 := range writers {
					if w2 == fn {
						known = true
					}
				}
				if !callsSorter && !known {
					writers = append(writers, fn)
					if r := fn.Signature.Results(); r.Len() == 1 && typeStr(r.At(0).Type()) == "*rules.clients" {
						viaResult[fn] = true
					}
				}
			}
		}
		for _, w := range writers {
			for _, fn := range c.P.AllLibFuncs() {
				sites := callsTo(fn, w)
				if len(sites) == 0 {
					continue
				}
				lifted := false
				for _, w2 := range writers {
					if w2 == fn && c.P.IsNewHelper(fn) {
						lifted = true
					}
				}
				if lifted {
					continue // judged at its own callers
				}
				nCallers++
				// a sorter call on some path after every writer call: the sorter call's block must post-dominate... approximate: exists sorter call not inside any loop, reachable from every writer call, and every return reachable from a writer call is reachable only through it
				var sortCalls []ssa.CallInstruction
				for _, so := range sorters {
					sortCalls = append(sortCalls, callsTo(fn, so)...)
				}
				if len(sortCalls) == 0 {
					bad = fmt.Sprintf("%s fills the list (calls %s) but never sorts it (no call of %s): $client=b|a no longer matches client a", shortFn(fn), w.Name(), sorters[0].Name())
					continue
				}
				for _, site := range sites {
					okPath := false
					var recvW ssa.Value
					if len(site.Common().Args) > 0 {
						recvW = site.Common().Args[0]
					}
					if viaResult[w] {
						if v, isV := site.(ssa.Value); isV {
							recvW = v
						}
					}
					for _, sc := range sortCalls {
						if len(sc.Common().Args) == 0 {
							continue
						}
						// the sorted object must be the filled object: the writer's receiver lies in the backward φ-slice of the sorter's receiver
						slice := map[ssa.Value]bool{}
						var back func(v ssa.Value)
						back = func(v ssa.Value) {
							if slice[v] {
								return
							}
							slice[v] = true
							if ph, ok := v.(*ssa.Phi); ok {
								for _, e := range ph.Edges {
									back(e)
								}
							}
						}
						back(sc.Common().Args[0])
						if slice[recvW] && blocksAllPathsToReturn(fn, site.Block(), sc.Block()) {
							okPath = true
						}
					}
					if !okPath {
						bad = fmt.Sprintf("%s: a set is filled (%s) but there is a path to a normal return on which that same set is not sorted: $client=b|a no longer matches client a", shortFn(fn), w.Name())
					}
				}
			}
		}
		c.Check(bad == "" && nCallers > 0, "C04.R3", key, sorters[0].Pos(), fmt.Sprintf("%d filling function(s), each sorts on every path to its return", nCallers), bad)
	}
	// (2) $ctag lists: values stored into the rule come from a loader whose successful returns are sorted
	for _, fld := range []string{"permittedClientTags", "restrictedClientTags"} {
		key := "NetworkRule." + fld + " is sorted before the merge scan"
		ws := fieldWrites(c.P, "rules", "NetworkRule", fld)
		bad := ""
		if len(ws) == 0 {
			bad = "the field is never written"
		}
		for _, w := range ws {
			ex, ok := w.Val.(*ssa.Extract)
			if !ok {
				bad = "UNDECIDED: stored value is not a result of a loader call"
				continue
			}
			cl, ok := ex.Tuple.(*ssa.Call)
			if !ok || cl.Call.StaticCallee() == nil {
				bad = "UNDECIDED: stored value is not a result of a static call"
				continue
			}
			loader := cl.Call.StaticCallee()
			c.Fn(FuncName(loader))
			// every return with a nil error returns, at position ex.Index, a value that was sorted
			eachInstr(loader, func(_ *ssa.BasicBlock, in ssa.Instruction) {
				r, ok := in.(*ssa.Return)
				if !ok {
					return
				}
				last := r.Results[len(r.Results)-1]
				if cst, isC := last.(*ssa.Const); !isC || cst.Value != nil {
					return // error return
				}
				v := r.Results[ex.Index]
				sorted := false
				eachInstr(loader, func(b2 *ssa.BasicBlock, in2 ssa.Instruction) {
					if c2, ok := in2.(*ssa.Call); ok {
						if cal := c2.Call.StaticCallee(); cal != nil && strings.HasPrefix(calleeName(cal), "slices.Sort") && c2.Call.Args[0] == v && b2.Dominates(r.Block()) {
							sorted = true
						}
					}
				})
				if !sorted {
					bad = fmt.Sprintf("%s returns the list without sorting it (no slices.Sort of the returned value dominating the return): $ctag=b|a no longer matches tag a", shortFn(loader))
				}
			})
		}
		pos := token.NoPos
		if len(ws) > 0 {
			pos = ws[0].Instr.Pos()
		}
		c.Check(bad == "", "C04.R3", key, pos, "stored from a loader whose successful returns are dominated by slices.Sort of the returned value", bad)
	}
	// (3) any other list of a rule that is binary-searched somewhere in the library: every value
	// stored into the field was sorted by the function that stores it
	type tf struct {
		n *types.Named
		f string
	}
	searched := map[tf]token.Pos{}
	for _, fn := range c.P.AllLibFuncs() {
		eachInstr(fn, func(_ *ssa.BasicBlock, in ssa.Instruction) {
			cl, ok := in.(*ssa.Call)
			if !ok || len(cl.Call.Args) == 0 {
				return
			}
			cal := cl.Call.StaticCallee()
			if cal == nil || !(strings.HasPrefix(calleeName(cal), "slices.BinarySearch") || strings.HasPrefix(calleeName(cal), "sort.Search")) {
				return
			}
			if ld, ok := cl.Call.Args[0].(*ssa.UnOp); ok && ld.Op == token.MUL {
				if n, f, ok := fieldOf(ld.X); ok && n != nil {
					if namedIs(n, "rules", "clients") && f == "hosts" {
						return // (1)
					}
					searched[tf{n, f}] = cl.Pos()
				}
			}
		})
	}
	for k, pos := range searched {
		key := k.n.Obj().Name() + "." + k.f + " is sorted before it is binary-searched"
		bad := ""
		nW := 0
		for _, fn := range c.P.AllLibFuncs() {
			eachInstr(fn, func(sb *ssa.BasicBlock, in ssa.Instruction) {
				st, ok := in.(*ssa.Store)
				if !ok {
					return
				}
				n, f, ok := fieldOf(st.Addr)
				if !ok || n != k.n || f != k.f {
					return
				}
				nW++
				if cst, isC := st.Val.(*ssa.Const); isC && cst.Value == nil {
					return // the empty list is sorted
				}
				sorted := sortedBefore(c, fn, st.Val, sb, 0)
				eachInstr(fn, func(b2 *ssa.BasicBlock, in2 ssa.Instruction) {
					c2, ok := in2.(*ssa.Call)
					if !ok || len(c2.Call.Args) == 0 {
						return
					}
					cal := c2.Call.StaticCallee()
					if cal == nil || !(strings.HasPrefix(calleeName(cal), "slices.Sort") || strings.HasPrefix(calleeName(cal), "sort.")) {
						return
					}
					// the field sorted after the store
					if ld, ok := c2.Call.Args[0].(*ssa.UnOp); ok && ld.Op == token.MUL {
						if n2, f2, ok := fieldOf(ld.X); ok && n2 == k.n && f2 == k.f && sb.Dominates(b2) {
							sorted = true
						}
					}
				})
				if !sorted {
					bad = fmt.Sprintf("%s: %s stores a list into the field without sorting it, and %s binary-searches the field: values written in another order are not found", c.P.Pos(st.Pos()), shortFn(fn), c.P.Pos(pos))
				}
			})
		}
		c.Check(bad == "" && nW > 0, "C04.R3", key, pos, fmt.Sprintf("%d store(s) into the field, each of a value the storing function sorted", nW), bad)
	}
}

// blocksAllPathsToReturn: every path from `from` to a Return passes through `via`.
func blocksAllPathsToReturn(fn *ssa.Function, from, via *ssa.BasicBlock) bool {
	seen := map[*ssa.BasicBlock]bool{}
	var rec func(b *ssa.BasicBlock) bool
	rec = func(b *ssa.BasicBlock) bool {
		if b == via {
			return true
		}
		if seen[b] {
			return true
		}
		seen[b] = true
		if len(b.Instrs) > 0 {
			if r, ok := b.Instrs[len(b.Instrs)-1].(*ssa.Return); ok {
				// error returns are exempt: last result non-nil constant or non-const error
				if n := len(r.Results); n > 0 {
					if cst, isC := r.Results[n-1].(*ssa.Const); isC && cst.Value == nil && typeStr(r.Results[n-1].Type()) == "error" {
						return false
					}
					if typeStr(r.Results[n-1].Type()) == "error" {
						return true
					}
				}
				return false
			}
		}
		for _, s := range b.Succs {
			if !rec(s) {
				return false
			}
		}
		return true
	}
	return rec(from)
}

// funcNameOfCall maps the callee name of a call expression back to the FuncName key of a
// library function ("" if there is none).
func funcNameOfCall(c *Ctx, aux string) string {
	for _, fn := range c.P.AllLibFuncs() {
		if calleeName(fn) == aux {
			return FuncName(fn)
		}
	}
	return ""
}

// sortedBefore: value v, used in block at of fn, was sorted: by a sort call on it that dominates
// the use, or because it is the result of a library function all of whose successful returns
// return a sorted value at that position.
func sortedBefore(c *Ctx, fn *ssa.Function, v ssa.Value, at *ssa.BasicBlock, depth int) bool {
	if cst, isC := v.(*ssa.Const); isC && cst.Value == nil {
		return true
	}
	found := false
	eachInstr(fn, func(b2 *ssa.BasicBlock, in2 ssa.Instruction) {
		c2, ok := in2.(*ssa.Call)
		if !ok || len(c2.Call.Args) == 0 || in2.Parent() != fn {
			return
		}
		cal := c2.Call.StaticCallee()
		if cal == nil || !(strings.HasPrefix(calleeName(cal), "slices.Sort") || strings.HasPrefix(calleeName(cal), "sort.")) {
			return
		}
		if c2.Call.Args[0] == v && b2.Dominates(at) {
			found = true
		}
	})
	if found || depth > 2 {
		return found
	}
	var call *ssa.Call
	idx := 0
	switch x := v.(type) {
	case *ssa.Extract:
		call, _ = x.Tuple.(*ssa.Call)
		idx = x.Index
	case *ssa.Call:
		call = x
	}
	if call == nil {
		return false
	}
	callee := call.Call.StaticCallee()
	if callee == nil || !c.P.IsLibFunc(callee) || callee.Blocks == nil {
		return false
	}
	ok := true
	n := 0
	eachInstr(callee, func(_ *ssa.BasicBlock, in ssa.Instruction) {
		r, isR := in.(*ssa.Return)
		if !isR || in.Parent() != callee || idx >= len(r.Results) {
			return
		}
		if len(r.Results) > 1 {
			last := r.Results[len(r.Results)-1]
			if _, isErr := last.Type().Underlying().(*types.Interface); isErr {
				if cst, isC := last.(*ssa.Const); !isC || cst.Value != nil {
					return // error return
				}
			}
		}
		n++
		if !sortedBefore(c, callee, r.Results[idx], r.Block(), depth+1) {
			ok = false
		}
	})
	return ok && n > 0
}

// newHelpersOf lists the helpers outside the vocabulary that fn reaches.
func newHelpersOf(p *Prog, fn *ssa.Function) []*ssa.Function {
	var out []*ssa.Function
	for gf := range helperGroup(p, fn) {
		if gf != fn && p.IsNewHelper(gf) {
			out = append(out, gf)
		}
	}
	return out
}

// checkTargetHeuristic (C04.R14): which patterns are matched against the URL even for a hostname
// request.  The documented heuristic: patterns that begin with "||", "http://", "https://" or "://",
// and patterns of the form "/name." whose inside consists of letters, digits, dots and hyphens only.
// The function is found by what it does (the one that tests the "://" prefix), its prefix tests are
// compared as a set, and the stay-condition of its scan over the pattern is evaluated on all 256 bytes.
func checkTargetHeuristic(c *Ctx) {
	c.Rule("C04.R14", "TBL", "URL-only patterns: the four documented prefixes, and '/name.' with name over [A-Za-z0-9.-]", 2)
	var H *ssa.Function
	for _, fn := range c.P.AllLibFuncs() {
		if fn.Pkg == nil || !strings.HasSuffix(fn.Pkg.Pkg.Path(), "/rules") {
			continue
		}
		eachInstr(fn, func(_ *ssa.BasicBlock, in ssa.Instruction) {
			if cl, ok := in.(*ssa.Call); ok && len(cl.Call.Args) == 2 {
				if cal := cl.Call.StaticCallee(); cal != nil && calleeName(cal) == "strings.HasPrefix" {
					if k, isK := cl.Call.Args[1].(*ssa.Const); isK && k.Value != nil && k.Value.ExactString() == "\"://\"" {
						H = fn
					}
				}
			}
		})
	}
	if H == nil {
		c.Fail("C04.R14", "anchor:URL-only pattern test", 0, "unresolved anchor: no function of package rules tests the prefix \"://\"")
		return
	}
	// judge it where it is used: the function of the vocabulary that (transitively, through helpers) holds it
	root := H
	if c.P.IsNewHelper(H) {
		for _, fn := range c.P.AllLibFuncs() {
			if !c.P.IsNewHelper(fn) && helperGroup(c.P, fn)[H] {
				root = fn
			}
		}
	}
	c.Fn(FuncName(root))
	g := NewGate(c.P)
	g.Inline = inlineOnly()
	s := g.Eval(root)
	u := g.U
	// the prefixes
	got := map[string]bool{}
	var S *E
	for _, e := range u.tab {
		if e.Op == "call" && e.Aux == "strings.HasPrefix" && len(e.Args) == 2 {
			if k, ok := e.Args[1].StrVal(); ok {
				if k == "://" {
					S = e.Args[0]
				}
			}
		}
	}
	for _, e := range u.tab {
		if e.Op == "call" && e.Aux == "strings.HasPrefix" && len(e.Args) == 2 && e.Args[0] == S {
			if k, ok := e.Args[1].StrVal(); ok {
				got[k] = true
			}
		}
	}
	want := []string{"||", "http://", "https://", "://"}
	bad := ""
	for _, w := range want {
		if !got[w] {
			bad = fmt.Sprintf("the prefix %q is not tested: such patterns are matched against the bare hostname of a DNS request and never match", w)
		}
	}
	if len(got) != len(want) && bad == "" {
		bad = fmt.Sprintf("prefixes tested: %v, documented: %v", sortedKeys(got), want)
	}
	c.Check(bad == "", "C04.R14", shortFn(root)+": prefixes of URL-only patterns", root.Pos(), fmt.Sprintf("%v", want), bad)
	// the scan over the inside of "/name."
	class := func(b int64) bool {
		return (b >= 'a' && b <= 'z') || (b >= 'A' && b <= 'Z') || (b >= '0' && b <= '9') || b == '.' || b == '-'
	}
	bad = "UNDECIDED: no byte-by-byte scan over the pattern found (the character class of '/name.' patterns is not visible)"
	for _, li := range loopInsts(g, s) {
		ct := countedLoop(u, li.Act, li.L)
		if ct == nil || !ct.StepOK || ct.Step != 1 {
			continue
		}
		// the byte looked at: index(X, idx) for a string X
		var ch *E
		for _, e := range u.tab {
			if e.Op == "index" && len(e.Args) == 2 && e.Args[1] == ct.Idx && e.Args[0].Typ != nil && isStringT(e.Args[0].Typ) {
				ch = e
			}
		}
		if ch == nil {
			continue
		}
		stay := False
		for _, lt := range li.L.Latches {
			stay = u.bdd.Or(stay, li.Act.RC[lt])
		}
		bad = ""
		for b := int64(0); b < 256 && bad == ""; b++ {
			sub := map[string]*E{ch.key: u.ConstVal(constantInt(b), types.Typ[types.Uint8])}
			for _, at := range u.AtomsOf(ct.Cont) {
				sub[at.key] = u.Bool(True)
			}
			r := u.SubstBool(stay, sub)
			// what is left are the conditions under which the scan is reached at all
			for _, at := range u.AtomsOf(r) {
				if !u.Mentions(at, func(x *E) bool { return x == ch }) {
					r = u.bdd.Exists(r, u.atomIx[at.key])
				}
			}
			c.Paths++
			if r != True && r != False {
				bad = fmt.Sprintf("UNDECIDED: the stay condition of the scan does not fold for byte %d", b)
			} else if (r == True) != class(b) {
				bad = fmt.Sprintf("for the byte %q the scan over the inside of a '/name.' pattern %s, the documented class is [A-Za-z0-9.-]: the pattern is then matched against the wrong target (the bare hostname instead of the URL, or the other way round) and a DNS request gets a different answer", rune(b), map[bool]string{true: "goes on", false: "stops"}[r == True])
			}
		}
		break
	}
	c.Check(bad == "", "C04.R14", shortFn(root)+": character class of '/name.' patterns", root.Pos(), "stay-condition of the scan evaluated on all 256 byte values", bad)
}
