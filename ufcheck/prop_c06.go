package main

// C06 — verdict follows the documented precedence, whatever the rule order.

import (
	"fmt"
	"go/constant"
	"go/token"
	"go/types"
	"os"
	"sort"
	"strings"

	"golang.org/x/tools/go/ssa"
)

func init() {
	register(&PropDef{
		ID:  "C06",
		Run: runC06,
		Explanation: "Static decision of the structural clauses of C06. The admission conditions of NewMatchingResult (document rule, basic rule) and GetDNSBasicRule are extracted from SSA as BDDs over opaque atoms " +
			"(gated evaluation of one loop iteration) and compared, by enumerating every combination of the rule features they read, with the precedence table of the property statement: special-purpose rules " +
			"(cookie/replace/csp/stealth) never become the basic rule; blocking rules are suppressed by a referrer $urlblock exception, generic blocking rules by a $genericblock exception; the incumbent is replaced only if nil or outranked. " +
			"R1: both selectors range over the output of the badfilter filter and the rewrite filter applied to their parameter. R5: GetBasicResult's table. R6: the engines pass (rules of the request, rules of the referrer matched as a document) in this order. " +
			"Order independence itself rests on C07 (strict weak order, checked there) and on the scans being complete (C07.R5). R11: a $urlblock and a $genericblock referrer exception that are otherwise alike must not tie under IsHigherPriority (the scope is read off the one exception that wins the scan); today they tie: recorded finding F21. The selection scan may sit in a helper activation, the incumbent in a cell updated by a helper, the rewrite filter fused into the DNS selector's scan. R13 imports C02.R9 (host-level predicate), R14 imports C12.R7 (whole lines).",
		Trusted: []string{"precedence table transcribed from the property statement", "C07 (priority is a strict weak order whose first stages are the verdict classes) — decided by its own check"},
	})
}

// foldCond substitutes sub into cond and reports its constant value.
func foldCond(u *U, cond Ref, sub map[string]*E) (val, ok bool, residual string) {
	r := u.SubstBool(cond, sub)
	switch r {
	case True:
		return true, true, ""
	case False:
		return false, true, ""
	}
	return false, false, clip(u.ShowBool(r), 200)
}

func optMaskAtomSub(u *U, base *E, bits int64) map[string]*E {
	return map[string]*E{u.Field(base, "enabledOptions", nil).key: u.ConstVal(constantInt(bits), types.Typ[types.Uint64])}
}

// filterRoles finds, among the callees of fn with signature
// func([]*NetworkRule) []*NetworkRule, the badfilter filter (tests
// OptionBadfilter) and the rewrite filter (reads the DNSRewrite field).
func filterRoles(c *Ctx, fn *ssa.Function, kBad int64) (bad, rew *ssa.Function) {
	seen := map[*ssa.Function]bool{}
	eachInstrG(c.P, fn, func(_ *ssa.BasicBlock, in ssa.Instruction) {
		ci, ok := in.(ssa.CallInstruction)
		if !ok {
			return
		}
		cal := ci.Common().StaticCallee()
		if cal == nil || seen[cal] || !c.P.IsLibFunc(cal) || c.P.IsNewHelper(cal) {
			return
		}
		seen[cal] = true
		sig := cal.Signature
		if sig.Params().Len() != 1 || sig.Results().Len() != 1 || sig.Recv() != nil {
			return
		}
		if !strings.HasSuffix(typeStr(sig.Params().At(0).Type()), "[]*rules.NetworkRule") {
			return
		}
		usesBad, readsRew := false, false
		eachInstrG(c.P, cal, func(_ *ssa.BasicBlock, in2 ssa.Instruction) {
			if c2, ok := in2.(ssa.CallInstruction); ok {
				for _, a := range c2.Common().Args {
					if isConstInt(a, kBad) {
						usesBad = true
					}
				}
			}
			if v, ok := in2.(ssa.Value); ok {
				if _, f, ok := fieldOf(v); ok && f == "DNSRewrite" {
					readsRew = true
				}
			}
		})
		if usesBad {
			bad = cal
		} else if readsRew {
			rew = cal
		}
	})
	return
}

func runC06(c *Ctx) {
	c.Rule("C06.R1", "WIRE", "selection loops range over rewriteFilter(badfilterFilter(parameter)) (either nesting)", 3)
	c.Rule("C06.R2", "PDT", "DocumentRule := rule iff exception with urlblock/genericblock and (incumbent nil or outranked)", 1)
	c.Rule("C06.R3", "PDT", "admission table of BasicRule equals the documented precedence on all feature combinations", 1)
	c.Rule("C06.R4", "PDT", "GetDNSBasicRule admission table; $replace makes the result nil", 2)
	c.Rule("C06.R5", "PDT", "GetBasicResult: replace rules => nil; no basic rule => document rule; else basic rule", 1)
	c.Rule("C06.R6", "WIRE", "engines pass (request rules, referrer rules matched as document) in this order; verdict only via GetBasicResult", 3)

	c.Rule("C06.R7", "COV/SYM", "rules disabled by badfilter: the twin test compares every modifier field of the two rules (shared with C08.R3/R4)", 14)
	a := &anchors{c: c, rule: "C06.R1"}
	nmr := a.fn("rules", "NewMatchingResult")
	gdb := a.fn("rules", "GetDNSBasicRule")
	ihp := a.method("rules", "NetworkRule", "IsHigherPriority")
	K := map[string]int64{}
	for _, n := range []string{"OptionBadfilter", "OptionCookie", "OptionReplace", "OptionCsp", "OptionStealth", "OptionUrlblock", "OptionGenericblock", "OptionImportant"} {
		K[n], _ = a.constInt("rules", n)
	}
	if a.bad {
		return
	}
	if flt, _ := filterRoles(c, nmr, K["OptionBadfilter"]); flt != nil {
		if tw := twinTest(c, flt); tw != nil {
			checkTwinComparison(c, "C06.R7", "C06.R7", tw, K["OptionBadfilter"])
		}
	}
	// ---------- R11: document-level exceptions of different scope never tie ----------
	// The suppression scope (everything / generic rules only) is read off the ONE referrer
	// exception that wins the priority scan (R2, R3).  If a $urlblock exception and a
	// $genericblock exception that are otherwise alike tie in priority, the scan keeps whichever
	// comes first, and the verdict class depends on the order of the rules.
	{
		c.Rule("C06.R11", "SYM", "a $urlblock and a $genericblock referrer exception that are otherwise alike do not tie in priority (or the scope would depend on rule order)", 1)
		g := NewGate(c.P)
		s := g.Eval(ihp)
		u := g.U
		ps := g.ParamExprs(ihp)
		f, r := ps[0], ps[1]
		H := u.ToBool(g.RetExpr(s, 0))
		u64 := types.Typ[types.Uint64]
		enF, enR := u.Field(f, "enabledOptions", u64), u.Field(r, "enabledOptions", u64)
		eval := func(bf, br int64) (Ref, bool) {
			h := u.SubstBool(H, map[string]*E{enF.key: u.ConstVal(constantInt(bf), u64), enR.key: u.ConstVal(constantInt(br), u64)})
			h = u.SubstBool(h, map[string]*E{r.key: f}) // alike in everything else
			return h, h == True || h == False
		}
		h1, ok1 := eval(K["OptionUrlblock"], K["OptionGenericblock"])
		h2, ok2 := eval(K["OptionGenericblock"], K["OptionUrlblock"])
		key := "IsHigherPriority: $urlblock vs $genericblock document exceptions"
		switch {
		case !ok1 || !ok2:
			c.Fail("C06.R11", key, ihp.Pos(), "UNDECIDED: the comparison of the two abstract rules does not fold: "+clip(u.ShowBool(h1), 100)+" / "+clip(u.ShowBool(h2), 100))
		case h1 == False && h2 == False:
			c.Fail("C06.R11", key, ihp.Pos(), "the two tie (neither is higher): with both matching the referrer, the one listed first becomes the document rule; a domain-specific blocking rule is then suppressed under one order of the rules and blocks under the other")
		default:
			c.OK("C06.R11", key, ihp.Pos(), "one of them is strictly higher, whatever the order")
		}
	}
	importRules(c, runC10, map[string]string{"C10.R10": "C06.R12"}, map[string]string{"C06.R12": "a rule written with $dnsrewrite carries a rewrite (or is rejected), so the rewrite filter removes it before the precedence is applied (shared with C10.R10)"})
	importRules(c, runC08, map[string]string{"C08.R1": "C06.R8", "C08.R2": "C06.R8"}, map[string]string{"C06.R8": "rules disabled by badfilter never survive the filter, whatever their position (shared with C08.R1/R2)"})
	checkDocumentOnly(c, "C06.R9")
	importRules(c, runC02, map[string]string{"C02.R9": "C06.R13"}, map[string]string{"C06.R13": "the DNS verdict is taken among the rules the DNS level can honour: a rule is loaded into the DNS engine iff all its options are host-level ones (shared with C02.R9)"})
	importRules(c, runC12, map[string]string{"C12.R7": "C06.R14"}, map[string]string{"C06.R14": "every rule reaches the engines as one whole line (shared with C12.R7)"})
	importRules(c, runC11, map[string]string{"C11.R5": "C06.R10"}, nil)
	importRules(c, runC01, map[string]string{"C01.R2": "C06.R10", "C01.R3": "C06.R10", "C01.R4": "C06.R10", "C01.R6": "C06.R10"},
		map[string]string{"C06.R10": "the precedence is applied to every matching rule, whichever lookup table holds it: engine consults every table, shortcut / domain / sequential tables are complete, the storage scanner visits every list however the rules are split (shared with C01.R2-R4/R6, C11.R5)"})
	inl := inlineOnly("(*rules.NetworkRule).isDocumentWhitelistRule", "(*rules.NetworkRule).IsOptionEnabled", "(*rules.NetworkRule).IsGeneric")
	nilOf := func(u *U, e *E) *E { return u.mk("nil", "", e.Typ) }

	// ---------- NewMatchingResult ----------
	{
		g := NewGate(c.P)
		g.Inline = inl
		s := g.Eval(nmr)
		u := g.U
		ps := g.ParamExprs(nmr)
		badF, rewF := filterRoles(c, nmr, K["OptionBadfilter"])
		loops := loopsOf(nmr)
		var filtered func(e *E, param *E) bool
		filtered = func(e *E, param *E) bool {
			// a fast path for the empty input: "if len(param) == 0 { return param }" hands back an empty
			// list, which is what the filters make of it
			if e != nil && e.Op == "ite" {
				for leaf, lc := range u.Leaves(e) {
					if leaf == param && u.bdd.Implies(lc, u.ToBool(u.Eq(u.Len(param), u.Int(0)))) {
						continue
					}
					if leaf.Op == "ite" || !filtered(leaf, param) {
						return false
					}
				}
				return true
			}
			// e = X(Y(param)) with {X,Y} = {bad, rew}
			if badF == nil || rewF == nil || e == nil || e.Op != "call" || len(e.Args) == 0 || e.Args[0].Op != "call" || len(e.Args[0].Args) == 0 {
				return false
			}
			o, i := e.Aux, e.Args[0].Aux
			if !((o == calleeName(rewF) && i == calleeName(badF)) || (o == calleeName(badF) && i == calleeName(rewF))) {
				return false
			}
			return e.Args[0].Args[0] == param
		}
		// loops containing IsHigherPriority calls
		var docStore, basicStore *Effect
		var docCall, basicCall *E
		for ci := range s.Effects {
			cef := &s.Effects[ci]
			if cef.Kind != "call" || cef.Call.Aux != calleeName(ihp) || len(cef.Call.Args) < 2 {
				continue
			}
			call := cef.Call
			site := cef.Ins
			blk := topBlockOf(cef.Act, cef.Ins)
			var l *Loop
			lAct := s
			if blk != nil {
				l = innermostLoop(loops, blk)
			}
			// the scan may sit in a helper outside the vocabulary (a method of the result that is handed
			// the candidates): the loop is then one of that activation
			for a := cef.Act; l == nil && a != nil && a != s; a = a.Parent {
				var ablk *ssa.BasicBlock
				if a == cef.Act {
					ablk = cef.Ins.Block()
				}
				for x := cef.Act; x != nil && ablk == nil; x = x.Parent {
					if x.Parent == a && x.Site != nil {
						ablk = x.Site.Block()
					}
				}
				if ablk != nil {
					if l2 := innermostLoop(loopsOf(a.Fn), ablk); l2 != nil {
						l, lAct = l2, a
					}
				}
			}
			if call == nil || l == nil {
				c.Fail("C06.R1", "NewMatchingResult: selection loop", site.Pos(), "UNDECIDED: selection not inside a loop")
				continue
			}
			ro := rangedOver(l)
			var coll *E
			if ro != nil {
				coll = lAct.Env[ro.Coll]
			}
			cand := call.Args[0]
			// which store does this selection feed?  The admission condition is the
			// condition under which the stored value is the candidate.
			for i := range s.Effects {
				ef := &s.Effects[i]
				if ef.Kind != "store" || ef.Addr.Op != "faddr" {
					continue
				}
				lc, isLeaf := u.Leaves(ef.Val)[cand]
				if os.Getenv("UFCHECK_DEBUG_C06") != "" {
					fmt.Fprintf(os.Stderr, "C06DBG store %s := %s (cand leaf=%v)\n", clip(u.Show(ef.Addr), 80), clip(u.Show(ef.Val), 120), isLeaf)
				}
				if !isLeaf {
					continue
				}
				adm := *ef
				adm.Cond = u.bdd.And(ef.Cond, lc)
				target := ef.Addr.Aux
				if target != "DocumentRule" && target != "BasicRule" {
					// the incumbent may be kept in a cell of its own (a small local struct updated by a
					// helper) until the scan is over: the result field that then receives the cell's content
					root := ef.Addr
					for (root.Op == "faddr" || root.Op == "iaddr") && len(root.Args) > 0 {
						root = root.Args[0]
					}
					if root.Op == "alloc" && strings.HasSuffix(root.Aux, "/local") {
						for j := range s.Effects {
							e2 := &s.Effects[j]
							if e2.Kind != "store" || e2.Addr.Op != "faddr" || !(e2.Addr.Aux == "DocumentRule" || e2.Addr.Aux == "BasicRule") {
								continue
							}
							// what is stored is the content of the cell (not merely something that mentions it)
							for leaf := range u.Leaves(e2.Val) {
								if (leaf.Op == "field" && leaf.Aux == ef.Addr.Aux && leaf.Args[0] == root) || (leaf.Op == "loopval" && strings.Contains(leaf.Aux, ef.Addr.key)) {
									target = e2.Addr.Aux
								}
							}
						}
					}
				}
				switch target {
				case "DocumentRule":
					docStore, docCall = &adm, call
					c.Check(filtered(coll, ps[1]), "C06.R1", "NewMatchingResult: document-rule loop ranges over filtered sourceRules", site.Pos(),
						"collection = rewriteFilter(badfilterFilter(sourceRules))", "the loop ranges over "+clip(u.Show(coll), 160)+", not over the filtered referrer rules")
				case "BasicRule":
					basicStore, basicCall = &adm, call
					c.Check(filtered(coll, ps[0]), "C06.R1", "NewMatchingResult: basic-rule loop ranges over filtered rules", site.Pos(),
						"collection = rewriteFilter(badfilterFilter(rules))", "the loop ranges over "+clip(u.Show(coll), 160)+", not over the filtered request rules")
				}
			}
		}
		bitsOf := func(names []string, mask int) int64 {
			var b int64
			for i, n := range names {
				if mask&(1<<i) != 0 {
					b |= K[n]
				}
			}
			return b
		}
		// R2
		if docStore == nil {
			c.Fail("C06.R2", "NewMatchingResult: DocumentRule admission", nmr.Pos(), "UNDECIDED: no store of a candidate into DocumentRule guarded by IsHigherPriority found")
		} else {
			cand, inc := docCall.Args[0], docCall.Args[1]
			names := []string{"OptionUrlblock", "OptionGenericblock", "OptionStealth", "OptionImportant"}
			bad := ""
			n := 0
			for mask := 0; mask < 16 && bad == ""; mask++ {
				for w := 0; w < 2 && bad == ""; w++ {
					for old := 0; old < 2 && bad == ""; old++ {
						for hp := 0; hp < 2 && bad == ""; hp++ {
							bits := bitsOf(names, mask)
							sub := optMaskAtomSub(u, cand, bits)
							sub[u.Field(cand, "Whitelist", nil).key] = u.Bool(boolRef(w == 1))
							if old == 0 {
								sub[inc.key] = nilOf(u, inc)
							} else {
								sub[inc.key] = u.mk("new", "incumbent", inc.Typ)
							}
							sub[docCall.key] = u.Bool(boolRef(hp == 1))
							loopCtlSub(u, s, loops, docStore.Cond, sub, loopInsts(g, s)...)
							identitySub(u, docStore.Cond, cand, inc, sub)
							// the call's second argument is substituted too; key the call before substitution
							val, ok, res := foldCond(u, docStore.Cond, sub)
							n++
							want := w == 1 && (bits&K["OptionUrlblock"] != 0 || bits&K["OptionGenericblock"] != 0) && (old == 0 || hp == 1)
							if !ok {
								bad = "UNDECIDED: admission condition does not fold: " + res
							} else if val != want {
								bad = fmt.Sprintf("referrer rule {exception=%v urlblock=%v genericblock=%v stealth=%v}, incumbent nil=%v, outranks=%v: becomes DocumentRule=%v, documented %v",
									w == 1, bits&K["OptionUrlblock"] != 0, bits&K["OptionGenericblock"] != 0, bits&K["OptionStealth"] != 0, old == 0, hp == 1, val, want)
							}
						}
					}
				}
			}
			c.Paths += n
			c.Check(bad == "", "C06.R2", "NewMatchingResult: DocumentRule admission", docStore.Pos, fmt.Sprintf("equals the documented condition on %d feature combinations", n), bad)
		}
		// R3
		if basicStore == nil {
			c.Fail("C06.R3", "NewMatchingResult: BasicRule admission", nmr.Pos(), "UNDECIDED: no store of a candidate into BasicRule guarded by IsHigherPriority found")
		} else {
			cand, inc := basicCall.Args[0], basicCall.Args[1]
			// the document rule as read after the first loop
			var dr *E
			for _, at := range u.AtomsOf(basicStore.Cond) {
				u.Mentions(at, func(x *E) bool {
					if (x.Op == "field" && x.Aux == "DocumentRule") || (x.Op == "loopval" && strings.Contains(x.Aux, "faddr<DocumentRule>")) {
						dr = x
						return true
					}
					return false
				})
			}
			if dr == nil {
				// the document rule kept in a cell until the first scan is over: what is stored into
				// the DocumentRule field afterwards is what the scope is read from
				for j := range s.Effects {
					e2 := &s.Effects[j]
					if e2.Kind == "store" && e2.Addr.Op == "faddr" && e2.Addr.Aux == "DocumentRule" && (docCall == nil || e2.Val != docCall.Args[0]) {
						for _, at := range u.AtomsOf(basicStore.Cond) {
							if u.Mentions(at, func(x *E) bool { return x == e2.Val }) {
								dr = e2.Val
							}
						}
					}
				}
			}
			names := []string{"OptionCookie", "OptionReplace", "OptionCsp", "OptionStealth"}
			bad := ""
			n := 0
			drObj := u.mk("new", "documentRule", nil)
			for mask := 0; mask < 16 && bad == ""; mask++ {
				for w := 0; w < 2 && bad == ""; w++ {
					for gen := 0; gen < 2 && bad == ""; gen++ {
						for old := 0; old < 2 && bad == ""; old++ {
							for hp := 0; hp < 2 && bad == ""; hp++ {
								for d := 0; d < 5 && bad == ""; d++ { // 0: no document rule; 1..4: urlblock/genericblock bits
									bits := bitsOf(names, mask)
									sub := optMaskAtomSub(u, cand, bits)
									sub[u.Field(cand, "Whitelist", nil).key] = u.Bool(boolRef(w == 1))
									sub[u.Len(u.Field(cand, "permittedDomains", nil)).key] = u.Int(int64(1 - gen))
									if old == 0 {
										sub[inc.key] = nilOf(u, inc)
									} else {
										sub[inc.key] = u.mk("new", "incumbent", inc.Typ)
									}
									sub[basicCall.key] = u.Bool(boolRef(hp == 1))
									loopCtlSub(u, s, loops, basicStore.Cond, sub, loopInsts(g, s)...)
									identitySub(u, basicStore.Cond, cand, inc, sub)
									var dbits int64
									if dr != nil {
										if d == 0 {
											sub[dr.key] = nilOf(u, dr)
										} else {
											sub[dr.key] = drObj
											if (d-1)&1 != 0 {
												dbits |= K["OptionUrlblock"]
											}
											if (d-1)&2 != 0 {
												dbits |= K["OptionGenericblock"]
											}
										}
									}
									r := u.SubstBool(basicStore.Cond, sub)
									r = u.SubstBool(r, optMaskAtomSub(u, drObj, dbits))
									n++
									urlb := d > 0 && dbits&K["OptionUrlblock"] != 0
									genb := d > 0 && dbits&K["OptionGenericblock"] != 0
									want := bits == 0 && (w == 1 || (!urlb && (!genb || gen == 0))) && (old == 0 || hp == 1)
									if dr == nil && d > 0 {
										continue
									}
									if r != True && r != False {
										bad = "UNDECIDED: admission condition does not fold: " + clip(u.ShowBool(r), 200)
									} else if (r == True) != want {
										bad = fmt.Sprintf("rule {exception=%v generic=%v cookie/replace/csp/stealth bits=%#x}, referrer document rule {present=%v urlblock=%v genericblock=%v}, incumbent nil=%v, outranks=%v: becomes BasicRule=%v, documented %v",
											w == 1, gen == 1, bits, d > 0, urlb, genb, old == 0, hp == 1, r == True, want)
									}
								}
							}
						}
					}
				}
			}
			c.Paths += n
			if dr == nil && bad == "" {
				bad = "the admission condition never reads the referrer's document rule: $urlblock/$genericblock exceptions of the referrer cannot suppress blocking rules"
			}
			c.Check(bad == "", "C06.R3", "NewMatchingResult: BasicRule admission", basicStore.Pos, fmt.Sprintf("equals the documented precedence on %d feature combinations", n), bad)
		}
	}

	// ---------- GetDNSBasicRule ----------
	{
		g := NewGate(c.P)
		g.Inline = inl
		g.Search = true // a pre-scan "does the list hold a $replace rule" reads as exists(list, test)
		s := g.Eval(gdb)
		u := g.U
		ps := g.ParamExprs(gdb)
		badF, rewF := filterRoles(c, gdb, K["OptionBadfilter"])
		loops := loopsOf(gdb)
		for ci := range s.Effects {
			cef := &s.Effects[ci]
			if cef.Kind != "call" || cef.Call.Aux != calleeName(ihp) || len(cef.Call.Args) < 2 {
				continue
			}
			call := cef.Call
			site := cef.Ins
			var l *Loop
			if blk := topBlockOf(cef.Act, cef.Ins); blk != nil {
				l = innermostLoop(loops, blk)
			}
			if call == nil || l == nil {
				c.Fail("C06.R4", "GetDNSBasicRule: selection loop", site.Pos(), "UNDECIDED: selection not inside a loop")
				continue
			}
			ro := rangedOver(l)
			var coll *E
			if ro != nil {
				coll = s.Env[ro.Coll]
			}
			okF1 := func(coll *E) bool {
				return badF != nil && rewF != nil && coll != nil && coll.Op == "call" && len(coll.Args) > 0 && coll.Args[0].Op == "call" && len(coll.Args[0].Args) > 0 && coll.Args[0].Args[0] == ps[0] &&
					((coll.Aux == calleeName(rewF) && coll.Args[0].Aux == calleeName(badF)) || (coll.Aux == calleeName(badF) && coll.Args[0].Aux == calleeName(rewF)))
			}
			okF := okF1(coll)
			if !okF && coll != nil && coll.Op == "ite" {
				// fast path for the empty input (see NewMatchingResult above)
				okF = true
				for leaf, lc := range u.Leaves(coll) {
					if leaf == ps[0] && u.bdd.Implies(lc, u.ToBool(u.Eq(u.Len(ps[0]), u.Int(0)))) {
						continue
					}
					if !okF1(leaf) {
						okF = false
					}
				}
			}
			cand, inc := call.Args[0], call.Args[1]
			// the rewrite filter may be fused into the scan: the loop ranges over the badfilter-filtered
			// rules and looks only at candidates without a rewrite (judged below, once the decisions of
			// the body are known)
			var noRew Ref = False
			fused := !okF && badF != nil && coll != nil && coll.Op == "call" && coll.Aux == calleeName(badF) && len(coll.Args) > 0 && coll.Args[0] == ps[0]
			if fused {
				noRew = u.ToBool(u.Eq(u.Field(cand, "DNSRewrite", nil), u.mk("nil", "", nil)))
				fused = noRew != False && noRew != True
			}
			if !fused {
				c.Check(okF, "C06.R1", "GetDNSBasicRule: loop ranges over filtered rules", site.Pos(), "collection = rewriteFilter(badfilterFilter(rules))",
					"the loop ranges over "+clip(u.Show(coll), 160)+", not over the filtered rules")
			}
			// loop-carried incumbent
			type latchVal struct {
				v  *E
				rc Ref
			}
			var nexts []latchVal
			for _, in := range l.Header.Instrs {
				if ph, ok := in.(*ssa.Phi); ok && s.Env[ph] == inc {
					for i, p := range l.Header.Preds {
						if l.Blocks[p] && s.Env[ph.Edges[i]] != nil {
							nexts = append(nexts, latchVal{s.Env[ph.Edges[i]], s.RC[p]})
						}
					}
				}
			}
			if len(nexts) == 0 {
				// the incumbent kept in a cell (a small local struct updated by a helper): the stores
				// into the cell are its replacements
				for j := range s.Effects {
					e2 := &s.Effects[j]
					if e2.Kind != "store" {
						continue
					}
					root := e2.Addr
					for (root.Op == "faddr" || root.Op == "iaddr") && len(root.Args) > 0 {
						root = root.Args[0]
					}
					if root.Op == "alloc" && u.Mentions(inc, func(x *E) bool { return x == root }) {
						nexts = append(nexts, latchVal{e2.Val, e2.Cond})
					}
				}
			}
			// continue condition of the loop (true inside an iteration)
			cont := contCond(u, s, l)
			names := []string{"OptionCookie", "OptionReplace", "OptionCsp", "OptionStealth"}
			if len(nexts) == 0 {
				c.Fail("C06.R4", "GetDNSBasicRule: admission", site.Pos(), "UNDECIDED: the incumbent is not a loop-carried variable")
				continue
			}
			chosen := False
			for _, nx := range nexts {
				for leaf, cond := range u.Leaves(nx.v) {
					if leaf == cand {
						chosen = u.bdd.Or(chosen, u.bdd.And(cond, nx.rc))
					} else if leaf != inc {
						c.Fail("C06.R4", "GetDNSBasicRule: admission", site.Pos(), "the incumbent is replaced by something that is not the candidate: "+clip(u.Show(leaf), 100))
					}
				}
			}
			// early-return condition: returns reached from inside the loop
			retNil := False
			retOther := ""
			for _, r := range s.Rets {
				inLoop := u.bdd.And(r.Cond, cont)
				if !u.bdd.Implies(r.Cond, cont) || inLoop == False {
					continue
				}
				if r.Vals[0].IsNil() {
					retNil = u.bdd.Or(retNil, r.Cond)
				} else {
					retOther = "a return inside the scan yields " + clip(u.Show(r.Vals[0]), 100)
				}
			}
			// ... or a nil return before the scan under "some rule of the scanned list satisfies T": T is
			// then judged on the candidate like the in-loop test
			var preEx []*E
			preNil := False
			for _, r := range s.Rets {
				if !r.Vals[0].IsNil() || u.bdd.And(r.Cond, cont) != False && u.bdd.Implies(r.Cond, cont) {
					continue
				}
				for _, at := range u.AtomsOf(r.Cond) {
					if at.Op == "exists" && len(at.Args) == 2 && at.Args[0] == coll && at.Args[1].Op == "bool" && u.bdd.Implies(r.Cond, u.Atom(at)) {
						preEx = append(preEx, at)
						preNil = u.bdd.Or(preNil, u.Atom(at))
					}
				}
			}
			bad, bad2 := "", retOther
			n := 0
			if fused {
				okFused := u.bdd.Implies(chosen, noRew) && u.bdd.Implies(retNil, noRew)
				c.Check(okFused, "C06.R1", "GetDNSBasicRule: loop ranges over filtered rules", site.Pos(), "collection = badfilterFilter(rules), candidates with a rewrite skipped before any decision",
					"the loop ranges over "+clip(u.Show(coll), 160)+" and a rule that carries a DNS rewrite can be selected or end the scan: rewrite rules never become the basic result")
			}
			var noRewAtoms []*E
			if fused {
				noRewAtoms = u.AtomsOf(noRew)
			}
			for mask := 0; mask < 16; mask++ {
				for old := 0; old < 2; old++ {
					for hp := 0; hp < 2; hp++ {
						var bits int64
						for i, nm := range names {
							if mask&(1<<i) != 0 {
								bits |= K[nm]
							}
						}
						sub := optMaskAtomSub(u, cand, bits)
						for _, at := range noRewAtoms {
							sub[at.key] = u.Bool(boolRef(u.bdd.Implies(noRew, u.Atom(at)))) // the candidate passed the fused rewrite filter
						}
						if old == 0 {
							sub[inc.key] = nilOf(u, inc)
						} else {
							sub[inc.key] = u.mk("new", "incumbent", inc.Typ)
						}
						sub[call.key] = u.Bool(boolRef(hp == 1))
						identitySub(u, chosen, cand, inc, sub)
						// a candidate is being looked at, so the list handed in was not empty
						for _, prm := range g.ParamExprs(gdb) {
							sub[u.Eq(u.Len(prm), u.Int(0)).key] = u.Bool(False)
							for _, at := range u.AtomsOf(u.ToBool(u.Eq(u.Len(prm), u.Int(0)))) {
								sub[at.key] = u.Bool(False)
							}
						}
						for _, at := range u.AtomsOf(cont) {
							sub[at.key] = u.Bool(boolRef(u.bdd.Implies(cont, u.Atom(at))))
						}
						n++
						rep := bits&K["OptionReplace"] != 0
						// the pre-scan test on this candidate (the other rules of the list are taken not to
						// satisfy it: the table is about what one candidate does)
						for _, ex := range preEx {
							bv := u.BVar(0, cand.Typ)
							for _, x := range u.Collect(ex.Args[1], func(x *E) bool { return x.Op == "bvar" }) {
								bv = x
							}
							onCand := u.SubstBool(ex.Args[1].B, map[string]*E{bv.key: cand})
							if v, okv, _ := foldCond(u, onCand, optMaskAtomSub(u, cand, bits)); okv {
								sub[ex.key] = u.Bool(boolRef(v))
							}
						}
						val, ok, res := foldCond(u, chosen, sub)
						want := bits == 0 && (old == 0 || hp == 1)
						if !ok && bad == "" {
							bad = "UNDECIDED: " + res
						} else if ok && val != want && bad == "" {
							bad = fmt.Sprintf("rule with cookie/replace/csp/stealth bits %#x, incumbent nil=%v, outranks=%v: selected=%v, documented %v", bits, old == 0, hp == 1, val, want)
						}
						val2, ok2, res2 := foldCond(u, u.bdd.Or(retNil, preNil), sub)
						if !ok2 && bad2 == "" {
							bad2 = "UNDECIDED: " + res2
						} else if ok2 && val2 != rep && bad2 == "" {
							bad2 = fmt.Sprintf("rule with bits %#x: the scan returns nil early=%v, documented: exactly for $replace rules (%v)", bits, val2, rep)
						}
					}
				}
			}
			c.Paths += n
			c.Check(bad == "", "C06.R4", "GetDNSBasicRule: admission", site.Pos(), fmt.Sprintf("equals the documented condition on %d feature combinations", n), bad)
			c.Check(bad2 == "", "C06.R4", "GetDNSBasicRule: $replace => nil, nothing else ends the scan", site.Pos(), fmt.Sprintf("early nil return iff $replace on %d combinations", n), bad2)
		}
	}

	// ---------- R5 GetBasicResult ----------
	a.rule = "C06.R5"
	if gbr := a.method("rules", "MatchingResult", "GetBasicResult"); gbr != nil {
		g := NewGate(c.P)
		g.Inline = inlineOnly()
		s := g.Eval(gbr)
		u := g.U
		m := g.ParamExprs(gbr)[0]
		res := g.RetExpr(s, 0)
		bad := ""
		rr, br, dr := u.Field(m, "ReplaceRules", nil), u.Field(m, "BasicRule", nil), u.Field(m, "DocumentRule", nil)
		objB, objD := u.mk("new", "basic", nil), u.mk("new", "doc", nil)
		for i := 0; i < 8 && bad == ""; i++ {
			sub := map[string]*E{}
			hasR, hasB, hasD := i&1 != 0, i&2 != 0, i&4 != 0
			if hasR {
				sub[rr.key] = u.mk("new", "replaceRules", nil)
			} else {
				sub[rr.key] = u.mk("nil", "", nil)
			}
			if hasB {
				sub[br.key] = objB
			} else {
				sub[br.key] = u.mk("nil", "", nil)
			}
			if hasD {
				sub[dr.key] = objD
			} else {
				sub[dr.key] = u.mk("nil", "", nil)
			}
			e := u.EvalUnder(u.Subst(res, sub), func(*E) bool { return false })
			c.Paths++
			want := "nil"
			switch {
			case hasR:
			case hasB:
				want = objB.key
			case hasD:
				want = objD.key
			}
			got := e.key
			if e.IsNil() {
				got = "nil"
			}
			if got != want {
				bad = fmt.Sprintf("replaceRules=%v basicRule=%v documentRule=%v: returns %s, documented %s", hasR, hasB, hasD, u.Show(e), want)
			}
		}
		c.Check(bad == "" && len(s.Effects) == 0, "C06.R5", "GetBasicResult: decision table", gbr.Pos(), "8 rows equal the documented table; no side effect", bad+effectNote(len(s.Effects)))
	}

	// ---------- R6 wiring ----------
	a.rule = "C06.R6"
	emr := a.method("", "Engine", "MatchRequest")
	nem := a.method("", "NetworkEngine", "Match")
	mall := a.method("", "NetworkEngine", "MatchAll")
	newReq := a.fn("rules", "NewRequest")
	kDoc, _ := a.constInt("rules", "TypeDocument")
	if emr != nil && nem != nil && mall != nil && newReq != nil {
		{
			g := NewGate(c.P)
			g.Inline = inlineOnly()
			s := g.Eval(emr)
			u := g.U
			ps := g.ParamExprs(emr)
			var call *E
			var pos token.Pos
			for _, ef := range s.Effects {
				if ef.Kind == "call" && ef.Call.Aux == calleeName(nmr) {
					call, pos = ef.Call, ef.Pos
				}
			}
			bad := ""
			if call == nil {
				bad = "no call of NewMatchingResult"
			} else {
				a0, a1 := call.Args[0], call.Args[1]
				isMatchAllOf := func(e *E, req func(*E) bool) bool {
					return e.Op == "call" && e.Aux == calleeName(mall) && len(e.Args) >= 2 && req(e.Args[1])
				}
				if !isMatchAllOf(a0, func(x *E) bool { return x == ps[1] }) {
					bad = "first argument is not MatchAll(request): " + clip(u.Show(a0), 120)
				}
				src := u.Field(ps[1], "SourceURL", nil)
				okSrc := false
				for leaf, cond := range u.Leaves(a1) {
					if leaf.IsNil() {
						continue
					}
					if isMatchAllOf(leaf, func(x *E) bool {
						return x.Op == "call" && x.Aux == calleeName(newReq) && len(x.Args) >= 3 && x.Args[0].key == src.key && isStr(x.Args[1], "") && isIntConst(x.Args[2], kDoc)
					}) {
						// must be taken whenever SourceURL != ""
						nonEmpty := u.bdd.Not(u.ToBool(u.Eq(src, u.Str(""))))
						if u.bdd.Implies(nonEmpty, cond) {
							okSrc = true
						}
					}
				}
				if !okSrc && bad == "" {
					bad = "second argument is not MatchAll(NewRequest(r.SourceURL, \"\", TypeDocument)) whenever the request has a source: " + clip(u.Show(a1), 160)
				}
			}
			c.Check(bad == "", "C06.R6", "Engine.MatchRequest -> NewMatchingResult(rules, sourceRules)", pos, "request rules first, referrer matched as a document second", bad)
		}
		{
			g := NewGate(c.P)
			g.Inline = inlineOnly()
			s := g.Eval(nem)
			u := g.U
			ps := g.ParamExprs(nem)
			bad := "no call of NewMatchingResult"
			var pos token.Pos
			for _, ef := range s.Effects {
				if ef.Kind == "call" && ef.Call.Aux == calleeName(nmr) {
					pos = ef.Pos
					a0, a1 := ef.Call.Args[0], ef.Call.Args[1]
					if a0.Op == "call" && a0.Aux == calleeName(mall) && a0.Args[1] == ps[1] && a1.IsNil() {
						bad = ""
					} else {
						bad = "arguments are not (MatchAll(r), nil): " + clip(u.Show(ef.Call), 160)
					}
				}
			}
			c.Check(bad == "", "C06.R6", "NetworkEngine.Match -> NewMatchingResult(MatchAll(r), nil)", pos, "wired as documented", bad)
			// the verdict is GetBasicResult of that result (or nil when nothing matched), never a rule picked another way
			bad = ""
			for _, r := range s.Rets {
				for leaf := range u.Leaves(r.Vals[0]) {
					if leaf.IsNil() {
						continue
					}
					if !(leaf.Op == "call" && strings.HasSuffix(leaf.Aux, "MatchingResult).GetBasicResult") && leaf.Args[0].Op == "call" && leaf.Args[0].Aux == calleeName(nmr)) {
						bad = "NetworkEngine.Match can return " + clip(u.Show(leaf), 100) + " without going through NewMatchingResult/GetBasicResult: a lone $dnsrewrite, $badfilter or $stealth rule would become the verdict, and the verdict would depend on how rules are split across lists"
					}
				}
			}
			c.Check(bad == "", "C06.R6", "NetworkEngine.Match returns GetBasicResult(NewMatchingResult(...)) or nil", pos, "every non-nil result is the selected basic result", bad)
		}
	}
}

func isStr(e *E, s string) bool {
	v, ok := e.StrVal()
	return ok && v == s
}

func effectNote(n int) string {
	if n == 0 {
		return ""
	}
	return fmt.Sprintf(" (the getter has %d side effect(s))", n)
}

// contCond returns the condition under which the loop body is entered from
// the header (the header's branch condition towards the loop), as evaluated.
func contCond(u *U, s *Summary, l *Loop) Ref {
	h := l.Header
	iff, ok := h.Instrs[len(h.Instrs)-1].(*ssa.If)
	if !ok {
		return True
	}
	cv := s.Env[iff.Cond]
	if cv == nil {
		return True
	}
	cnd := u.ToBool(cv)
	if l.Blocks[h.Succs[0]] && !l.Blocks[h.Succs[1]] {
		return cnd
	}
	if l.Blocks[h.Succs[1]] && !l.Blocks[h.Succs[0]] {
		return u.bdd.Not(cnd)
	}
	return True
}

// loopCtlSub adds, for every loop of the function, the value of its control
// atoms implied by cond: atoms of the "continue" condition of a loop whose
// body cond lies in are fixed so that the loop continues, atoms of loops
// already left so that the loop has ended.
// identitySub: a test "candidate == incumbent" in an admission condition is set to false.  Either
// answer is behaviour-neutral (replacing a rule by itself changes nothing, and the relation is
// irreflexive by C07.R1); the distinct case is the one the table is about.
func identitySub(u *U, cond Ref, cand, inc *E, sub map[string]*E) {
	for _, at := range u.AtomsOf(cond) {
		if at.Op == "eq" && ((at.Args[0] == cand && at.Args[1] == inc) || (at.Args[0] == inc && at.Args[1] == cand)) {
			sub[at.key] = u.Bool(False)
		}
	}
}

func loopCtlSub(u *U, s *Summary, loops []*Loop, cond Ref, sub map[string]*E, more ...LoopInst) {
	insts := make([]LoopInst, 0, len(loops)+len(more))
	for _, l := range loops {
		insts = append(insts, LoopInst{s, l})
	}
	for _, li := range more {
		if li.Act != s {
			insts = append(insts, li) // loops of helpers outside the vocabulary expanded into the evaluation
		}
	}
	for _, li := range insts {
		l := li.L
		cont := contCond(u, li.Act, l)
		if cont == True || cont == False {
			continue
		}
		ats := u.AtomsOf(cont)
		if len(ats) != 1 {
			continue
		}
		at := ats[0]
		lit := u.Atom(at)
		switch {
		case u.bdd.Implies(cond, lit):
			sub[at.key] = u.Bool(True)
		case u.bdd.Implies(cond, u.bdd.Not(lit)):
			sub[at.key] = u.Bool(False)
		}
	}
}

// checkDocumentOnly: the document-level modifiers restrict a rule to document
// requests.  Without the restriction a page-level exception ($genericblock,
// $urlblock, $elemhide, ...) also matches the page's sub-requests and becomes
// their basic rule, overriding blocking rules it was never meant to touch.
func checkDocumentOnly(c *Ctx, rule string) {
	c.Rule(rule, "TBL/PDT", "rules with a document-level modifier apply to document requests only", 1)
	lo := c.P.Method("rules", "NetworkRule", "loadOptions")
	if lo == nil {
		c.Fail(rule, "anchor:NetworkRule.loadOptions", token.NoPos, "unresolved anchor")
		return
	}
	a := &anchors{c: c, rule: rule}
	kDoc, _ := a.constInt("rules", "TypeDocument")
	names := []string{"OptionJsinject", "OptionElemhide", "OptionContent", "OptionUrlblock", "OptionGenericblock", "OptionGenerichide", "OptionExtension", "OptionPopup"}
	want := map[int64]string{}
	for _, n := range names {
		if v, ok := a.constInt("rules", n); ok {
			want[v] = n
		}
	}
	if a.bad {
		return
	}
	c.Fn(FuncName(lo))
	g := NewGate(c.P)
	g.Inline = inlineOnly("(*rules.NetworkRule).IsOptionEnabled")
	s := g.Eval(lo)
	u := g.U
	bad := "loadOptions never restricts a rule to document requests"
	for _, ef := range s.Effects {
		if ef.Kind != "store" || ef.Addr.Op != "faddr" || ef.Addr.Aux != "permittedRequestTypes" || !isIntConst(ef.Val, kDoc) {
			continue
		}
		bad = ""
		// the option word the condition tests: the non-constant operand of the mask tests
		var word *E
		nWords := 0
		isOptAtom := func(at *E) bool {
			if at.Op != "eq" || at.Args[0].Op != "bin" || at.Args[0].Aux != "&" {
				return false
			}
			_, okc := at.Args[1].IntVal()
			return okc
		}
		for _, at := range u.AtomsOf(ef.Cond) {
			if !isOptAtom(at) {
				continue
			}
			for _, x := range at.Args[0].Args {
				if _, isC := x.IntVal(); !isC && x != word {
					word = x
					nWords++
				}
			}
		}
		if word == nil || nWords != 1 {
			bad = "UNDECIDED: the condition of the restriction does not test one option word against constant masks"
			break
		}
		// everything else (the option loop has ended without an error, ...) is quantified away
		rest := ef.Cond
		for _, at := range u.AtomsOf(ef.Cond) {
			if !isOptAtom(at) {
				rest = u.bdd.Exists(rest, u.atomIx[at.key])
			}
		}
		var wantMask int64
		for b := range want {
			wantMask |= b
		}
		// decided on: no option, every single option bit, every pair
		var bits []int64
		if sp := c.P.SPkg[pkgPath("rules")]; sp != nil {
			for _, m := range sp.Members {
				if nc, ok := m.(*ssa.NamedConst); ok && typeStr(nc.Type()) == "rules.NetworkRuleOption" {
					if v, ok := constant.Int64Val(nc.Value.Value); ok && v != 0 && v&(v-1) == 0 {
						bits = append(bits, v)
					}
				}
			}
		}
		sort.Slice(bits, func(i, j int) bool { return bits[i] < bits[j] })
		vals := []int64{0}
		vals = append(vals, bits...)
		for i, b1 := range bits {
			for _, b2 := range bits[i+1:] {
				vals = append(vals, b1|b2)
			}
		}
		for _, v := range vals {
			r := u.SubstBool(rest, map[string]*E{word.key: u.ConstVal(constantInt(v), word.Typ)})
			c.Paths++
			if r != True && r != False {
				bad = fmt.Sprintf("UNDECIDED: the condition does not fold for options %#x: %s", v, clip(u.ShowBool(r), 100))
				break
			}
			if (r == True) != (v&wantMask != 0) {
				if r == False {
					nm := ""
					for b, n := range want {
						if v&b != 0 {
							nm = strings.ToLower(strings.TrimPrefix(n, "Option"))
						}
					}
					bad = "a rule with $" + nm + " is not restricted to document requests: it also matches the page's sub-requests and is selected as their basic rule"
				} else {
					bad = fmt.Sprintf("option set %#x restricts the rule to document requests although it holds no document-level modifier", v)
				}
				break
			}
		}
	}
	c.Check(bad == "", rule, "loadOptions: jsinject/elemhide/content/urlblock/genericblock/generichide/extension/popup => document requests only", lo.Pos(), "condition of permittedRequestTypes = TypeDocument equals the disjunction of the eight option tests", bad)
}
