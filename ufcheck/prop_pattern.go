package main

import (
	"strings"

	"golang.org/x/tools/go/ssa"
)

// patternVerdict evaluates the pattern check (the function that calls the lazy
// compile routine) with the compile routine expanded into it, so that the
// judgement does not depend on how the two divide the work or on how the
// routine reports its outcome (an int code, a flag, the expression itself).
//
//	notFromMatch:  the check answers true although no compiled expression matched
//	               and the compiled text is not known to be the lone-'*' expansion
//	nilUse:        MatchString is reached with a receiver that may be nil
//	failAccepted:  the check can answer true after the compile failed
//	invalidSet:    a failed compile marks the rule invalid
type patternVerdictResult struct {
	undecided    string
	notFromMatch string
	nilUse       string
	failAccepted bool
	invalidSet   bool
	compiles     bool
}

func patternVerdict(c *Ctx, pp, mp, ptr *ssa.Function, anyChar string) patternVerdictResult {
	var res patternVerdictResult
	g := NewGate(c.P)
	g.Inline = inlineOnly(FuncName(pp), "(*rules.NetworkRule).IsOptionEnabled")
	if ptr != nil {
		g.Pure[FuncName(ptr)] = true
	}
	s := g.Eval(mp)
	u := g.U
	if len(s.Rets) == 0 || len(s.Rets[0].Vals) != 1 {
		res.undecided = "UNDECIDED: the pattern check is not a predicate"
		return res
	}
	recv := g.ParamExprs(mp)[0]
	H := u.ToBool(g.RetExpr(s, 0))
	// atoms
	var matched, everything, errNil Ref = False, False, False
	for _, at := range u.atoms {
		switch {
		case at.Op == "call" && (at.Aux == "(*regexp.Regexp).MatchString" || at.Aux == "(*regexp.Regexp).Match"):
			matched = u.bdd.Or(matched, u.Atom(at))
		case at.Op == "eq":
			for i := 0; i < 2; i++ {
				x, y := at.Args[i], at.Args[1-i]
				if ptr != nil && x.Op == "call" && x.Aux == calleeName(ptr) && isStr(y, anyChar) {
					everything = u.bdd.Or(everything, u.Atom(at))
				}
				if y.IsNil() && x.Op == "extract" && x.Aux == "1" && x.Args[0].Op == "call" && x.Args[0].Aux == "regexp.Compile" {
					errNil = u.Atom(at)
				}
			}
		}
	}
	// library contract: regexp.Compile returns a nil expression exactly when it returns an error
	var ax Ref = True
	if errNil != False {
		for _, at := range u.atoms {
			if at.Op != "eq" {
				continue
			}
			for i := 0; i < 2; i++ {
				x, y := at.Args[i], at.Args[1-i]
				if y.IsNil() && x.Op == "extract" && x.Aux == "0" && x.Args[0].Op == "call" && x.Args[0].Aux == "regexp.Compile" {
					ax = u.bdd.And(ax, u.bdd.Iff(errNil, u.bdd.Not(u.Atom(at))))
				}
			}
		}
	}
	H = u.bdd.And(H, ax)
	if rest := u.bdd.And(H, u.bdd.Not(u.bdd.Or(matched, everything))); rest != False {
		res.notFromMatch = clip(u.ShowBool(rest), 200)
	}
	// the receiver of every match call is not nil
	regexNil := u.ToBool(u.Eq(u.Field(recv, "regex", nil), u.mk("nil", "", nil)))
	var compileCond Ref = False
	for _, ef := range s.Effects {
		if ef.Kind != "call" {
			continue
		}
		if ef.Call.Aux == "regexp.Compile" {
			res.compiles = true
			compileCond = u.bdd.Or(compileCond, ef.Cond)
		}
		if !strings.HasPrefix(ef.Call.Aux, "(*regexp.Regexp).Match") || len(ef.Call.Args) == 0 {
			continue
		}
		for leaf, lc := range u.Leaves(ef.Call.Args[0]) {
			cond := u.bdd.And(ef.Cond, lc)
			if cond == False {
				continue
			}
			switch {
			case leaf.Op == "field" && leaf.Aux == "regex" && u.bdd.Implies(cond, u.bdd.Not(regexNil)):
			case leaf.Op == "extract" && leaf.Aux == "0" && leaf.Args[0].Op == "call" && leaf.Args[0].Aux == "regexp.Compile" && errNil != False && u.bdd.Implies(cond, errNil):
			default:
				res.nilUse = c.P.Pos(ef.Pos) + ": the expression " + clip(u.Show(leaf), 60) + " may be nil here"
			}
		}
	}
	if errNil != False {
		failed := u.bdd.And(compileCond, u.bdd.Not(errNil))
		res.failAccepted = u.bdd.And(H, failed) != False
		for _, ef := range s.Effects {
			if ef.Kind == "store" && ef.Addr.Op == "faddr" && ef.Addr.Aux == "invalid" && ef.Val.Op == "bool" && ef.Val.B == True && u.bdd.Implies(failed, ef.Cond) && u.bdd.Implies(ef.Cond, u.bdd.Not(errNil)) {
				res.invalidSet = true
			}
		}
	}
	return res
}
