package main

// Helpers over go/ssa shared by the rule sets.

import (
	"go/constant"
	"go/token"
	"go/types"
	"sort"
	"strings"

	"golang.org/x/tools/go/ssa"
)

func eachInstr(fn *ssa.Function, f func(b *ssa.BasicBlock, in ssa.Instruction)) {
	for _, b := range fn.Blocks {
		for _, in := range b.Instrs {
			f(b, in)
		}
	}
}

// withAnon returns fn and all its (transitively) anonymous functions.
func withAnon(fn *ssa.Function) []*ssa.Function {
	out := []*ssa.Function{fn}
	for _, a := range fn.AnonFuncs {
		out = append(out, withAnon(a)...)
	}
	return out
}

// callSites returns the call instructions of fn whose static callee satisfies
// match (dynamic calls are offered with callee == nil).
func callSites(fn *ssa.Function, match func(callee *ssa.Function, c *ssa.CallCommon) bool) []ssa.CallInstruction {
	var out []ssa.CallInstruction
	eachInstr(fn, func(_ *ssa.BasicBlock, in ssa.Instruction) {
		if ci, ok := in.(ssa.CallInstruction); ok {
			if match(ci.Common().StaticCallee(), ci.Common()) {
				out = append(out, ci)
			}
		}
	})
	return out
}

func callsTo(fn *ssa.Function, target *ssa.Function) []ssa.CallInstruction {
	return callSites(fn, func(c *ssa.Function, _ *ssa.CallCommon) bool { return c != nil && c == target })
}

func callsToName(fn *ssa.Function, fullName string) []ssa.CallInstruction {
	return callSites(fn, func(c *ssa.Function, _ *ssa.CallCommon) bool { return c != nil && calleeName(c) == fullName })
}

// invokesOf returns interface-method call sites with the given method name.
func invokesOf(fn *ssa.Function, method string) []ssa.CallInstruction {
	return callSites(fn, func(_ *ssa.Function, c *ssa.CallCommon) bool {
		return c.IsInvoke() && c.Method.Name() == method
	})
}

// anchors resolves functions and records unresolved anchors as violations.
type anchors struct {
	c    *Ctx
	rule string
	bad  bool
}

func (a *anchors) fn(pkg, name string) *ssa.Function {
	f := a.c.P.Func(pkg, name)
	if f == nil || f.Blocks == nil {
		a.bad = true
		a.c.Fail(a.rule, "anchor:"+pkg+"."+name, token.NoPos, "unresolved anchor: function not found (renamed or removed); the rule cannot be evaluated (fail closed)")
		return nil
	}
	a.c.Fn(FuncName(f))
	return f
}

func (a *anchors) method(pkg, typ, name string) *ssa.Function {
	f := a.c.P.Method(pkg, typ, name)
	if f == nil || f.Blocks == nil {
		a.bad = true
		a.c.Fail(a.rule, "anchor:"+pkg+"."+typ+"."+name, token.NoPos, "unresolved anchor: method not found (renamed or removed); the rule cannot be evaluated (fail closed)")
		return nil
	}
	a.c.Fn(FuncName(f))
	return f
}

func (a *anchors) constInt(pkg, name string) (int64, bool) {
	k := a.c.P.Const(pkg, name)
	if k == nil {
		a.bad = true
		a.c.Fail(a.rule, "anchor:const "+pkg+"."+name, token.NoPos, "unresolved anchor: constant not found")
		return 0, false
	}
	v, ok := constant.Int64Val(constant.ToInt(k.Val()))
	return v, ok
}

func (a *anchors) constStr(pkg, name string) (string, bool) {
	k := a.c.P.Const(pkg, name)
	if k == nil || k.Val().Kind() != constant.String {
		a.bad = true
		a.c.Fail(a.rule, "anchor:const "+pkg+"."+name, token.NoPos, "unresolved anchor: constant not found")
		return "", false
	}
	return constant.StringVal(k.Val()), true
}

// ---- loops ----

type Loop struct {
	Header *ssa.BasicBlock
	Blocks map[*ssa.BasicBlock]bool
	// Exits are the edges leaving the loop.
	Exits   [][2]*ssa.BasicBlock
	Latches []*ssa.BasicBlock
}

func loopsOf(fn *ssa.Function) []*Loop {
	var out []*Loop
	for _, b := range fn.Blocks {
		isHead := false
		for _, p := range b.Preds {
			if b.Dominates(p) {
				isHead = true
			}
		}
		if !isHead {
			continue
		}
		l := &Loop{Header: b, Blocks: loopBlocks(b)}
		for _, p := range b.Preds {
			if b.Dominates(p) {
				l.Latches = append(l.Latches, p)
			}
		}
		var blks []*ssa.BasicBlock
		for x := range l.Blocks {
			blks = append(blks, x)
		}
		sort.Slice(blks, func(i, j int) bool { return blks[i].Index < blks[j].Index })
		for _, x := range blks {
			for _, s := range x.Succs {
				if !l.Blocks[s] {
					l.Exits = append(l.Exits, [2]*ssa.BasicBlock{x, s})
				}
			}
		}
		out = append(out, l)
	}
	return out
}

// innermostLoop returns the innermost loop containing b, or nil.
func innermostLoop(loops []*Loop, b *ssa.BasicBlock) *Loop {
	var best *Loop
	for _, l := range loops {
		if l.Blocks[b] && (best == nil || len(l.Blocks) < len(best.Blocks)) {
			best = l
		}
	}
	return best
}

// RangedOver describes what a loop iterates over.
type RangedOver struct {
	Coll  ssa.Value // the collection (slice/string/map) value
	Kind  string    // "range-next" (map/string Range), "index" (counted 0..len(coll))
	Index ssa.Value // the φ holding the index (index loops)
	Full  bool      // index loops: starts at 0 (or -1 pre-incremented), step +1, bound len(Coll)
}

// rangedOver recognises the two loop shapes go/ssa produces for `for range`
// over slices (index loop with φ from -1, incremented first) and over
// maps/strings (Range/Next), plus the explicit three-clause counted loop.
func rangedOver(l *Loop) *RangedOver {
	h := l.Header
	// Range/Next form: header contains Next(iter)
	for _, in := range h.Instrs {
		if nx, ok := in.(*ssa.Next); ok {
			if rg, ok := nx.Iter.(*ssa.Range); ok {
				return &RangedOver{Coll: rg.X, Kind: "range-next", Full: true}
			}
		}
	}
	// index form: header: phi i; inc = i+1; cond = inc < len(coll); if cond
	iff, ok := h.Instrs[len(h.Instrs)-1].(*ssa.If)
	if !ok {
		return nil
	}
	cmp, ok := iff.Cond.(*ssa.BinOp)
	if !ok {
		return nil
	}
	var idx, bound ssa.Value
	switch cmp.Op {
	case token.LSS:
		idx, bound = cmp.X, cmp.Y
	case token.GTR:
		idx, bound = cmp.Y, cmp.X
	case token.NEQ:
		idx, bound = cmp.X, cmp.Y
	default:
		return nil
	}
	coll := lenOf(bound)
	if coll == nil {
		return nil
	}
	ro := &RangedOver{Coll: coll, Kind: "index"}
	// idx is either φ (three-clause loop, body increments) or φ+1 (range form)
	switch x := idx.(type) {
	case *ssa.Phi:
		ro.Index = x
		ro.Full = phiCounts(x, l, 0)
	case *ssa.BinOp:
		if ph, ok := x.X.(*ssa.Phi); ok && x.Op == token.ADD && isConstInt(x.Y, 1) {
			ro.Index = x
			ro.Full = phiCountsRange(ph, x, l)
		}
	}
	return ro
}

func lenOf(v ssa.Value) ssa.Value {
	c, ok := v.(*ssa.Call)
	if !ok {
		return nil
	}
	b, ok := c.Call.Value.(*ssa.Builtin)
	if !ok || b.Name() != "len" {
		return nil
	}
	return c.Call.Args[0]
}

func isConstInt(v ssa.Value, n int64) bool {
	c, ok := v.(*ssa.Const)
	if !ok || c.Value == nil || c.Value.Kind() != constant.Int {
		return false
	}
	x, ok := constant.Int64Val(c.Value)
	return ok && x == n
}

// phiCounts: φ = [start from outside, φ+1 from every latch].
func phiCounts(ph *ssa.Phi, l *Loop, start int64) bool {
	if ph.Block() != l.Header {
		return false
	}
	for i, p := range ph.Block().Preds {
		e := ph.Edges[i]
		if l.Blocks[p] {
			b, ok := e.(*ssa.BinOp)
			if !ok || b.Op != token.ADD || b.X != ssa.Value(ph) || !isConstInt(b.Y, 1) {
				return false
			}
		} else if !isConstInt(e, start) {
			return false
		}
	}
	return true
}

// phiCountsRange: φ = [-1 from outside, inc from latches] with inc = φ+1.
func phiCountsRange(ph *ssa.Phi, inc *ssa.BinOp, l *Loop) bool {
	if ph.Block() != l.Header {
		return false
	}
	for i, p := range ph.Block().Preds {
		e := ph.Edges[i]
		if l.Blocks[p] {
			if e != ssa.Value(inc) {
				return false
			}
		} else if !isConstInt(e, -1) {
			return false
		}
	}
	return true
}

// ---- fields ----

// fieldOf returns (struct named type name, field name) for a FieldAddr/Field.
func fieldOf(v ssa.Value) (owner *types.Named, field string, ok bool) {
	switch x := v.(type) {
	case *ssa.FieldAddr:
		t := x.X.Type()
		if p, isP := t.Underlying().(*types.Pointer); isP {
			t = p.Elem()
		}
		n, _ := t.(*types.Named)
		st, isS := t.Underlying().(*types.Struct)
		if !isS {
			return nil, "", false
		}
		return n, st.Field(x.Field).Name(), true
	case *ssa.Field:
		t := x.X.Type()
		n, _ := t.(*types.Named)
		st, isS := t.Underlying().(*types.Struct)
		if !isS {
			return nil, "", false
		}
		return n, st.Field(x.Field).Name(), true
	}
	return nil, "", false
}

func namedIs(n *types.Named, pkgShort, name string) bool {
	if n == nil || n.Obj() == nil || n.Obj().Pkg() == nil {
		return false
	}
	return n.Obj().Name() == name && n.Obj().Pkg().Path() == pkgPath(pkgShort)
}

// FieldWrite is a store (or map update / append-store) to a struct field.
type FieldWrite struct {
	Fn    *ssa.Function
	Instr ssa.Instruction
	Kind  string // "store", "mapupdate"
	Val   ssa.Value
}

// fieldWrites finds every write to field `field` of struct type (pkg.typ) in
// the library: direct stores, and MapUpdate on a map loaded from the field.
func fieldWrites(p *Prog, pkg, typ, field string) []FieldWrite {
	var out []FieldWrite
	for _, fn := range p.AllLibFuncs() {
		eachInstr(fn, func(_ *ssa.BasicBlock, in ssa.Instruction) {
			switch in := in.(type) {
			case *ssa.Store:
				if n, f, ok := fieldOf(in.Addr); ok && f == field && namedIs(n, pkg, typ) {
					out = append(out, FieldWrite{fn, in, "store", in.Val})
				}
			case *ssa.MapUpdate:
				if ld, ok := in.Map.(*ssa.UnOp); ok && ld.Op == token.MUL {
					if n, f, ok := fieldOf(ld.X); ok && f == field && namedIs(n, pkg, typ) {
						out = append(out, FieldWrite{fn, in, "mapupdate", in.Value})
					}
				}
			}
		})
	}
	return out
}

// fieldReads finds every load of the field in fn (and optionally callees).
func fieldReadsIn(fn *ssa.Function, pkg, typ, field string) []ssa.Instruction {
	var out []ssa.Instruction
	eachInstr(fn, func(_ *ssa.BasicBlock, in ssa.Instruction) {
		switch in := in.(type) {
		case *ssa.UnOp:
			if in.Op == token.MUL {
				if n, f, ok := fieldOf(in.X); ok && f == field && namedIs(n, pkg, typ) {
					out = append(out, in)
				}
			}
		case *ssa.Field:
			if n, f, ok := fieldOf(in); ok && f == field && namedIs(n, pkg, typ) {
				out = append(out, in)
			}
		}
	})
	return out
}

// structFields lists the field names of a named struct type.
func structFields(n *types.Named) []string {
	st, ok := n.Underlying().(*types.Struct)
	if !ok {
		return nil
	}
	var out []string
	for i := 0; i < st.NumFields(); i++ {
		out = append(out, st.Field(i).Name())
	}
	return out
}

func shortFn(fn *ssa.Function) string {
	s := FuncName(fn)
	return strings.TrimPrefix(s, "urlfilter.")
}

func constantInt(v int64) constant.Value { return constant.MakeInt64(v) }
