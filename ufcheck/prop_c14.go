package main

// C14 — engines can be queried concurrently: race-free and sequentially consistent.

import (
	"fmt"
	"go/token"
	"go/types"
	"strings"

	"golang.org/x/tools/go/ssa"
)

func init() {
	register(&PropDef{
		ID:  "C14",
		Run: runC14,
		Explanation: "Static lockset discipline on the shared state that queries touch (the memo states found by the ownership analysis of C13). R1: the rule cache map is written only with its RWMutex held exclusively and read only with it held (shared or exclusive); " +
			"the rule's compiled pattern and invalid flag are written only with the rule mutex held and read either under it or after the compile routine has returned (publish-once); the file list's Seek and every read of its file and buffer happen inside ONE hold of the list mutex. " +
			"R2: every acquire is released on all exits (deferred unlock, or an unlock that every path to a return passes). R3: no lock is acquired while another library lock is held. R4: the pooled request is released by a deferred Put (or after its last use), " +
			"is not stored into the heap and is not returned. R5: nothing reachable from a query writes the engines' index structures (shared with C13.R1). R4 also requires the pooled request to be released exactly once on every path. The rule cache and its mutex are located by type (the index->rule map of package filterlist and the mutex next to it), wherever the struct sits. R6: the read buffer a file list's mutex guards is allocated for that list alone. A helper that is a critical section by itself counts as one hold at its call site; release wrappers of the pool are releases. R7: the cache insert is dominated, in its own function, by a comma-ok lookup of the same map and key taken after the write lock, lies on the not-found side of that test, and the instance found is handed on (two goroutines that miss the cold cache together must not leave two instances of one rule: callers tell rules apart by pointer). R8 (shared with C11.R4): of the read buffer that the file list's mutex guards only the bytes of the current read are looked at, so what a retrieval hands back does not depend on the retrievals that ran before it. R9: the constructor handed to a pool (sync.Pool.New or syncutil.NewPool) reads no captured variable and no package variable that holds slices, maps or pointers: every pooled object is built from constants and fresh allocations, so two objects handed out at the same time share no memory.",
		Trusted:     []string{"sync.Mutex/RWMutex, sync.Pool semantics; the Go memory model (a write under a mutex happens-before a later acquire)", "C13 (purity) for 'each concurrent answer equals the sequential answer'"},
		Assumptions: []string{"schedules are not explored: race freedom is derived from the lockset discipline, not observed by a race detector", "RuleStorage.GetCacheSize (a diagnostic, not an engine query) reads the cache size without the lock; it is out of the property's scope"},
	})
}

// lockCall describes a Lock/Unlock style call.
type lockCall struct {
	in       ssa.Instruction
	mu       string // canonical mutex identity (gate expression key)
	op       string // Lock | RLock | Unlock | RUnlock
	deferred bool
}

func mutexOp(cal *ssa.Function) string {
	if cal == nil {
		return ""
	}
	n := calleeName(cal)
	switch n {
	case "(*sync.Mutex).Lock", "(*sync.RWMutex).Lock":
		return "Lock"
	case "(*sync.RWMutex).RLock":
		return "RLock"
	case "(*sync.Mutex).Unlock", "(*sync.RWMutex).Unlock":
		return "Unlock"
	case "(*sync.RWMutex).RUnlock":
		return "RUnlock"
	}
	return ""
}

// locksOf lists the lock operations of fn with the identity of their mutex.
func locksOf(fn *ssa.Function, s *Summary, u *U) []lockCall {
	var out []lockCall
	eachInstr(fn, func(_ *ssa.BasicBlock, in ssa.Instruction) {
		var cc *ssa.CallCommon
		deferred := false
		switch x := in.(type) {
		case *ssa.Call:
			cc = &x.Call
		case *ssa.Defer:
			cc = &x.Call
			deferred = true
		default:
			return
		}
		op := mutexOp(cc.StaticCallee())
		if op == "" || len(cc.Args) == 0 {
			return
		}
		id := "?"
		if e := s.Env[cc.Args[0]]; e != nil {
			id = e.key
		}
		out = append(out, lockCall{in: in, mu: id, op: op, deferred: deferred})
	})
	return out
}

// heldAt reports which acquire (if any) of the given kinds covers instruction at:
// an acquire L of mutex mu dominates it, and no non-deferred release of mu lies on a path from L to it.
func heldAt(fn *ssa.Function, locks []lockCall, at ssa.Instruction, kinds ...string) *lockCall {
	for i := range locks {
		l := &locks[i]
		okKind := false
		for _, k := range kinds {
			if l.op == k {
				okKind = true
			}
		}
		if !okKind || l.deferred {
			continue
		}
		if !instrDominates(l.in, at) {
			continue
		}
		released := false
		for _, r := range locks {
			if r.mu != l.mu || r.deferred || (r.op != "Unlock" && r.op != "RUnlock") {
				continue
			}
			if instrDominates(l.in, r.in) && instrReaches(r.in, at) {
				released = true
			}
		}
		if !released {
			return l
		}
	}
	return nil
}

func instrIndex(in ssa.Instruction) int {
	for i, x := range in.Block().Instrs {
		if x == in {
			return i
		}
	}
	return -1
}

func instrDominates(a, b ssa.Instruction) bool {
	if a.Block() == b.Block() {
		return instrIndex(a) < instrIndex(b)
	}
	return a.Block().Dominates(b.Block())
}

func instrReaches(a, b ssa.Instruction) bool {
	if a.Block() == b.Block() && instrIndex(a) < instrIndex(b) {
		return true
	}
	for _, s := range a.Block().Succs {
		if reaches(s, b.Block()) {
			return true
		}
	}
	return false
}

func runC14(c *Ctx) {
	c.Rule("C14.R1", "LOCK", "every access to a memo state holds its lock (publish-once accepted for the compiled pattern)", 6)
	c.Rule("C14.R2", "LOCK", "every acquire is released on all exits", 4)
	c.Rule("C14.R3", "LOCK", "no lock acquired while another library lock is held", 3)
	c.Rule("C14.R4", "EFF", "pooled request: deferred Put (or Put after the last use), not stored, not returned", 1)
	c.Rule("C14.R5", "EFF", "queries never write the engines' index structures", 1)

	roots := queryRoots(c)
	reach := c.P.Reachable(roots...)
	var fns []*ssa.Function
	for f := range reach {
		if c.P.IsLibFunc(f) && f.Blocks != nil {
			fns = append(fns, f)
		}
	}
	type fctx struct {
		g     *Gate
		s     *Summary
		locks []lockCall
	}
	cache := map[*ssa.Function]*fctx{}
	ctxOf := func(fn *ssa.Function) *fctx {
		// closures are evaluated as part of their parent so that captured cells resolve
		if x, ok := cache[fn]; ok {
			return x
		}
		g := NewGate(c.P)
		g.Inline = inlineOnly()
		s := g.Eval(fn)
		x := &fctx{g: g, s: s, locks: locksOf(fn, s, g.U)}
		cache[fn] = x
		return x
	}
	// mutex identity across a closure and its parent: compare by the field name of the mutex and the field path
	muName := func(id string) string {
		i := strings.Index(id, "<")
		j := strings.Index(id, ">")
		if i >= 0 && j > i {
			return id[i+1 : j]
		}
		return id
	}

	// ---------- R1 (a): rule cache ----------
	nCache := 0
	cOwner, cField, cMus := ruleCacheField(c.P)
	for _, fn := range fns {
		var sites []ssa.Instruction
		var kinds []string
		eachInstr(fn, func(_ *ssa.BasicBlock, in ssa.Instruction) {
			switch x := in.(type) {
			case *ssa.MapUpdate:
				if ld, ok := x.Map.(*ssa.UnOp); ok {
					if n, f, ok := fieldOf(ld.X); ok && f == cField && namedIs(n, "filterlist", cOwner) {
						sites = append(sites, in)
						kinds = append(kinds, "write")
					}
				}
			case *ssa.Lookup:
				if ld, ok := x.X.(*ssa.UnOp); ok {
					if n, f, ok := fieldOf(ld.X); ok && f == cField && namedIs(n, "filterlist", cOwner) {
						sites = append(sites, in)
						kinds = append(kinds, "read")
					}
				}
			}
		})
		if len(sites) == 0 {
			continue
		}
		fc := ctxOf(fn)
		c.Fn(FuncName(fn))
		for i, at := range sites {
			nCache++
			key := fmt.Sprintf("%s: %s of RuleStorage.cache holds cacheMu", shortFn(fn), kinds[i])
			var l *lockCall
			if kinds[i] == "write" {
				l = heldAt(fn, fc.locks, at, "Lock")
			} else {
				l = heldAt(fn, fc.locks, at, "Lock", "RLock")
			}
			okMu := false
			for _, m := range cMus {
				if l != nil && muName(l.mu) == m {
					okMu = true
				}
			}
			why := "the rule cache map is " + map[string]string{"write": "written without the exclusive lock", "read": "read without the lock"}[kinds[i]] + ": concurrent queries race on the map (concurrent map read and map write is a fatal error in Go)"
			if l != nil && !okMu {
				why = "the access is protected by a different mutex (" + muName(l.mu) + ") than the cache's"
			}
			c.Check(okMu, "C14.R1", key, at.Pos(), "dominated by the acquire, no release in between", why)
		}
	}
	if nCache == 0 {
		c.Fail("C14.R1", "RuleStorage.cache accesses", token.NoPos, "UNDECIDED: no access to the rule cache found in query-reachable code")
	}

	// ---------- R1 (b): compiled pattern ----------
	{
		pp := c.P.Method("rules", "NetworkRule", "preparePattern")
		nW, nR := 0, 0
		for _, fn := range fns {
			var sites []ssa.Instruction
			var isW []bool
			eachInstr(fn, func(_ *ssa.BasicBlock, in ssa.Instruction) {
				switch x := in.(type) {
				case *ssa.Store:
					if n, f, ok := fieldOf(x.Addr); ok && (f == "regex" || f == "invalid") && namedIs(n, "rules", "NetworkRule") {
						sites = append(sites, in)
						isW = append(isW, true)
					}
				case *ssa.UnOp:
					if x.Op == token.MUL {
						if n, f, ok := fieldOf(x.X); ok && (f == "regex" || f == "invalid") && namedIs(n, "rules", "NetworkRule") {
							sites = append(sites, in)
							isW = append(isW, false)
						}
					}
				}
			})
			if len(sites) == 0 {
				continue
			}
			fc := ctxOf(fn)
			c.Fn(FuncName(fn))
			for i, at := range sites {
				l := heldAt(fn, fc.locks, at, "Lock")
				held := l != nil && strings.Contains(l.mu, "Mutex")
				if !held && c.P.IsNewHelper(fn) {
					// a helper outside the vocabulary that requires the lock: every call of it is made
					// with the mutex held
					held = heldAtEveryCall(c, fn, 0)
				}
				if isW[i] {
					nW++
					c.Check(held, "C14.R1", shortFn(fn)+": write of the compiled pattern / invalid flag holds the rule mutex", at.Pos(), "dominated by f.Lock(), released by the deferred Unlock",
						"the lazily compiled pattern is published without the rule mutex: two goroutines matching the same rule race on it")
					continue
				}
				nR++
				// publish-once: the read follows a call of the compile routine in the same function
				after := false
				if pp != nil {
					for _, site := range callsTo(fn, pp) {
						if instrDominates(site, at) {
							after = true
						}
					}
				}
				c.Check(held || after, "C14.R1", shortFn(fn)+": read of the compiled pattern / invalid flag is synchronised", at.Pos(), "under the rule mutex, or after preparePattern (which acquires it) has returned",
					"the compiled pattern is read without the rule mutex and without a preceding call of the compile routine")
			}
		}
		if nW == 0 {
			c.Fail("C14.R1", "compiled pattern writes", token.NoPos, "UNDECIDED: no write of NetworkRule.regex/invalid in query-reachable code")
		}
		_ = nR
	}

	// ---------- R1 (c): file list ----------
	if frl := c.P.Method("filterlist", "FileRuleList", "RetrieveRule"); frl != nil {
		_ = ctxOf(frl)
		c.Fn(FuncName(frl))
		usesShared := func(in ssa.Instruction) bool {
			cl, ok := in.(*ssa.Call)
			if !ok {
				return false
			}
			// any call that receives the file or the shared buffer
			for _, a := range cl.Call.Args {
				if ld, ok := a.(*ssa.UnOp); ok && ld.Op == token.MUL {
					if n, f, ok := fieldOf(ld.X); ok && (f == "File" || f == "buffer") && namedIs(n, "filterlist", "FileRuleList") {
						return true
					}
				}
				if mi, ok := a.(*ssa.MakeInterface); ok {
					if ld, ok := mi.X.(*ssa.UnOp); ok && ld.Op == token.MUL {
						if n, f, ok := fieldOf(ld.X); ok && f == "File" && namedIs(n, "filterlist", "FileRuleList") {
							return true
						}
					}
				}
			}
			return false
		}
		// uses made by helpers outside the vocabulary count at the call site in the retriever
		var nestedUses func(fn *ssa.Function, depth int) int
		nestedUses = func(fn *ssa.Function, depth int) int {
			n := 0
			if depth > 4 {
				return 0
			}
			eachInstr(fn, func(_ *ssa.BasicBlock, in ssa.Instruction) {
				if usesShared(in) {
					n++
				} else if cl, ok := in.(*ssa.Call); ok {
					if cal := cl.Call.StaticCallee(); cal != nil && c.P.IsNewHelper(cal) && cal != fn {
						n += nestedUses(cal, depth+1)
					}
				}
			})
			return n
		}
		// judge: the uses of the shared file/buffer in fn (those of helpers outside the vocabulary
		// counted at their call sites) lie inside one hold of the mutex acquired in fn.  A helper
		// that is such a critical section by itself counts as one self-contained hold.
		var judge func(fn *ssa.Function, depth int) (int, string)
		judge = func(fn *ssa.Function, depth int) (int, string) {
			fcx := ctxOf(fn)
			var ops []ssa.Instruction
			selfHeld, selfOps := 0, 0
			eachInstr(fn, func(_ *ssa.BasicBlock, in ssa.Instruction) {
				if usesShared(in) {
					ops = append(ops, in)
					return
				}
				if cl, ok := in.(*ssa.Call); ok {
					if cal := cl.Call.StaticCallee(); cal != nil && c.P.IsNewHelper(cal) && nestedUses(cal, 0) > 0 {
						if depth < 3 {
							if k, hb := judge(cal, depth+1); hb == "" && k >= 1 && heldAt(fn, fcx.locks, in, "Lock") == nil {
								selfHeld++
								selfOps += k
								return
							}
						}
						for k := nestedUses(cal, 0); k > 0; k-- {
							ops = append(ops, in)
						}
					}
				}
			})
			if selfHeld > 0 {
				if selfHeld == 1 && len(ops) == 0 {
					return selfOps, ""
				}
				return selfOps + len(ops), "Seek and the reads are protected by different acquisitions of the mutex: another retrieval can move the file position in between"
			}
			var hold *lockCall
			for _, at := range ops {
				l := heldAt(fn, fcx.locks, at, "Lock")
				if l == nil {
					return len(ops), c.P.Pos(at.Pos()) + ": the shared file/buffer is used outside the list mutex: two retrievals interleave Seek and Read and each parses the other's line (and caches it under the wrong index)"
				}
				if hold == nil {
					hold = l
				} else if hold.in != l.in {
					return len(ops), "Seek and the reads are protected by different acquisitions of the mutex: another retrieval can move the file position in between"
				}
			}
			return len(ops), ""
		}
		nOps, bad := judge(frl, 0)
		ops := make([]struct{}, nOps)
		if len(ops) < 2 && bad == "" {
			bad = fmt.Sprintf("UNDECIDED: expected a Seek and a read of the shared file, found %d uses", len(ops))
		}
		c.Check(bad == "", "C14.R1", "FileRuleList.RetrieveRule: Seek and every read of the shared file/buffer inside one hold of the list mutex", frl.Pos(), fmt.Sprintf("%d uses of File/buffer, all under the same acquire", len(ops)), bad)
	}

	// ---------- R6: what a list's mutex guards belongs to that list ----------
	{
		c.Rule("C14.R6", "EFF", "the read buffer guarded by a file list's mutex is allocated for that list alone", 0)
		e := effOf(c)
		ws := fieldWrites(c.P, "filterlist", "FileRuleList", "buffer")
		for _, w := range ws {
			st, ok := w.Instr.(*ssa.Store)
			if !ok {
				continue
			}
			e.cur = w.Fn
			e.memo = map[ssa.Value]int{}
			c.Check(e.fresh(st.Val), "C14.R6", shortFn(w.Fn)+": FileRuleList.buffer is a fresh allocation", w.Instr.Pos(), "allocated where it is stored",
				"the buffer stored into the list is not allocated for it (a package-level or otherwise shared buffer): the mutex is per list, so retrievals from two lists overwrite each other's bytes and cache the wrong rule")
		}
	}

	// ---------- R7: one instance per cached rule ----------
	// Two queries that miss the cold cache for the same index each parse the rule.  Callers tell
	// rules apart by pointer (the shortcut table's "already in the result" test), so the second
	// insert must not replace the first: under the write lock the entry is looked up again, the
	// insert happens only when it is still absent, and otherwise the instance found is what the
	// retrieval hands back.
	// ---------- R9: what a pool hands out is private to the one who got it ----------
	// Two queries running at the same time hold two pooled objects.  A constructor that copies a
	// template (or anything else it shares with its other results) into each new object makes their
	// slices / maps share memory, and a write through one (append to the slice kept for reuse) is seen
	// through the other.
	{
		c.Rule("C14.R9", "EFF", "the constructor of a pool builds each object from constants and fresh allocations only", 1)
		n := 0
		for _, fn := range c.P.AllLibFuncs() {
			eachInstr(fn, func(_ *ssa.BasicBlock, in ssa.Instruction) {
				var ctor ssa.Value
				var st ssa.Instruction
				switch x := in.(type) {
				case *ssa.Store:
					// sync.Pool{New: f}
					fa, ok := x.Addr.(*ssa.FieldAddr)
					if !ok {
						return
					}
					pt, ok := fa.X.Type().Underlying().(*types.Pointer)
					if !ok || typeStr(pt.Elem()) != "sync.Pool" {
						return
					}
					if stt, ok := pt.Elem().Underlying().(*types.Struct); !ok || stt.Field(fa.Field).Name() != "New" {
						return
					}
					ctor, st = x.Val, x
				case ssa.CallInstruction:
					// syncutil.NewPool(f)
					cal := x.Common().StaticCallee()
					if cal == nil || !strings.HasPrefix(cal.Name(), "NewPool") || len(x.Common().Args) != 1 {
						return
					}
					if _, isSig := x.Common().Args[0].Type().Underlying().(*types.Signature); !isSig {
						return
					}
					ctor, st = x.Common().Args[0], x
				default:
					return
				}
				var nf *ssa.Function
				switch v := ctor.(type) {
				case *ssa.MakeClosure:
					nf, _ = v.Fn.(*ssa.Function)
				case *ssa.Function:
					nf = v
				}
				if nf == nil {
					return
				}
				n++
				bad := ""
				hasRef := func(t types.Type) bool {
					found := false
					var walk func(t types.Type, d int)
					walk = func(t types.Type, d int) {
						if d > 4 || found {
							return
						}
						switch u := t.Underlying().(type) {
						case *types.Slice, *types.Map, *types.Chan, *types.Signature, *types.Interface:
							found = true
						case *types.Pointer:
							found = true
						case *types.Struct:
							for i := 0; i < u.NumFields(); i++ {
								walk(u.Field(i).Type(), d+1)
							}
						case *types.Array:
							walk(u.Elem(), d+1)
						}
					}
					walk(t, 0)
					return found
				}
				for _, g := range groupFuncs(c.P, nf) {
					for _, fv := range g.FreeVars {
						t := fv.Type()
						if p, isP := t.Underlying().(*types.Pointer); isP {
							t = p.Elem()
						}
						if hasRef(t) && bad == "" {
							bad = "the constructor of the pool reads " + fv.Name() + " (" + typeStr(t) + "), which it shares with every other object it builds: the slices / maps / pointers in it are then common to all pooled objects, and two queries that hold two of them at the same time write the same memory"
						}
					}
					eachInstr(g, func(_ *ssa.BasicBlock, in2 ssa.Instruction) {
						if ld, ok := in2.(*ssa.UnOp); ok && ld.Op == token.MUL {
							if gl, isG := ld.X.(*ssa.Global); isG && gl.Pkg != nil && strings.HasPrefix(gl.Pkg.Pkg.Path(), "github.com/AdguardTeam/urlfilter") && hasRef(ld.Type()) && bad == "" {
								bad = "the constructor of the pool copies the package variable " + gl.Name() + " into each object: its slices / maps / pointers are then common to all pooled objects"
							}
						}
					})
				}
				c.Check(bad == "", "C14.R9", shortFn(fn)+": pool constructor", st.Pos(), "no captured variable or package variable holding references is read by New", bad)
			})
		}
		if n == 0 {
			c.Notes = append(c.Notes, "no sync.Pool with a New function in the library")
		}
	}

	importRules(c, runC11, map[string]string{"C11.R4": "C14.R8"}, map[string]string{"C14.R8": "what a file list hands back does not depend on the retrievals before it: of the read buffer that the list's lock guards only the bytes of this read are looked at (shared with C11.R4)"})
	{
		c.Rule("C14.R7", "LOCK", "the cache insert re-checks the entry under the write lock and keeps the instance already stored", 1)
		nIns := 0
		for _, fn := range c.P.AllLibFuncs() {
			if fn.Pkg == nil || !strings.HasSuffix(fn.Pkg.Pkg.Path(), "/filterlist") {
				continue
			}
			eachInstr(fn, func(mb *ssa.BasicBlock, in ssa.Instruction) {
				mu, ok := in.(*ssa.MapUpdate)
				if !ok || in.Parent() == nil {
					return
				}
				ld, ok := mu.Map.(*ssa.UnOp)
				if !ok || ld.Op != token.MUL {
					return
				}
				n, f, ok := fieldOf(ld.X)
				if !ok || n == nil || n.Obj().Name() != cOwner || f != cField {
					return
				}
				nIns++
				F := in.Parent()
				key := shortFn(F) + ": cache insert"
				// a comma-ok lookup of the same map and key, in the same function, after the
				// write lock was taken, whose "found" edge leads away from the insert
				okRecheck, okKeep := false, false
				eachInstr(F, func(lb *ssa.BasicBlock, in2 ssa.Instruction) {
					lk, ok := in2.(*ssa.Lookup)
					if !ok || !lk.CommaOk || in2.Parent() != F || !sameCell(lk.Index, mu.Key) {
						return
					}
					ld2, ok := lk.X.(*ssa.UnOp)
					if !ok || ld2.Op != token.MUL {
						return
					}
					if n2, f2, ok := fieldOf(ld2.X); !ok || n2 != n || f2 != f {
						return
					}
					// after a Lock of this function
					locked := false
					eachInstr(F, func(kb *ssa.BasicBlock, in3 ssa.Instruction) {
						if cl, ok := in3.(*ssa.Call); ok && in3.Parent() == F && mutexOp(cl.Call.StaticCallee()) == "Lock" && instrDominates(in3, in2) {
							locked = true
						}
					})
					if !locked || !instrDominates(in2, in) {
						return
					}
					var okV, valV ssa.Value
					if rs := lk.Referrers(); rs != nil {
						for _, r := range *rs {
							if ex, isEx := r.(*ssa.Extract); isEx {
								if ex.Index == 1 {
									okV = ex
								} else {
									valV = ex
								}
							}
						}
					}
					if okV == nil {
						return
					}
					// the insert lies on the not-found side of a branch on the flag
					if rs := okV.Referrers(); rs != nil {
						for _, r := range *rs {
							iff, isIf := r.(*ssa.If)
							if !isIf {
								continue
							}
							notFound := iff.Block().Succs[1]
							if notFound == mb || notFound.Dominates(mb) {
								if found := iff.Block().Succs[0]; found != mb && !found.Dominates(mb) {
									okRecheck = true
								}
							}
						}
					}
					// the instance found is handed on (stored into the result / returned)
					if valV != nil {
						if rs := valV.Referrers(); rs != nil {
							for _, r := range *rs {
								switch r.(type) {
								case *ssa.Store, *ssa.Return, *ssa.Phi, *ssa.ChangeInterface, *ssa.MakeInterface:
									okKeep = true
								}
							}
						}
					}
				})
				bad := ""
				switch {
				case !okRecheck:
					bad = "the rule parsed after a cache miss is stored without looking the entry up again under the write lock: two queries that miss together each store their own copy, the later one replaces the earlier, and a query that already holds the earlier copy gets the later one for the same index and reports the rule twice (rules are told apart by pointer)"
				case !okKeep:
					bad = "the entry found under the write lock is not what the retrieval hands back: the caller keeps a second instance of a rule that is already cached"
				}
				c.Check(bad == "", "C14.R7", key, in.Pos(), "m[k] looked up again after Lock(); insert only when absent; the instance found is returned", bad)
			})
		}
		if nIns == 0 {
			c.Fail("C14.R7", "rule cache insert", token.NoPos, "UNDECIDED: no insert into the rule cache found")
		}
	}

	// ---------- R2 / R3 ----------
	nAcq := 0
	for _, fn := range fns {
		var hasLock bool
		eachInstr(fn, func(_ *ssa.BasicBlock, in ssa.Instruction) {
			if cl, ok := in.(*ssa.Call); ok {
				if op := mutexOp(cl.Call.StaticCallee()); op == "Lock" || op == "RLock" {
					hasLock = true
				}
			}
		})
		if !hasLock {
			continue
		}
		fc := ctxOf(fn)
		for i := range fc.locks {
			l := &fc.locks[i]
			if l.deferred || (l.op != "Lock" && l.op != "RLock") {
				continue
			}
			nAcq++
			rel := "Unlock"
			if l.op == "RLock" {
				rel = "RUnlock"
			}
			ok := false
			// (a) a deferred release of the same mutex dominated by the acquire and dominating all later code
			for _, r := range fc.locks {
				if r.mu == l.mu && r.op == rel && r.deferred && instrDominates(l.in, r.in) {
					// no return between acquire and defer
					ok = true
				}
			}
			// (b) explicit release on every path to a return
			if !ok {
				all := true
				for _, b := range fn.Blocks {
					if len(b.Instrs) == 0 {
						continue
					}
					if _, isRet := b.Instrs[len(b.Instrs)-1].(*ssa.Return); !isRet || !reaches(l.in.Block(), b) {
						continue
					}
					found := false
					for _, r := range fc.locks {
						if r.mu == l.mu && r.op == rel && !r.deferred && instrDominates(l.in, r.in) && (r.in.Block() == b || r.in.Block().Dominates(b)) {
							found = true
						}
					}
					if !found {
						all = false
					}
				}
				ok = all
			}
			c.Check(ok, "C14.R2", shortFn(fn)+": "+l.op+" of "+muName(l.mu)+" is released on every exit", l.in.Pos(), "deferred "+rel+" (or a "+rel+" on every path to a return)",
				"a path leaves the function with the mutex held: the next query blocks forever")
			// R3: no library lock acquired inside the hold
			nested := ""
			eachInstr(fn, func(_ *ssa.BasicBlock, in ssa.Instruction) {
				ci, ok := in.(ssa.CallInstruction)
				if !ok || in == l.in || !instrDominates(l.in, in) {
					return
				}
				if h := heldAt(fn, fc.locks, in, l.op); h == nil || h.in != l.in {
					return
				}
				if _, isDefer := in.(*ssa.Defer); isDefer {
					return
				}
				for _, cal := range c.P.Callees(ci) {
					if op := mutexOp(cal); op == "Lock" || op == "RLock" {
						nested = c.P.Pos(in.Pos()) + ": acquires another mutex while " + muName(l.mu) + " is held"
					}
					if c.P.IsLibFunc(cal) {
						for sub := range c.P.Reachable(cal) {
							if !c.P.IsLibFunc(sub) {
								continue
							}
							eachInstr(sub, func(_ *ssa.BasicBlock, in2 ssa.Instruction) {
								if c2, ok := in2.(*ssa.Call); ok {
									if op := mutexOp(c2.Call.StaticCallee()); op == "Lock" || op == "RLock" {
										nested = c.P.Pos(in.Pos()) + ": calls " + shortFn(cal) + ", which acquires a mutex (" + shortFn(sub) + "), while " + muName(l.mu) + " is held: lock-order cycle risk"
									}
								}
							})
						}
					}
				}
			})
			c.Check(nested == "", "C14.R3", shortFn(fn)+": nothing acquires a lock while "+muName(l.mu)+" is held", l.in.Pos(), "no lock-order edge", nested)
		}
	}
	if nAcq == 0 {
		c.Fail("C14.R2", "lock acquisitions", token.NoPos, "UNDECIDED: no acquire found in query-reachable code (the memo states are unprotected)")
	}

	// ---------- R4 ----------
	{
		n := 0
		for _, fn := range fns {
			var gets []*ssa.Call
			eachInstr(fn, func(_ *ssa.BasicBlock, in ssa.Instruction) {
				if cl, ok := in.(*ssa.Call); ok {
					if cal := cl.Call.StaticCallee(); cal != nil && strings.Contains(calleeName(cal), "syncutil.Pool") && strings.HasSuffix(strings.TrimSuffix(calleeName(cal), ")"), ".Get") {
						gets = append(gets, cl)
					}
					// wrapper: a library method returning the pooled request
				}
			})
			_ = gets
		}
		mr := c.P.Method("", "DNSEngine", "MatchRequest")
		if mr == nil {
			c.Fail("C14.R4", "anchor:DNSEngine.MatchRequest", token.NoPos, "unresolved anchor")
		} else {
			// the pooled object in MatchRequest: result of the refill helper
			var req ssa.Value
			eachInstr(mr, func(_ *ssa.BasicBlock, in ssa.Instruction) {
				if cl, ok := in.(*ssa.Call); ok {
					if cal := cl.Call.StaticCallee(); cal != nil && cal.Signature.Results().Len() == 1 && typeStr(cl.Type()) == "*rules.Request" {
						// the refill helper, or the pool's Get itself when MatchRequest refills in place
						isGet := strings.Contains(calleeName(cal), "Pool") && strings.HasSuffix(strings.TrimSuffix(calleeName(cal), ")"), ".Get")
						if c.P.IsLibFunc(cal) || isGet {
							req = cl
						}
					}
				}
			})
			bad := ""
			if req == nil {
				bad = "UNDECIDED: no pooled request in MatchRequest"
			} else {
				n++
				var put ssa.Instruction
				putDeferred := false
				nPut := 0
				var uses []ssa.Instruction
				for _, r := range *req.Referrers() {
					switch x := r.(type) {
					case *ssa.Defer:
						if cal := x.Call.StaticCallee(); isPoolPut(c.P, cal, 0) {
							put, putDeferred = x, true
							nPut++
							continue
						}
						uses = append(uses, r)
					case *ssa.Call:
						if cal := x.Call.StaticCallee(); isPoolPut(c.P, cal, 0) {
							if putDeferred {
								// a second release next to the deferred one
								nPut++
								bad = c.P.Pos(x.Pos()) + ": the request is put back into the pool here and again by the deferred Put: the pool then hands the same object to two goroutines (data race, answers for the wrong hostname)"
								continue
							}
							put = x
							nPut++
							continue
						}
						uses = append(uses, r)
					case *ssa.Store:
						if x.Val == req {
							if _, isAlloc := x.Addr.(*ssa.Alloc); !isAlloc {
								bad = c.P.Pos(x.Pos()) + ": the pooled request is stored into the heap and outlives the query"
							}
						}
						uses = append(uses, r)
					case *ssa.Return:
						bad = c.P.Pos(x.Pos()) + ": the pooled request is returned to the caller"
					case *ssa.DebugRef:
					default:
						uses = append(uses, r)
					}
				}
				// field loads through the request also count as uses
				eachInstr(mr, func(_ *ssa.BasicBlock, in ssa.Instruction) {
					if fa, ok := in.(*ssa.FieldAddr); ok && fa.X == req {
						uses = append(uses, in)
					}
				})
				if nPut > 1 && bad == "" {
					// several explicit releases: at most one may be reached on any path
					var puts []ssa.Instruction
					for _, r := range *req.Referrers() {
						if x, ok := r.(*ssa.Call); ok {
							if cal := x.Call.StaticCallee(); isPoolPut(c.P, cal, 0) {
								puts = append(puts, x)
							}
						}
						if x, ok := r.(*ssa.Defer); ok {
							if cal := x.Call.StaticCallee(); isPoolPut(c.P, cal, 0) {
								bad = c.P.Pos(x.Pos()) + ": the request is released by a deferred Put and by an explicit one"
							}
						}
					}
					for i := range puts {
						for j := range puts {
							if i != j && instrReaches(puts[i], puts[j]) && bad == "" {
								bad = c.P.Pos(puts[j].Pos()) + ": the request is put back into the pool twice on one path"
							}
						}
					}
				}
				switch {
				case put == nil && bad == "":
					bad = "the pooled request is never returned to the pool"
				case put != nil && !putDeferred && bad == "":
					for _, us := range uses {
						if instrReaches(put, us) {
							bad = c.P.Pos(us.Pos()) + ": the request is used after it was put back into the pool: another goroutine may already have taken and overwritten it (data race, answers for the wrong hostname)"
						}
					}
				}
			}
			c.Check(bad == "", "C14.R4", "DNSEngine.MatchRequest: pooled request released by a deferred Put / after its last use; never escapes", mr.Pos(), "Put deferred right after Get", bad)
		}
		_ = n
	}

	// ---------- R5 ----------
	{
		e := effOf(c)
		bad := ""
		for _, w := range e.WritesFrom(roots...) {
			if _, ok := allowedMemo(c.P, w); ok {
				continue
			}
			bad = fmt.Sprintf("%s: %s writes %s from a query without synchronisation (%s)", c.P.Pos(w.Instr.Pos()), shortFn(w.Fn), w.What, w.Kind)
			break
		}
		c.Check(bad == "", "C14.R5", "queries write no shared state besides the lock-protected memo states", token.NoPos, fmt.Sprintf("ownership analysis over %d query-reachable functions", len(fns)), bad)
	}
	_ = types.Typ
}

// heldAtEveryCall: fn is called only statically, at least once, and every call site holds a mutex
// (directly, or the calling helper is itself called only with a mutex held).
func heldAtEveryCall(c *Ctx, fn *ssa.Function, depth int) bool {
	if depth > 3 {
		return false
	}
	n := 0
	ok := true
	for _, caller := range c.P.AllLibFuncs() {
		if caller.Blocks == nil {
			continue
		}
		var locks []lockCall
		haveLocks := false
		eachInstr(caller, func(_ *ssa.BasicBlock, in ssa.Instruction) {
			// taken as a value: callers unknown
			for _, op := range in.Operands(nil) {
				if op != nil && *op == ssa.Value(fn) {
					if ci, isCall := in.(ssa.CallInstruction); !isCall || ci.Common().StaticCallee() != fn {
						ok = false
					}
				}
			}
			ci, isCall := in.(ssa.CallInstruction)
			if !isCall || ci.Common().StaticCallee() != fn {
				return
			}
			n++
			if !haveLocks {
				g := NewGate(c.P)
				g.Inline = inlineOnly()
				sm := g.Eval(caller)
				locks = locksOf(caller, sm, g.U)
				haveLocks = true
			}
			l := heldAt(caller, locks, in, "Lock")
			if l != nil && strings.Contains(l.mu, "Mutex") {
				return
			}
			if c.P.IsNewHelper(caller) && heldAtEveryCall(c, caller, depth+1) {
				return
			}
			ok = false
		})
	}
	return ok && n > 0
}

// isPoolPut: the pool's Put, or a helper outside the vocabulary that hands one
// of its parameters to it (a release wrapper).
func isPoolPut(p *Prog, cal *ssa.Function, depth int) bool {
	if cal == nil || depth > 2 {
		return false
	}
	if n := calleeName(cal); strings.Contains(n, "Pool") && strings.HasSuffix(strings.TrimSuffix(n, ")"), ".Put") || strings.HasSuffix(n, ".Put") {
		return true
	}
	if !p.IsNewHelper(cal) {
		return false
	}
	found := false
	eachInstr(cal, func(_ *ssa.BasicBlock, in ssa.Instruction) {
		ci, ok := in.(ssa.CallInstruction)
		if !ok || !isPoolPut(p, ci.Common().StaticCallee(), depth+1) {
			return
		}
		for _, a := range ci.Common().Args {
			if _, isParam := a.(*ssa.Parameter); isParam {
				found = true
			}
		}
	})
	return found
}

// sameCell: the same value, or two reads of the same variable (a captured variable is read
// anew at each use).
func sameCell(a, b ssa.Value) bool {
	if a == b {
		return true
	}
	la, ok1 := a.(*ssa.UnOp)
	lb, ok2 := b.(*ssa.UnOp)
	return ok1 && ok2 && la.Op == token.MUL && lb.Op == token.MUL && la.X == lb.X
}
