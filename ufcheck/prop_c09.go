package main

// C09 — effective DNS rewrites apply every matching exception, in any order.

import (
	"fmt"
	"go/token"
	"go/types"
	"os"
	"strings"

	"golang.org/x/tools/go/ssa"
)

func init() {
	register(&PropDef{
		ID:  "C09",
		Run: runC09,
		Explanation: "Static decision of the structural clauses of C09. R1 (ITER): no loop indexes a slice that is shrunk inside the loop without compensating the index. R2: every value DNSRewrites can return passed a filter " +
			"that removes exactly the exception rules. R3 (PDT): the decision table of the exception matcher (important guard, CNAME, response code, record type, value) equals the table of the property statement on all valuations of its atoms, " +
			"and the per-exception remover has the documented four cases. R4 (TYFLOW): the rewrite value, whose dynamic types include pointers, is never compared with == on the interface. R5: only order-preserving operations touch the result. " +
			"R6: in-place operations work on the fresh slice from DNSRewritesAll, which never returns engine-owned memory. R7: the loop applying exceptions visits every exception (complete range, no early exit) and the exception list holds every exception rule. R8: a table of the repository that pairs a response-code or record-type keyword with a number gives it the number of the DNS library's name table (read from the library's source), so that the shorthand and the full form of $dnsrewrite denote the same codes. R10 (SEQ): DNSRewrites is evaluated with everything below it expanded and every list on the way to its result is read as 'DNSRewritesAll() without the elements with drop(x)' (DeleteFunc adds its predicate, a loop folding a list of exceptions adds 'some exception of the list has Q', a loop appending the kept elements drops the others, nil drops everything); the drop predicate of the result must be Whitelist(x) or 'some exception rule disables x', and the disabling relation is compared with the statement on every valuation of its criteria. Where the function can be read this way R10 decides and R1, R2, R3, R5, R7 are subsumed; otherwise the reading names the construct it cannot read and those rules judge the familiar shape. R9 imports C10.R9. Flags and lists kept in fields of a local object, lists of carrier structs built from the exception rules and returns reached by leaving a loop early are part of the reading; the comparison with the statement is a model check over the kinds of exception rules a list can hold (every set of realised signatures), so any boolean combination of searches is decided and a deviation is reported as a scenario.",
		Trusted: []string{"slices.DeleteFunc keeps the relative order of the elements it keeps; reflect.DeepEqual compares pointed-to values"},
	})
}

func runC09(c *Ctx) {
	c.Rule("C09.R1", "ITER", "no shrink-while-index-iterating", 2)
	c.Rule("C09.R2", "WIRE", "exception rules are filtered out of everything DNSRewrites returns", 1)
	c.Rule("C09.R3", "PDT", "matchException / removeMatchingException decision tables equal the documented ones", 2)
	c.Rule("C09.R4", "TYFLOW", "rewrite values are compared by value, never by interface ==", 1)
	c.Rule("C09.R5", "EFF", "only order-preserving operations on the result", 1)
	c.Rule("C09.R6", "EFF", "in-place operations act on a fresh slice", 2)
	c.Rule("C09.R7", "WIRE", "every exception is applied (complete scan of a complete exception list)", 2)
	checkKeywordTables(c, "C09.R8")
	if !c.noImports {
		importRules(c, runC10, map[string]string{"C10.R9": "C09.R9", "C10.R12": "C09.R9", "C10.R13": "C09.R9"}, map[string]string{"C09.R9": "rewrite values are parsed whole, so two rewrites with different values stay different and an exception for one leaves the other; the two forms of a CNAME rewrite store the same text (shared with C10.R9, C10.R12)"})
	}

	a := &anchors{c: c, rule: "C09.R1"}
	dr := a.method("", "DNSResult", "DNSRewrites")
	dra := a.method("", "DNSResult", "DNSRewritesAll")
	kImp, _ := a.constInt("rules", "OptionImportant")
	if a.bad {
		return
	}
	nrT := "*rules.NetworkRule"
	// The sequence reading first: when DNSRewrites can be read as a filtered view of
	// DNSRewritesAll() the result is compared with the statement directly (R10) and the rules that
	// judge the familiar division of work (R1, R2, R3, R5, R7) have nothing left to decide.
	c.Rule("C09.R10", "SEQ", "the result of DNSRewrites is DNSRewritesAll() without the exception rules and without the rewrites some exception disables, in order", 0)
	seqDecided, seqBad, seqWhy := seqDecide(c, dr, dra, kImp)
	if os.Getenv("UFSEQ") != "" {
		fmt.Println("SEQ:", seqDecided, "BAD:", seqBad, "WHY:", seqWhy)
	}
	if seqDecided {
		for _, id := range []string{"C09.R1", "C09.R2", "C09.R3", "C09.R5", "C09.R7"} {
			c.Rules[id].Floor = 0
		}
		c.Rules["C09.R10"].Floor = 1
		c.Extra["sequence_reading"] = "decided"
		c.Check(seqBad == "", "C09.R10", "DNSRewrites: result as a filtered view of DNSRewritesAll()", dr.Pos(),
			"every list on the way to the result read as 'DNSRewritesAll() without the elements with drop(x)'; drop of the result = Whitelist(x) or some exception of the list disables x, the disabling relation equal to the statement's on every valuation of its criteria", seqBad)
	} else {
		c.Extra["sequence_reading"] = "outside the reading (" + seqWhy + "); judged by R1, R2, R3, R5, R7"
	}
	// roles
	var rme, me *ssa.Function
	eachInstrG(c.P, dr, func(_ *ssa.BasicBlock, in ssa.Instruction) {
		if ci, ok := in.(ssa.CallInstruction); ok {
			if cal := ci.Common().StaticCallee(); cal != nil && c.P.IsLibFunc(cal) && !c.P.IsNewHelper(cal) && cal != dra {
				sig := cal.Signature
				if sig.Params().Len() == 2 && typeStr(sig.Params().At(0).Type()) == "[]"+nrT && typeStr(sig.Params().At(1).Type()) == nrT {
					rme = cal
				}
			}
		}
	})
	if rme == nil && !seqDecided {
		c.Fail("C09.R3", "anchor:exception remover", dr.Pos(), "unresolved anchor: DNSRewrites calls no func([]*NetworkRule, *NetworkRule) []*NetworkRule")
		return
	}
	var rmeFns []*ssa.Function
	if rme != nil {
		rmeFns = withAnon(rme)
	}
	for _, fn := range rmeFns {
		eachInstrG(c.P, fn, func(_ *ssa.BasicBlock, in ssa.Instruction) {
			if ci, ok := in.(ssa.CallInstruction); ok {
				if cal := ci.Common().StaticCallee(); cal != nil && c.P.IsLibFunc(cal) && !c.P.IsNewHelper(cal) {
					sig := cal.Signature
					if sig.Recv() == nil && sig.Params().Len() == 3 && typeStr(sig.Results().At(0).Type()) == "bool" {
						me = cal
					}
				}
			}
		})
	}
	// the matcher is an internal helper: when it exists in its familiar shape it is expanded by
	// name, otherwise it is a new helper (or a closure / method value) and transparent anyway
	c.Fn(FuncName(dr), FuncName(dra))
	scope := []*ssa.Function{dr, dra}
	groupRoots := []*ssa.Function{dr}
	if rme != nil {
		c.Fn(FuncName(rme))
		scope = append(scope, rme)
		groupRoots = append(groupRoots, rme)
	}
	if me != nil {
		c.Fn(FuncName(me))
		scope = append(scope, me)
	}
	for gf := range helperGroup(c.P, groupRoots...) {
		if c.P.IsNewHelper(gf) {
			scope = append(scope, gf)
		}
	}
	for _, fn := range rmeFns {
		if fn != rme {
			scope = append(scope, fn)
		}
	}
	for _, fn := range withAnon(dr)[1:] {
		scope = append(scope, fn)
	}

	// ---------- R1 ITER ----------
	if !seqDecided {
		for _, fn := range []*ssa.Function{dr, rme} {
			bad := ""
			for _, l := range loopsOf(fn) {
				ro := rangedOver(l)
				if ro == nil {
					continue
				}
				// is the bound len(x) with x a loop-carried φ that is reassigned from a shrinking call?
				ph, ok := ro.Coll.(*ssa.Phi)
				if !ok || ph.Block() != l.Header {
					continue
				}
				for i, p := range l.Header.Preds {
					if !l.Blocks[p] {
						continue
					}
					if shrinks(ph.Edges[i], ph, 0) {
						// index must be compensated: accept only if the index latch value is not φ+1 on this edge
						if idx, ok := ro.Index.(*ssa.Phi); ok {
							if b, ok := idx.Edges[i].(*ssa.BinOp); ok && b.Op == token.ADD && b.X == ssa.Value(idx) && isConstInt(b.Y, 1) {
								bad = "the loop indexes slice " + ph.Comment + " and removes elements from it in the body, then advances the index: the element that moved into the freed slot is skipped"
							}
						} else {
							bad = "the loop ranges by index over a slice that it shrinks in the body"
						}
					}
				}
			}
			c.Check(bad == "", "C09.R1", shortFn(fn)+": iteration hygiene", fn.Pos(), "no indexed loop over a slice it shrinks", bad)
		}

		// ---------- R2 exceptions filtered ----------
		{
			isWhitelistPred := func(v ssa.Value) bool {
				var fn *ssa.Function
				switch x := v.(type) {
				case *ssa.MakeClosure:
					fn = x.Fn.(*ssa.Function)
				case *ssa.Function:
					fn = x
				default:
					return false
				}
				g := NewGate(c.P)
				g.Inline = inlineOnly()
				s := g.Eval(fn)
				if len(s.Effects) != 0 || len(fn.Params) != 1 {
					return false
				}
				r := g.RetExpr(s, 0)
				p := g.ParamExprs(fn)[0]
				return g.U.ToBool(r) == g.U.Atom(g.U.Field(p, "Whitelist", types.Typ[types.Bool]))
			}
			bad := ""
			g2 := NewGate(c.P)
			g2.Inline = inlineOnly()
			s2 := g2.Eval(dr)
			u2 := g2.U
			seen := map[ssa.Value]bool{}
			var walk func(v ssa.Value)
			var curRet *ssa.Return
			// the unfiltered list is returned only where the collection of its exception rules is empty
			noExceptionsAt := func(ret *ssa.Return, src *ssa.Call) bool {
				rc := s2.RCAt(ret)
				srcE := s2.Env[src]
				if srcE == nil {
					return false
				}
				for _, at := range u2.AtomsOf(rc) {
					if at.Op != "eq" || !u2.bdd.Implies(rc, u2.Atom(at)) {
						continue
					}
					for i := 0; i < 2; i++ {
						x, k := at.Args[i], at.Args[1-i]
						// the list itself is empty: nothing in it, exceptions included
						if x.Op == "len" && isIntConst(k, 0) && x.Args[0] == srcE {
							return true
						}
						if x.Op == "len" && isIntConst(k, 0) {
							if collectsAll(g2, s2, x.Args[0], srcE, func(el *E) Ref { return u2.Atom(u2.Field(el, "Whitelist", types.Typ[types.Bool])) }) {
								return true
							}
						}
					}
				}
				return false
			}
			// filtered in place: a slice built by appending, to an empty prefix x[:0] (or nil), only
			// elements that are not exception rules
			inPlace := func(v ssa.Value) bool {
				ems, bases := traceAppends(g2, AV{s2, v})
				if len(ems) == 0 {
					return false
				}
				for _, em := range ems {
					if len(em.Elems) != 1 {
						return false
					}
					w := u2.Atom(u2.Field(em.Elems[0], "Whitelist", types.Typ[types.Bool]))
					if !u2.bdd.Implies(em.RC, u2.bdd.Not(w)) {
						bad = c.P.Pos(em.Call.Pos()) + ": an exception rule (Whitelist) can be appended to the result"
						return true
					}
				}
				for _, b := range bases {
					if sl, ok := b.V.(*ssa.Slice); ok && sl.High != nil && isConstInt(sl.High, 0) {
						continue // x[:0]: no elements
					}
					if b.Act != s2 {
						return false
					}
					walk(b.V)
				}
				return true
			}
			walk = func(v ssa.Value) {
				if v == nil || seen[v] || bad != "" {
					return
				}
				seen[v] = true
				switch x := v.(type) {
				case *ssa.Const:
					if x.Value != nil {
						bad = "non-nil constant result"
					}
				case *ssa.Phi:
					if inPlace(x) {
						return
					}
					for _, e := range x.Edges {
						walk(e)
					}
				case *ssa.Call:
					cal := x.Call.StaticCallee()
					if b, ok := x.Call.Value.(*ssa.Builtin); ok && b.Name() == "append" {
						if !inPlace(x) {
							bad = "UNDECIDED: result built by an append that is not a filter of single elements"
						}
						return
					}
					switch {
					case cal == rme:
						walk(x.Call.Args[0])
					case cal != nil && strings.HasPrefix(calleeName(cal), "slices.DeleteFunc"):
						if isWhitelistPred(x.Call.Args[1]) {
							return // filtered
						}
						walk(x.Call.Args[0])
					case cal == dra:
						if curRet != nil && noExceptionsAt(curRet, x) {
							return // returned as is only when it holds no exception rule
						}
						bad = "a value returned by DNSRewrites comes from DNSRewritesAll() without passing a filter that deletes the exception rules (Whitelist)"
					default:
						bad = "UNDECIDED: result derived from an unrecognised call " + x.String()
					}
				default:
					bad = "UNDECIDED: result derived from " + v.String()
				}
			}
			eachInstr(dr, func(_ *ssa.BasicBlock, in ssa.Instruction) {
				if r, ok := in.(*ssa.Return); ok {
					// every return site is judged on its own: what reaches it, under its reach condition
					seen = map[ssa.Value]bool{}
					curRet = r
					walk(r.Results[0])
				}
			})
			c.Check(bad == "", "C09.R2", "DNSRewrites: result excludes exception rules", dr.Pos(), "every returned value passed slices.DeleteFunc(_, nr => nr.Whitelist) (or is nil)", bad)
		}

		// ---------- R3 decision tables ----------
		// The remover is evaluated with its internal helpers transparent (the matcher, closures,
		// method values, small carrier structs): the result is the input list, nil, or
		// slices.DeleteFunc(list, lambda(P)) with P a formula over the candidate element.
		{
			g := NewGate(c.P)
			// everything below the remover is internal: expand all of it
			g.Inline = nil
			g.Search = true
			s := g.Eval(rme)
			u := g.U
			ps := g.ParamExprs(rme)
			nrules, exc := ps[0], ps[1]
			res := g.RetExpr(s, 0)
			key := shortFn(rme) + ": four documented cases"
			bad := ""
			noRewrite := u.ToBool(u.Eq(u.Field(exc, "DNSRewrite", nil), u.mk("nil", "", nil)))
			impOf := func(r *E) Ref {
				en := u.Field(r, "enabledOptions", types.Typ[types.Uint64])
				kc := u.ConstVal(constantInt(kImp), types.Typ[types.Uint64])
				return u.ToBool(u.Eq(u.Bin(token.AND, en, kc, types.Typ[types.Uint64]), kc))
			}
			excImp := impOf(exc)
			dfield := func(p *E, f string) string { return u.Field(u.Field(p, "DNSRewrite", nil), f, nil).key }
			// the "empty value" atom is whatever else the case split depends on
			var emptyAtoms []*E
			for _, cond := range u.Leaves(res) {
				for _, at := range u.AtomsOf(cond) {
					if u.Atom(at) != excImp && u.Atom(at) != noRewrite {
						dup := false
						for _, e := range emptyAtoms {
							if e == at {
								dup = true
							}
						}
						if !dup {
							emptyAtoms = append(emptyAtoms, at)
						}
					}
				}
			}
			// the "no rewrite => unchanged" case may live in the caller: the remover is then judged for
			// exceptions that have a rewrite only
			care := True
			hasUnchanged := false
			for leaf := range u.Leaves(res) {
				if leaf == nrules {
					hasUnchanged = true
				}
			}
			if !hasUnchanged && callerSkipsExactlyNoRewrite(c, dr, rme) {
				care = u.bdd.Not(noRewrite)
			}
			same := func(a, b Ref) bool { return u.bdd.And(a, care) == u.bdd.And(b, care) }
			nTables := 0
			if len(emptyAtoms) != 1 {
				bad = fmt.Sprintf("UNDECIDED: expected exactly one test for an empty exception value, found %d", len(emptyAtoms))
			} else {
				ea := emptyAtoms[0]
				if !u.Mentions(ea, func(x *E) bool { return x.Op == "field" && x.Aux == "DNSRewrite" && x.Args[0] == exc }) {
					bad = "UNDECIDED: the emptiness test does not read the exception's rewrite: " + u.Show(ea)
				}
				empty := u.Atom(ea)
				for leaf, cond := range u.Leaves(res) {
					if bad != "" {
						break
					}
					switch {
					case leaf == nrules:
						if cond != noRewrite {
							bad = "the list is returned unchanged under " + clip(u.ShowBool(cond), 120) + ", documented: only when the rule has no rewrite"
						}
					case leaf.IsNil():
						if !same(cond, u.bdd.And(u.bdd.Not(noRewrite), u.bdd.And(empty, excImp))) {
							bad = "everything is removed under " + clip(u.ShowBool(cond), 120) + ", documented: exactly for an important exception with an empty value"
						}
					case leaf.Op == "call" && strings.HasPrefix(leaf.Aux, "slices.DeleteFunc") && len(leaf.Args) == 2 && leaf.Args[0] == nrules && leaf.Args[1].Op == "lambda":
						P := u.ToBool(leaf.Args[1].Args[0])
						var nr *E
						for _, at := range u.AtomsOf(P) {
							for _, x := range u.Collect(at, func(x *E) bool { return x.Op == "bvar" }) {
								nr = x
							}
						}
						if nr == nil {
							bad = "the deletion predicate does not depend on the candidate rule: " + clip(u.ShowBool(P), 120)
							break
						}
						nrImp := impOf(nr)
						// one deletion may serve both documented cases (predicate selected by the emptiness
						// test): each polarity of the test is judged on its own
						cond0, P0 := cond, P
						for _, pol := range []bool{true, false} {
							lit := empty
							if !pol {
								lit = u.bdd.Not(empty)
							}
							cond := u.bdd.And(cond0, lit)
							if cond == False || bad != "" {
								continue
							}
							P := u.bdd.Restrict(u.bdd.Cofactor(P0, u.atomIx[ea.key], pol), cond)
							switch {
							case same(cond, u.bdd.And(u.bdd.Not(noRewrite), u.bdd.And(empty, u.bdd.Not(excImp)))):
								// P is evaluated under this case condition
								got := u.bdd.Restrict(P, cond)
								if got != u.bdd.Not(nrImp) {
									bad = "a non-important empty exception must delete exactly the non-important rewrites; predicate is " + clip(u.ShowBool(got), 120)
								}
							case same(cond, u.bdd.And(u.bdd.Not(noRewrite), u.bdd.Not(empty))):
								nTables++
								H := P
								roles := map[string]*E{}
								unknown := ""
								for _, at := range u.AtomsOf(H) {
									c.Atoms[at.key] = true
									switch {
									case u.Atom(at) == excImp:
										roles["excImp"] = at
									case u.Atom(at) == nrImp:
										roles["nrImp"] = at
									case u.Atom(at) == empty:
										roles["excCnameEmpty"] = at
									case at.Op == "eq" && at.Args[0].Op == "len" && at.Args[0].Args[0].key == dfield(exc, "NewCNAME") && isIntConst(at.Args[1], 0):
										roles["excCnameEmpty"] = at
									case at.Op == "eq" && pairIs(at, dfield(exc, "NewCNAME"), dfield(nr, "NewCNAME")):
										roles["sameCname"] = at
									case at.Op == "eq" && pairIs(at, dfield(exc, "RCode"), dfield(nr, "RCode")):
										roles["sameRcode"] = at
									case at.Op == "eq" && at.Args[0].key == dfield(exc, "RCode") && isIntConst(at.Args[1], 0):
										roles["excSuccess"] = at
									case at.Op == "eq" && pairIs(at, dfield(exc, "RRType"), dfield(nr, "RRType")):
										roles["sameType"] = at
									case (at.Op == "call" || at.Op == "eq") && len(at.Args) >= 2 && pairIs(at, dfield(exc, "Value"), dfield(nr, "Value")):
										roles["sameValue"] = at
									case u.Atom(at) == noRewrite:
										roles["noRewrite"] = at
									default:
										unknown = u.Show(at)
									}
								}
								if unknown != "" {
									bad = "UNDECIDED: the matcher reads a predicate outside the documented criteria: " + clip(unknown, 160)
									break
								}
								names := []string{"excImp", "nrImp", "excCnameEmpty", "sameCname", "sameRcode", "excSuccess", "sameType", "sameValue"}
								for _, n := range names {
									if roles[n] == nil && n != "excImp" && n != "excCnameEmpty" {
										bad = "a documented criterion is never read: " + n
									}
								}
								n := 0
								for m := 0; m < 1<<len(names) && bad == ""; m++ {
									val := map[string]bool{}
									asgKey := map[string]bool{}
									for i, nm := range names {
										val[nm] = m&(1<<i) != 0
										if roles[nm] != nil {
											asgKey[roles[nm].key] = val[nm]
										}
									}
									if roles["noRewrite"] != nil {
										asgKey[roles["noRewrite"].key] = false
									}
									// this case: the exception has a value.  "Empty value" is the emptiness of
									// the new CNAME together with a zero response code etc.; within this case
									// the table is the documented one for every valuation of the criteria.
									if ea.Op == "eq" && roles["excCnameEmpty"] == ea && val["excCnameEmpty"] {
										// the case condition (value not empty) excludes this valuation only when
										// emptiness is the CNAME test itself
										continue
									}
									got := u.bdd.Eval(H, func(v int) bool { return asgKey[u.atoms[v].key] })
									n++
									var want bool
									switch {
									case !val["excImp"] && val["nrImp"]:
										want = false
									case !val["excCnameEmpty"]:
										want = val["sameCname"]
									default:
										want = val["sameRcode"] && (!val["excSuccess"] || (val["sameType"] && val["sameValue"]))
									}
									if got != want {
										bad = fmt.Sprintf("for %v the matcher says disabled=%v, the statement says %v", val, got, want)
									}
								}
								c.Paths += n
							default:
								bad = "DeleteFunc applied under an undocumented condition " + clip(u.ShowBool(cond), 160)
							}
						}
					default:
						bad = "UNDECIDED: unrecognised result " + clip(u.Show(leaf), 120)
					}
				}
			}
			if bad == "" && nTables == 0 {
				bad = "an exception with a value deletes nothing: no deletion by the documented criteria found"
			}
			c.Check(bad == "", "C09.R3", key, rme.Pos(), "no rewrite => unchanged; empty+important => nothing left; empty => non-important removed; value => the documented decision table over the candidate", bad)
			c.Check(bad == "", "C09.R3", shortFn(rme)+": decision table of the deletion predicate", rme.Pos(), "equals the documented table on all valuations of its criteria", bad)
		}

	} // !seqDecided

	// ---------- R4 by-value ----------
	{
		bad := ""
		n := 0
		for _, fn := range c.P.AllLibFuncs() {
			eachInstr(fn, func(_ *ssa.BasicBlock, in ssa.Instruction) {
				b, ok := in.(*ssa.BinOp)
				if !ok || (b.Op != token.EQL && b.Op != token.NEQ) {
					return
				}
				for _, op := range []ssa.Value{b.X, b.Y} {
					if _, isI := op.Type().Underlying().(*types.Interface); !isI {
						continue
					}
					if ld, ok := op.(*ssa.UnOp); ok && ld.Op == token.MUL {
						if nm, f, ok := fieldOf(ld.X); ok && f == "Value" && namedIs(nm, "rules", "DNSRewrite") {
							bad = c.P.Pos(b.Pos()) + ": the rewrite value (dynamic types include *DNSMX, *DNSSRV, *DNSSVCB) is compared with " + b.Op.String() + " on the interface, i.e. by pointer identity"
						}
					}
					if fv, ok := op.(*ssa.Field); ok {
						if nm, f, ok := fieldOf(fv); ok && f == "Value" && namedIs(nm, "rules", "DNSRewrite") {
							bad = c.P.Pos(b.Pos()) + ": the rewrite value is compared with " + b.Op.String() + " on the interface, i.e. by pointer identity"
						}
					}
				}
				n++
			})
		}
		// dynamic type set, for the record
		dyn := map[string]bool{}
		for _, fn := range c.P.AllLibFuncs() {
			eachInstr(fn, func(_ *ssa.BasicBlock, in ssa.Instruction) {
				if st, ok := in.(*ssa.Store); ok {
					if nm, f, ok := fieldOf(st.Addr); ok && f == "Value" && namedIs(nm, "rules", "DNSRewrite") {
						if mi, ok := st.Val.(*ssa.MakeInterface); ok {
							dyn[typeStr(mi.X.Type())] = true
						}
					}
				}
			})
		}
		c.Extra["rewrite_value_dynamic_types"] = sortedKeys(dyn)
		c.Check(bad == "", "C09.R4", "no interface == on DNSRewrite.Value anywhere in the library", dr.Pos(), fmt.Sprintf("%d ==/!= sites inspected; dynamic types of the field: %v", n, sortedKeys(dyn)), bad)
	}

	// ---------- R5 order preserving; R6 fresh ----------
	{
		allowed := func(name string) bool {
			return strings.HasPrefix(name, "slices.DeleteFunc") || strings.HasPrefix(name, "slices.Delete[") || strings.HasPrefix(name, "reflect.DeepEqual")
		}
		bad := ""
		for _, fn := range scope {
			eachInstr(fn, func(_ *ssa.BasicBlock, in ssa.Instruction) {
				ci, ok := in.(ssa.CallInstruction)
				if !ok {
					return
				}
				cal := ci.Common().StaticCallee()
				if cal == nil || c.P.IsLibFunc(cal) {
					return
				}
				name := calleeName(cal)
				if strings.HasPrefix(name, "slices.") || strings.HasPrefix(name, "sort.") {
					if !allowed(name) {
						bad = c.P.Pos(in.Pos()) + ": " + name + " is not in the table of order-preserving operations"
					}
				}
			})
		}
		if !seqDecided {
			c.Check(bad == "", "C09.R5", "DNSRewrites and helpers: order-preserving operations only", dr.Pos(), "library calls on slices are DeleteFunc/Delete only", bad)
		}

		// R6: DNSRewritesAll returns fresh memory
		bad = ""
		seen := map[ssa.Value]bool{}
		var fresh func(v ssa.Value) bool
		fresh = func(v ssa.Value) bool {
			if seen[v] {
				return true
			}
			seen[v] = true
			switch x := v.(type) {
			case *ssa.Const:
				return x.Value == nil
			case *ssa.Phi:
				for _, e := range x.Edges {
					if !fresh(e) {
						return false
					}
				}
				return true
			case *ssa.Call:
				if b, ok := x.Call.Value.(*ssa.Builtin); ok && b.Name() == "append" {
					return fresh(x.Call.Args[0])
				}
			case *ssa.MakeSlice:
				return true
			}
			return false
		}
		eachInstr(dra, func(_ *ssa.BasicBlock, in ssa.Instruction) {
			if r, ok := in.(*ssa.Return); ok && !fresh(r.Results[0]) {
				bad = "DNSRewritesAll can return memory it did not allocate (the result is modified in place by DNSRewrites)"
			}
		})
		c.Check(bad == "", "C09.R6", "DNSRewritesAll returns a fresh slice", dra.Pos(), "every returned value is nil or built by append from nil", bad)
		// in-place ops in DNSRewrites (and the helpers expanded into it) act on values derived from
		// DNSRewritesAll()
		bad = ""
		g6 := NewGate(c.P)
		g6.Inline = inlineOnly()
		s6 := g6.Eval(dr)
		var src func(a AV, depth int) bool
		subRets := func(sub *Summary, idx, depth int) bool {
			for _, b := range sub.Fn.Blocks {
				if r, ok := b.Instrs[len(b.Instrs)-1].(*ssa.Return); ok && idx < len(r.Results) {
					if !src(AV{sub, r.Results[idx]}, depth+1) {
						return false
					}
				}
			}
			return true
		}
		src = func(a AV, depth int) bool {
			if depth > 16 {
				return true
			}
			switch x := a.V.(type) {
			case *ssa.Phi:
				for _, e := range x.Edges {
					if e != ssa.Value(x) && !src(AV{a.Act, e}, depth+1) {
						return false
					}
				}
				return true
			case *ssa.Parameter:
				if a.Act.Parent != nil && a.Act.Site != nil {
					if ci, ok := a.Act.Site.(ssa.CallInstruction); ok {
						for i, p := range a.Act.Fn.Params {
							if p == x && i < len(ci.Common().Args) {
								return src(AV{a.Act.Parent, ci.Common().Args[i]}, depth+1)
							}
						}
					}
				}
				return false
			case *ssa.Extract:
				if call, ok := x.Tuple.(*ssa.Call); ok {
					if sub := subAt(g6, a.Act, call); sub != nil {
						return subRets(sub, x.Index, depth)
					}
				}
				return false
			case *ssa.Call:
				cal := x.Call.StaticCallee()
				if cal == dra {
					return true
				}
				if (rme != nil && cal == rme) || (cal != nil && strings.HasPrefix(calleeName(cal), "slices.Delete")) {
					return src(AV{a.Act, x.Call.Args[0]}, depth+1)
				}
				if b, ok := x.Call.Value.(*ssa.Builtin); ok && b.Name() == "append" {
					// the result lies in the operand's array or in a new one
					return src(AV{a.Act, x.Call.Args[0]}, depth+1)
				}
				if sub := subAt(g6, a.Act, x); sub != nil {
					return subRets(sub, 0, depth)
				}
			case *ssa.Slice:
				return src(AV{a.Act, x.X}, depth+1)
			case *ssa.ChangeType:
				return src(AV{a.Act, x.X}, depth+1)
			case *ssa.Const:
				return x.Value == nil
			}
			return false
		}
		acts := []*Summary{s6}
		for _, sub := range g6.Subs {
			if sub != s6 && c.P.IsNewHelper(sub.Fn) {
				acts = append(acts, sub)
			}
		}
		for _, act := range acts {
			act := act
			eachInstr(act.Fn, func(_ *ssa.BasicBlock, in ssa.Instruction) {
				if in.Parent() != act.Fn {
					return // closures are judged where they are expanded
				}
				if cl, ok := in.(*ssa.Call); ok {
					cal := cl.Call.StaticCallee()
					isClear := false
					if b, ok := cl.Call.Value.(*ssa.Builtin); ok && b.Name() == "clear" {
						isClear = true
					}
					if (rme != nil && cal == rme) || isClear || (cal != nil && strings.HasPrefix(calleeName(cal), "slices.Delete")) {
						if _, isSl := cl.Call.Args[0].Type().Underlying().(*types.Slice); isSl && !src(AV{act, cl.Call.Args[0]}, 0) {
							bad = c.P.Pos(cl.Pos()) + ": an in-place operation is applied to a slice that does not come from DNSRewritesAll()"
						}
					}
				}
			})
		}
		c.Check(bad == "", "C09.R6", "DNSRewrites: in-place operations only on the fresh slice", dr.Pos(), "provenance of every in-place operand is DNSRewritesAll()", bad)
	}

	// ---------- R7 every exception applied ----------
	if !seqDecided {
		g := NewGate(c.P)
		g.Inline = inlineOnly()
		s := g.Eval(dr)
		u := g.U
		loops := loopsOf(dr)
		found := false
		for _, site := range callsTo(dr, rme) {
			l := innermostLoop(loops, site.Block())
			key := "DNSRewrites: loop applying exceptions"
			if l == nil {
				c.Fail("C09.R7", key, site.Pos(), "UNDECIDED: the exception remover is not called in a loop")
				continue
			}
			found = true
			ro := rangedOver(l)
			full := ro != nil && ro.Full && onlyExhaustionExit(l)
			uncond := s.RCAt(site) == u.bdd.And(s.RC[l.Header], contCond(u, s, l))
			if !uncond && callerSkipsExactlyNoRewrite(c, dr, rme) {
				uncond = true // skipped exactly when the exception has no rewrite: nothing to remove (C09.R3 judges the remover for the others)
			}
			c.Check(full && uncond, "C09.R7", key, site.Pos(), "complete range, no early exit, remover called in every iteration",
				fmt.Sprintf("the loop does not apply every exception (complete range without early exit=%v, called unconditionally=%v)", full, uncond))
			// the exception list: appended exactly when Whitelist, in a full scan of the DNSRewritesAll() result
			okList := false
			if ro != nil {
				ems, _ := traceAppends(g, AV{s, ro.Coll})
				for _, em := range ems {
					act := em.Act
					la := innermostLoop(loopsOf(act.Fn), em.Call.Block())
					if la == nil || len(em.Elems) != 1 {
						continue
					}
					roa := rangedOver(la)
					el := em.Elems[0]
					want := u.bdd.And(u.bdd.And(act.RC[la.Header], contCond(u, act, la)), u.Atom(u.Field(el, "Whitelist", types.Typ[types.Bool])))
					srcOK := roa != nil && roa.Full && onlyExhaustionExit(la) && act.Env[roa.Coll] != nil && act.Env[roa.Coll].Op == "call" && act.Env[roa.Coll].Aux == calleeName(dra)
					if srcOK && em.RC == want && el.Op == "index" && el.Args[0] == act.Env[roa.Coll] {
						okList = true
					}
				}
			}
			c.Check(okList, "C09.R7", "DNSRewrites: exception list holds every exception rule", site.Pos(),
				"appended exactly when Whitelist, in a complete scan of DNSRewritesAll()",
				"UNDECIDED/violated: the collection the loop ranges over is not built by a complete scan of DNSRewritesAll() appending exactly the exception rules")
		}
		if !found {
			c.Fail("C09.R7", "DNSRewrites: loop applying exceptions", dr.Pos(), "no call of the exception remover found")
		}
	}
}

func pairIs(at *E, k1, k2 string) bool {
	if len(at.Args) < 2 {
		return false
	}
	a, b := at.Args[0].key, at.Args[1].key
	return (a == k1 && b == k2) || (a == k2 && b == k1)
}

// shrinks reports whether v is the result of a shrinking slice operation on
// (a value derived from) the φ ph.
func shrinks(v ssa.Value, ph *ssa.Phi, depth int) bool {
	if depth > 6 {
		return false
	}
	switch x := v.(type) {
	case *ssa.Phi:
		for _, e := range x.Edges {
			if e != ssa.Value(ph) && e != ssa.Value(x) && shrinks(e, ph, depth+1) {
				return true
			}
		}
	case *ssa.Call:
		if cal := x.Call.StaticCallee(); cal != nil {
			n := calleeName(cal)
			if strings.HasPrefix(n, "slices.Delete") || strings.HasPrefix(n, "slices.Compact") {
				return true
			}
			// repository helper returning a (possibly) shorter slice of its argument
			if len(x.Call.Args) > 0 && derivesFrom(x.Call.Args[0], ph, 0) {
				if _, ok := x.Type().Underlying().(*types.Slice); ok {
					return true
				}
			}
		}
		if b, ok := x.Call.Value.(*ssa.Builtin); ok && b.Name() == "append" {
			// append(s[:i], s[i+1:]...)
			if sl, ok := x.Call.Args[0].(*ssa.Slice); ok && derivesFrom(sl.X, ph, 0) {
				return true
			}
		}
	}
	return false
}

func derivesFrom(v ssa.Value, ph *ssa.Phi, depth int) bool {
	if v == ssa.Value(ph) {
		return true
	}
	if depth > 6 {
		return false
	}
	switch x := v.(type) {
	case *ssa.Phi:
		for _, e := range x.Edges {
			if derivesFrom(e, ph, depth+1) {
				return true
			}
		}
	case *ssa.Call:
		if len(x.Call.Args) > 0 {
			return derivesFrom(x.Call.Args[0], ph, depth+1)
		}
	case *ssa.Slice:
		return derivesFrom(x.X, ph, depth+1)
	}
	return false
}

// callerSkipsExactlyNoRewrite: every call of the remover in DNSRewrites sits in a loop over the
// exceptions and is skipped, within an iteration, exactly when the exception has no rewrite
// (exc.DNSRewrite == nil) — the remover's own "nothing to remove" case moved to the caller.
func callerSkipsExactlyNoRewrite(c *Ctx, dr, rme *ssa.Function) bool {
	g := NewGate(c.P)
	g.Inline = inlineOnly()
	s := g.Eval(dr)
	u := g.U
	loops := loopsOf(dr)
	sites := callsTo(dr, rme)
	if len(sites) == 0 {
		return false
	}
	for _, site := range sites {
		l := innermostLoop(loops, site.Block())
		ce := s.Env[site.(ssa.Value)]
		if l == nil || ce == nil || len(ce.Args) < 2 {
			return false
		}
		body := u.bdd.And(s.RC[l.Header], contCond(u, s, l))
		rc := s.RCAt(site)
		exc := ce.Args[1]
		noRw := u.ToBool(u.Eq(u.Field(exc, "DNSRewrite", nil), u.mk("nil", "", nil)))
		if rc != u.bdd.And(body, u.bdd.Not(noRw)) {
			return false
		}
	}
	return true
}
