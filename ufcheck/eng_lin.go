package main

// LIN — linear facts and bounds obligations.
//
// For every index/slice site the obligation 0 <= lo <= hi <= len is proved
// from (a) the literals implied by the gated reach condition of the site's
// block, (b) definitional facts (len of slices, sums), (c) post-conditions of
// library functions from a fixed table, (d) loop lemmas for counted loops,
// (e) declared contracts of a handful of helpers (assumed in the callee,
// proved at every call site).  Entailment is decided by Fourier–Motzkin
// elimination over the (small) constraint set — an operation of the
// polyhedral abstract domain; no external solver is involved and nothing
// about string contents is concluded.
//
// Sites the Go compiler's own prove pass discharges (no residual bounds check
// in `go build -gcflags=-d=ssa/check_bce/debug=1`) are accepted as proved by
// that sound static analyser.

import (
	"bufio"
	"fmt"
	"go/token"
	"go/types"
	"math/big"
	"os"
	"os/exec"
	"regexp"
	"sort"
	"strconv"
	"strings"

	"golang.org/x/tools/go/ssa"
)

// ---------- linear forms ----------

type lin struct {
	co map[string]*big.Rat // term key -> coefficient
	k  *big.Rat            // constant
}

func newLin() *lin { return &lin{co: map[string]*big.Rat{}, k: new(big.Rat)} }

func (l *lin) clone() *lin {
	n := newLin()
	for t, c := range l.co {
		n.co[t] = new(big.Rat).Set(c)
	}
	n.k.Set(l.k)
	return n
}

func (l *lin) addScaled(o *lin, s *big.Rat) {
	for t, c := range o.co {
		x := new(big.Rat).Mul(c, s)
		if cur, ok := l.co[t]; ok {
			cur.Add(cur, x)
			if cur.Sign() == 0 {
				delete(l.co, t)
			}
		} else if x.Sign() != 0 {
			l.co[t] = x
		}
	}
	l.k.Add(l.k, new(big.Rat).Mul(o.k, s))
}

func (l *lin) String() string {
	var ts []string
	for t := range l.co {
		ts = append(ts, t)
	}
	sort.Strings(ts)
	var sb strings.Builder
	for _, t := range ts {
		fmt.Fprintf(&sb, "%s*[%s] + ", l.co[t].RatString(), clip(t, 40))
	}
	sb.WriteString(l.k.RatString())
	return sb.String()
}

// constraint: form <= 0
type constraint struct{ f *lin }

// Lin is the prover for one function activation.
type Lin struct {
	u      *U
	terms  map[string]*E
	cons   []constraint
	seenT  map[string]bool
	neqs   [][2]*E
	onTrue func(at *E)
	sub    map[string]*E // case substitution (selected if-then-else leaves)
	cond   Ref           // condition of the case being proved (0 = unknown)
}

// resolveNeqs strengthens a != b to a strict inequality when one direction
// of a <= b is already entailed (e.g. IndexByte(...) != -1 with -1 <= r).
func (L *Lin) resolveNeqs() {
	for pass := 0; pass < 2; pass++ {
		for _, n := range L.neqs {
			la, lb := L.linearize(n[0]), L.linearize(n[1])
			if L.entails(la, lb, 0) {
				L.le(la, lb, -1)
			} else if L.entails(lb, la, 0) {
				L.le(lb, la, -1)
			}
		}
	}
}

func NewLin(u *U) *Lin { return &Lin{u: u, terms: map[string]*E{}, seenT: map[string]bool{}} }

var one = big.NewRat(1, 1)
var minusOne = big.NewRat(-1, 1)

// linearize converts an integer expression to a linear form over atomic terms.
func (L *Lin) linearize(e *E) *lin {
	out := newLin()
	if e == nil {
		return out
	}
	if v, ok := e.IntVal(); ok {
		out.k.SetInt64(v)
		return out
	}
	switch e.Op {
	case "bin":
		switch e.Aux {
		case "+":
			if !isStringT(e.Typ) {
				a, b := L.linearize(e.Args[0]), L.linearize(e.Args[1])
				a.addScaled(b, one)
				return a
			}
		case "-":
			a, b := L.linearize(e.Args[0]), L.linearize(e.Args[1])
			a.addScaled(b, minusOne)
			return a
		case "*":
			if v, ok := e.Args[0].IntVal(); ok {
				b := L.linearize(e.Args[1])
				r := newLin()
				r.addScaled(b, big.NewRat(v, 1))
				return r
			}
			if v, ok := e.Args[1].IntVal(); ok {
				b := L.linearize(e.Args[0])
				r := newLin()
				r.addScaled(b, big.NewRat(v, 1))
				return r
			}
		}
	case "convert":
		// integer widening keeps the value
		if src := e.Args[0]; src.Typ != nil && e.Typ != nil {
			if sb, ok := src.Typ.Underlying().(*types.Basic); ok && sb.Info()&types.IsInteger != 0 {
				if db, ok := e.Typ.Underlying().(*types.Basic); ok && db.Info()&types.IsInteger != 0 && intWidth(db) >= intWidth(sb) &&
					(sb.Info()&types.IsUnsigned == db.Info()&types.IsUnsigned || (sb.Info()&types.IsUnsigned != 0 && intWidth(db) > intWidth(sb))) {
					return L.linearize(src)
				}
			}
		}
	case "len":
		x := e.Args[0]
		switch x.Op {
		case "slice":
			// len(x[lo:hi]) = hi - lo
			var hi *lin
			if x.Args[2] != nil {
				hi = L.linearize(x.Args[2])
			} else {
				hi = L.linearize(L.u.Len(x.Args[0]))
			}
			if x.Args[1] != nil {
				hi.addScaled(L.linearize(x.Args[1]), minusOne)
			}
			return hi
		case "bin":
			if x.Aux == "+" && isStringT(x.Typ) {
				a, b := L.linearize(L.u.Len(x.Args[0])), L.linearize(L.u.Len(x.Args[1]))
				a.addScaled(b, one)
				return a
			}
		case "const":
			if s, ok := x.StrVal(); ok {
				out.k.SetInt64(int64(len(s)))
				return out
			}
		case "convert":
			// string(b[:n]) and []byte(s) keep the length
			return L.linearize(L.u.Len(x.Args[0]))
		}
	}
	L.term(e)
	out.co[e.key] = new(big.Rat).Set(one)
	return out
}

func intWidth(b *types.Basic) int {
	switch b.Kind() {
	case types.Int8, types.Uint8:
		return 8
	case types.Int16, types.Uint16:
		return 16
	case types.Int32, types.Uint32:
		return 32
	}
	return 64
}

// le adds a <= b + k.
func (L *Lin) le(a, b *lin, k int64) {
	f := a.clone()
	f.addScaled(b, minusOne)
	f.k.Sub(f.k, big.NewRat(k, 1))
	L.cons = append(L.cons, constraint{f})
}

func (L *Lin) leE(a, b *E, k int64) { L.le(L.linearize(a), L.linearize(b), k) }

// term registers an atomic term and its intrinsic facts.
func (L *Lin) term(e *E) {
	if L.seenT[e.key] {
		return
	}
	L.seenT[e.key] = true
	L.terms[e.key] = e
	u := L.u
	zero := u.Int(0)
	switch e.Op {
	case "len", "cap":
		L.leE(zero, e, 0)
		if e.Op == "len" && e.Args[0].Op == "call" && e.Args[0].Aux == "strings.Split" {
			L.leE(u.Int(1), e, 0)
		}
	case "call":
		name := e.Aux
		switch {
		case name == "strings.IndexByte" || name == "strings.IndexRune" || name == "strings.IndexAny" || name == "strings.LastIndexByte" || name == "strings.LastIndexAny" || name == "bytes.IndexByte" || name == "strings.LastIndex" && isOneChar(e.Args[1]) || name == "strings.Index" && isOneChar(e.Args[1]):
			L.leE(u.Int(-1), e, 0)
			L.leE(e, u.Len(e.Args[0]), -1)
		case name == "strings.Index" || name == "strings.LastIndex" || name == "bytes.Index":
			L.leE(u.Int(-1), e, 0)
			// r <= len(s) - len(sep)  (and r <= len(s) when sep is empty)
			a := L.linearize(e)
			b := L.linearize(u.Len(e.Args[0]))
			b.addScaled(L.linearize(u.Len(e.Args[1])), minusOne)
			L.le(a, b, 0)
			L.leE(e, u.Len(e.Args[0]), 0)
		case strings.HasPrefix(name, "math/bits.OnesCount"):
			L.leE(zero, e, 0)
		case name == "slices.Index" || name == "slices.IndexFunc" || name == "strings.IndexFunc" || name == "strings.LastIndexFunc" || name == "bytes.IndexFunc":
			// -1 or a valid position
			L.leE(u.Int(-1), e, 0)
			L.leE(e, u.Len(e.Args[0]), -1)
		case name == "builtin.min" && len(e.Args) >= 2:
			for _, a := range e.Args {
				if isIntLike(a) {
					L.leE(e, a, 0)
				}
			}
		case name == "builtin.max" && len(e.Args) >= 2:
			for _, a := range e.Args {
				if isIntLike(a) {
					L.leE(a, e, 0)
				}
			}
		}
	case "extract":
		// n of an io.Reader.Read(b): 0 <= n <= len(b)
		if e.Aux == "0" && (e.Args[0].Op == "invoke" || e.Args[0].Op == "call") && strings.HasSuffix(strings.TrimSuffix(e.Args[0].Aux, ")"), ".Read") {
			args := e.Args[0].Args
			for _, a := range args {
				if a != nil && a.Typ != nil {
					if sl, ok := a.Typ.Underlying().(*types.Slice); ok {
						if b, ok := sl.Elem().Underlying().(*types.Basic); ok && b.Kind() == types.Uint8 {
							L.leE(zero, e, 0)
							L.leE(e, u.Len(a), 0)
						}
					}
				}
			}
		}
	case "rangekey":
		L.leE(zero, e, 0)
	}
	if e.Typ != nil {
		if b, ok := e.Typ.Underlying().(*types.Basic); ok && b.Info()&types.IsUnsigned != 0 {
			L.leE(zero, e, 0)
		}
	}
}

func isOneChar(e *E) bool {
	s, ok := e.StrVal()
	return ok && len(s) == 1
}

// assumeLiteral adds the linear content of a literal (atom with polarity).
func (L *Lin) assumeLiteral(at *E, pos bool) {
	u := L.u
	switch at.Op {
	case "lt":
		if pos {
			L.leE(at.Args[0], at.Args[1], -1)
		} else {
			L.leE(at.Args[1], at.Args[0], 0)
		}
	case "eq":
		a, b := at.Args[0], at.Args[1]
		if isIntLike(a) || isIntLike(b) {
			if pos {
				L.leE(a, b, 0)
				L.leE(b, a, 0)
			} else {
				// a != k with a >= k known (or a <= k): decided later by neqs
				L.neqs = append(L.neqs, [2]*E{a, b})
			}
			return
		}
		// string equality with a constant: equal lengths
		if pos {
			if s, ok := b.StrVal(); ok {
				L.leE(u.Len(a), u.Int(int64(len(s))), 0)
				L.leE(u.Int(int64(len(s))), u.Len(a), 0)
			}
			if s, ok := a.StrVal(); ok {
				L.leE(u.Len(b), u.Int(int64(len(s))), 0)
				L.leE(u.Int(int64(len(s))), u.Len(b), 0)
			}
		}
	case "call":
		switch at.Aux {
		case "strings.HasPrefix", "strings.HasSuffix", "bytes.HasPrefix", "bytes.HasSuffix":
			if pos {
				L.leE(u.Len(at.Args[1]), u.Len(at.Args[0]), 0)
			}
		case "strings.Contains":
			if pos {
				L.leE(u.Len(at.Args[1]), u.Len(at.Args[0]), 0)
			}
		}
	case "hasnext":
		// for a string/slice range: key < len
		if pos && len(at.Args) == 1 && at.Args[0].Op == "range" {
			k := u.mk("rangekey", at.Aux, nil, at.Args[0])
			L.leE(k, u.Len(at.Args[0].Args[0]), -1)
			L.leE(u.Int(0), k, 0)
		}
	}
}

func isIntLike(e *E) bool {
	if _, ok := e.IntVal(); ok {
		return true
	}
	if e.Op == "len" || e.Op == "cap" || e.Op == "loopphi" {
		return true
	}
	if e.Typ != nil {
		if b, ok := e.Typ.Underlying().(*types.Basic); ok && b.Info()&types.IsInteger != 0 {
			return true
		}
	}
	return false
}

// assumeCond adds every literal implied by the condition c.
func (L *Lin) assumeCond(c Ref) {
	u := L.u
	for _, v := range u.bdd.Support(c) {
		at := u.atoms[v]
		lit := u.bdd.Var(v)
		if u.bdd.Implies(c, lit) {
			L.assumeLiteral(at, true)
			if L.onTrue != nil {
				L.onTrue(at)
			}
		} else if u.bdd.Implies(c, u.bdd.Not(lit)) {
			L.assumeLiteral(at, false)
		}
	}
}

// registerTerms walks an expression and registers every atomic term (so that
// their intrinsic facts are available).
func (L *Lin) registerTerms(e *E) {
	L.u.Mentions(e, func(x *E) bool {
		switch x.Op {
		case "len", "cap", "call", "extract", "rangekey":
			if isIntLike(x) || x.Op == "len" {
				L.term(x)
			}
		}
		return false
	})
}

// entails reports whether the constraints imply a <= b + k (integers).
func (L *Lin) entails(a, b *lin, k int64) bool {
	// negation: a >= b + k + 1  <=>  b - a + k + 1 <= 0
	neg := b.clone()
	neg.addScaled(a, minusOne)
	neg.k.Add(neg.k, big.NewRat(k+1, 1))
	cons := make([]*lin, 0, len(L.cons)+1)
	for _, c := range L.cons {
		cons = append(cons, c.f)
	}
	cons = append(cons, neg)
	// resolve disequalities once: x != k with x >= k entailed => x >= k+1
	return infeasible(cons)
}

// infeasible decides by Fourier–Motzkin elimination whether {f <= 0} has no
// rational solution.
func infeasible(cons []*lin) bool {
	// drop trivial
	work := cons
	for iter := 0; iter < 64; iter++ {
		// contradiction check and variable choice
		count := map[string][2]int{}
		var next []*lin
		for _, c := range work {
			if len(c.co) == 0 {
				if c.k.Sign() > 0 {
					return true
				}
				continue
			}
			next = append(next, c)
			for t, co := range c.co {
				x := count[t]
				if co.Sign() > 0 {
					x[0]++
				} else {
					x[1]++
				}
				count[t] = x
			}
		}
		work = next
		if len(work) == 0 {
			return false
		}
		// eliminate the variable with the fewest products
		best, bestCost := "", 1<<30
		var ts []string
		for t := range count {
			ts = append(ts, t)
		}
		sort.Strings(ts)
		for _, t := range ts {
			x := count[t]
			cost := x[0]*x[1] - x[0] - x[1]
			if cost < bestCost {
				best, bestCost = t, cost
			}
		}
		var pos, neg, rest []*lin
		for _, c := range work {
			co, ok := c.co[best]
			switch {
			case !ok:
				rest = append(rest, c)
			case co.Sign() > 0:
				pos = append(pos, c)
			default:
				neg = append(neg, c)
			}
		}
		for _, p := range pos {
			for _, n := range neg {
				// p: a*x + P <= 0 (a>0); n: -b*x + N <= 0 (b>0)  =>  b*P + a*N <= 0
				a := p.co[best]
				b := new(big.Rat).Neg(n.co[best])
				r := newLin()
				r.addScaled(p, b)
				r.addScaled(n, a)
				delete(r.co, best)
				rest = append(rest, r)
			}
		}
		if len(rest) > 4000 {
			return false // give up (not proved)
		}
		work = rest
	}
	return false
}

// ---------- compiler oracle ----------

var cfgGOOS, cfgGOARCH string

var bceOnce struct {
	done bool
	res  map[string]bool // "file:line:col"
	err  error
}

// compilerResidual returns the positions (repo-relative file:line:col) where
// cmd/compile could not prove a bounds check away.
func compilerResidual(repo string) (map[string]bool, error) {
	if bceOnce.done {
		return bceOnce.res, bceOnce.err
	}
	bceOnce.done = true
	bceOnce.res = map[string]bool{}
	args := []string{"build", "-gcflags=-l -d=ssa/check_bce/debug=1"}
	for _, s := range libPkgs {
		if s == "" {
			args = append(args, ".")
		} else {
			args = append(args, "./"+s)
		}
	}
	cmd := exec.Command("go", args...)
	cmd.Dir = repo
	cmd.Env = append(os.Environ(), "GOFLAGS=-mod=mod", "GOPROXY=off", "GOSUMDB=off", "GOTOOLCHAIN=local", "GOWORK=off")
	if cfgGOARCH != "" {
		cmd.Env = append(cmd.Env, "GOARCH="+cfgGOARCH)
	}
	if cfgGOOS != "" {
		cmd.Env = append(cmd.Env, "GOOS="+cfgGOOS, "CGO_ENABLED=0")
	}
	out, _ := cmd.CombinedOutput()
	re := regexp.MustCompile(`^(\S+\.go):(\d+):(\d+): Found Is(Slice)?InBounds`)
	n := 0
	sc := bufio.NewScanner(strings.NewReader(string(out)))
	sc.Buffer(make([]byte, 1<<20), 1<<20)
	sawPkg := false
	for sc.Scan() {
		line := sc.Text()
		if strings.HasPrefix(line, "# ") {
			sawPkg = true
			continue
		}
		if m := re.FindStringSubmatch(line); m != nil {
			f := strings.TrimPrefix(m[1], "./")
			if strings.HasPrefix(f, "/") {
				if strings.HasPrefix(f, repo+"/") {
					f = strings.TrimPrefix(f, repo+"/")
				} else {
					continue // standard library / dependency
				}
			}
			bceOnce.res[f+":"+m[2]+":"+m[3]] = true
			n++
		} else if strings.Contains(line, ": ") && !strings.Contains(line, "Found Is") && strings.Contains(line, ".go:") {
			// a compile error
			bceOnce.err = fmt.Errorf("compiler oracle: %s", line)
		}
	}
	if !sawPkg && n == 0 {
		bceOnce.err = fmt.Errorf("compiler oracle produced no output (go build -gcflags=-d=ssa/check_bce failed?): %s", clip(string(out), 300))
	}
	return bceOnce.res, bceOnce.err
}

// ---------- bounds audit ----------

type BoundsResult struct {
	Fn      *ssa.Function
	Pos     token.Pos
	Expr    string
	Key     string
	Verdict string // compiler | lin | contract | residual | violation
	Why     string
}

// contract: linear pre-conditions over parameters.
type paramFact struct {
	lo string // "0" | "pN" | "len(pN)"
	hi string
	k  int64 // lo <= hi + k
}

var requiresTable = map[string][]paramFact{
	// FastHashBetween(str, begin, end): 0 <= begin, end <= len(str)
	"filterutil.FastHashBetween": {{"0", "p1", 0}, {"p2", "len(p0)", 0}},
	// startsAtIndexWith(str, startIndex, substr): 0 <= startIndex
	"rules.startsAtIndexWith": {{"0", "p1", 0}},
	// isMatchFound(body, match, index): 0 <= index
	"proxy.isMatchFound": {{"0", "p2", 0}},
	// findRegexpShortcut(pattern): len(pattern) >= 2
	"rules.findRegexpShortcut": {{"2", "len(p0)", 0}},
}

// residualTable: sites accepted with a written reason (keyed by function and
// canonical site expression, never by line).
var residualTable = map[string]string{
	"rules.patternToRegexp: (*strings.Replacer).Replace(gload<github.com/AdguardTeam/urlfilter/rules.specialCharReplacer>,pattern)[2:(len((*strings.Replacer).Replace(gload<github.com/AdguardTeam/urlfilter/rules.specialCharReplacer>,pattern))-1)]": "the escaped text starts with \"||\" here; it cannot be exactly \"||\" because the pattern \"||\" returns early and the escape table never shortens its input, so len >= 3 (string-content reasoning, outside the linear domain)",
	"(*filterlist.RuleStorageScanner).Scan: s.Scanners[(1+s.currentScannerIdx)]": "object invariant 0 <= currentScannerIdx < len(Scanners): the field is written only in this method (0, then +1 under the guard idx != len-1), checked by the who-may-write rule below",
}

func paramTerm(u *U, ps []*E, s string) *E {
	switch {
	case s == "0" || s == "1" || s == "2":
		v, _ := strconv.Atoi(s)
		return u.Int(int64(v))
	case strings.HasPrefix(s, "len(p"):
		i, _ := strconv.Atoi(s[5 : len(s)-1])
		return u.Len(ps[i])
	case strings.HasPrefix(s, "p"):
		i, _ := strconv.Atoi(s[1:])
		return ps[i]
	}
	return nil
}

type linCtx struct {
	c    *Ctx
	pred map[*ssa.Function]*predSum
}

type predSum struct {
	g  *Gate
	H  Ref
	ps []*E
}

// boundsAudit audits every index/slice site of the given functions.
func boundsAudit(c *Ctx, fns []*ssa.Function) []BoundsResult {
	resid, err := compilerResidual(c.P.Repo)
	var out []BoundsResult
	if err != nil {
		out = append(out, BoundsResult{Verdict: "violation", Why: err.Error(), Expr: "compiler oracle", Key: "oracle"})
		resid = nil
	}
	inScope := map[*ssa.Function]bool{}
	for _, fn := range fns {
		inScope[fn] = true
	}
	for _, fn := range fns {
		if fn == nil || fn.Blocks == nil {
			continue
		}
		if contextualHelper(c.P, fn, inScope) {
			// audited at every call site, with the caller's arguments
			continue
		}
		out = append(out, auditFunc(c, fn, resid)...)
	}
	return out
}

// contextualHelper: a new helper (not part of the confirmed vocabulary) whose
// every use is a static call from an audited function.  Its index and slice
// sites are proved in the context of each caller instead of for arbitrary
// arguments.
func contextualHelper(p *Prog, fn *ssa.Function, inScope map[*ssa.Function]bool) bool {
	if !p.IsNewHelper(fn) || fn.Parent() != nil {
		return false
	}
	if fn.Object() != nil && fn.Object().Exported() {
		return false
	}
	calls := 0
	ok := true
	for _, user := range p.AllLibFuncs() {
		eachInstr(user, func(_ *ssa.BasicBlock, in ssa.Instruction) {
			var callee ssa.Value
			if ci, isCall := in.(ssa.CallInstruction); isCall {
				callee = ci.Common().Value
				if ci.Common().StaticCallee() == fn {
					if _, isGo := in.(*ssa.Go); isGo || !inScope[user] && !p.IsNewHelper(user) {
						ok = false
					}
					calls++
				}
			}
			for _, op := range in.Operands(nil) {
				if op != nil && *op != nil && *op != callee {
					if f, isF := (*op).(*ssa.Function); isF && f == fn {
						ok = false // used as a value
					}
				}
			}
		})
	}
	return ok && calls > 0
}

func posKey(p *Prog, pos token.Pos) string {
	ps := p.Fset.Position(pos)
	f := strings.TrimPrefix(ps.Filename, p.Repo+"/")
	return fmt.Sprintf("%s:%d:%d", f, ps.Line, ps.Column)
}

func auditFunc(c *Ctx, fn *ssa.Function, resid map[string]bool) []BoundsResult {
	type site struct {
		in      ssa.Instruction
		x       ssa.Value
		lo, hi  ssa.Value // index sites: lo=index, hi=nil
		isIndex bool
		max     ssa.Value
		act     *Summary // inlined activation the site belongs to (nil: fn itself)
	}
	var sites []site
	var curAct *Summary
	collect := func(_ *ssa.BasicBlock, in ssa.Instruction) {
		switch in := in.(type) {
		case *ssa.IndexAddr:
			if arrayConstIndexOK(in.X.Type(), in.Index) {
				return
			}
			sites = append(sites, site{in: in, x: in.X, lo: in.Index, isIndex: true, act: curAct})
		case *ssa.Index:
			if arrayConstIndexOK(in.X.Type(), in.Index) {
				return
			}
			sites = append(sites, site{in: in, x: in.X, lo: in.Index, isIndex: true, act: curAct})
		case *ssa.Lookup:
			if _, isMap := in.X.Type().Underlying().(*types.Map); isMap {
				return
			}
			sites = append(sites, site{in: in, x: in.X, lo: in.Index, isIndex: true, act: curAct})
		case *ssa.Slice:
			if _, isPtrArr := in.X.Type().Underlying().(*types.Pointer); isPtrArr && in.Low == nil && in.High == nil {
				return
			}
			sites = append(sites, site{in: in, x: in.X, lo: in.Low, hi: in.High, max: in.Max, act: curAct})
		}
	}
	eachInstr(fn, collect)
	callsHelper := len(helperGroup(c.P, fn)) > 1+len(fn.AnonFuncs)
	if len(sites) == 0 && !callsHelper {
		return nil
	}
	var out []BoundsResult
	var g *Gate
	var s *Summary
	var sums []*LoopSum
	ensure := func() {
		if g != nil {
			return
		}
		g = NewGate(c.P)
		g.Inline = func(_, callee *ssa.Function, depth int) bool {
			// inline small helpers that return indexes (their results are correlated with their guards)
			return depth <= 2 && linInline[shortFn(callee)]
		}
		for n := range linPure {
			g.Pure[n] = true
		}
		s = g.Eval(fn)
		_ = sums
	}
	c.Fn(FuncName(fn))
	if callsHelper {
		// the sites of new helpers, once per inlined activation, in terms of this caller
		ensure()
		for _, sub := range g.Subs {
			if c.P.IsNewHelper(sub.Fn) {
				curAct = sub
				for _, b := range sub.Fn.Blocks {
					for _, in := range b.Instrs {
						collect(b, in)
					}
				}
			}
		}
		curAct = nil
	}
	for _, st := range sites {
		r := BoundsResult{Fn: fn, Pos: st.in.Pos(), Expr: clip(st.in.String(), 70)}
		act := s
		owner := shortFn(fn)
		if st.act != nil {
			act = st.act
			owner = shortFn(st.act.Fn) + " (in " + shortFn(fn) + ")"
		}
		pk := posKey(c.P, st.in.Pos())
		if resid != nil && !resid[pk] && st.in.Pos().IsValid() {
			r.Verdict = "compiler"
			r.Key = owner + ": " + r.Expr
			out = append(out, r)
			continue
		}
		ensure()
		if st.act == nil {
			act = s
		}
		u := g.U
		_, ok := act.RC[st.in.Block()]
		rc := act.RCAt(st.in)
		if !ok {
			r.Verdict = "lin"
			r.Why = "unreachable block"
			out = append(out, r)
			continue
		}
		x := act.Env[st.x]
		if x == nil {
			if cv, ok := st.x.(*ssa.Const); ok && cv.Value != nil {
				x = u.ConstVal(cv.Value, cv.Type())
			}
		}
		var lo, hi *E
		if st.lo != nil {
			lo = act.Env[st.lo]
			if lo == nil {
				if cv, ok := st.lo.(*ssa.Const); ok && cv.Value != nil {
					lo = u.ConstVal(cv.Value, cv.Type())
				}
			}
		}
		if st.hi != nil {
			hi = act.Env[st.hi]
			if hi == nil {
				if cv, ok := st.hi.(*ssa.Const); ok && cv.Value != nil {
					hi = u.ConstVal(cv.Value, cv.Type())
				}
			}
		}
		fullKey := owner + ": " + siteKey(u, x, lo, hi, st.isIndex)
		r.Key = owner + ": " + clip(siteKey(u, x, lo, hi, st.isIndex), 160)
		if x == nil {
			r.Verdict = "violation"
			r.Why = "UNDECIDED: operand not evaluated"
			out = append(out, r)
			continue
		}
		ok2, why := proveSite(c, g, act, act.Fn, rc, x, lo, hi, st.isIndex)
		switch {
		case ok2:
			r.Verdict = "lin"
			r.Why = why
		default:
			reason, isRes := residualTable[fullKey]
			if !isRes && st.act != nil {
				// the same site reached through a helper: the entry is stated in the caller's terms
				reason, isRes = residualTable[shortFn(fn)+": "+siteKey(u, x, lo, hi, st.isIndex)]
			}
			if !isRes && lo != nil && lo.Op == "ite" && !st.isIndex {
				// a lower bound chosen between two values (head := 1; if prefix { head = 2 }): each arm
				// is judged on its own path; an arm that is not proved must be a site the table lists
				// in the caller's terms, with the selector of the arm as an additional premise
				arms := []struct {
					c Ref
					e *E
				}{{lo.B, lo.Args[0]}, {u.bdd.Not(lo.B), lo.Args[1]}}
				all, why2 := true, ""
				for _, a := range arms {
					rcA := u.bdd.And(rc, a.c)
					if rcA == False {
						continue
					}
					if okA, _ := proveSite(c, g, act, act.Fn, rcA, x, a.e, hi, st.isIndex); okA {
						continue
					}
					rs, listed := residualTable[shortFn(fn)+": "+siteKey(u, x, a.e, hi, st.isIndex)]
					if !listed {
						all = false
						break
					}
					why2 = rs
				}
				if all && why2 != "" {
					reason, isRes = why2, true
				} else if all {
					ok2 = true
				}
			}
			if ok2 {
				r.Verdict = "lin"
				r.Why = "each arm of the selected lower bound proved on its own path"
			} else if isRes {
				r.Verdict = "residual"
				r.Why = reason
			} else {
				r.Verdict = "violation"
				r.Why = why
			}
		}
		out = append(out, r)
	}
	return out
}

// linInline: helpers whose index results are correlated with the guards of their return sites.
var linInline = map[string]bool{
	"rules.findCosmeticRuleMarker":     true,
	"proxy.findBodyInjectionIndex":     true,
	"rules.isRegexPattern":             true,
	"(*rules.NetworkRule).IsRegexRule": true,
}

// linPure: repository predicates treated as deterministic (their truth adds the literals implied by their own decision function).
var linPure = map[string]bool{
	"rules.startsAtIndexWith": true,
	"rules.isRegexPattern":    true,
}

func arrayConstIndexOK(t types.Type, idx ssa.Value) bool {
	if p, ok := t.Underlying().(*types.Pointer); ok {
		t = p.Elem()
	}
	arr, ok := t.Underlying().(*types.Array)
	if !ok {
		return false
	}
	cv, ok := idx.(*ssa.Const)
	if !ok || cv.Value == nil {
		return false
	}
	v := cv.Int64()
	return v >= 0 && v < arr.Len()
}

func siteKey(u *U, x, lo, hi *E, isIndex bool) string {
	show := func(e *E) string {
		if e == nil {
			return ""
		}
		return u.Show(e)
	}
	if isIndex {
		return show(x) + "[" + show(lo) + "]"
	}
	return show(x) + "[" + show(lo) + ":" + show(hi) + "]"
}

// proveSite proves the bounds obligations of one site.
func proveSite(c *Ctx, g *Gate, s *Summary, fn *ssa.Function, rc Ref, x, lo, hi *E, isIndex bool) (bool, string) {
	u := g.U
	// split if-then-else operands (also nested ones) by substituting each
	// selected leaf everywhere, including in the reach condition
	type cas struct {
		cond      Ref
		x, lo, hi *E
		sub       map[string]*E
	}
	cases := []cas{{rc, x, lo, hi, map[string]*E{}}}
	firstIte := func(es ...*E) *E {
		var found *E
		for _, e := range es {
			if e == nil || found != nil {
				continue
			}
			seen := map[*E]bool{}
			var rec func(v *E)
			rec = func(v *E) {
				if v == nil || seen[v] || found != nil {
					return
				}
				seen[v] = true
				if v.Op == "ite" {
					found = v
					return
				}
				if v.Op == "bool" {
					return
				}
				for _, a := range v.Args {
					rec(a)
				}
			}
			rec(e)
		}
		return found
	}
	for rounds := 0; rounds < 12; rounds++ {
		var next []cas
		changed := false
		for _, cs := range cases {
			it := firstIte(cs.x, cs.lo, cs.hi)
			if it == nil {
				next = append(next, cs)
				continue
			}
			changed = true
			for i, leaf := range []*E{it.Args[0], it.Args[1]} {
				cnd := it.B
				if i == 1 {
					cnd = u.bdd.Not(it.B)
				}
				cc := u.bdd.And(cs.cond, cnd)
				if cc == False {
					continue
				}
				sub := map[string]*E{it.key: leaf}
				// every other selection on the same condition takes the same side
				for _, o := range sameCondItes(u, it, cs.cond, cs.x, cs.lo, cs.hi) {
					switch {
					case o.B == it.B:
						sub[o.key] = o.Args[i]
					case o.B == u.bdd.Not(it.B):
						sub[o.key] = o.Args[1-i]
					}
				}
				acc := map[string]*E{}
				for k, v := range cs.sub {
					acc[k] = u.Subst(v, sub)
				}
				for k, v := range sub {
					acc[k] = v
				}
				n := cas{cond: u.SubstBool(cc, sub), x: u.Subst(cs.x, sub), sub: acc}
				if cs.lo != nil {
					n.lo = u.Subst(cs.lo, sub)
				}
				if cs.hi != nil {
					n.hi = u.Subst(cs.hi, sub)
				}
				if n.cond != False {
					next = append(next, n)
				}
			}
		}
		cases = next
		if !changed || len(cases) > 96 {
			break
		}
	}
	if len(cases) > 96 {
		return false, "UNDECIDED: too many cases"
	}
	var used []string
	var proveCase func(cs cas, cube map[int]bool) (bool, string)
	for _, cs := range cases {
		ok, why := proveCase0(c, g, s, fn, u, cs.cond, cs.x, cs.lo, cs.hi, isIndex, nil, cs.sub)
		if !ok {
			// disjunctive reach condition: prove under every cube
			n := 0
			okAll := true
			var firstWhy string
			u.bdd.Cubes(cs.cond, func(cube map[int]bool) {
				n++
				if n > 256 || !okAll {
					return
				}
				ok2, why2 := proveCase0(c, g, s, fn, u, cs.cond, cs.x, cs.lo, cs.hi, isIndex, cube, cs.sub)
				if !ok2 {
					okAll = false
					firstWhy = why2
				}
			})
			if n > 256 || !okAll {
				if firstWhy == "" {
					firstWhy = why
				}
				return false, firstWhy
			}
			why = fmt.Sprintf("%d path conditions", n)
		}
		used = append(used, why)
	}
	_ = proveCase
	return true, fmt.Sprintf("%d case(s): %s", len(cases), clip(strings.Join(used, "/"), 80))
}

// sameCondItes lists the selections, inside es or inside the atoms of cond,
// whose condition is that of it or its negation.
func sameCondItes(u *U, it *E, cond Ref, es ...*E) []*E {
	var out []*E
	seen := map[*E]bool{}
	notB := u.bdd.Not(it.B)
	var rec func(v *E)
	rec = func(v *E) {
		if v == nil || seen[v] {
			return
		}
		seen[v] = true
		if v.Op == "ite" && v != it && (v.B == it.B || v.B == notB) {
			out = append(out, v)
		}
		if v.Op == "bool" {
			for _, a := range u.bdd.Support(v.B) {
				rec(u.atoms[a])
			}
			return
		}
		for _, a := range v.Args {
			rec(a)
		}
	}
	for _, e := range es {
		rec(e)
	}
	for _, a := range u.bdd.Support(cond) {
		rec(u.atoms[a])
	}
	return out
}

// proveCase0 proves one case; with cube != nil the literals of that cube are assumed instead of the implied literals of cond.
func proveCase0(c *Ctx, g *Gate, s *Summary, fn *ssa.Function, u *U, cond Ref, x, lo, hi *E, isIndex bool, cube map[int]bool, sub map[string]*E) (bool, string) {
	type casT struct {
		cond      Ref
		x, lo, hi *E
	}
	cs := casT{cond, x, lo, hi}
	{
		L := NewLin(u)
		L.onTrue = func(at *E) { assumePredicate(c, g, L, at) }
		L.sub = sub
		L.cond = cs.cond
		loopFacts(L, g, s, fn)
		contractFacts(L, g, fn)
		if cube == nil {
			L.assumeCond(cs.cond)
		} else {
			for v, val := range cube {
				L.assumeLiteral(u.atoms[v], val)
				if val && L.onTrue != nil {
					L.onTrue(u.atoms[v])
				}
			}
		}
		if len(sub) > 0 {
			// the bound of a loop may be known only through the facts of this case
			loopFacts(L, g, s, fn)
		}
		for _, e := range []*E{cs.x, cs.lo, cs.hi} {
			if e != nil {
				L.registerTerms(e)
			}
		}
		L.resolveNeqs()
		length := L.linearize(u.Len(cs.x))
		zero := newLin()
		if isIndex {
			i := L.linearize(cs.lo)
			if !L.entails(zero, i, 0) {
				return false, fmt.Sprintf("cannot prove 0 <= %s under %s", clip(u.Show(cs.lo), 80), clip(u.ShowBool(cs.cond), 200))
			}
			if !L.entails(i, length, -1) {
				return false, fmt.Sprintf("cannot prove %s < len(%s) under %s", clip(u.Show(cs.lo), 80), clip(u.Show(cs.x), 60), clip(u.ShowBool(cs.cond), 200))
			}
			return true, fmt.Sprintf("%d facts", len(L.cons))
		}
		loL := zero
		if cs.lo != nil {
			loL = L.linearize(cs.lo)
			if !L.entails(zero, loL, 0) {
				return false, fmt.Sprintf("cannot prove 0 <= %s under %s", clip(u.Show(cs.lo), 80), clip(u.ShowBool(cs.cond), 200))
			}
		}
		hiL := length
		if cs.hi != nil {
			hiL = L.linearize(cs.hi)
			if !L.entails(hiL, length, 0) {
				return false, fmt.Sprintf("cannot prove %s <= len(%s) under %s", clip(u.Show(cs.hi), 80), clip(u.Show(cs.x), 60), clip(u.ShowBool(cs.cond), 200))
			}
		}
		if !L.entails(loL, hiL, 0) {
			if os.Getenv("UFCHECK_DEBUG_LIN") != "" {
				fmt.Fprintf(os.Stderr, "LIN DEBUG goal %s <= %s\n", loL, hiL)
				for _, cn := range L.cons {
					fmt.Fprintf(os.Stderr, "   %s <= 0\n", cn.f)
				}
			}
			los, his := "0", "len"
			if cs.lo != nil {
				los = clip(u.Show(cs.lo), 80)
			}
			if cs.hi != nil {
				his = clip(u.Show(cs.hi), 80)
			}
			return false, fmt.Sprintf("cannot prove %s <= %s (low <= high) under %s", los, his, clip(u.ShowBool(cs.cond), 200))
		}
		return true, fmt.Sprintf("%d facts", len(L.cons))
	}
}

// loopFacts adds the two loop lemmas for every header φ of fn and of the
// activations inlined into the evaluation.
func loopFacts(L *Lin, g *Gate, s *Summary, fn *ssa.Function) {
	acts := []*Summary{s}
	if g.Top != nil && g.Top != s && g.Top.Loops > 0 {
		acts = append(acts, g.Top)
	}
	for _, sub := range g.Subs {
		if sub != s && sub != g.Top && sub.Fn != nil && len(sub.Fn.Blocks) > 0 && sub.Loops > 0 {
			acts = append(acts, sub)
		}
	}
	passes := 3
	if len(acts) > 1 {
		passes = 2 + len(acts)
		if passes > 6 {
			passes = 6
		}
	}
	for pass := 0; pass < passes; pass++ {
		for _, a := range acts {
			loopFacts1(L, g, a, a.Fn)
		}
	}
}

func loopFacts1(L *Lin, g *Gate, s *Summary, fn *ssa.Function) {
	u := g.U
	loops := loopsOf(fn)
	{
		for _, l := range loops {
			for _, in := range l.Header.Instrs {
				ph, ok := in.(*ssa.Phi)
				if !ok {
					break
				}
				p := s.Env[ph]
				if p != nil && p.Op == "loopphi" {
					if _, isSlice := ph.Type().Underlying().(*types.Slice); isSlice {
						accumFacts(L, u, s, l, ph, p)
					}
				}
				if p == nil || p.Op != "loopphi" || !isIntLike(p) {
					continue
				}
				var inits []*E
				up, down := true, true
				for i, pr := range l.Header.Preds {
					e := ph.Edges[i]
					if l.Blocks[pr] {
						step, ok := stepOf(e, ph)
						if !ok {
							up, down = false, false
						} else {
							if step < 0 {
								up = false
							}
							if step > 0 {
								down = false
							}
						}
					} else {
						v := s.Env[e]
						if v == nil {
							if cv, ok := e.(*ssa.Const); ok && cv.Value != nil {
								v = u.ConstVal(cv.Value, cv.Type())
							}
						}
						inits = append(inits, v)
					}
				}
				for ii, init := range inits {
					if init != nil && len(L.sub) > 0 {
						init = u.Subst(init, L.sub)
						inits[ii] = init
					}
					for init != nil && init.Op == "ite" && L.cond != False {
						if u.bdd.Implies(L.cond, init.B) {
							init = init.Args[0]
						} else if u.bdd.Implies(L.cond, u.bdd.Not(init.B)) {
							init = init.Args[1]
						} else {
							break
						}
						inits[ii] = init
					}
					if init == nil || init.Op == "ite" {
						// every leaf bounds the φ
						if init != nil {
							// p >= min leaf: add only if all leaves are linearisable constants — skip
						}
						continue
					}
					if up {
						L.leE(init, p, 0) // p >= init
					}
					if down {
						L.leE(p, init, 0)
					}
				}
				// a counter that lags the position: p advances by at most one per iteration, the position
				// q of the same loop by exactly one on every iteration, so p - q never grows:
				// p <= q + (p0 - q0).  ("kept" in an in-place compaction: kept <= index of the element read)
				if up && len(inits) == 1 && inits[0] != nil && maxStepAtMostOne(l, ph) {
					if c0, isC := inits[0].IntVal(); isC {
						for _, in2 := range l.Header.Instrs {
							ip, ok := in2.(*ssa.Phi)
							if !ok {
								break
							}
							q := s.Env[ip]
							if ip == ph || q == nil || q.Op != "loopphi" || !isIntLike(q) || !stepsExactlyOne(l, ip) {
								continue
							}
							var q0 *int64
							okInit := true
							for i, pr := range l.Header.Preds {
								if l.Blocks[pr] {
									continue
								}
								cv, isK := ip.Edges[i].(*ssa.Const)
								if !isK || cv.Value == nil || q0 != nil {
									okInit = false
									continue
								}
								v := cv.Int64()
								q0 = &v
							}
							if okInit && q0 != nil {
								L.leE(p, q, c0-*q0)
							}
						}
					}
				}
				// inductive lower bound for a φ that is not a counter (start = i + 1 on some iterations,
				// unchanged on others): with a constant initial value c, if every value carried around
				// the loop is the φ itself or provably >= c given φ >= c and the facts known so far,
				// then φ >= c
				if !up && !down && len(inits) == 1 && inits[0] != nil {
					if _, isC := inits[0].IntVal(); isC {
						L2 := NewLin(u)
						L2.cons = append(L2.cons, L.cons...)
						for k, v := range L.terms {
							L2.terms[k] = v
							L2.seenT[k] = true
						}
						L2.leE(inits[0], p, 0)
						okAll := true
						for i, pr := range l.Header.Preds {
							if !l.Blocks[pr] {
								continue
							}
							v := s.Env[ph.Edges[i]]
							if v == nil {
								if ph.Edges[i] == ssa.Value(ph) {
									continue
								}
								okAll = false
								continue
							}
							for leaf := range u.Leaves(v) {
								if leaf == p {
									continue
								}
								if !L2.entails(L2.linearize(inits[0]), L2.linearize(leaf), 0) {
									okAll = false
								}
							}
						}
						if okAll {
							L.leE(inits[0], p, 0)
						}
					}
				}
				// inductive upper bound: steps only under p < B (B loop-invariant) and init <= B  =>  p <= B
				if up && len(inits) == 1 && inits[0] != nil {
					for _, lt := range l.Latches {
						_ = lt
					}
					cont := False
					for _, lt := range l.Latches {
						cont = u.bdd.Or(cont, s.RC[lt])
					}
					// the part of the site's condition that speaks of no loop-carried value
					// held on every iteration too (a case split on a selection made before the loop)
					if L.cond != False && L.cond != True {
						inv := L.cond
						for _, v := range u.bdd.Support(L.cond) {
							if u.Mentions(u.atoms[v], func(x *E) bool { return x.Op == "loopphi" || x.Op == "loopval" }) {
								inv = u.bdd.Exists(inv, v)
							}
						}
						cont = u.bdd.And(cont, inv)
					}
					if os.Getenv("UFCHECK_DEBUG_LOOP") != "" {
						fmt.Fprintf(os.Stderr, "LOOPDBG p=%s init=%s cont=%s\n", u.Show(p), u.Show(inits[0]), clip(u.ShowBool(cont), 400))
					}
					for _, v := range u.bdd.Support(cont) {
						at := u.atoms[v]
						// p+k < B (range form: 1+p < len): steps of one under the guard keep p+k <= B
						if at.Op == "lt" && at.Args[0] != p && u.bdd.Implies(cont, u.bdd.Var(v)) && stepsByOne(l, ph) {
							if k, ok := constDiff(u, at.Args[0], p, p); ok && !u.Mentions(at.Args[1], func(x *E) bool { return x == p }) {
								B := at.Args[1]
								li := L.linearize(inits[0])
								li.k.Add(li.k, new(big.Rat).SetInt64(k))
								if L.entails(li, L.linearize(B), 0) {
									L.leE(at.Args[0], B, 0)
								}
							}
						}
						isLt := at.Op == "lt" && at.Args[0] == p && u.bdd.Implies(cont, u.bdd.Var(v))
						isNe := at.Op == "eq" && (at.Args[0] == p || at.Args[1] == p) && u.bdd.Implies(cont, u.bdd.Not(u.bdd.Var(v))) && stepsByOne(l, ph)
						if (isLt || isNe) && !u.Mentions(otherArg(at, p), func(x *E) bool { return x == p }) {
							B := otherArg(at, p)
							if len(L.sub) > 0 {
								B = u.Subst(B, L.sub)
							}
							if os.Getenv("UFCHECK_DEBUG_LOOP") != "" {
								fmt.Fprintf(os.Stderr, "LOOPDBG2 p=%s B=%s nsub=%d ent=%v\n", u.Show(p), u.Show(B), len(L.sub), L.entails(L.linearize(inits[0]), L.linearize(B), 0))
							}
							// all increments happen inside the loop body, i.e. under cont
							if L.entails(L.linearize(inits[0]), L.linearize(B), 0) {
								L.leE(p, B, 0)
							}
						}
					}
				}
			}
		}
	}
}

// stepOf: e == ph + c (or ph itself, c = 0), possibly through φ-merges inside the loop body.
func stepOf(e ssa.Value, ph *ssa.Phi) (int64, bool) {
	return stepOf1(e, ph, map[ssa.Value]bool{})
}

func stepOf1(e ssa.Value, ph *ssa.Phi, seen map[ssa.Value]bool) (int64, bool) {
	if e == ssa.Value(ph) {
		return 0, true
	}
	if seen[e] {
		return 0, true
	}
	seen[e] = true
	if b, ok := e.(*ssa.BinOp); ok && b.X == ssa.Value(ph) {
		if cv, ok := b.Y.(*ssa.Const); ok && cv.Value != nil {
			switch b.Op {
			case token.ADD:
				return cv.Int64(), true
			case token.SUB:
				return -cv.Int64(), true
			}
		}
	}
	if m, ok := e.(*ssa.Phi); ok && m != ph {
		var st int64
		first := true
		for _, ed := range m.Edges {
			s2, ok := stepOf1(ed, ph, seen)
			if !ok {
				return 0, false
			}
			if first {
				st, first = s2, false
			} else if (s2 < 0) != (st < 0) && s2 != 0 && st != 0 {
				return 0, false
			} else if s2 != 0 {
				st = s2
			}
		}
		return st, true
	}
	return 0, false
}

// contractFacts assumes the declared pre-conditions of fn on its parameters.
func contractFacts(L *Lin, g *Gate, fn *ssa.Function) {
	facts, ok := requiresTable[shortFn(fn)]
	if !ok {
		return
	}
	ps := g.ParamExprs(fn)
	for _, f := range facts {
		L.leE(paramTerm(g.U, ps, f.lo), paramTerm(g.U, ps, f.hi), f.k)
	}
}

// assumePredicate: when a repository predicate is known true, the literals
// implied by its own decision function hold for the actual arguments.
func assumePredicate(c *Ctx, g *Gate, L *Lin, at *E) {
	if at.Op != "call" {
		return
	}
	var callee *ssa.Function
	for _, fn := range c.P.AllLibFuncs() {
		if calleeName(fn) == at.Aux {
			callee = fn
		}
	}
	if os.Getenv("UFCHECK_DEBUG_LIN") != "" {
		fmt.Fprintf(os.Stderr, "assumePredicate %s callee=%v\n", clip(at.Aux, 80), callee != nil)
	}
	if callee == nil || !linPure[shortFn(callee)] {
		return
	}
	g2 := NewGate(c.P)
	g2.Inline = inlineOnly()
	s2 := g2.Eval(callee)
	if len(s2.Rets) == 0 {
		return
	}
	u2 := g2.U
	H := False
	for _, r := range s2.Rets {
		// returns inside loops carry per-iteration atoms: keep only loop-free literals
		H = u2.bdd.Or(H, u2.bdd.And(r.Cond, u2.ToBool(r.Vals[0])))
	}
	ps2 := g2.ParamExprs(callee)
	for _, v := range u2.bdd.Support(H) {
		a2 := u2.atoms[v]
		lit := u2.bdd.Var(v)
		pos := u2.bdd.Implies(H, lit)
		neg := u2.bdd.Implies(H, u2.bdd.Not(lit))
		if !pos && !neg {
			continue
		}
		if u2.Mentions(a2, func(x *E) bool { return x.Op == "loopphi" || x.Op == "loopval" || x.Op == "rangeval" }) {
			continue
		}
		// transport the literal into the caller's universe by rebuilding it over the actual arguments
		if tr := transport(g.U, u2, a2, ps2, at.Args); tr != nil {
			if tr.Op == "bool" {
				// re-canonicalised: a literal or constant
				for _, vv := range g.U.bdd.Support(tr.B) {
					ta := g.U.atoms[vv]
					if tr.B == g.U.bdd.Var(vv) {
						L.assumeLiteral(ta, pos)
					} else if tr.B == g.U.bdd.Not(g.U.bdd.Var(vv)) {
						L.assumeLiteral(ta, !pos)
					}
				}
			} else {
				L.assumeLiteral(tr, pos)
			}
		}
	}
}

// transport rebuilds expression e of universe from in universe to, replacing
// the parameter symbols ps by args.
func transport(to, from *U, e *E, ps []*E, args []*E) *E {
	memo := map[*E]*E{}
	var rec func(x *E) *E
	rec = func(x *E) *E {
		if x == nil {
			return nil
		}
		if r, ok := memo[x]; ok {
			return r
		}
		for i, p := range ps {
			if x == p && i < len(args) {
				return args[i]
			}
		}
		var out *E
		switch x.Op {
		case "const":
			out = to.ConstVal(x.Const, x.Typ)
		case "nil":
			out = to.mk("nil", "", x.Typ)
		case "bool", "ite":
			return nil // nested conditions are not transported
		default:
			as := make([]*E, len(x.Args))
			for i, a := range x.Args {
				if a == nil {
					continue
				}
				as[i] = rec(a)
				if as[i] == nil {
					return nil
				}
			}
			tmp := &E{Op: x.Op, Aux: x.Aux, Typ: x.Typ, Const: x.Const}
			out = to.rebuild(tmp, as)
		}
		memo[x] = out
		return out
	}
	return rec(e)
}

func otherArg(at, p *E) *E {
	if at.Args[0] == p {
		return at.Args[1]
	}
	return at.Args[0]
}

// stepsByOne: every latch value of ph is ph or ph+1.
func stepsByOne(l *Loop, ph *ssa.Phi) bool {
	for i, pr := range l.Header.Preds {
		if !l.Blocks[pr] {
			continue
		}
		st, ok := stepOf(ph.Edges[i], ph)
		if !ok || st < 0 || st > 1 {
			return false
		}
	}
	return true
}

// accumFacts: a slice q carried by a loop whose position p advances by exactly
// one per iteration, and which in every iteration stays as it is or grows by at
// most n appended elements, satisfies len(q) - len(q0) <= n * (p - p0).
func accumFacts(L *Lin, u *U, s *Summary, l *Loop, ph *ssa.Phi, q *E) {
	var init *E
	maxAdd := int64(0)
	for i, pr := range l.Header.Preds {
		v := s.Env[ph.Edges[i]]
		if v == nil {
			if cv, ok := ph.Edges[i].(*ssa.Const); ok && cv.Value == nil {
				v = u.mk("nil", "", ph.Type())
			} else {
				return
			}
		}
		if !l.Blocks[pr] {
			if init != nil && init != v {
				return
			}
			init = v
			continue
		}
		for leaf := range u.Leaves(v) {
			switch {
			case leaf == q:
			case leaf.Op == "append" && leaf.Aux == "elems" && leaf.Args[0] == q:
				if n := int64(len(leaf.Args) - 1); n > maxAdd {
					maxAdd = n
				}
			default:
				return
			}
		}
	}
	if init == nil || maxAdd == 0 || maxAdd > 4 {
		return
	}
	// the position: an integer φ of the same header that steps by one on every latch
	for _, in := range l.Header.Instrs {
		ip, ok := in.(*ssa.Phi)
		if !ok {
			break
		}
		p := s.Env[ip]
		if p == nil || p.Op != "loopphi" || !isIntLike(p) || !stepsExactlyOne(l, ip) {
			continue
		}
		var p0 *E
		okInit := true
		for i, pr := range l.Header.Preds {
			if l.Blocks[pr] {
				continue
			}
			v := s.Env[ip.Edges[i]]
			if v == nil {
				if cv, isC := ip.Edges[i].(*ssa.Const); isC && cv.Value != nil {
					v = u.ConstVal(cv.Value, cv.Type())
				}
			}
			if v == nil || (p0 != nil && p0 != v) || v.Op == "ite" {
				okInit = false
			}
			p0 = v
		}
		if !okInit || p0 == nil {
			continue
		}
		// len(q) - len(init) - maxAdd*p + maxAdd*p0 <= 0
		c := L.linearize(u.Len(q))
		c.addScaled(L.linearize(u.Len(init)), new(big.Rat).SetInt64(-1))
		c.addScaled(L.linearize(p), new(big.Rat).SetInt64(-maxAdd))
		c.addScaled(L.linearize(p0), new(big.Rat).SetInt64(maxAdd))
		L.le(c, newLin(), 0)
		return
	}
}

func stepsExactlyOne(l *Loop, ph *ssa.Phi) bool {
	n := 0
	for i, pr := range l.Header.Preds {
		if !l.Blocks[pr] {
			continue
		}
		n++
		st, ok := stepOf(ph.Edges[i], ph)
		if !ok || st != 1 {
			return false
		}
	}
	return n > 0
}

// maxStepAtMostOne: on every path around the loop ph becomes ph or ph+1 (φ-merges inside the body
// followed on all their edges).
func maxStepAtMostOne(l *Loop, ph *ssa.Phi) bool {
	seen := map[ssa.Value]bool{}
	var walk func(v ssa.Value) bool
	walk = func(v ssa.Value) bool {
		if v == ssa.Value(ph) || seen[v] {
			return true
		}
		seen[v] = true
		switch y := v.(type) {
		case *ssa.BinOp:
			cv, ok := y.Y.(*ssa.Const)
			return ok && y.Op == token.ADD && y.X == ssa.Value(ph) && cv.Value != nil && (cv.Int64() == 0 || cv.Int64() == 1)
		case *ssa.Phi:
			if !l.Blocks[y.Block()] {
				return false
			}
			for _, ed := range y.Edges {
				if !walk(ed) {
					return false
				}
			}
			return true
		}
		return false
	}
	n := 0
	for i, pr := range l.Header.Preds {
		if !l.Blocks[pr] {
			continue
		}
		n++
		if !walk(ph.Edges[i]) {
			return false
		}
	}
	return n > 0
}
