package main

// BITS — bit provenance.  An integer expression is abstracted to 64 cells,
// each 0, 1, (input, bit k) or unknown.  Transfer functions for conversions
// (sign/zero extension, truncation), shifts by constants and &, | with
// constants or with disjoint operands.  Composing the abstractions of pack
// and unpack proves the round trip for all inputs or names the cell that
// breaks.

import (
	"fmt"
	"go/types"
)

type cell struct {
	kind byte // '0', '1', 'v' (variable bit), '?' unknown
	v    string
	bit  int
}

type bitvec struct {
	c      [64]cell
	width  int
	signed bool
}

func typeWidth(t types.Type) (int, bool) {
	b, ok := t.Underlying().(*types.Basic)
	if !ok || b.Info()&types.IsInteger == 0 {
		return 64, true
	}
	return intWidth(b), b.Info()&types.IsUnsigned == 0
}

func (bv *bitvec) extend() {
	// fill cells >= width by sign or zero extension
	for i := bv.width; i < 64; i++ {
		if bv.signed {
			bv.c[i] = bv.c[bv.width-1]
		} else {
			bv.c[i] = cell{kind: '0'}
		}
	}
}

func bitsOf(u *U, e *E) bitvec {
	var out bitvec
	w, sg := 64, true
	if e.Typ != nil {
		w, sg = typeWidth(e.Typ)
	}
	out.width, out.signed = w, sg
	unknown := func() bitvec {
		for i := range out.c {
			out.c[i] = cell{kind: '?'}
		}
		return out
	}
	switch e.Op {
	case "const":
		v, ok := e.IntVal()
		if !ok {
			return unknown()
		}
		for i := 0; i < 64; i++ {
			if uint64(v)>>uint(i)&1 == 1 {
				out.c[i] = cell{kind: '1'}
			} else {
				out.c[i] = cell{kind: '0'}
			}
		}
		return out
	case "param":
		for i := 0; i < w; i++ {
			out.c[i] = cell{kind: 'v', v: e.Aux, bit: i}
		}
		out.extend()
		return out
	case "convert":
		src := bitsOf(u, e.Args[0])
		for i := 0; i < w; i++ {
			out.c[i] = src.c[i]
		}
		out.extend()
		return out
	case "bin":
		a := bitsOf(u, e.Args[0])
		switch e.Aux {
		case "<<", ">>":
			n, ok := e.Args[1].IntVal()
			if !ok || n < 0 || n > 63 {
				return unknown()
			}
			for i := 0; i < 64; i++ {
				var src int
				if e.Aux == "<<" {
					src = i - int(n)
					if src < 0 {
						out.c[i] = cell{kind: '0'}
						continue
					}
					if i >= w {
						continue
					}
					out.c[i] = a.c[src]
				} else {
					src = i + int(n)
					if src >= 64 {
						if a.signed {
							out.c[i] = a.c[63]
						} else {
							out.c[i] = cell{kind: '0'}
						}
						continue
					}
					out.c[i] = a.c[src]
				}
			}
			if e.Aux == "<<" {
				// truncate to width then extend
				out.extend()
			}
			return out
		case "&", "|":
			b := bitsOf(u, e.Args[1])
			for i := 0; i < 64; i++ {
				x, y := a.c[i], b.c[i]
				switch e.Aux {
				case "&":
					switch {
					case x.kind == '0' || y.kind == '0':
						out.c[i] = cell{kind: '0'}
					case x.kind == '1':
						out.c[i] = y
					case y.kind == '1':
						out.c[i] = x
					case x == y:
						out.c[i] = x
					default:
						out.c[i] = cell{kind: '?'}
					}
				case "|":
					switch {
					case x.kind == '1' || y.kind == '1':
						out.c[i] = cell{kind: '1'}
					case x.kind == '0':
						out.c[i] = y
					case y.kind == '0':
						out.c[i] = x
					case x == y:
						out.c[i] = x
					default:
						out.c[i] = cell{kind: '?'}
					}
				}
			}
			return out
		}
	}
	return unknown()
}

func (c cell) String() string {
	switch c.kind {
	case '0', '1':
		return string(c.kind)
	case 'v':
		return fmt.Sprintf("%s[%d]", c.v, c.bit)
	}
	return "?"
}
