package main

// C16 — exception modifiers only ever switch cosmetic options off.

import (
	"fmt"
	"go/token"
	"go/types"
	"os"
	"sort"
	"strings"

	"golang.org/x/tools/go/ssa"
)

func init() {
	register(&PropDef{
		ID:  "C16",
		Run: runC16,
		Explanation: "Static decision of the structural clauses of C16. R1: the complete decision table of (*MatchingResult).GetCosmeticOption is extracted from its SSA form " +
			"(gated evaluation: reach conditions as BDDs over opaque atoms, IsOptionEnabled inlined) and evaluated on every combination of {no basic rule, blocking rule, exception rule} x all 2^8 subsets of the " +
			"document-level/important option bits; each row must equal All &^ union(disabled(m)) with the disabled() table taken from the property statement. " +
			"R2: IsOptionEnabled is (enabled & o) == o on all 3-bit operands. R3: for every document-level modifier name, loadOption (setOptionEnabled inlined) ors exactly the documented option bits into enabledOptions, " +
			"for every prior option state (order independence). R4: Engine.GetCosmeticResult passes option&K==K to the parameter of CosmeticEngine.Match that gates feature K (roles derived from the callee's own guards). " +
			"R5: the proxy's HTML filter call is guarded by option != None. R3 also: each modifier is accepted (nil error) for every prior option state that does not already contain all its bits. R8: every store to enabledOptions is 'enabledOptions | bits' (documented exception: ~extension). Nothing is executed; the tables are extracted from the source and compared inside the checker.",
		Trusted: []string{
			"spec tables transcribed from the property statement: disabled(elemhide)=CSS|GenericCSS, disabled(generichide)=GenericCSS, disabled(jsinject)=JS; $document = elemhide+jsinject+urlblock+content+extension",
		},
		Assumptions: []string{"exported constant names Option*/CosmeticOption* denote the modifiers/options they are documented to denote"},
	})
}

func inlineOnly(names ...string) func(caller, callee *ssa.Function, depth int) bool {
	set := map[string]bool{}
	for _, n := range names {
		set[n] = true
	}
	return func(_, callee *ssa.Function, _ int) bool { return set[FuncName(callee)] }
}

func runC16(c *Ctx) {
	c.Rule("C16.R1", "PDT", "decision table of GetCosmeticOption equals All &^ union(disabled(m)) on all valuations", 3*256)
	c.Rule("C16.R2", "PDT", "IsOptionEnabled(o) == ((enabled & o) == o)", 64)
	c.Rule("C16.R3", "TBL/PDT", "each document-level modifier name ors exactly its documented bits into enabledOptions, whatever was set before", 9)
	c.Rule("C16.R4", "WIRE/PDT", "GetCosmeticResult decodes option bits into the matching gate parameters of CosmeticEngine.Match", 3)
	c.Rule("C16.R5", "WIRE", "proxy filters HTML only when the cosmetic option is not None", 1)

	a := &anchors{c: c, rule: "C16.R1"}
	get := a.method("rules", "MatchingResult", "GetCosmeticOption")
	optNames := []string{"OptionElemhide", "OptionGenerichide", "OptionGenericblock", "OptionJsinject", "OptionUrlblock", "OptionContent", "OptionExtension", "OptionImportant"}
	opt := map[string]int64{}
	for _, n := range optNames {
		if v, ok := a.constInt("rules", n); ok {
			opt[n] = v
		}
	}
	cos := map[string]int64{}
	for _, n := range []string{"CosmeticOptionAll", "CosmeticOptionCSS", "CosmeticOptionGenericCSS", "CosmeticOptionJS", "CosmeticOptionNone"} {
		if v, ok := a.constInt("rules", n); ok {
			cos[n] = v
		}
	}
	if a.bad {
		return
	}

	// ---------- R1 ----------
	{
		g := NewGate(c.P)
		g.Inline = inlineOnly("(*rules.NetworkRule).IsOptionEnabled", "(*rules.NetworkRule).IsOptionDisabled")
		g.Unroll, g.ConstTables = true, true // a table of (modifier, disabled options) pairs is the same decision table
		s := g.Eval(get)
		u := g.U
		res := g.RetExpr(s, 0)
		m := g.ParamExprs(get)[0]
		nrT := c.P.Type("rules", "NetworkRule")
		br := u.Field(m, "BasicRule", types.NewPointer(nrT))
		obj := u.mk("new", "basicRule", types.NewPointer(nrT))
		spec := func(kind int, bits int64) int64 {
			if kind != 2 {
				return cos["CosmeticOptionAll"]
			}
			v := cos["CosmeticOptionAll"]
			if bits&opt["OptionElemhide"] != 0 {
				v &^= cos["CosmeticOptionCSS"] | cos["CosmeticOptionGenericCSS"]
			}
			if bits&opt["OptionGenerichide"] != 0 {
				v &^= cos["CosmeticOptionGenericCSS"]
			}
			if bits&opt["OptionJsinject"] != 0 {
				v &^= cos["CosmeticOptionJS"]
			}
			return v
		}
		kinds := []string{"no basic rule", "blocking basic rule", "exception basic rule"}
		enT := types.Typ[types.Uint64]
		for kind := 0; kind < 3; kind++ {
			for mask := 0; mask < 256; mask++ {
				var bits int64
				var names []string
				for i, n := range optNames {
					if mask&(1<<i) != 0 {
						bits |= opt[n]
						names = append(names, strings.TrimPrefix(n, "Option"))
					}
				}
				sub := map[string]*E{}
				if kind == 0 {
					sub[br.key] = u.mk("nil", "", br.Typ)
				} else {
					sub[br.key] = obj
				}
				e := u.Subst(res, sub)
				sub2 := map[string]*E{
					u.Field(obj, "Whitelist", types.Typ[types.Bool]).key: u.Bool(boolRef(kind == 2)),
					u.Field(obj, "enabledOptions", nil).key:              u.ConstVal(constantInt(bits), enT),
				}
				// the field expression was created with its declared type; match by key prefix
				e = u.Subst(e, fieldSubst(u, e, obj, map[string]*E{
					"Whitelist":      u.Bool(boolRef(kind == 2)),
					"enabledOptions": u.ConstVal(constantInt(bits), enT),
				}))
				_ = sub2
				e = u.EvalUnder(e, func(*E) bool { return false })
				c.Paths++
				key := fmt.Sprintf("GetCosmeticOption[%s; modifiers={%s}]", kinds[kind], strings.Join(names, ","))
				got, ok := e.IntVal()
				want := spec(kind, bits)
				switch {
				case !ok:
					c.Fail("C16.R1", key, get.Pos(), "UNDECIDED: the result does not fold to a constant for this valuation: "+u.Show(e))
				case got != want:
					c.Fail("C16.R1", key, get.Pos(), fmt.Sprintf("returns %03b, the documented table gives %03b (an option the modifiers disable is enabled, or vice versa)", got, want))
				default:
					c.OK("C16.R1", key, get.Pos(), fmt.Sprintf("= %03b", got))
				}
			}
		}
		for _, at := range u.atoms {
			c.Atoms[at.key] = true
		}
	}

	checkOptionSplitter(c, "C16.R7")
	importRulesNoRec(c, runC08, map[string]string{"C08.R1": "C16.R9", "C08.R2": "C16.R9"}, map[string]string{"C16.R9": "the exception the option is derived from is not dropped by the badfilter filter unless a badfilter rule negates it: decided per candidate, never carried over (shared with C08.R1/R2)"})
	importRulesNoRec(c, runC06, map[string]string{"C06.R2": "C16.R6", "C06.R3": "C16.R6"}, map[string]string{"C16.R6": "the basic rule the option is derived from is selected by the documented admission table: an exception is never discarded by a referrer's $genericblock/$urlblock (shared with C06.R2/R3)"})

	// ---------- R2 ----------
	a.rule = "C16.R2"
	if isEn := a.method("rules", "NetworkRule", "IsOptionEnabled"); isEn != nil {
		g := NewGate(c.P)
		g.Inline = inlineOnly()
		s := g.Eval(isEn)
		u := g.U
		res := g.RetExpr(s, 0)
		ps := g.ParamExprs(isEn)
		for v := int64(0); v < 8; v++ {
			for o := int64(0); o < 8; o++ {
				e := u.Subst(res, map[string]*E{ps[1].key: u.ConstVal(constantInt(o), ps[1].Typ)})
				e = u.Subst(e, fieldSubst(u, e, ps[0], map[string]*E{"enabledOptions": u.ConstVal(constantInt(v), ps[1].Typ)}))
				e = u.EvalUnder(e, func(*E) bool { return false })
				c.Paths++
				key := fmt.Sprintf("IsOptionEnabled[enabled=%03b,o=%03b]", v, o)
				want := v&o == o
				if e.Op != "bool" || (e.B != True && e.B != False) {
					c.Fail("C16.R2", key, isEn.Pos(), "UNDECIDED: does not fold: "+u.Show(e))
				} else if (e.B == True) != want {
					c.Fail("C16.R2", key, isEn.Pos(), fmt.Sprintf("returns %v, want %v", e.B == True, want))
				} else {
					c.OK("C16.R2", key, isEn.Pos(), "folds to the expected value")
				}
			}
		}
	}

	// ---------- R3 ----------
	// ---------- R8: option bits are only ever added ----------
	c.Rule("C16.R8", "EFF", "NetworkRule.enabledOptions is only ever or-ed into: no modifier bit is cleared or overwritten after it was set", 1)
	checkOptionWordMonotone(c, "C16.R8", "enabledOptions", opt["OptionExtension"],
		"a modifier bit can be cleared or overwritten after the options were parsed (e.g. dropping an 'implied' modifier): the exception then disables less than its modifiers say")
	a.rule = "C16.R3"
	if lo := a.method("rules", "NetworkRule", "loadOption"); lo != nil {
		table := map[string][]string{
			"elemhide":     {"OptionElemhide"},
			"generichide":  {"OptionGenerichide"},
			"genericblock": {"OptionGenericblock"},
			"jsinject":     {"OptionJsinject"},
			"urlblock":     {"OptionUrlblock"},
			"content":      {"OptionContent"},
			"extension":    {"OptionExtension"},
			"important":    {"OptionImportant"},
			"document":     {"OptionElemhide", "OptionJsinject", "OptionUrlblock", "OptionContent", "OptionExtension"},
		}
		var mods []string
		for m := range table {
			mods = append(mods, m)
		}
		sort.Strings(mods)
		for _, mod := range mods {
			var want int64
			for _, n := range table[mod] {
				want |= opt[n]
			}
			g := NewGate(c.P)
			g.Inline = inlineOnly("(*rules.NetworkRule).setOptionEnabled", "(*rules.NetworkRule).IsOptionEnabled")
			g.Unroll, g.ConstTables = true, true // the bits of a modifier kept in a constant table and applied in a loop
			if os.Getenv("UFCHECK_DEBUG_C16") != "" {
				g.Unroll = false
			}
			ps := g.ParamExprs(lo)
			u := g.U
			args := []*E{ps[0], u.Str(mod), u.Str("")}
			s := g.EvalArgs(lo, args, nil)
			c.Fn(sortedKeys(g.Funcs)...)
			// final value of f.enabledOptions
			var final *E
			for k, v := range s.Mem {
				if strings.HasSuffix(k, "faddr<enabledOptions>("+ps[0].key+")") {
					final = v
				}
			}
			if os.Getenv("UFCHECK_DEBUG_C16") != "" && mod == "document" {
				for k, v := range s.Mem {
					if strings.Contains(k, "enabledOptions") {
						fmt.Println("MEM", k, "=", clip(u.Show(v), 600))
					}
				}
			}
			key := "loadOption[$" + mod + "]"
			if final == nil {
				c.Fail("C16.R3", key, lo.Pos(), "the modifier does not store to enabledOptions at all")
				continue
			}
			bad := ""
			n := 0
			for mask := 0; mask < 256 && bad == ""; mask++ {
				var before int64
				for i, nm := range optNames {
					if mask&(1<<i) != 0 {
						before |= opt[nm]
					}
				}
				e := u.Subst(final, fieldSubst(u, final, ps[0], map[string]*E{
					"Whitelist":      u.Bool(True),
					"enabledOptions": u.ConstVal(constantInt(before), types.Typ[types.Uint64]),
				}))
				e = u.EvalUnder(e, func(*E) bool { return false })
				c.Paths++
				n++
				got, ok := e.IntVal()
				if !ok {
					bad = "UNDECIDED: enabledOptions after the modifier does not fold to a constant: " + u.Show(e)
				} else if got != before|want {
					bad = fmt.Sprintf("on an exception rule whose options were %#x before, $%s leaves %#x; documented: %#x (before | %#x)", before, mod, got, before|want, want)
				}
				// ... and the modifier is accepted whatever was set before (a rejected modifier drops the
				// whole rule, so every cosmetic option stays enabled)
				// (a prior state that already has all the bits of this modifier may stem from the same
				// modifier given twice, which the property does not speak about)
				if bad == "" && len(s.Rets) > 0 && before&want != want {
					re := u.Subst(g.RetExpr(s, 0), fieldSubst(u, g.RetExpr(s, 0), ps[0], map[string]*E{
						"Whitelist":      u.Bool(True),
						"enabledOptions": u.ConstVal(constantInt(before), types.Typ[types.Uint64]),
					}))
					re = u.EvalUnder(re, func(*E) bool { return false })
					if !re.IsNil() {
						bad = fmt.Sprintf("on an exception rule whose options were %#x before, $%s is rejected with an error (%s): the rule is dropped and the page keeps all cosmetic options", before, mod, clip(u.Show(re), 80))
					}
				}
			}
			if bad != "" {
				c.Fail("C16.R3", key, lo.Pos(), bad)
			} else {
				c.OK("C16.R3", key, lo.Pos(), fmt.Sprintf("enabledOptions' = enabledOptions | %#x for all %d prior option states", want, n))
			}
		}
	}

	// ---------- R4 ----------
	a.rule = "C16.R4"
	gcr := a.method("", "Engine", "GetCosmeticResult")
	cem := a.method("", "CosmeticEngine", "Match")
	if gcr != nil && cem != nil {
		roles := cosmeticGateRoles(c, cem) // param index -> "CSS" | "GenericCSS" | "JS"
		g := NewGate(c.P)
		g.Inline = inlineOnly()
		s := g.Eval(gcr)
		u := g.U
		ps := g.ParamExprs(gcr)
		var call *E
		for _, ef := range s.Effects {
			if ef.Kind == "call" && ef.Call.Aux == calleeName(cem) {
				call = ef.Call
			}
		}
		if call == nil {
			c.Fail("C16.R4", "GetCosmeticResult->CosmeticEngine.Match", gcr.Pos(), "no call of (*CosmeticEngine).Match found")
		} else {
			for idx, role := range roles {
				K := cos["CosmeticOption"+role]
				arg := call.Args[idx]
				bad := ""
				for v := int64(0); v < 64; v++ {
					e := u.Subst(arg, map[string]*E{ps[2].key: u.ConstVal(constantInt(v), ps[2].Typ)})
					e = u.EvalUnder(e, func(*E) bool { return false })
					c.Paths++
					want := v&K == K
					if e.Op != "bool" || (e.B != True && e.B != False) {
						bad = "UNDECIDED: argument does not fold for option=" + fmt.Sprint(v) + ": " + u.Show(e)
						break
					}
					if (e.B == True) != want {
						bad = fmt.Sprintf("for option=%06b the argument is %v, but the parameter gates %s (want %v)", v, e.B == True, role, want)
						break
					}
				}
				key := fmt.Sprintf("GetCosmeticResult: argument for the %s gate of CosmeticEngine.Match (parameter %s)", role, cem.Params[idx].Name())
				if bad != "" {
					c.Fail("C16.R4", key, gcr.Pos(), bad)
				} else {
					c.OK("C16.R4", key, gcr.Pos(), fmt.Sprintf("= option & %d == %d on all 64 option values", K, K))
				}
			}
		}
	}

	// ---------- R5 ----------
	a.rule = "C16.R5"
	onResp := a.method("proxy", "Server", "onResponse")
	fh := a.method("proxy", "Server", "filterHTML")
	if onResp != nil && fh != nil {
		g := NewGate(c.P)
		g.Inline = inlineOnly()
		s := g.Eval(onResp)
		u := g.U
		n := 0
		for _, ef := range s.Effects {
			if ef.Kind != "call" || ef.Call.Aux != calleeName(fh) {
				continue
			}
			n++
			// RC must imply !(GetCosmeticOption(...) == None)
			ok := false
			for _, at := range u.AtomsOf(ef.Cond) {
				if at.Op == "eq" && at.Args[0].Op == "call" && strings.HasSuffix(at.Args[0].Aux, "MatchingResult).GetCosmeticOption") {
					if v, isInt := at.Args[1].IntVal(); isInt && v == cos["CosmeticOptionNone"] {
						if u.bdd.Implies(ef.Cond, u.bdd.Not(u.Atom(at))) {
							ok = true
						}
					}
				}
			}
			c.Check(ok, "C16.R5", "onResponse: call of filterHTML", ef.Pos,
				"reach condition implies GetCosmeticOption() != CosmeticOptionNone",
				"the HTML filter is reachable although the cosmetic option is None: "+u.ShowBool(ef.Cond))
		}
		if n == 0 {
			c.Fail("C16.R5", "onResponse: call of filterHTML", onResp.Pos(), "no call of filterHTML found in onResponse")
		}
	}
}

func sortedKeys(m map[string]bool) []string {
	var out []string
	for k := range m {
		out = append(out, k)
	}
	sort.Strings(out)
	return out
}

// fieldSubst builds a substitution for every "field<name>(base)" sub-expression
// of e (whatever type annotation it carries).
func fieldSubst(u *U, e *E, base *E, vals map[string]*E) map[string]*E {
	out := map[string]*E{}
	seen := map[*E]bool{}
	var rec func(x *E)
	rec = func(x *E) {
		if x == nil || seen[x] {
			return
		}
		seen[x] = true
		if x.Op == "field" && x.Args[0] == base {
			if v, ok := vals[x.Aux]; ok {
				out[x.key] = v
			}
		}
		if x.Op == "bool" || x.Op == "ite" {
			for _, v := range u.bdd.Support(x.B) {
				rec(u.atoms[v])
			}
		}
		for _, a := range x.Args {
			rec(a)
		}
	}
	rec(e)
	return out
}

// cosmeticGateRoles derives, from CosmeticEngine.Match itself, which boolean
// parameter gates which feature: the parameter implied by the reach condition
// of every element-hiding emission gates CSS; the one implied only by the
// emissions inside the generic-rules loop gates GenericCSS; the remaining
// boolean parameter gates JS.  Returned: parameter index -> role.
func cosmeticGateRoles(c *Ctx, cem *ssa.Function) map[int]string {
	g := NewGate(c.P)
	g.Inline = inlineOnly()
	s := g.Eval(cem)
	u := g.U
	ps := g.ParamExprs(cem)
	var boolIdx []int
	for i, p := range cem.Params {
		if b, ok := p.Type().Underlying().(*types.Basic); ok && b.Kind() == types.Bool {
			boolIdx = append(boolIdx, i)
		}
	}
	// emissions: calls to (*StylesResult).append
	var emis []Effect
	for _, ef := range s.Effects {
		if ef.Kind == "call" && strings.HasSuffix(ef.Call.Aux, "StylesResult).append") {
			emis = append(emis, ef)
		}
	}
	roles := map[int]string{}
	if len(emis) == 0 {
		return roles
	}
	for _, i := range boolIdx {
		v := u.ToBool(ps[i])
		all, some := true, false
		for _, ef := range emis {
			if u.bdd.Implies(ef.Cond, v) {
				some = true
			} else {
				all = false
			}
		}
		switch {
		case all:
			roles[i] = "CSS"
		case some:
			roles[i] = "GenericCSS"
		}
	}
	for _, i := range boolIdx {
		if _, ok := roles[i]; !ok {
			roles[i] = "JS"
		}
	}
	_ = token.NoPos
	return roles
}

// checkOptionSplitter: the function that cuts the option list of a rule into
// option names consumes the whole list: none of its loops is left before its
// input is exhausted (an early exit drops every modifier behind that point,
// e.g. "$elemhide,,jsinject" would lose jsinject).
func checkOptionSplitter(c *Ctx, rule string) {
	c.Rule(rule, "WIRE", "the option-list splitter consumes the whole list (no loop is left early)", 1)
	lo := c.P.Method("rules", "NetworkRule", "loadOptions")
	if lo == nil {
		c.Fail(rule, "anchor:NetworkRule.loadOptions", token.NoPos, "unresolved anchor")
		return
	}
	// role: callee of loadOptions returning []string
	var sp *ssa.Function
	eachInstrG(c.P, lo, func(_ *ssa.BasicBlock, in ssa.Instruction) {
		if ci, ok := in.(ssa.CallInstruction); ok {
			if cal := ci.Common().StaticCallee(); cal != nil && c.P.IsLibFunc(cal) && !c.P.IsNewHelper(cal) && cal.Signature.Results().Len() == 1 && typeStr(cal.Signature.Results().At(0).Type()) == "[]string" &&
				cal.Signature.Params().Len() >= 1 && typeStr(cal.Signature.Params().At(0).Type()) == "string" {
				sp = cal
			}
		}
	})
	if sp == nil {
		// options split with a library function (strings.Split...): nothing to check here
		c.OK(rule, "loadOptions: option list splitter", lo.Pos(), "no repository function splits the option list")
		return
	}
	c.Fn(FuncName(sp))
	bad := ""
	n := 0
	for _, gf := range groupFuncs(c.P, sp) {
		for _, l := range loopsOf(gf) {
			n++
			for _, ex := range l.Exits {
				if ex[0] != l.Header {
					bad = c.P.Pos(ex[0].Instrs[len(ex[0].Instrs)-1].Pos()) + ": a loop of " + shortFn(sp) + " can be left before its input is exhausted: the modifiers behind that point are silently dropped"
				}
			}
		}
	}
	if n == 0 && bad == "" {
		c.OK(rule, shortFn(sp)+": consumes the whole option list", sp.Pos(), "no loops (library calls only)")
		return
	}
	c.Check(bad == "", rule, shortFn(sp)+": consumes the whole option list", sp.Pos(), fmt.Sprintf("%d loop(s), each left only when its condition fails", n), bad)
}

// checkOptionWordMonotone: every store to the option word NetworkRule.<field> anywhere in the library
// is 'field | bits'.  extBit: the one documented way to take a bit back (the negated modifier
// ~extension toggles OptionExtension in enabledOptions); 0 for none.
// monotoneConstOK: a constant that may be assigned to a flag word outright (filled by the caller).
var monotoneConstOK = map[string]int64{}

func checkOptionWordMonotone(c *Ctx, rule, field string, extBit int64, why string) {
	ws := fieldWrites(c.P, "rules", "NetworkRule", field)
	n := 0
	loadsField := func(v ssa.Value) bool {
		if ld, isL := v.(*ssa.UnOp); isL && ld.Op == token.MUL {
			if nn, f, isF := fieldOf(ld.X); isF && f == field && namedIs(nn, "rules", "NetworkRule") {
				return true
			}
		}
		return false
	}
	for _, w := range ws {
		n++
		ok := false
		if bo, isB := w.Val.(*ssa.BinOp); isB && bo.Op == token.OR && (loadsField(bo.X) || loadsField(bo.Y)) {
			ok = true
		}
		if bo, isB := w.Val.(*ssa.BinOp); isB && !ok && extBit != 0 && (bo.Op == token.XOR || bo.Op == token.AND_NOT) && loadsField(bo.X) {
			if k, isK := bo.Y.(*ssa.Const); isK && k.Value != nil && k.Int64() == extBit {
				c.OK(rule, shortFn(w.Fn)+": ~extension takes the extension bit back", w.Instr.Pos(), "documented exception: the negated modifier ~extension (not among the modifiers the property ranges over)")
				continue
			}
		}
		if k, isK := w.Val.(*ssa.Const); isK && !ok && k.Value != nil && monotoneConstOK[field] != 0 && k.Int64() == monotoneConstOK[field] {
			c.OK(rule, shortFn(w.Fn)+": "+field+" forced to the document type", w.Instr.Pos(), "documented: a document-level modifier restricts the rule to document requests")
			continue
		}
		c.Check(ok, rule, shortFn(w.Fn)+": store to "+field+" is '"+field+" | bits'", w.Instr.Pos(), "or-assignment", why)
	}
	if n == 0 {
		c.Fail(rule, "stores to "+field, token.NoPos, "UNDECIDED: no store to NetworkRule."+field+" found")
	}
	// whether a value is or-ed in depends on the modifier being parsed, not on what the words
	// hold already: "$script,~image" and "$~image,script" are the same rule
	if strings.HasSuffix(field, "RequestTypes") {
		seenFn := map[*ssa.Function]bool{}
		for _, w := range ws {
			if seenFn[w.Fn] || w.Fn.Signature.Recv() == nil {
				continue
			}
			seenFn[w.Fn] = true
			g := NewGate(c.P)
			g.Inline = inlineOnly()
			s := g.Eval(w.Fn)
			u := g.U
			recv := g.ParamExprs(w.Fn)[0]
			for _, ef := range s.Effects {
				if ef.Kind != "store" || ef.Addr.Op != "faddr" || ef.Addr.Aux != field || len(ef.Addr.Args) == 0 || ef.Addr.Args[0] != recv {
					continue
				}
				dep := ""
				for _, at := range u.AtomsOf(ef.Cond) {
					if u.Mentions(at, func(x *E) bool {
						return x.Op == "field" && strings.HasSuffix(x.Aux, "RequestTypes") && len(x.Args) > 0 && x.Args[0] == recv
					}) {
						dep = clip(u.Show(at), 100)
					}
				}
				c.Check(dep == "", rule, shortFn(w.Fn)+": "+field+" is or-ed into whatever the words hold", ef.Pos, "the store's condition reads only what is being parsed",
					"whether the content type is recorded depends on the types recorded before ("+dep+"): the same modifiers written in another order give another rule, and a type that is skipped no longer counts as a modifier in the priority key")
			}
		}
	}
}
