package main

// C11 — every scanned rule can be retrieved by its index from any backing store.

import (
	"fmt"
	"go/token"
	"go/types"
	"strings"

	"golang.org/x/tools/go/ssa"
)

func init() {
	register(&PropDef{
		ID:  "C11",
		Run: runC11,
		Explanation: "Static decision of the structural clauses of C11. R1 (BITS): bit-provenance analysis of the storage-index packing proves unpack(pack(list, offset)) = (list, offset) for all int32 pairs and that all 64 result cells are distinct input bits (injective). " +
			"R2: the scanner's position grows by exactly len(bytes read), the reported index is the position before the read, the returned line is those bytes, and nobody else reads from that reader. R3: GetID, NewScanner and RetrieveRule of both list kinds use the same id field, " +
			"and scanner and retrievers build rules through rules.NewRule with that id. R4: the string list cuts RulesText[idx:next newline], the file list seeks to the index from the start and reads one line, every read of the file being reached only under the seek's condition; the line reader returns at a newline exactly when one was found " +
			"(index != -1, evaluated on constants). R5: duplicate list ids are rejected; retrieval selects the list by the unpacked id and passes the unpacked offset; the storage scanner packs the rule's list id with the scanner's offset and tries every scanner until one yields. The line reader of R2 is resolved by role: the method Scan gets (line, index, more) from, of the scanner or of a type of its own; position and reader are the fields it stores to and reads from. R2 also: no function of the scanner's package other than the line reader consumes bytes of a buffered reader (Read*, Discard, WriteTo): bytes skipped by a constructor (a byte-order mark, a header line) would not be counted by the position.",
		Trusted:     []string{"bufio.Reader.ReadBytes returns exactly the bytes up to and including the delimiter; os.File.Seek(io.SeekStart)"},
		Assumptions: []string{"agreement of the block reader with the buffered line reader on every content (CRLF, 4 KiB boundaries, missing final newline) is value-level and not decided"},
	})
}

func runC11(c *Ctx) {
	c.Rule("C11.R1", "BITS", "index pack/unpack round trip and injectivity on all int32 pairs", 3)
	c.Rule("C11.R2", "LIN/WIRE", "position accounting of the rule scanner", 2)
	c.Rule("C11.R3", "WIRE", "same list id and same parser in scanner and retrievers", 6)
	c.Rule("C11.R4", "LIN/WIRE", "retrieval cut: string slice to the next newline; file seek from start before every read; line reader's found test", 5)
	c.Rule("C11.R5", "WIRE", "storage: duplicate ids rejected, list chosen by the unpacked id, storage scanner visits every list", 4)

	a := &anchors{c: c, rule: "C11.R1"}
	rr := a.method("filterlist", "RuleStorage", "RetrieveRule")
	ssRule := a.method("filterlist", "RuleStorageScanner", "Rule")
	ssScan := a.method("filterlist", "RuleStorageScanner", "Scan")
	rsScan := a.method("filterlist", "RuleScanner", "Scan")
	newRule := a.fn("rules", "NewRule")
	nrs := a.fn("filterlist", "NewRuleStorage")
	nsc := a.fn("filterlist", "NewRuleScanner")
	if a.bad {
		return
	}
	// pack / unpack by role
	var pack, unpack *ssa.Function
	eachInstrG(c.P, ssRule, func(_ *ssa.BasicBlock, in ssa.Instruction) {
		if ci, ok := in.(ssa.CallInstruction); ok {
			if cal := ci.Common().StaticCallee(); cal != nil && c.P.IsLibFunc(cal) && !c.P.IsNewHelper(cal) && cal.Signature.Params().Len() == 2 && typeStr(cal.Signature.Results().At(0).Type()) == "int64" {
				pack = cal
			}
		}
	})
	eachInstrG(c.P, rr, func(_ *ssa.BasicBlock, in ssa.Instruction) {
		if ci, ok := in.(ssa.CallInstruction); ok {
			if cal := ci.Common().StaticCallee(); cal != nil && c.P.IsLibFunc(cal) && !c.P.IsNewHelper(cal) && cal.Signature.Params().Len() == 1 && typeStr(cal.Signature.Params().At(0).Type()) == "int64" && cal.Signature.Results().Len() == 2 {
				unpack = cal
			}
		}
	})
	if pack == nil || unpack == nil {
		c.Fail("C11.R1", "anchor:pack/unpack", token.NoPos, fmt.Sprintf("unresolved anchor by role (pack=%v unpack=%v)", pack != nil, unpack != nil))
		return
	}
	c.Fn(FuncName(pack), FuncName(unpack))

	// ---------- R1 ----------
	{
		g := NewGate(c.P)
		g.Inline = inlineOnly()
		sp := g.Eval(pack)
		su := g.Eval(unpack)
		u := g.U
		pe := g.RetExpr(sp, 0)
		pp := g.ParamExprs(pack)
		up := g.ParamExprs(unpack)
		bv := bitsOf(u, pe)
		seen := map[string]bool{}
		bad := ""
		for i, cl := range bv.c {
			if cl.kind != 'v' {
				bad = fmt.Sprintf("bit %d of the packed index is %s, not an input bit: two different (list, offset) pairs share an index", i, cl)
				break
			}
			k := cl.String()
			if seen[k] {
				bad = fmt.Sprintf("bit %d of the packed index repeats input bit %s: some input bit is lost", i, k)
				break
			}
			seen[k] = true
		}
		c.Check(bad == "", "C11.R1", shortFn(pack)+": injective (64 distinct input bits)", pack.Pos(), "bit provenance of "+clip(u.Show(pe), 100), bad)
		for ri := 0; ri < 2; ri++ {
			ue := u.Subst(g.RetExpr(su, ri), map[string]*E{up[0].key: pe})
			rv := bitsOf(u, ue)
			want := pp[ri]
			bad := ""
			for i := 0; i < 32; i++ {
				cl := rv.c[i]
				if !(cl.kind == 'v' && cl.v == want.Aux && cl.bit == i) {
					bad = fmt.Sprintf("bit %d of result %d of unpack(pack(list, offset)) is %s, expected %s[%d]: retrieval addresses another list/offset than the scanner reported", i, ri, cl, want.Aux, i)
					break
				}
			}
			c.Check(bad == "", "C11.R1", fmt.Sprintf("%s(%s(list, offset)) returns %s unchanged", unpack.Name(), pack.Name(), want.Aux), unpack.Pos(), "all 32 bits traced through both functions", bad)
		}
	}

	// ---------- R2 ----------
	// the line reader: the method Scan gets (line, index, more) from - of the scanner, or of a
	// small type of its own the reader and the position were moved into
	readNext := c.P.ResolveRole(rsScan, func(cal *ssa.Function) bool {
		return cal.Signature.Recv() != nil && cal.Signature.Results().Len() == 3
	})
	if readNext == nil {
		c.Fail("C11.R2", "anchor:line reader of the scanner", rsScan.Pos(), "unresolved anchor: Scan calls no method returning (string, int, error)")
	} else {
		c.Fn(FuncName(readNext))
		g := NewGate(c.P)
		g.Inline = inlineOnly()
		s := g.Eval(readNext)
		u := g.U
		recv := g.ParamExprs(readNext)[0]
		// the position and the reader are fields of the receiver: the integer field the method
		// stores to, and the field the bufio read is called on
		posField, readerField := "currentPos", "reader"
		var ownerT *types.Named
		if pt, ok := readNext.Signature.Recv().Type().(*types.Pointer); ok {
			ownerT, _ = pt.Elem().(*types.Named)
		}
		var read *E
		for _, ef := range s.Effects {
			if ef.Kind == "call" && strings.HasPrefix(ef.Call.Aux, "(*bufio.Reader).Read") {
				read = ef.Call
				if len(read.Args) > 0 && read.Args[0].Op == "field" && read.Args[0].Args[0] == recv {
					readerField = read.Args[0].Aux
				}
			}
			if ef.Kind == "store" && ef.Addr.Op == "faddr" && len(ef.Addr.Args) > 0 && ef.Addr.Args[0] == recv && ef.Val.Typ != nil && isIntT(ef.Val.Typ) {
				posField = ef.Addr.Aux
			}
		}
		pos0 := u.Field(recv, posField, nil)
		bad := ""
		if read == nil {
			bad = "UNDECIDED: no bufio read"
		} else {
			bytes := u.mk("extract", "0", nil, read)
			okStore, okRet := false, false
			for _, ef := range s.Effects {
				if ef.Kind == "store" && ef.Addr.Op == "faddr" && ef.Addr.Aux == posField && len(ef.Addr.Args) > 0 && ef.Addr.Args[0] == recv {
					L := NewLin(u)
					want := L.linearize(u.Bin(token.ADD, pos0, u.Len(bytes), types.Typ[types.Int]))
					got := L.linearize(ef.Val)
					if L.entails(got, want, 0) && L.entails(want, got, 0) {
						okStore = true
					} else {
						bad = "the position is advanced by " + clip(u.Show(ef.Val), 100) + " instead of position + len(bytes read): every later index is off"
					}
				}
			}
			for _, r := range s.Rets {
				// success: a nil error, or ok == true
				if len(r.Vals) == 3 && (r.Vals[2].IsNil() || (r.Vals[2].Op == "bool" && r.Vals[2].B == True)) {
					line := r.Vals[0]
					okLine := (line.Op == "convert" && line.Args[0].key == bytes.key) || line.key == bytes.key // string(bytes read), or the string read
					if r.Vals[1].key == pos0.key && okLine {
						okRet = true
					} else if bad == "" {
						bad = "a line is returned with index " + clip(u.Show(r.Vals[1]), 60) + " / text " + clip(u.Show(line), 60) + "; documented: the position before the read and exactly the bytes read"
					}
				}
			}
			if bad == "" && (!okStore || !okRet) {
				bad = fmt.Sprintf("position accounting incomplete (position advanced by len(bytes)=%v, index is the position before the read=%v)", okStore, okRet)
			}
		}
		c.Check(bad == "", "C11.R2", shortFn(readNext)+": index = position before the read; position += len(bytes)", readNext.Pos(), "linear equality on the stored position", bad)
		// who reads from the reader / writes the position
		bad = ""
		for _, fn := range c.P.AllLibFuncs() {
			if fn == readNext {
				continue
			}
			eachInstr(fn, func(_ *ssa.BasicBlock, in ssa.Instruction) {
				if cl, ok := in.(*ssa.Call); ok && len(cl.Call.Args) > 0 {
					if ld, ok := cl.Call.Args[0].(*ssa.UnOp); ok && ld.Op == token.MUL {
						if n, f, ok := fieldOf(ld.X); ok && f == readerField && n != nil && n == ownerT {
							bad = c.P.Pos(cl.Pos()) + ": " + shortFn(fn) + " also reads from the scanner's reader: the position no longer counts every byte consumed"
						}
					}
				}
			})
		}
		// ... nor from a buffered reader before it becomes the scanner's (a constructor that skips a
		// byte-order mark, a header line): whatever is consumed there is not counted either
		{
			inReader := c.P.Reachable(readNext)
			inReader[readNext] = true
			for _, fn := range c.P.AllLibFuncs() {
				if inReader[fn] || fn.Pkg != readNext.Pkg {
					continue
				}
				eachInstr(fn, func(_ *ssa.BasicBlock, in ssa.Instruction) {
					cl, ok := in.(ssa.CallInstruction)
					if !ok || cl.Common().IsInvoke() {
						return
					}
					cal := cl.Common().StaticCallee()
					if cal == nil || cal.Signature.Recv() == nil || typeStr(cal.Signature.Recv().Type()) != "*bufio.Reader" {
						return
					}
					switch cal.Name() {
					case "Read", "ReadByte", "ReadBytes", "ReadLine", "ReadRune", "ReadSlice", "ReadString", "Discard", "WriteTo":
						if bad == "" {
							bad = c.P.Pos(in.Pos()) + ": " + shortFn(fn) + " consumes bytes of a buffered reader of the scanner's package with " + cal.Name() + ", outside the line reader: the position does not count them and every later index is too small by that many bytes"
						}
					}
				})
			}
		}
		if ownerT != nil {
			for _, w := range fieldWrites(c.P, "filterlist", ownerT.Obj().Name(), posField) {
				if w.Fn != readNext {
					bad = c.P.Pos(w.Instr.Pos()) + ": " + shortFn(w.Fn) + " writes the scanner position"
				}
			}
		}
		c.Check(bad == "", "C11.R2", "only the line reader reads from RuleScanner.reader and writes currentPos", readNext.Pos(), "who-may-call / who-may-write over the library", bad)
	}

	importRulesNoRec(c, runC12, map[string]string{"C12.R7": "C11.R6"}, map[string]string{"C11.R6": "the scanner reads complete lines, whatever their length (shared with C12.R7)"})

	// ---------- R3 ----------
	if rl := c.P.Type("filterlist", "RuleList"); rl != nil {
		for _, n := range implementers(c.P, rl.Underlying().(*types.Interface)) {
			getID, newSc, retr := methodOf(c.P, n, "GetID"), methodOf(c.P, n, "NewScanner"), methodOf(c.P, n, "RetrieveRule")
			if getID == nil || newSc == nil || retr == nil {
				c.Fail("C11.R3", n.Obj().Name()+": methods", token.NoPos, "unresolved anchor")
				continue
			}
			g := NewGate(c.P)
			g.Inline = inlineOnly()
			idFld := ""
			if s := g.Eval(getID); len(s.Rets) == 1 && s.Rets[0].Vals[0].Op == "field" {
				idFld = s.Rets[0].Vals[0].Aux
			}
			c.Check(idFld != "", "C11.R3", n.Obj().Name()+".GetID returns a field of the list", getID.Pos(), "field "+idFld, "GetID does not return a field")
			s2 := g.Eval(newSc)
			ok2 := false
			for _, ef := range s2.Effects {
				if ef.Kind == "call" && ef.Call.Aux == calleeName(nsc) && ef.Call.Args[1].Op == "field" && ef.Call.Args[1].Aux == idFld {
					ok2 = true
				}
			}
			c.Check(ok2, "C11.R3", n.Obj().Name()+".NewScanner passes the same id to the scanner", newSc.Pos(), "NewRuleScanner(_, l."+idFld+", _)", "the scanner gets a different list id than GetID reports: scanned rules are indexed under the wrong list")
			s3 := g.Eval(retr)
			ok3 := false
			for _, ef := range s3.Effects {
				if ef.Kind == "call" && ef.Call.Aux == calleeName(newRule) && ef.Call.Args[1].Op == "field" && ef.Call.Args[1].Aux == idFld {
					ok3 = true
				}
			}
			c.Check(ok3, "C11.R3", n.Obj().Name()+".RetrieveRule parses with rules.NewRule and the same id", retr.Pos(), "rules.NewRule(line, l."+idFld+")", "retrieved rules are not built by the scanner's parser with the list's id")
		}
	}
	{
		g := NewGate(c.P)
		g.Inline = inlineOnly()
		s := g.Eval(rsScan)
		okP := false
		for _, ef := range s.Effects {
			if ef.Kind == "call" && ef.Call.Aux == calleeName(newRule) && ef.Call.Args[1].Op == "field" && ef.Call.Args[1].Aux == "listID" {
				okP = true
			}
		}
		s2 := g.Eval(nsc)
		ps := g.ParamExprs(nsc)
		okC := false
		for _, ef := range s2.Effects {
			if ef.Kind == "store" && ef.Addr.Op == "faddr" && ef.Addr.Aux == "listID" && ef.Val == ps[1] {
				okC = true
			}
		}
		c.Check(okP && okC, "C11.R3", "RuleScanner parses with rules.NewRule and the id it was constructed with", rsScan.Pos(), "listID := constructor parameter; rules.NewRule(line, s.listID)", "the scanner does not parse with the constructor's list id")
	}

	// trimming agreement: the scanner hands raw lines to NewRule, the retrievers trim first; all three must use the same function
	{
		trimOf := func(fn *ssa.Function) string {
			out := ""
			eachInstrG(c.P, fn, func(_ *ssa.BasicBlock, in ssa.Instruction) {
				if cl, ok := in.(*ssa.Call); ok && cl.Call.StaticCallee() != nil {
					n := calleeName(cl.Call.StaticCallee())
					if strings.HasPrefix(n, "strings.Trim") {
						arg := ""
						if len(cl.Call.Args) > 1 {
							if k, ok := cl.Call.Args[1].(*ssa.Const); ok {
								arg = constantString(k)
							}
						}
						if out == "" {
							out = n + "(" + arg + ")"
						}
					}
				}
			})
			return out
		}
		tn := trimOf(newRule)
		bad := ""
		for _, m := range [][2]string{{"StringRuleList", "RetrieveRule"}, {"FileRuleList", "RetrieveRule"}} {
			if fn := c.P.Method("filterlist", m[0], m[1]); fn != nil {
				if t := trimOf(fn); t != tn {
					bad = fmt.Sprintf("rules.NewRule normalises a line with %s but %s.RetrieveRule with %s: a line padded with a character only one of them strips scans as one rule and is retrieved as another", tn, m[0], t)
				}
			}
		}
		if tn != "strings.TrimSpace()" && bad == "" {
			bad = "NewRule does not trim with strings.TrimSpace (the documented Text() is TrimSpace(line)): " + tn
		}
		c.Check(bad == "", "C11.R3", "scanner path and retrieval path trim lines with the same function", newRule.Pos(), "strings.TrimSpace at all three sites", bad)
	}

	// ---------- R4 ----------
	if srl := c.P.Method("filterlist", "StringRuleList", "RetrieveRule"); srl != nil {
		g := NewGate(c.P)
		g.Inline = inlineOnly()
		s := g.Eval(srl)
		u := g.U
		ps := g.ParamExprs(srl)
		text := u.Field(ps[0], "RulesText", nil)
		idx := ps[1]
		bad := "rules.NewRule is not called"
		for _, ef := range s.Effects {
			if ef.Kind != "call" || ef.Call.Aux != calleeName(newRule) {
				continue
			}
			bad = ""
			line := ef.Call.Args[0]
			if line.Op != "call" || line.Aux != "strings.TrimSpace" {
				bad = "the line is not trimmed like the scanner's"
				continue
			}
			nl := u.LibCall("strings.IndexByte", types.Typ[types.Int], u.Slice(text, idx, nil, nil, types.Typ[types.String]), u.ConstVal(constantInt('\n'), types.Typ[types.Uint8]))
			end := u.ITE(u.ToBool(u.Eq(nl, u.Int(-1))), u.Len(text), u.Bin(token.ADD, nl, idx, types.Typ[types.Int]))
			want := u.Slice(text, idx, end, nil, types.Typ[types.String])
			if ok, why := semEqual(u, line.Args[0], want); !ok {
				// accept the commuted sum
				end2 := u.ITE(u.ToBool(u.Eq(nl, u.Int(-1))), u.Len(text), u.Bin(token.ADD, idx, nl, types.Typ[types.Int]))
				want2 := u.Slice(text, idx, end2, nil, types.Typ[types.String])
				if ok2, _ := semEqual(u, line.Args[0], want2); !ok2 {
					bad = "the retrieved text is not RulesText[idx : next newline or end]: " + why
				}
			}
		}
		c.Check(bad == "", "C11.R4", "StringRuleList.RetrieveRule: text = TrimSpace(RulesText[idx:next newline])", srl.Pos(), "slice bounds compared with the documented cut", bad)
	}
	if frl := c.P.Method("filterlist", "FileRuleList", "RetrieveRule"); frl != nil {
		g := NewGate(c.P)
		g.Inline = inlineOnly()
		s := g.Eval(frl)
		ps := g.ParamExprs(frl)
		bad := "no Seek"
		for _, ef := range s.Effects {
			if ef.Kind == "call" && strings.HasSuffix(ef.Call.Aux, "os.File).Seek") {
				off, wh := ef.Call.Args[1], ef.Call.Args[2]
				if off.Op == "convert" && off.Args[0] == ps[1] && isIntConst(wh, 0) {
					bad = ""
				} else {
					bad = "the file is not positioned at the rule index counted from the start of the file: Seek(" + g.U.Show(off) + ", " + g.U.Show(wh) + ")"
				}
			}
		}
		c.Check(bad == "", "C11.R4", "FileRuleList.RetrieveRule: Seek(int64(idx), io.SeekStart)", frl.Pos(), "absolute seek to the reported offset", bad)
		// every read of the file in the retriever happens after that seek, on every path
		{
			u := g.U
			var seekCond Ref = False
			for _, ef := range s.Effects {
				if ef.Kind == "call" && strings.HasSuffix(ef.Call.Aux, "os.File).Seek") {
					seekCond = u.bdd.Or(seekCond, ef.Cond)
				}
			}
			badr := ""
			nr := 0
			for _, ef := range s.Effects {
				if ef.Kind != "call" || strings.HasSuffix(ef.Call.Aux, "os.File).Seek") {
					continue
				}
				usesFile := false
				for _, a := range ef.Call.Args {
					if a != nil && u.Mentions(a, func(x *E) bool { return x.Op == "field" && x.Aux == "File" && len(x.Args) > 0 && x.Args[0] == ps[0] }) {
						usesFile = true
					}
				}
				if !usesFile {
					continue
				}
				nr++
				if !u.bdd.Implies(ef.Cond, seekCond) && badr == "" {
					badr = c.P.Pos(ef.Pos) + ": " + clip(ef.Call.Aux, 60) + " reads the file on a path without the seek (when " + clip(u.ShowBool(u.bdd.And(ef.Cond, u.bdd.Not(seekCond))), 160) + "): the position is wherever the previous reader of the shared file left it, not the rule index"
				}
			}
			if nr == 0 && badr == "" {
				badr = "UNDECIDED: no call that reads the list's file found in the retriever"
			}
			c.Check(badr == "", "C11.R4", "FileRuleList.RetrieveRule: the file is read only after the seek", frl.Pos(), fmt.Sprintf("%d call(s) using the file: reach condition implies the seek's", nr), badr)
		}
		if ns := c.P.Method("filterlist", "FileRuleList", "NewScanner"); ns != nil {
			s2 := g.Eval(ns)
			ok := false
			for _, ef := range s2.Effects {
				if ef.Kind == "call" && strings.HasSuffix(ef.Call.Aux, "os.File).Seek") && isIntConst(ef.Call.Args[1], 0) && isIntConst(ef.Call.Args[2], 0) && ef.Cond == True {
					ok = true
				}
			}
			c.Check(ok, "C11.R4", "FileRuleList.NewScanner rewinds the file", ns.Pos(), "Seek(0, io.SeekStart) before scanning", "a second scan (every engine constructor scans) starts wherever the previous reader stopped: offsets no longer count from the start")
		}
	}
	if rl := c.P.Func("filterlist", "readLine"); rl != nil {
		c.Fn(FuncName(rl))
		g := NewGate(c.P)
		g.Inline = inlineOnly()
		s := g.Eval(rl)
		u := g.U
		bad := "UNDECIDED: no IndexByte for the newline"
		var idx *E
		for _, at := range u.atoms {
			u.Mentions(at, func(x *E) bool {
				if x.Op == "call" && x.Aux == "bytes.IndexByte" && isIntConst(x.Args[1], '\n') {
					idx = x
				}
				return false
			})
		}
		if idx != nil {
			bad = ""
			// the search must cover exactly the bytes just read: b[:n] with n the count returned by Read
			ps := g.ParamExprs(rl)
			var buf *E
			for i, p := range rl.Params {
				if typeStr(p.Type()) == "[]byte" {
					buf = ps[i]
				}
			}
			var nRead *E
			for _, ef := range s.Effects {
				if ef.Kind == "call" && strings.HasSuffix(strings.TrimSuffix(ef.Call.Aux, ")"), ".Read") {
					nRead = u.mk("extract", "0", nil, ef.Call)
				}
			}
			hay := idx.Args[0]
			if buf == nil || nRead == nil || !(hay.Op == "slice" && hay.Args[0] == buf && (hay.Args[1] == nil || isIntConst(hay.Args[1], 0)) && hay.Args[2] != nil && hay.Args[2].key == nRead.key) {
				bad = "the newline is searched in " + clip(u.Show(hay), 60) + " instead of the bytes just read (buffer[:n]): the buffer is reused between retrievals, so a newline left over from an earlier, longer read is found and stale bytes are appended to the rule (a file-backed list then disagrees with an in-memory one)"
			}
			// the returned line keeps what was accumulated from earlier blocks and takes buffer[:idx]
			for _, r := range s.Rets {
				if !u.Mentions(r.Vals[0], func(x *E) bool { return x == idx }) {
					continue
				}
				v := r.Vals[0]
				okV := v.Op == "bin" && v.Aux == "+" && (v.Args[0].Op == "loopphi" || v.Args[0].Op == "loopval") && v.Args[1].Op == "convert" && v.Args[1].Args[0].Op == "slice" && v.Args[1].Args[0].Args[0] == buf && v.Args[1].Args[0].Args[2] == idx
				// bytes accumulated in a []byte: string(append(accumulated, buffer[:newline]...))
				if !okV && v.Op == "convert" && v.Args[0].Op == "append" && v.Args[0].Aux == "spread" && len(v.Args[0].Args) == 2 {
					acc, pc := v.Args[0].Args[0], v.Args[0].Args[1]
					if (acc.Op == "loopphi" || acc.Op == "loopval") && pc.Op == "slice" && pc.Args[0] == buf && (pc.Args[1] == nil || isIntConst(pc.Args[1], 0)) && pc.Args[2] == idx {
						okV = true
					}
				}
				if !okV && v.Op == "convert" && v.Args[0].Op == "slice" && v.Args[0].Args[0] == buf && v.Args[0].Args[2] == idx {
					// fast path: nothing has been accumulated yet (the accumulator is empty), so
					// accumulator + buffer[:newline] is buffer[:newline]
					for _, at := range u.AtomsOf(r.Cond) {
						if at.Op == "eq" && at.Args[0].Op == "len" && isIntConst(at.Args[1], 0) && u.bdd.Implies(r.Cond, u.Atom(at)) {
							if acc := at.Args[0].Args[0]; acc.Op == "loopphi" || acc.Op == "loopval" {
								okV = true
							}
						}
						// a nil byte slice holds nothing
						if at.Op == "eq" && u.bdd.Implies(r.Cond, u.Atom(at)) {
							for i := 0; i < 2; i++ {
								if acc := at.Args[i]; (acc.Op == "loopphi" || acc.Op == "loopval") && at.Args[1-i].IsNil() {
									okV = true
								}
							}
						}
					}
				}
				if !okV && bad == "" {
					bad = "the line returned at the newline is " + clip(u.Show(v), 100) + ", documented: everything accumulated from earlier blocks + buffer[:newline] (a line longer than one 4 KiB block otherwise loses its beginning)"
				}
			}
			var found Ref = False
			for _, r := range s.Rets {
				if u.Mentions(r.Vals[0], func(x *E) bool { return x == idx }) {
					found = u.bdd.Or(found, r.Cond)
				}
			}
			for _, v := range []int64{-1, 0, 1, 9} {
				sub := map[string]*E{idx.key: u.Int(v)}
				r := u.SubstBool(found, sub)
				for _, at := range u.AtomsOf(r) {
					r = u.bdd.Exists(r, u.atomIx[at.key]) // data was read (n > 0)
				}
				want := v >= 0
				if (r == True) != want {
					bad = fmt.Sprintf("with the newline at index %d of the block the reader %s at it; a line must end exactly when a newline was found (index != -1): a newline at the very start of a block is otherwise swallowed together with the following line", v, map[bool]string{true: "stops", false: "does not stop"}[r == True])
				}
			}
		}
		c.Check(bad == "", "C11.R4", "readLine: returns at a newline exactly when one was found (index != -1)", rl.Pos(), "found-test evaluated on indexes -1, 0, 1, 9", bad)
	}

	// ---------- R5 ----------
	{
		g := NewGate(c.P)
		g.Inline = inlineOnly()
		s := g.Eval(nrs)
		u := g.U
		bad := "duplicate list ids are not rejected"
		for _, r := range s.Rets {
			if r.Vals[0].IsNil() && !r.Vals[1].IsNil() {
				for _, at := range u.AtomsOf(r.Cond) {
					if at.Op == "extract" && at.Aux == "1" && at.Args[0].Op == "lookup" && u.bdd.Implies(r.Cond, u.Atom(at)) {
						key := at.Args[0].Args[1]
						if key.Op == "invoke" && strings.HasSuffix(key.Aux, "GetID") {
							bad = ""
						}
					}
				}
			}
		}
		c.Check(bad == "", "C11.R5", "NewRuleStorage rejects duplicate list ids", nrs.Pos(), "error return on the true edge of the map test keyed by list.GetID()", bad)
	}
	{
		g := NewGate(c.P)
		g.Inline = inlineOnly()
		g.Pure[FuncName(unpack)] = true
		s := g.Eval(rr)
		u := g.U
		ps := g.ParamExprs(rr)
		un := u.Call(calleeName(unpack), nil, ps[1])
		bad := "the backing list is never asked"
		for _, ef := range s.Effects {
			if ef.Kind == "call" && ef.Call.Op == "invoke" && strings.HasSuffix(ef.Call.Aux, "RuleList).RetrieveRule") {
				list, off := ef.Call.Args[0], ef.Call.Args[1]
				// integer conversions between the packed halves and the map key / offset may sit on
				// either side of the unpack helper
				okL := list.Op == "extract" && list.Args[0].Op == "lookup" && stripConv(list.Args[0].Args[1]).key == u.mk("extract", "0", nil, un).key
				okO := stripConv(off).key == u.mk("extract", "1", nil, un).key
				if okL && okO {
					bad = ""
				} else {
					bad = fmt.Sprintf("retrieval does not address list[unpack(idx).list] at unpack(idx).offset (list ok=%v, offset ok=%v)", okL, okO)
				}
			}
		}
		c.Check(bad == "", "C11.R5", "RuleStorage.RetrieveRule: list chosen by the unpacked id, offset passed unchanged", rr.Pos(), "listsMap[int(listID)].RetrieveRule(int(ruleIdx))", bad)
	}
	{
		g := NewGate(c.P)
		g.Inline = inlineOnly()
		s := g.Eval(ssRule)
		u := g.U
		bad := "no index is packed"
		for _, r := range s.Rets {
			v := r.Vals[1]
			if v.Op == "call" && v.Aux == calleeName(pack) {
				a0, a1 := v.Args[0], v.Args[1]
				a0, a1 = stripConv(a0), stripConv(a1)
				okID := a0.Op == "invoke" && strings.HasSuffix(a0.Aux, "GetFilterListID")
				okOff := a1.Op == "extract" && a1.Aux == "1"
				if okID && okOff {
					bad = ""
				} else {
					bad = "the storage index is not pack(rule's list id, scanner's offset): " + clip(u.Show(v), 120)
				}
			}
		}
		c.Check(bad == "", "C11.R5", "RuleStorageScanner.Rule: index = pack(rule.GetFilterListID(), offset reported by the list scanner)", ssRule.Pos(), "wired as documented", bad)
	}
	{
		// the storage scanner tries every remaining list until one yields
		g := NewGate(c.P)
		g.Inline = inlineOnly()
		s := g.Eval(ssScan)
		u := g.U
		recv := g.ParamExprs(ssScan)[0]
		bad := ""
		loops := loopsOf(ssScan)
		if len(loops) != 1 {
			bad = fmt.Sprintf("expected one loop over the list scanners, found %d: after an exhausted list only a single further list is tried, so a list that yields no rule hides all lists after it", len(loops))
		} else {
			l := loops[0]
			var scan Ref = False
			var scanCall *E
			for _, ef := range s.Effects {
				if ef.Kind == "call" && strings.HasSuffix(ef.Call.Aux, "RuleScanner).Scan") && l.Blocks[ef.Ins.Block()] {
					scan = u.ToBool(ef.Call)
					scanCall = ef.Call
				}
			}
			if scanCall == nil {
				bad = "the loop does not scan the current list"
			} else {
				lenS := u.Len(u.Field(recv, "Scanners", nil))
				for _, r := range s.Rets {
					v := r.Vals[0]
					if v.Op != "bool" || (v.B != True && v.B != False) {
						bad = "a result is not a constant: " + clip(u.Show(v), 80)
						continue
					}
					if v.B == True && !u.bdd.Implies(r.Cond, scan) {
						bad = "true is returned without the current list having produced a rule"
					}
					if v.B == False {
						empty := u.ToBool(u.Eq(lenS, u.Int(0)))
						last := False
						for _, at := range u.AtomsOf(r.Cond) {
							if at.Op == "eq" && u.Mentions(at, func(x *E) bool { return x.Op == "field" && x.Aux == "currentScannerIdx" }) && u.Mentions(at, func(x *E) bool { return x == lenS }) && u.bdd.Implies(r.Cond, u.Atom(at)) {
								last = u.Atom(at)
							}
						}
						if !(u.bdd.Implies(r.Cond, empty) || (last != False && u.bdd.Implies(r.Cond, u.bdd.Not(scan)))) {
							bad = "false is returned although further lists remain (" + clip(u.ShowBool(r.Cond), 160) + ")"
						}
					}
				}
			}
		}
		c.Check(bad == "", "C11.R5", "RuleStorageScanner.Scan: tries every list until one yields; false only when none is left", ssScan.Pos(), "loop over the scanners; constant results under the documented conditions", bad)
	}
}

// stripConv removes integer conversions around a value.
func stripConv(e *E) *E {
	for e != nil && e.Op == "convert" && len(e.Args) == 1 && isIntLike(e) && isIntLike(e.Args[0]) {
		// the halves of a storage index are 32 bits wide: anything narrower loses information
		if bt, ok := e.Typ.Underlying().(*types.Basic); ok && intWidth(bt) < 32 {
			break
		}
		e = e.Args[0]
	}
	return e
}
