package main

// C09, sequence semantics.  DNSRewrites is evaluated with everything below it expanded, and every
// []*NetworkRule value on the way to its result is read as a filtered view of the list
// DNSRewritesAll() returned: "the elements ν of ALL, in their order, except those with drop(ν)".
// slices.DeleteFunc adds its predicate to drop, a loop that folds a list of exceptions into such a
// value adds "some exception e of the list has Q(e, ν)", a loop that appends the elements it keeps
// drops the others, nil drops everything.  The drop predicate of the result is then compared with
// the statement of C09 on every valuation of the documented criteria.  The reading does not depend
// on how the work is divided between DNSRewrites and its helpers; where a construct is outside the
// reading the evaluation says so and the rules R1, R2, R3, R5 and R7 judge the familiar shape.

import (
	"fmt"
	"go/token"
	"go/types"
	"os"
	"strconv"
	"strings"

	"golang.org/x/tools/go/ssa"
)

type seqVal struct {
	base    string // "ALL", "EMPTY", "ACC:<φ>"
	drop    Ref    // over ν (and atoms of the surrounding loops while a loop is being summarised)
	app     Ref    // append accumulators: the current element of the loop is appended
	appElem *E
	def     Ref // the condition under which the value exists at all (the paths it was merged from)
}

type seqEval struct {
	c     *Ctx
	g     *Gate
	u     *U
	top   *Summary
	dra   *ssa.Function
	nu    *E
	exc   *E
	nrT   types.Type
	stack []AV
	why   string
	colls map[string]AV
	nbv   int
	depth int
}

func (e *seqEval) undecided(format string, args ...any) (seqVal, bool) {
	if e.why == "" {
		e.why = fmt.Sprintf(format, args...)
	}
	return seqVal{}, false
}

func (e *seqEval) empty() seqVal { return seqVal{base: "EMPTY", drop: True, app: False, def: True} }

func loopWithHeader(fn *ssa.Function, h *ssa.BasicBlock) *Loop {
	for _, l := range loopsOf(fn) {
		if l.Header == h {
			return l
		}
	}
	return nil
}

// merge combines alternatives, each taken under its condition.
func (e *seqEval) merge(vals []seqVal, conds []Ref) (seqVal, bool) {
	u := e.u
	out := seqVal{base: "EMPTY", drop: False, app: False, def: False}
	for i, v := range vals {
		if conds[i] == False {
			continue
		}
		if v.base != "EMPTY" {
			if out.base != "EMPTY" && out.base != v.base {
				return e.undecided("alternatives are views of different lists (%s, %s)", out.base, v.base)
			}
			out.base = v.base
		}
		if v.appElem != nil {
			if out.appElem != nil && out.appElem != v.appElem {
				return e.undecided("alternatives append different elements")
			}
			out.appElem = v.appElem
		}
		out.drop = u.bdd.Or(out.drop, u.bdd.And(conds[i], v.drop))
		out.app = u.bdd.Or(out.app, u.bdd.And(conds[i], v.app))
		out.def = u.bdd.Or(out.def, u.bdd.And(conds[i], v.def))
	}
	return out, true
}

// closePred turns a condition that holds in one iteration of loop l (activation act) into a
// predicate of the element visited: the element of the ranged collection becomes the bound
// variable bv; what the loop's own control decides is taken as decided (the body runs).
func (e *seqEval) closePred(act *Summary, l *Loop, q Ref, bv *E) (Ref, *E, bool) {
	u := e.u
	ro := rangedOver(l)
	if ro == nil || ro.Kind != "index" || !ro.Full {
		e.undecided("%s: a loop that is not a complete range over a slice", e.c.P.Pos(l.Header.Instrs[0].Pos()))
		return False, nil, false
	}
	collE := act.Env[ro.Coll]
	if collE == nil {
		e.undecided("ranged collection not evaluated")
		return False, nil, false
	}
	body := u.bdd.And(act.RC[l.Header], contCond(u, act, l))
	q = u.bdd.Restrict(q, body)
	m := map[string]*E{}
	for _, at := range u.AtomsOf(q) {
		for _, x := range u.Collect(at, func(x *E) bool { return x.Op == "index" && len(x.Args) == 2 && x.Args[0] == collE }) {
			m[x.key] = bv
		}
	}
	if len(m) > 0 {
		q = u.SubstBool(q, m)
	}
	for _, at := range u.AtomsOf(q) {
		if !u.Mentions(at, func(x *E) bool { return x.Op == "loopphi" || x.Op == "loopval" }) {
			continue
		}
		// what is left refers to the state of a loop: its counter (decided by the control) or
		// something carried around it
		if u.Mentions(at, func(x *E) bool { return (x.Op == "loopphi" || x.Op == "loopval") && x.Typ != nil && !isIntT(x.Typ) }) {
			e.undecided("a condition depends on a value carried around a loop: %s", clip(u.Show(at), 100))
			return False, nil, false
		}
		q = u.bdd.Exists(q, u.atomIx[at.key])
	}
	return q, collE, true
}

func isIntT(t types.Type) bool {
	b, ok := t.Underlying().(*types.Basic)
	return ok && b.Info()&types.IsInteger != 0
}

func (e *seqEval) newBV(t types.Type) *E {
	e.nbv++
	return e.u.BVar(70+e.nbv, t)
}

// existsIn: cond holds in some iteration of the loops around instruction in of act.
func (e *seqEval) existsIn(act *Summary, in ssa.Instruction, cond Ref) (Ref, bool) {
	u := e.u
	loops := loopsOf(act.Fn)
	blk := in.Block()
	for {
		l := innermostLoop(loops, blk)
		if l == nil {
			return cond, true
		}
		ro := rangedOver(l)
		if ro == nil {
			e.undecided("a return inside a loop that is not a range")
			return False, false
		}
		var elT types.Type = e.nrT
		if st, ok := ro.Coll.Type().Underlying().(*types.Slice); ok {
			elT = st.Elem()
		}
		bv := e.newBV(elT)
		p, collE, ok := e.closePred(act, l, cond, bv)
		if !ok {
			return False, false
		}
		e.colls[collE.key] = AV{act, ro.Coll}
		cond = u.bdd.And(act.RC[l.Header], u.Exists(collE, p))
		// continue with the loop around this one, if any
		var outer []*Loop
		for _, l2 := range loops {
			if l2 != l && l2.Blocks[l.Header] {
				outer = append(outer, l2)
			}
		}
		if len(outer) == 0 {
			return cond, true
		}
		loops = outer
		blk = l.Header
	}
}

// rets: result idx of activation sub as a view.
func (e *seqEval) rets(sub *Summary, idx int) (seqVal, bool) {
	var vals []seqVal
	var conds []Ref
	for _, b := range sub.Fn.Blocks {
		r, ok := b.Instrs[len(b.Instrs)-1].(*ssa.Return)
		if !ok || idx >= len(r.Results) {
			continue
		}
		cond := sub.RCAt(r)
		if os.Getenv("UFSEQ") == "2" {
			for _, p := range sub.Fn.Params {
				fmt.Println("SEQ param", p.Name(), clip(e.u.Show(sub.Env[p]), 600))
			}
		}
		if os.Getenv("UFSEQ") != "" {
			fmt.Println("SEQ ret", shortFn(sub.Fn), e.c.P.Pos(r.Pos()), clip(e.u.ShowBool(cond), 400))
		}
		if cond == False {
			continue
		}
		v, ok := e.seq(AV{sub, r.Results[idx]})
		if !ok {
			return v, false
		}
		if innermostLoop(loopsOf(sub.Fn), b) != nil {
			// left from inside a loop: only "everything is dropped" can be said without knowing
			// how far the loop got
			if v.base != "EMPTY" {
				return e.undecided("%s: a list is returned from inside a loop", e.c.P.Pos(r.Pos()))
			}
			c2, ok := e.existsIn(sub, r, cond)
			if !ok {
				return seqVal{}, false
			}
			cond = c2
		}
		vals = append(vals, v)
		conds = append(conds, cond)
	}
	if len(vals) == 0 {
		return e.undecided("no return site")
	}
	return e.merge(vals, conds)
}

func (e *seqEval) seq(a AV) (seqVal, bool) {
	u := e.u
	e.depth++
	defer func() { e.depth-- }()
	if e.depth > 60 {
		return e.undecided("derivation too deep")
	}
	if a.V == nil || a.Act == nil {
		return e.undecided("missing value")
	}
	switch v := a.V.(type) {
	case *ssa.Const:
		if v.Value == nil {
			return e.empty(), true
		}
		return e.undecided("constant list")
	case *ssa.ChangeType:
		return e.seq(AV{a.Act, v.X})
	case *ssa.Parameter:
		if a.Act.Parent != nil && a.Act.Site != nil {
			if ci, ok := a.Act.Site.(ssa.CallInstruction); ok {
				for i, p := range a.Act.Fn.Params {
					if p == v && i < len(ci.Common().Args) {
						return e.seq(AV{a.Act.Parent, ci.Common().Args[i]})
					}
				}
			}
		}
		// a free variable / parameter of a predicate literal evaluated in place
		return e.undecided("a list parameter of %s that is not bound to an argument", shortFn(a.Act.Fn))
	case *ssa.Extract:
		if call, ok := v.Tuple.(*ssa.Call); ok {
			if sub := subAt(e.g, a.Act, call); sub != nil {
				return e.rets(sub, v.Index)
			}
		}
		return e.undecided("a result of an opaque call")
	case *ssa.Slice:
		if v.Low == nil && v.High != nil && isConstInt(v.High, 0) {
			// x[:0]: no elements; what is appended to it lands in x's array, which must be the
			// fresh one
			if s0, ok := e.seq(AV{a.Act, v.X}); !ok || (s0.base != "ALL" && !strings.HasPrefix(s0.base, "ACC:") && s0.base != "EMPTY") {
				return e.undecided("%s: the elements kept are written into a list that is not DNSRewritesAll()'s", e.c.P.Pos(v.Pos()))
			}
			return e.empty(), true
		}
		if v.Low == nil && v.High == nil && v.Max == nil {
			return e.seq(AV{a.Act, v.X})
		}
		return e.undecided("%s: a sub-slice", e.c.P.Pos(v.Pos()))
	case *ssa.Call:
		if b, ok := v.Call.Value.(*ssa.Builtin); ok {
			if b.Name() != "append" {
				return e.undecided("builtin %s", b.Name())
			}
			s0, ok := e.seq(AV{a.Act, v.Call.Args[0]})
			if !ok {
				return s0, false
			}
			ae := a.Act.Env[v]
			if ae == nil || ae.Op != "append" || ae.Aux != "elems" || len(ae.Args) != 2 {
				return e.undecided("%s: an append that is not of one element", e.c.P.Pos(v.Pos()))
			}
			if !strings.HasPrefix(s0.base, "ACC:") || s0.drop != False {
				return e.undecided("%s: an append to something other than the list the loop is building", e.c.P.Pos(v.Pos()))
			}
			if s0.appElem != nil {
				return e.undecided("two appends in one iteration")
			}
			return seqVal{base: s0.base, drop: False, app: True, appElem: ae.Args[1], def: True}, true
		}
		cal := v.Call.StaticCallee()
		if cal == nil {
			return e.undecided("%s: a dynamic call yields the list", e.c.P.Pos(v.Pos()))
		}
		if cal == e.dra {
			return seqVal{base: "ALL", drop: False, app: False, def: True}, true
		}
		name := calleeName(cal)
		switch {
		case strings.HasPrefix(name, "slices.DeleteFunc"):
			s0, ok := e.seq(AV{a.Act, v.Call.Args[0]})
			if !ok {
				return s0, false
			}
			if s0.appElem != nil {
				return e.undecided("deletion from a list being appended to")
			}
			ce := a.Act.Env[v]
			if ce == nil || ce.Op != "call" || len(ce.Args) != 2 || ce.Args[1].Op != "lambda" {
				if os.Getenv("UFSEQ") != "" {
					fmt.Println("SEQ env:", clip(u.Show(ce), 600))
				}
				return e.undecided("%s: the deletion predicate is not a formula over the element", e.c.P.Pos(v.Pos()))
			}
			d, _ := strconv.Atoi(ce.Args[1].Aux)
			P := u.ToBool(ce.Args[1].Args[0])
			P = u.SubstBool(P, map[string]*E{u.BVar(d, e.nrT).key: e.nu})
			s0.drop = u.bdd.Or(s0.drop, P)
			return s0, true
		case strings.HasPrefix(name, "slices.Clip") || strings.HasPrefix(name, "slices.Clone"):
			return e.seq(AV{a.Act, v.Call.Args[0]})
		}
		if sub := subAt(e.g, a.Act, v); sub != nil {
			return e.rets(sub, 0)
		}
		return e.undecided("%s: the list comes from %s", e.c.P.Pos(v.Pos()), name)
	case *ssa.Phi:
		blk := v.Block()
		if l := loopWithHeader(a.Act.Fn, blk); l != nil {
			for _, s := range e.stack {
				if s == a {
					return seqVal{base: "ACC:" + a.Act.Env[v].key, drop: False, app: False, def: True}, true
				}
			}
			return e.summarise(a, v, l)
		}
		var vals []seqVal
		var conds []Ref
		for i, p := range blk.Preds {
			c := edgeCondOf(u, a.Act, p, blk)
			if c == False {
				continue
			}
			x, ok := e.seq(AV{a.Act, v.Edges[i]})
			if !ok {
				return x, false
			}
			vals = append(vals, x)
			conds = append(conds, c)
		}
		return e.merge(vals, conds)
	}
	return e.undecided("the list is derived from %s", a.V.String())
}

// summarise: the value of a loop-carried list after the loop.
func (e *seqEval) summarise(a AV, ph *ssa.Phi, l *Loop) (seqVal, bool) {
	u := e.u
	act := a.Act
	ro := rangedOver(l)
	if ro == nil || ro.Kind != "index" || !ro.Full {
		return e.undecided("%s: a list is carried around a loop that is not a complete range over a slice", e.c.P.Pos(ph.Pos()))
	}
	for _, ex := range l.Exits {
		if ex[0] == l.Header {
			continue
		}
		if _, isRet := ex[1].Instrs[len(ex[1].Instrs)-1].(*ssa.Return); !isRet || len(ex[1].Instrs) > 2 {
			return e.undecided("%s: the loop is left early other than by returning", e.c.P.Pos(ph.Pos()))
		}
	}
	var init *seqVal
	var lats []seqVal
	var conds []Ref
	for i, p := range l.Header.Preds {
		if !l.Blocks[p] {
			x, ok := e.seq(AV{act, ph.Edges[i]})
			if !ok {
				return x, false
			}
			if init != nil {
				return e.undecided("loop entered from two places")
			}
			init = &x
			continue
		}
		e.stack = append(e.stack, a)
		x, ok := e.seq(AV{act, ph.Edges[i]})
		e.stack = e.stack[:len(e.stack)-1]
		if !ok {
			return x, false
		}
		lats = append(lats, x)
		conds = append(conds, edgeCondOf(u, act, p, l.Header))
	}
	if init == nil || len(lats) == 0 {
		return e.undecided("loop shape")
	}
	acc := "ACC:" + act.Env[ph].key
	for i := range lats {
		if lats[i].base == "EMPTY" {
			lats[i].base = acc
		}
		if lats[i].base != acc {
			return e.undecided("%s: the list carried around the loop is replaced by another list", e.c.P.Pos(ph.Pos()))
		}
	}
	lat, ok := e.merge(lats, conds)
	if !ok {
		return lat, false
	}
	if os.Getenv("UFSEQ") != "" {
		fmt.Println("SEQ loop", e.c.P.Pos(ph.Pos()), "init", init.base, clip(u.ShowBool(init.drop), 200), "lat", lat.base, clip(u.ShowBool(lat.drop), 600), "app", clip(u.ShowBool(lat.app), 200))
		for i := range lats {
			fmt.Println("SEQ   latch", i, lats[i].base, clip(u.ShowBool(lats[i].drop), 300), "cond", clip(u.ShowBool(conds[i]), 300))
		}
	}
	var elT types.Type = e.nrT
	if st, ok := ro.Coll.Type().Underlying().(*types.Slice); ok {
		elT = st.Elem()
	}
	collE := act.Env[ro.Coll]
	if lat.appElem != nil {
		// built by appending: the elements of the ranged list for which the append is reached
		if lat.drop != False {
			return e.undecided("a list both appended to and deleted from in one loop")
		}
		if init.base != "EMPTY" {
			return e.undecided("%s: elements are appended to a list that is not empty", e.c.P.Pos(ph.Pos()))
		}
		if collE == nil || lat.appElem.Op != "index" || lat.appElem.Args[0] != collE {
			return e.undecided("%s: the appended element is not the element visited", e.c.P.Pos(ph.Pos()))
		}
		if !types.Identical(elT, e.nrT) {
			return e.undecided("a list of another element type")
		}
		src, ok := e.seq(AV{act, ro.Coll})
		if !ok {
			return src, false
		}
		if src.appElem != nil || strings.HasPrefix(src.base, "ACC:") && len(e.stack) == 0 {
			return e.undecided("ranged list unresolved")
		}
		p, _, ok := e.closePred(act, l, lat.app, e.nu)
		if !ok {
			return seqVal{}, false
		}
		return seqVal{base: src.base, drop: u.bdd.Or(src.drop, u.bdd.Not(p)), app: False, def: u.bdd.And(src.def, init.def)}, true
	}
	// folded: each iteration drops what its element makes it drop
	bv := e.newBV(elT)
	p, cE, ok := e.closePred(act, l, lat.drop, bv)
	if !ok {
		return seqVal{}, false
	}
	e.colls[cE.key] = AV{act, ro.Coll}
	out := *init
	out.drop = u.bdd.Or(out.drop, u.Exists(cE, p))
	return out, true
}

// seqDecide evaluates DNSRewrites under the sequence reading.  decided=false: outside the reading
// (why says what); otherwise bad is empty when the result is the documented filter of
// DNSRewritesAll() and names the first deviation otherwise.
func seqDecide(c *Ctx, dr, dra *ssa.Function, kImp int64) (decided bool, bad string, why string) {
	defer func() {
		if r := recover(); r != nil {
			decided, bad, why = false, "", fmt.Sprint("panic: ", r)
		}
	}()
	g := NewGate(c.P)
	g.Inline = func(_, callee *ssa.Function, _ int) bool { return callee != dra }
	g.Search = true
	g.Pure[FuncName(dra)] = true
	s := g.Eval(dr)
	u := g.U
	var nrT types.Type
	if st, ok := dr.Signature.Results().At(0).Type().Underlying().(*types.Slice); ok {
		nrT = st.Elem()
	} else {
		return false, "", "result type"
	}
	e := &seqEval{c: c, g: g, u: u, top: s, dra: dra, nrT: nrT, colls: map[string]AV{}}
	e.nu = u.BVar(60, nrT)
	e.exc = u.BVar(61, nrT)
	res, ok := e.rets(s, 0)
	dbg := os.Getenv("UFSEQ") != ""
	if !ok {
		if dbg {
			fmt.Println("SEQ undecided:", e.why)
		}
		return false, "", e.why
	}
	if res.base != "ALL" && res.base != "EMPTY" || res.appElem != nil {
		return false, "", "the result is not a view of DNSRewritesAll()"
	}
	D := res.drop
	// the loops the result was computed by have ended: what their counters say is decided
	for _, at := range u.AtomsOf(D) {
		if at.Op != "exists" && u.Mentions(at, func(x *E) bool { return x.Op == "loopphi" && x.Typ != nil && isIntT(x.Typ) }) &&
			!u.Mentions(at, func(x *E) bool {
				return (x.Op == "loopphi" || x.Op == "loopval") && (x.Typ == nil || !isIntT(x.Typ)) && false
			}) {
			D = u.bdd.Exists(D, u.atomIx[at.key])
		}
	}
	// the receiver exists
	recvOK := True
	if ps := g.ParamExprs(dr); len(ps) > 0 {
		recvOK = u.bdd.Not(u.ToBool(u.Eq(ps[0], u.mk("nil", "", nil))))
		D = u.bdd.Restrict(D, recvOK)
	}
	carried := func(f Ref) *E {
		for _, at := range u.AtomsOf(f) {
			if at.Op != "exists" && u.Mentions(at, func(x *E) bool { return x.Op == "loopphi" || x.Op == "loopval" || x.Op == "havoc" }) {
				return at
			}
		}
		return nil
	}
	if at := carried(D); at != nil {
		return false, "", "the result depends on a value carried around a loop: " + clip(u.Show(at), 120)
	}
	if dbg {
		fmt.Println("SEQ D =", u.ShowBool(D))
	}
	W := func(x *E) Ref { return u.Atom(u.Field(x, "Whitelist", types.Typ[types.Bool])) }
	impOf := func(r *E) Ref {
		en := u.Field(r, "enabledOptions", types.Typ[types.Uint64])
		kc := u.ConstVal(constantInt(kImp), types.Typ[types.Uint64])
		return u.ToBool(u.Eq(u.Bin(token.AND, en, kc, types.Typ[types.Uint64]), kc))
	}
	nilE := u.mk("nil", "", nil)
	noRW := func(x *E) Ref { return u.ToBool(u.Eq(u.Field(x, "DNSRewrite", nil), nilE)) }
	var draCall *E
	for _, at := range u.tab {
		if at.Op == "call" && at.Aux == calleeName(dra) {
			draCall = at
		}
	}
	// exists atoms, and the axioms that come with them
	var exs []*E
	ax := True
	care := u.bdd.Not(noRW(e.nu))
	if draCall != nil {
		care = u.bdd.And(care, u.bdd.Not(u.ToBool(u.Eq(u.Len(draCall), u.Int(0)))))
	}
	for _, at := range u.AtomsOf(D) {
		if at.Op == "exists" {
			exs = append(exs, at)
			ax = u.bdd.And(ax, u.bdd.Imp(u.Atom(at), u.bdd.Not(u.ToBool(u.Eq(u.Len(at.Args[0]), u.Int(0))))))
		}
	}
	D0 := D
	var anyEx Ref = False
	for _, at := range exs {
		D0 = u.bdd.Cofactor(D0, u.atomIx[at.key], false)
		anyEx = u.bdd.Or(anyEx, u.Atom(at))
	}
	axc := u.bdd.And(ax, care)
	if u.bdd.And(axc, u.bdd.Xor(D, u.bdd.Or(D0, anyEx))) != False {
		return false, "", "the result does not drop an element exactly when it is dropped without exceptions or some exception makes it dropped: " + clip(u.ShowBool(D), 200)
	}
	// without exceptions: exactly the exception rules are dropped.  What a fast path tests about
	// the list of exceptions plays no part once every exception is taken not to fire.
	for _, at := range u.AtomsOf(D0) {
		if at.Op == "eq" && at.Args[0].Op == "len" && isIntConst(at.Args[1], 0) && !u.Mentions(at, func(x *E) bool { return x == e.nu }) {
			D0a, D0b := u.bdd.Cofactor(D0, u.atomIx[at.key], true), u.bdd.Cofactor(D0, u.atomIx[at.key], false)
			if u.bdd.And(care, D0a) == u.bdd.And(care, W(e.nu)) && u.bdd.And(care, D0b) == u.bdd.And(care, W(e.nu)) {
				D0 = D0b
			}
		}
	}
	if u.bdd.And(care, D0) != u.bdd.And(care, W(e.nu)) {
		extra := u.bdd.And(care, u.bdd.And(D0, u.bdd.Not(W(e.nu))))
		if extra != False {
			return true, "a rewrite that is not an exception rule is dropped although no exception applies to it: dropped when " + clip(u.ShowBool(u.bdd.Restrict(D0, u.bdd.Not(W(e.nu)))), 160), ""
		}
		return true, "an exception rule (Whitelist) can be part of the result: kept when " + clip(u.ShowBool(u.bdd.And(care, u.bdd.And(W(e.nu), u.bdd.Not(D0)))), 160), ""
	}
	// each exists: over which rules, with which predicate
	X := e.exc
	var B Ref = False
	for _, at := range exs {
		coll := at.Args[0]
		pred := u.ToBool(at.Args[1])
		var bv *E
		for _, a2 := range u.AtomsOf(pred) {
			if a2.Op == "exists" {
				return false, "", "nested search"
			}
			for _, x := range u.Collect(a2, func(x *E) bool { return x.Op == "bvar" && x != e.nu }) {
				if bv != nil && bv != x {
					return false, "", "two bound variables in one search"
				}
				bv = x
			}
		}
		member := True
		if coll != draCall {
			av, ok := e.colls[coll.key]
			if !ok {
				// a search the evaluator canonicalised: find the value with this expression
				for _, act := range append([]*Summary{s}, g.Subs...) {
					for v, ex := range act.Env {
						if ex == coll {
							if _, isSl := v.Type().Underlying().(*types.Slice); isSl {
								av, ok = AV{act, v}, true
							}
						}
					}
				}
			}
			if !ok {
				return false, "", "the list searched for exceptions is not resolved: " + clip(u.Show(coll), 80)
			}
			if st, isSl := av.V.Type().Underlying().(*types.Slice); !isSl || !types.Identical(st.Elem(), nrT) {
				return false, "", "exceptions are kept in a list of another element type"
			}
			e.why = ""
			cs, ok := e.seq(av)
			if !ok || cs.base != "ALL" || cs.appElem != nil {
				return false, "", "the list of exceptions is not a view of DNSRewritesAll(): " + e.why
			}
			for _, a2 := range u.AtomsOf(cs.drop) {
				if a2.Op == "exists" {
					return false, "", "the list of exceptions itself depends on a search"
				}
			}
			member = u.bdd.And(cs.def, u.bdd.Not(u.SubstBool(cs.drop, map[string]*E{e.nu.key: X})))
		}
		if bv != nil {
			pred = u.SubstBool(pred, map[string]*E{bv.key: X})
		}
		if dbg {
			fmt.Println("SEQ ex coll", clip(u.Show(coll), 100), "member", clip(u.ShowBool(member), 300), "pred", clip(u.ShowBool(pred), 300))
		}
		B = u.bdd.Or(B, u.bdd.And(member, pred))
	}
	if dbg {
		fmt.Println("SEQ B =", u.ShowBool(B))
	}
	// B(X, ν) against the statement
	careB := u.bdd.And(u.bdd.Not(noRW(X)), u.bdd.And(u.bdd.Not(noRW(e.nu)), u.bdd.Not(W(e.nu))))
	if draCall != nil {
		careB = u.bdd.And(careB, u.bdd.Not(u.ToBool(u.Eq(u.Len(draCall), u.Int(0)))))
	}
	B = u.bdd.Restrict(B, u.bdd.And(careB, recvOK))
	for _, at := range u.AtomsOf(B) {
		if at.Op != "exists" && u.Mentions(at, func(x *E) bool { return x.Op == "loopphi" && x.Typ != nil && isIntT(x.Typ) }) &&
			!u.Mentions(at, func(x *E) bool { return (x.Op == "loopphi" || x.Op == "loopval") && (x.Typ == nil || !isIntT(x.Typ)) }) {
			B = u.bdd.Exists(B, u.atomIx[at.key])
		}
	}
	if dbg {
		fmt.Println("SEQ B' =", u.ShowBool(B))
	}
	if at := carried(B); at != nil {
		return false, "", "an exception's effect depends on a value carried around a loop: " + clip(u.Show(at), 120)
	}
	dfield := func(p *E, f string) string { return u.Field(u.Field(p, "DNSRewrite", nil), f, nil).key }
	roles := map[string]*E{}
	names := []string{"excW", "excImp", "nrImp", "empty", "excCnameEmpty", "sameCname", "sameRcode", "excSuccess", "nrSuccess", "sameType", "sameValue"}
	for _, at := range u.AtomsOf(B) {
		c.Atoms[at.key] = true
		switch {
		case u.Atom(at) == W(X):
			roles["excW"] = at
		case u.Atom(at) == impOf(X):
			roles["excImp"] = at
		case u.Atom(at) == impOf(e.nu):
			roles["nrImp"] = at
		case at.Op == "eq" && (at.Args[0].Op == "zero" || at.Args[1].Op == "zero") && u.Mentions(at, func(x *E) bool { return x.Op == "field" && x.Aux == "DNSRewrite" && x.Args[0] == X }):
			roles["empty"] = at
		case at.Op == "eq" && at.Args[0].Op == "len" && at.Args[0].Args[0].key == dfield(X, "NewCNAME") && isIntConst(at.Args[1], 0):
			roles["excCnameEmpty"] = at
		case at.Op == "eq" && pairIs(at, dfield(X, "NewCNAME"), dfield(e.nu, "NewCNAME")):
			roles["sameCname"] = at
		case at.Op == "eq" && pairIs(at, dfield(X, "RCode"), dfield(e.nu, "RCode")):
			roles["sameRcode"] = at
		case at.Op == "eq" && at.Args[0].key == dfield(X, "RCode") && isIntConst(at.Args[1], 0):
			roles["excSuccess"] = at
		case at.Op == "eq" && at.Args[0].key == dfield(e.nu, "RCode") && isIntConst(at.Args[1], 0):
			roles["nrSuccess"] = at
		case at.Op == "eq" && pairIs(at, dfield(X, "RRType"), dfield(e.nu, "RRType")):
			roles["sameType"] = at
		case (at.Op == "call" || at.Op == "eq") && len(at.Args) >= 2 && pairIs(at, dfield(X, "Value"), dfield(e.nu, "Value")):
			roles["sameValue"] = at
		default:
			return false, "", "a condition outside the documented criteria: " + clip(u.Show(at), 140)
		}
	}
	n := 0
	for m := 0; m < 1<<len(names); m++ {
		val := map[string]bool{}
		asg := map[string]bool{}
		for i, nm := range names {
			val[nm] = m&(1<<i) != 0
			if roles[nm] != nil {
				asg[roles[nm].key] = val[nm]
			}
		}
		// what the criteria say about each other
		if val["empty"] && !(val["excCnameEmpty"] && val["excSuccess"]) {
			continue
		}
		if val["excSuccess"] && val["nrSuccess"] != val["sameRcode"] {
			continue
		}
		if !val["excSuccess"] && val["nrSuccess"] && val["sameRcode"] {
			continue
		}
		got := u.bdd.Eval(B, func(v int) bool { return asg[u.atoms[v].key] })
		n++
		var want bool
		switch {
		case !val["excW"]:
			want = false
		case val["empty"]:
			want = val["excImp"] || !val["nrImp"]
		case !val["excImp"] && val["nrImp"]:
			want = false
		case !val["excCnameEmpty"]:
			want = val["sameCname"]
		default:
			want = val["sameRcode"] && (!val["excSuccess"] || (val["sameType"] && val["sameValue"]))
		}
		if got != want {
			var on []string
			for _, nm := range names {
				if val[nm] {
					on = append(on, nm)
				}
			}
			return true, fmt.Sprintf("for a rule X of the list and a rewrite with {%s} true and the other criteria false, X makes the rewrite dropped: %v; the statement says %v", strings.Join(on, ", "), got, want), ""
		}
	}
	c.Paths += n
	return true, "", ""
}
