package main

// C09, sequence semantics.  DNSRewrites is evaluated with everything below it expanded, and every
// []*NetworkRule value on the way to its result is read as a filtered view of the list
// DNSRewritesAll() returned: "the elements ν of ALL, in their order, except those with drop(ν)".
// slices.DeleteFunc adds its predicate to drop, a loop that folds a list of exceptions into such a
// value adds "some exception e of the list has Q(e, ν)", a loop that appends the elements it keeps
// drops the others, nil drops everything.  The drop predicate of the result is then compared with
// the statement of C09 on every valuation of the documented criteria.  The reading does not depend
// on how the work is divided between DNSRewrites and its helpers; where a construct is outside the
// reading the evaluation says so and the rules R1, R2, R3, R5 and R7 judge the familiar shape.

import (
	"fmt"
	"go/token"
	"go/types"
	"os"
	"sort"
	"strconv"
	"strings"

	"golang.org/x/tools/go/ssa"
)

type seqVal struct {
	base    string // "ALL", "EMPTY", "ACC:<φ>"
	drop    Ref    // over ν (and atoms of the surrounding loops while a loop is being summarised)
	app     Ref    // append accumulators: the current element of the loop is appended
	appElem *E
	def     Ref // the condition under which the value exists at all (the paths it was merged from)
}

type seqEval struct {
	c     *Ctx
	g     *Gate
	u     *U
	top   *Summary
	dra   *ssa.Function
	nu    *E
	exc   *E
	nrT   types.Type
	stack []AV
	why   string
	colls map[string]AV
	nbv   int
	depth int
	// lists of carrier structs built from the rules of a view: which rules, and what each field of
	// the carrier is in terms of the rule it was built from (ν)
	mapped map[string]*mappedColl
}

type mappedColl struct {
	member Ref           // over ν
	fields map[string]*E // field name -> value, in terms of ν
	elT    types.Type
}

func (e *seqEval) undecided(format string, args ...any) (seqVal, bool) {
	if e.why == "" {
		e.why = fmt.Sprintf(format, args...)
	}
	return seqVal{}, false
}

func (e *seqEval) empty() seqVal { return seqVal{base: "EMPTY", drop: True, app: False, def: True} }

func loopWithHeader(fn *ssa.Function, h *ssa.BasicBlock) *Loop {
	for _, l := range loopsOf(fn) {
		if l.Header == h {
			return l
		}
	}
	return nil
}

// merge combines alternatives, each taken under its condition.
func (e *seqEval) merge(vals []seqVal, conds []Ref) (seqVal, bool) {
	u := e.u
	out := seqVal{base: "EMPTY", drop: False, app: False, def: False}
	for i, v := range vals {
		if conds[i] == False {
			continue
		}
		if v.base != "EMPTY" {
			if out.base != "EMPTY" && out.base != v.base {
				return e.undecided("alternatives are views of different lists (%s, %s)", out.base, v.base)
			}
			out.base = v.base
		}
		if v.appElem != nil {
			if out.appElem != nil && out.appElem != v.appElem {
				return e.undecided("alternatives append different elements")
			}
			out.appElem = v.appElem
		}
		out.drop = u.bdd.Or(out.drop, u.bdd.And(conds[i], v.drop))
		out.app = u.bdd.Or(out.app, u.bdd.And(conds[i], v.app))
		out.def = u.bdd.Or(out.def, u.bdd.And(conds[i], v.def))
	}
	return out, true
}

// closePred turns a condition that holds in one iteration of loop l (activation act) into a
// predicate of the element visited: the element of the ranged collection becomes the bound
// variable bv; what the loop's own control decides is taken as decided (the body runs).
func (e *seqEval) closePred(act *Summary, l *Loop, q Ref, bv *E) (Ref, *E, bool) {
	u := e.u
	ro := rangedOver(l)
	if ro == nil || ro.Kind != "index" || !ro.Full {
		e.undecided("%s: a loop that is not a complete range over a slice", e.c.P.Pos(l.Header.Instrs[0].Pos()))
		return False, nil, false
	}
	collE := act.Env[ro.Coll]
	if collE == nil {
		e.undecided("ranged collection not evaluated")
		return False, nil, false
	}
	body := u.bdd.And(act.RC[l.Header], contCond(u, act, l))
	q = u.bdd.Restrict(q, body)
	m := map[string]*E{}
	for _, at := range u.AtomsOf(q) {
		for _, x := range u.Collect(at, func(x *E) bool { return (x.Op == "index" || x.Op == "iaddr") && len(x.Args) == 2 && x.Args[0] == collE }) {
			m[x.key] = bv
		}
	}
	if len(m) > 0 {
		q = u.SubstBool(q, m)
	}
	for _, at := range u.AtomsOf(q) {
		if !u.Mentions(at, func(x *E) bool { return x.Op == "loopphi" || x.Op == "loopval" }) {
			continue
		}
		// what is left refers to the state of a loop: its counter (decided by the control) or
		// something carried around it
		if u.Mentions(at, func(x *E) bool { return (x.Op == "loopphi" || x.Op == "loopval") && x.Typ != nil && !isIntT(x.Typ) }) {
			e.undecided("a condition depends on a value carried around a loop: %s", clip(u.Show(at), 100))
			return False, nil, false
		}
		q = u.bdd.Exists(q, u.atomIx[at.key])
	}
	return q, collE, true
}

func isIntT(t types.Type) bool {
	b, ok := t.Underlying().(*types.Basic)
	return ok && b.Info()&types.IsInteger != 0
}

func (e *seqEval) newBV(t types.Type) *E {
	e.nbv++
	return e.u.BVar(70+e.nbv, t)
}

// existsIn: cond holds in some iteration of the loops around instruction in of act.
func (e *seqEval) existsIn(act *Summary, in ssa.Instruction, cond Ref) (Ref, bool) {
	u := e.u
	loops := loopsOf(act.Fn)
	blk := in.Block()
	for {
		l := innermostLoop(loops, blk)
		if l == nil {
			return cond, true
		}
		ro := rangedOver(l)
		if ro == nil {
			e.undecided("a return inside a loop that is not a range")
			return False, false
		}
		var elT types.Type = e.nrT
		if st, ok := ro.Coll.Type().Underlying().(*types.Slice); ok {
			elT = st.Elem()
		}
		bv := e.newBV(elT)
		p, collE, ok := e.closePred(act, l, cond, bv)
		if !ok {
			return False, false
		}
		e.colls[collE.key] = AV{act, ro.Coll}
		cond = u.bdd.And(act.RC[l.Header], u.Exists(collE, p))
		// continue with the loop around this one, if any
		var outer []*Loop
		for _, l2 := range loops {
			if l2 != l && l2.Blocks[l.Header] {
				outer = append(outer, l2)
			}
		}
		if len(outer) == 0 {
			return cond, true
		}
		loops = outer
		blk = l.Header
	}
}

// rets: result idx of activation sub as a view.
func (e *seqEval) rets(sub *Summary, idx int) (seqVal, bool) {
	var vals []seqVal
	var conds []Ref
	for _, b := range sub.Fn.Blocks {
		r, ok := b.Instrs[len(b.Instrs)-1].(*ssa.Return)
		if !ok || idx >= len(r.Results) {
			continue
		}
		cond := sub.RCAt(r)
		if os.Getenv("UFSEQ") == "2" {
			for _, p := range sub.Fn.Params {
				fmt.Println("SEQ param", p.Name(), clip(e.u.Show(sub.Env[p]), 600))
			}
		}
		if os.Getenv("UFSEQ") != "" {
			fmt.Println("SEQ ret", shortFn(sub.Fn), e.c.P.Pos(r.Pos()), clip(e.u.ShowBool(cond), 400))
		}
		if cond == False {
			continue
		}
		v, ok := e.seq(AV{sub, r.Results[idx]})
		if !ok {
			return v, false
		}
		// a return inside a loop, or reached by leaving one early (the returning block itself is
		// not part of the natural loop)
		var inLoop ssa.Instruction
		if innermostLoop(loopsOf(sub.Fn), b) != nil {
			inLoop = r
		} else {
			for _, l := range loopsOf(sub.Fn) {
				for _, ex := range l.Exits {
					if ex[0] != l.Header && (ex[1] == b || ex[1].Dominates(b)) && len(ex[0].Instrs) > 0 {
						inLoop = ex[0].Instrs[len(ex[0].Instrs)-1]
					}
				}
			}
		}
		if inLoop != nil {
			// left from inside a loop: only "everything is dropped" can be said without knowing
			// how far the loop got
			if v.base != "EMPTY" {
				return e.undecided("%s: a list is returned from inside a loop", e.c.P.Pos(r.Pos()))
			}
			c2, ok := e.existsIn(sub, inLoop, cond)
			if !ok {
				return seqVal{}, false
			}
			cond = c2
		}
		vals = append(vals, v)
		conds = append(conds, cond)
	}
	if len(vals) == 0 {
		return e.undecided("no return site")
	}
	return e.merge(vals, conds)
}

func (e *seqEval) seq(a AV) (seqVal, bool) {
	u := e.u
	e.depth++
	defer func() { e.depth-- }()
	if e.depth > 60 {
		return e.undecided("derivation too deep")
	}
	if a.V == nil || a.Act == nil {
		return e.undecided("missing value")
	}
	switch v := a.V.(type) {
	case *ssa.Const:
		if v.Value == nil {
			return e.empty(), true
		}
		return e.undecided("constant list")
	case *ssa.ChangeType:
		return e.seq(AV{a.Act, v.X})
	case *ssa.Parameter:
		if a.Act.Parent != nil && a.Act.Site != nil {
			if ci, ok := a.Act.Site.(ssa.CallInstruction); ok {
				for i, p := range a.Act.Fn.Params {
					if p == v && i < len(ci.Common().Args) {
						return e.seq(AV{a.Act.Parent, ci.Common().Args[i]})
					}
				}
			}
		}
		// a free variable / parameter of a predicate literal evaluated in place
		return e.undecided("a list parameter of %s that is not bound to an argument", shortFn(a.Act.Fn))
	case *ssa.Extract:
		if call, ok := v.Tuple.(*ssa.Call); ok {
			if sub := subAt(e.g, a.Act, call); sub != nil {
				return e.rets(sub, v.Index)
			}
		}
		return e.undecided("a result of an opaque call")
	case *ssa.Slice:
		if v.Low == nil && v.High != nil && isConstInt(v.High, 0) {
			// x[:0]: no elements; what is appended to it lands in x's array, which must be the
			// fresh one
			if s0, ok := e.seq(AV{a.Act, v.X}); !ok || (s0.base != "ALL" && !strings.HasPrefix(s0.base, "ACC:") && s0.base != "EMPTY") {
				return e.undecided("%s: the elements kept are written into a list that is not DNSRewritesAll()'s", e.c.P.Pos(v.Pos()))
			}
			return e.empty(), true
		}
		if v.Low == nil && v.High == nil && v.Max == nil {
			return e.seq(AV{a.Act, v.X})
		}
		if v.Low == nil && v.High != nil && v.Max == nil {
			if k, ok := v.High.(*ssa.Phi); ok {
				if l := loopWithHeader(a.Act.Fn, k.Block()); l != nil && !l.Blocks[v.Block()] {
					return e.compacted(a, v, k, l)
				}
			}
		}
		return e.undecided("%s: a sub-slice", e.c.P.Pos(v.Pos()))
	case *ssa.Call:
		if b, ok := v.Call.Value.(*ssa.Builtin); ok {
			if b.Name() != "append" {
				return e.undecided("builtin %s", b.Name())
			}
			s0, ok := e.seq(AV{a.Act, v.Call.Args[0]})
			if !ok {
				return s0, false
			}
			ae := a.Act.Env[v]
			if ae == nil || ae.Op != "append" || ae.Aux != "elems" || len(ae.Args) != 2 {
				return e.undecided("%s: an append that is not of one element", e.c.P.Pos(v.Pos()))
			}
			if !strings.HasPrefix(s0.base, "ACC:") || s0.drop != False {
				return e.undecided("%s: an append to something other than the list the loop is building", e.c.P.Pos(v.Pos()))
			}
			if s0.appElem != nil {
				return e.undecided("two appends in one iteration")
			}
			return seqVal{base: s0.base, drop: False, app: True, appElem: ae.Args[1], def: True}, true
		}
		cal := v.Call.StaticCallee()
		if cal == nil {
			return e.undecided("%s: a dynamic call yields the list", e.c.P.Pos(v.Pos()))
		}
		if cal == e.dra {
			return seqVal{base: "ALL", drop: False, app: False, def: True}, true
		}
		name := calleeName(cal)
		switch {
		case strings.HasPrefix(name, "slices.DeleteFunc"):
			s0, ok := e.seq(AV{a.Act, v.Call.Args[0]})
			if !ok {
				return s0, false
			}
			if s0.appElem != nil {
				return e.undecided("deletion from a list being appended to")
			}
			ce := a.Act.Env[v]
			if ce == nil || ce.Op != "call" || len(ce.Args) != 2 || ce.Args[1].Op != "lambda" {
				if os.Getenv("UFSEQ") != "" {
					fmt.Println("SEQ env:", clip(u.Show(ce), 600))
				}
				return e.undecided("%s: the deletion predicate is not a formula over the element", e.c.P.Pos(v.Pos()))
			}
			d, _ := strconv.Atoi(ce.Args[1].Aux)
			P := u.ToBool(ce.Args[1].Args[0])
			P = u.SubstBool(P, map[string]*E{u.BVar(d, e.nrT).key: e.nu})
			s0.drop = u.bdd.Or(s0.drop, P)
			return s0, true
		case strings.HasPrefix(name, "slices.Clip") || strings.HasPrefix(name, "slices.Clone"):
			return e.seq(AV{a.Act, v.Call.Args[0]})
		}
		if sub := subAt(e.g, a.Act, v); sub != nil {
			return e.rets(sub, 0)
		}
		return e.undecided("%s: the list comes from %s", e.c.P.Pos(v.Pos()), name)
	case *ssa.MakeSlice:
		if isConstInt(v.Len, 0) {
			return e.empty(), true
		}
		return e.undecided("%s: a list made with a length", e.c.P.Pos(v.Pos()))
	case *ssa.Phi:
		blk := v.Block()
		if l := loopWithHeader(a.Act.Fn, blk); l != nil {
			for _, s := range e.stack {
				if s == a {
					return seqVal{base: "ACC:" + a.Act.Env[v].key, drop: False, app: False, def: True}, true
				}
			}
			return e.summarise(a, v, l)
		}
		var vals []seqVal
		var conds []Ref
		for i, p := range blk.Preds {
			c := edgeCondOf(u, a.Act, p, blk)
			if c == False {
				continue
			}
			x, ok := e.seq(AV{a.Act, v.Edges[i]})
			if !ok {
				return x, false
			}
			vals = append(vals, x)
			conds = append(conds, c)
		}
		return e.merge(vals, conds)
	}
	return e.undecided("the list is derived from %s", a.V.String())
}

// compacted: x[:k] after a complete range loop that moves the elements it keeps to the front of x
// ("x[k] = element; k++", k starting at 0): the elements of the ranged view for which the store is
// reached, in their order.  A write position never overtakes the read position, so what the loop
// reads is what the list held.
func (e *seqEval) compacted(a AV, sl *ssa.Slice, k *ssa.Phi, l *Loop) (seqVal, bool) {
	u := e.u
	act := a.Act
	ro := rangedOver(l)
	if ro == nil || ro.Kind != "index" || !ro.Full {
		return e.undecided("%s: elements are moved in a loop that is not a complete range over a slice", e.c.P.Pos(sl.Pos()))
	}
	for _, ex := range l.Exits {
		if ex[0] != l.Header {
			return e.undecided("%s: the compacting loop is left early", e.c.P.Pos(sl.Pos()))
		}
	}
	listE := act.Env[sl.X]
	collE := act.Env[ro.Coll]
	if listE == nil || collE == nil {
		return e.undecided("compaction: list unresolved")
	}
	var st *ssa.Store
	for b := range l.Blocks {
		for _, in := range b.Instrs {
			s2, ok := in.(*ssa.Store)
			if !ok {
				continue
			}
			ia, ok := s2.Addr.(*ssa.IndexAddr)
			if !ok || act.Env[ia.X] != listE {
				continue
			}
			if st != nil || ia.Index != ssa.Value(k) {
				return e.undecided("%s: the list is written at a position other than the count of the elements kept", e.c.P.Pos(s2.Pos()))
			}
			st = s2
		}
	}
	if st == nil {
		return e.undecided("%s: a prefix of the list up to a loop counter, but nothing is moved", e.c.P.Pos(sl.Pos()))
	}
	// the counter: 0 at the start, +1 exactly where the store is
	var incs []*ssa.BinOp
	seen := map[ssa.Value]bool{}
	var walk func(v ssa.Value) bool
	walk = func(v ssa.Value) bool {
		if v == ssa.Value(k) || seen[v] {
			return true
		}
		seen[v] = true
		switch y := v.(type) {
		case *ssa.BinOp:
			if y.Op != token.ADD || y.X != ssa.Value(k) || !isConstInt(y.Y, 1) {
				return false
			}
			incs = append(incs, y)
			return true
		case *ssa.Phi:
			if !l.Blocks[y.Block()] {
				return false
			}
			for _, ed := range y.Edges {
				if !walk(ed) {
					return false
				}
			}
			return true
		}
		return false
	}
	for i, ed := range k.Edges {
		if !l.Blocks[k.Block().Preds[i]] {
			if !isConstInt(ed, 0) {
				return e.undecided("compaction: the count does not start at 0")
			}
			continue
		}
		if !walk(ed) {
			return e.undecided("compaction: the count is not advanced by one")
		}
	}
	if len(incs) != 1 || act.RCAt(incs[0]) != act.RCAt(st) {
		return e.undecided("%s: the count of the elements kept is not advanced exactly where an element is moved", e.c.P.Pos(st.Pos()))
	}
	if ve := act.Env[st.Val]; ve == nil || ve.Op != "index" || ve.Args[0] != collE {
		return e.undecided("%s: the element moved is not the element visited", e.c.P.Pos(st.Pos()))
	}
	// the list written is the one ranged over (or the fresh list a view of which is ranged over)
	dst, ok := e.seq(AV{act, sl.X})
	if !ok {
		return dst, false
	}
	if dst.base != "ALL" || dst.appElem != nil {
		return e.undecided("%s: the elements kept are written into a list that is not DNSRewritesAll()'s", e.c.P.Pos(sl.Pos()))
	}
	src, ok := e.seq(AV{act, ro.Coll})
	if !ok {
		return src, false
	}
	if src.base != "ALL" || src.appElem != nil {
		return e.undecided("compaction: ranged list unresolved")
	}
	p, _, ok := e.closePred(act, l, act.RCAt(st), e.nu)
	if !ok {
		return seqVal{}, false
	}
	return seqVal{base: "ALL", drop: u.bdd.Or(src.drop, u.bdd.Not(p)), app: False, def: src.def}, true
}

// summarise: the value of a loop-carried list after the loop.
func (e *seqEval) summarise(a AV, ph *ssa.Phi, l *Loop) (seqVal, bool) {
	u := e.u
	act := a.Act
	ro := rangedOver(l)
	if ro == nil || ro.Kind != "index" || !ro.Full {
		return e.undecided("%s: a list is carried around a loop that is not a complete range over a slice", e.c.P.Pos(ph.Pos()))
	}
	for _, ex := range l.Exits {
		if ex[0] == l.Header {
			continue
		}
		if _, isRet := ex[1].Instrs[len(ex[1].Instrs)-1].(*ssa.Return); !isRet || len(ex[1].Instrs) > 2 {
			return e.undecided("%s: the loop is left early other than by returning", e.c.P.Pos(ph.Pos()))
		}
	}
	var init *seqVal
	var lats []seqVal
	var conds []Ref
	for i, p := range l.Header.Preds {
		if !l.Blocks[p] {
			x, ok := e.seq(AV{act, ph.Edges[i]})
			if !ok {
				return x, false
			}
			if init != nil {
				return e.undecided("loop entered from two places")
			}
			init = &x
			continue
		}
		e.stack = append(e.stack, a)
		x, ok := e.seq(AV{act, ph.Edges[i]})
		e.stack = e.stack[:len(e.stack)-1]
		if !ok {
			return x, false
		}
		lats = append(lats, x)
		conds = append(conds, edgeCondOf(u, act, p, l.Header))
	}
	if init == nil || len(lats) == 0 {
		return e.undecided("loop shape")
	}
	acc := "ACC:" + act.Env[ph].key
	for i := range lats {
		if lats[i].base == "EMPTY" {
			lats[i].base = acc
		}
		if lats[i].base != acc {
			return e.undecided("%s: the list carried around the loop is replaced by another list", e.c.P.Pos(ph.Pos()))
		}
	}
	lat, ok := e.merge(lats, conds)
	if !ok {
		return lat, false
	}
	if os.Getenv("UFSEQ") != "" {
		fmt.Println("SEQ loop", e.c.P.Pos(ph.Pos()), "init", init.base, clip(u.ShowBool(init.drop), 200), "lat", lat.base, clip(u.ShowBool(lat.drop), 600), "app", clip(u.ShowBool(lat.app), 200))
		for i := range lats {
			fmt.Println("SEQ   latch", i, lats[i].base, clip(u.ShowBool(lats[i].drop), 300), "cond", clip(u.ShowBool(conds[i]), 300))
		}
	}
	var elT types.Type = e.nrT
	if st, ok := ro.Coll.Type().Underlying().(*types.Slice); ok {
		elT = st.Elem()
	}
	collE := act.Env[ro.Coll]
	if lat.appElem != nil {
		// built by appending: the elements of the ranged list for which the append is reached
		if lat.drop != False {
			return e.undecided("a list both appended to and deleted from in one loop")
		}
		if init.base != "EMPTY" {
			return e.undecided("%s: elements are appended to a list that is not empty", e.c.P.Pos(ph.Pos()))
		}
		if collE != nil && lat.appElem.Op == "struct" && types.Identical(elT, e.nrT) {
			// a carrier struct per kept rule: remember which rules and what the fields are
			src, ok := e.seq(AV{act, ro.Coll})
			if !ok || src.appElem != nil || src.base != "ALL" {
				return e.undecided("carrier structs are built from something other than a view of DNSRewritesAll()")
			}
			p, _, ok := e.closePred(act, l, lat.app, e.nu)
			if !ok {
				return seqVal{}, false
			}
			mc := &mappedColl{member: u.bdd.And(u.bdd.And(src.def, init.def), u.bdd.And(u.bdd.Not(src.drop), p)), fields: map[string]*E{}, elT: lat.appElem.Typ}
			sub := map[string]*E{}
			for _, x := range u.Collect(lat.appElem, func(x *E) bool { return x.Op == "index" && len(x.Args) == 2 && x.Args[0] == collE }) {
				sub[x.key] = e.nu
			}
			for i := 0; i+1 < len(lat.appElem.Args); i += 2 {
				name, _ := lat.appElem.Args[i].StrVal()
				v := lat.appElem.Args[i+1]
				if len(sub) > 0 {
					v = u.Subst(v, sub)
				}
				if u.Mentions(v, func(x *E) bool { return x.Op == "loopphi" || x.Op == "loopval" }) {
					return e.undecided("a field of the carrier struct depends on the state of the collecting loop")
				}
				mc.fields[name] = v
			}
			key := "MAP:" + act.Env[ph].key
			e.mapped[key] = mc
			return seqVal{base: key, drop: False, app: False, def: True}, true
		}
		if collE == nil || lat.appElem.Op != "index" || lat.appElem.Args[0] != collE {
			return e.undecided("%s: the appended element is not the element visited", e.c.P.Pos(ph.Pos()))
		}
		if !types.Identical(elT, e.nrT) {
			return e.undecided("a list of another element type")
		}
		src, ok := e.seq(AV{act, ro.Coll})
		if !ok {
			return src, false
		}
		if src.appElem != nil || strings.HasPrefix(src.base, "ACC:") && len(e.stack) == 0 {
			return e.undecided("ranged list unresolved")
		}
		p, _, ok := e.closePred(act, l, lat.app, e.nu)
		if !ok {
			return seqVal{}, false
		}
		return seqVal{base: src.base, drop: u.bdd.Or(src.drop, u.bdd.Not(p)), app: False, def: u.bdd.And(src.def, init.def)}, true
	}
	// folded: each iteration drops what its element makes it drop
	bv := e.newBV(elT)
	p, cE, ok := e.closePred(act, l, lat.drop, bv)
	if !ok {
		return seqVal{}, false
	}
	e.colls[cE.key] = AV{act, ro.Coll}
	out := *init
	out.drop = u.bdd.Or(out.drop, u.Exists(cE, p))
	return out, true
}

// seqDecide evaluates DNSRewrites under the sequence reading.  decided=false: outside the reading
// (why says what); otherwise bad is empty when the result is the documented filter of
// DNSRewritesAll() and names the first deviation otherwise.
func seqDecide(c *Ctx, dr, dra *ssa.Function, kImp int64) (decided bool, bad string, why string) {
	defer func() {
		if r := recover(); r != nil {
			decided, bad, why = false, "", fmt.Sprint("panic: ", r)
		}
	}()
	g := NewGate(c.P)
	g.Inline = func(_, callee *ssa.Function, _ int) bool { return callee != dra }
	g.Search = true
	g.Pure[FuncName(dra)] = true
	s := g.Eval(dr)
	u := g.U
	var nrT types.Type
	if st, ok := dr.Signature.Results().At(0).Type().Underlying().(*types.Slice); ok {
		nrT = st.Elem()
	} else {
		return false, "", "result type"
	}
	e := &seqEval{c: c, g: g, u: u, top: s, dra: dra, nrT: nrT, colls: map[string]AV{}, mapped: map[string]*mappedColl{}}
	e.nu = u.BVar(60, nrT)
	e.exc = u.BVar(61, nrT)
	res, ok := e.rets(s, 0)
	dbg := os.Getenv("UFSEQ") != ""
	if !ok {
		if dbg {
			fmt.Println("SEQ undecided:", e.why)
		}
		return false, "", e.why
	}
	if res.base != "ALL" && res.base != "EMPTY" || res.appElem != nil {
		return false, "", "the result is not a view of DNSRewritesAll()"
	}
	D := res.drop
	if os.Getenv("UFSEQ") != "" {
		fmt.Println("SEQ D0 =", clip(u.ShowBool(D), 3000))
	}
	// the loops the result was computed by have ended: what their counters say is decided
	for _, at := range u.AtomsOf(D) {
		// (only the loops' own control: a comparison of a counter; what is said about the element
		// an iteration visits stays, and makes the reading give up below if it was not closed)
		if isControlAtom(u, at) {
			D = u.bdd.Exists(D, u.atomIx[at.key])
		}
	}
	// the receiver exists
	recvOK := True
	if ps := g.ParamExprs(dr); len(ps) > 0 {
		recvOK = u.bdd.Not(u.ToBool(u.Eq(ps[0], u.mk("nil", "", nil))))
		D = u.bdd.Restrict(D, recvOK)
	}
	carried := func(f Ref) *E {
		for _, at := range u.AtomsOf(f) {
			// the emptiness of a list of rules built in a loop is read as a search below
			if at.Op == "eq" && at.Args[0].Op == "len" && isIntConst(at.Args[1], 0) && at.Args[0].Args[0].Op == "loopphi" && at.Args[0].Args[0].Typ != nil {
				if st, isSl := at.Args[0].Args[0].Typ.Underlying().(*types.Slice); isSl && types.Identical(st.Elem(), nrT) {
					continue
				}
			}
			if at.Op != "exists" && u.Mentions(at, func(x *E) bool { return x.Op == "loopphi" || x.Op == "loopval" || x.Op == "havoc" }) {
				return at
			}
		}
		return nil
	}
	// a flag kept in a field of a local object, set to true inside a loop and read after it: "some
	// element of the ranged list made it set"
	D = e.resolveFlags(D, 0)
	// a search whose predicate mentions another, closed search (a path condition the predicate
	// was evaluated under): split the outer search on it
	for round := 0; round < 4; round++ {
		changed := false
		for _, at := range u.AtomsOf(D) {
			if at.Op != "exists" {
				continue
			}
			pr := u.ToBool(at.Args[1])
			for _, in := range u.AtomsOf(pr) {
				if in.Op != "exists" {
					continue
				}
				closed := true
				for _, x := range u.Collect(in, func(x *E) bool { return x.Op == "bvar" }) {
					if u.Mentions(u.Bool(pr), func(y *E) bool { return y == x }) && !u.Mentions(in.Args[1], func(y *E) bool { return y == x }) {
						continue
					}
				}
				// closed with respect to the outer search: none of the outer predicate's own bound
				// variables (those it uses outside the inner search) occurs in the inner one
				outer := map[*E]bool{}
				for _, a2 := range u.AtomsOf(pr) {
					if a2.Op == "exists" {
						continue
					}
					for _, x := range u.Collect(a2, func(x *E) bool { return x.Op == "bvar" && x != e.nu }) {
						outer[x] = true
					}
				}
				for x := range outer {
					if u.Mentions(in, func(y *E) bool { return y == x }) {
						closed = false
					}
				}
				if !closed {
					continue
				}
				iv := u.atomIx[in.key]
				hi := u.Exists(at.Args[0], u.bdd.Cofactor(pr, iv, true))
				lo := u.Exists(at.Args[0], u.bdd.Cofactor(pr, iv, false))
				D = u.bdd.Compose(D, u.atomIx[at.key], u.bdd.ITE(u.Atom(in), hi, lo))
				changed = true
				break
			}
			if changed {
				break
			}
		}
		if !changed {
			break
		}
	}
	if at := carried(D); at != nil {
		return false, "", "the result depends on a value carried around a loop: " + clip(u.Show(at), 120)
	}
	if dbg {
		fmt.Println("SEQ D =", u.ShowBool(D))
	}
	W := func(x *E) Ref { return u.Atom(u.Field(x, "Whitelist", types.Typ[types.Bool])) }
	impOf := func(r *E) Ref {
		en := u.Field(r, "enabledOptions", types.Typ[types.Uint64])
		kc := u.ConstVal(constantInt(kImp), types.Typ[types.Uint64])
		return u.ToBool(u.Eq(u.Bin(token.AND, en, kc, types.Typ[types.Uint64]), kc))
	}
	nilE := u.mk("nil", "", nil)
	noRW := func(x *E) Ref { return u.ToBool(u.Eq(u.Field(x, "DNSRewrite", nil), nilE)) }
	var draCall *E
	for _, at := range u.tab {
		if at.Op == "call" && at.Aux == calleeName(dra) {
			draCall = at
		}
	}
	// The searches of D: each is "some rule x of DNSRewritesAll() with member_k(x) has
	// pred_k(x, ν)".  Emptiness tests of a list of exceptions are searches too ("no member").
	X := e.exc
	type search struct {
		at  *E
		phi Ref // over X and ν
	}
	var searches []search
	var lastMapped *mappedColl
	resolve := func(coll *E) (Ref, string) {
		lastMapped = nil
		if cm, isCarried, okC := e.carriedListMember(coll, X); isCarried {
			if !okC {
				return False, "the list searched for exceptions is built in a way outside the reading: " + e.why
			}
			return cm, ""
		}
		if coll == draCall {
			return True, ""
		}
		av, ok := e.colls[coll.key]
		if !ok {
			// a search the evaluator canonicalised: find the value with this expression
			for _, act := range append([]*Summary{s}, g.Subs...) {
				for v, ex := range act.Env {
					if ex == coll {
						if _, isSl := v.Type().Underlying().(*types.Slice); isSl {
							av, ok = AV{act, v}, true
						}
					}
				}
			}
		}
		if !ok {
			return False, "the list searched for exceptions is not resolved: " + clip(u.Show(coll), 80)
		}
		if st, isSl := av.V.Type().Underlying().(*types.Slice); !isSl || !types.Identical(st.Elem(), nrT) {
			// a list of carrier structs, each built from one rule of a view
			e.why = ""
			cs, ok := e.seq(av)
			if mc := e.mapped[cs.base]; ok && mc != nil {
				lastMapped = mc
				return u.SubstBool(mc.member, map[string]*E{e.nu.key: X}), ""
			}
			return False, "exceptions are kept in a list of another element type (" + e.why + ")"
		}
		e.why = ""
		cs, ok := e.seq(av)
		if !ok || cs.base != "ALL" || cs.appElem != nil {
			return False, "the list of exceptions is not a view of DNSRewritesAll(): " + e.why
		}
		for _, a2 := range u.AtomsOf(cs.drop) {
			if a2.Op == "exists" {
				return False, "the list of exceptions itself depends on a search"
			}
		}
		return u.bdd.And(cs.def, u.bdd.Not(u.SubstBool(cs.drop, map[string]*E{e.nu.key: X}))), ""
	}
	// emptiness tests first: len(list) == 0  <=>  no member
	for _, at := range u.AtomsOf(D) {
		if at.Op == "eq" && at.Args[0].Op == "len" && isIntConst(at.Args[1], 0) && at.Args[0].Args[0].Typ != nil {
			if st, isSl := at.Args[0].Args[0].Typ.Underlying().(*types.Slice); isSl && types.Identical(st.Elem(), nrT) {
				coll := at.Args[0].Args[0]
				if coll == draCall {
					D = u.bdd.Cofactor(D, u.atomIx[at.key], false) // the element ν is in it
					continue
				}
				if m, why := resolve(coll); why == "" {
					// (ν is an element of DNSRewritesAll() too: an empty sub-list does not hold it either)
					mNu := u.SubstBool(m, map[string]*E{X.key: e.nu})
					D = u.bdd.Compose(D, u.atomIx[at.key], u.bdd.Not(u.bdd.Or(mNu, u.Exists(draCallOr(draCall, coll), u.SubstBool(m, map[string]*E{X.key: u.BVar(69, nrT)})))))
				}
			}
		}
	}
	for _, at := range u.AtomsOf(D) {
		if at.Op != "exists" {
			continue
		}
		coll := at.Args[0]
		pred := u.ToBool(at.Args[1])
		var bv *E
		for _, a2 := range u.AtomsOf(pred) {
			if a2.Op == "exists" {
				return false, "", "nested search"
			}
			for _, x := range u.Collect(a2, func(x *E) bool { return x.Op == "bvar" && x != e.nu }) {
				if bv != nil && bv != x {
					return false, "", "two bound variables in one search"
				}
				bv = x
			}
		}
		member, why := resolve(coll)
		if why != "" {
			return false, "", why
		}
		if mc := lastMapped; mc != nil && bv != nil {
			// the bound variable is a carrier struct: its fields are what they were built from
			sub := map[string]*E{}
			bad := ""
			for _, a2 := range u.AtomsOf(pred) {
				for _, x := range u.Collect(a2, func(x *E) bool { return x.Op == "field" && len(x.Args) == 1 && x.Args[0] == bv }) {
					fv, have := mc.fields[x.Aux]
					if !have {
						bad = x.Aux
						continue
					}
					sub[x.key] = u.Subst(fv, map[string]*E{e.nu.key: X})
				}
			}
			if bad != "" {
				return false, "", "a field of the carrier struct is read that the collecting loop does not set: " + bad
			}
			pred = u.SubstBool(pred, sub)
			if u.Mentions(u.Bool(pred), func(x *E) bool { return x == bv }) {
				return false, "", "the carrier struct is used as a whole"
			}
		} else if bv != nil {
			pred = u.SubstBool(pred, map[string]*E{bv.key: X})
		}
		if dbg {
			fmt.Println("SEQ ex coll", clip(u.Show(coll), 100), "member", clip(u.ShowBool(member), 300), "pred", clip(u.ShowBool(pred), 300))
		}
		searches = append(searches, search{at, u.bdd.And(member, pred)})
	}
	if len(searches) > 10 {
		return false, "", "too many searches"
	}
	// cares: the receiver exists, both rules have a rewrite, the list is not empty (ν is in it)
	careAll := u.bdd.And(recvOK, u.bdd.And(u.bdd.Not(noRW(X)), u.bdd.Not(noRW(e.nu))))
	if draCall != nil {
		careAll = u.bdd.And(careAll, u.bdd.Not(u.ToBool(u.Eq(u.Len(draCall), u.Int(0)))))
	}
	Dc := u.bdd.Restrict(D, careAll)
	quant := func(f Ref) Ref {
		for _, at := range u.AtomsOf(f) {
			if isControlAtom(u, at) {
				f = u.bdd.Exists(f, u.atomIx[at.key])
			}
		}
		return f
	}
	for i := range searches {
		searches[i].phi = quant(u.bdd.Restrict(searches[i].phi, careAll))
		if at := carried(searches[i].phi); at != nil {
			return false, "", "an exception's effect depends on a value carried around a loop: " + clip(u.Show(at), 120)
		}
		if dbg {
			fmt.Println("SEQ phi", i, "=", clip(u.ShowBool(searches[i].phi), 1500))
		}
	}
	// roles of the atoms
	dfield := func(p *E, f string) string { return u.Field(u.Field(p, "DNSRewrite", nil), f, nil).key }
	roles := map[string]*E{}
	xNames := []string{"excW", "excImp", "empty", "excCnameEmpty", "sameCname", "sameRcode", "excSuccess", "sameType", "sameValue"}
	nuNames := []string{"nuW", "nrImp", "nrSuccess"}
	classify := func(at *E) bool {
		c.Atoms[at.key] = true
		switch {
		case u.Atom(at) == W(X):
			roles["excW"] = at
		case u.Atom(at) == W(e.nu):
			roles["nuW"] = at
		case u.Atom(at) == impOf(X):
			roles["excImp"] = at
		case u.Atom(at) == impOf(e.nu):
			roles["nrImp"] = at
		case at.Op == "eq" && (at.Args[0].Op == "zero" || at.Args[1].Op == "zero") && u.Mentions(at, func(x *E) bool { return x.Op == "field" && x.Aux == "DNSRewrite" && x.Args[0] == X }):
			roles["empty"] = at
		case at.Op == "eq" && at.Args[0].Op == "len" && at.Args[0].Args[0].key == dfield(X, "NewCNAME") && isIntConst(at.Args[1], 0):
			roles["excCnameEmpty"] = at
		case at.Op == "eq" && pairIs(at, dfield(X, "NewCNAME"), dfield(e.nu, "NewCNAME")):
			roles["sameCname"] = at
		case at.Op == "eq" && pairIs(at, dfield(X, "RCode"), dfield(e.nu, "RCode")):
			roles["sameRcode"] = at
		case at.Op == "eq" && at.Args[0].key == dfield(X, "RCode") && isIntConst(at.Args[1], 0):
			roles["excSuccess"] = at
		case at.Op == "eq" && at.Args[0].key == dfield(e.nu, "RCode") && isIntConst(at.Args[1], 0):
			roles["nrSuccess"] = at
		case at.Op == "eq" && pairIs(at, dfield(X, "RRType"), dfield(e.nu, "RRType")):
			roles["sameType"] = at
		case (at.Op == "call" || at.Op == "eq") && len(at.Args) >= 2 && pairIs(at, dfield(X, "Value"), dfield(e.nu, "Value")):
			roles["sameValue"] = at
		default:
			return false
		}
		return true
	}
	isSearch := map[*E]int{}
	for i, sr := range searches {
		isSearch[sr.at] = i
		for _, at := range u.AtomsOf(sr.phi) {
			if !classify(at) {
				return false, "", "a condition outside the documented criteria: " + clip(u.Show(at), 140)
			}
		}
	}
	for _, at := range u.AtomsOf(Dc) {
		if _, ok := isSearch[at]; ok {
			continue
		}
		if !classify(at) || u.Mentions(at, func(x *E) bool { return x == X }) {
			return false, "", "the result depends on a condition outside the documented criteria: " + clip(u.Show(at), 140)
		}
	}
	// Model check.  For a fixed rewrite ν (a valuation of its own criteria) a rule x of the list is
	// one of finitely many kinds (valuations of the criteria that involve x); a search is true iff
	// a kind that satisfies it is present.  Two lists with the same truth values of all searches
	// and of the statement's own search are indistinguishable, so it is enough to try every set of
	// the signatures (search_1..search_m, statement) that some kind realises.
	n := 0
	for nv := 0; nv < 1<<len(nuNames); nv++ {
		nuVal := map[string]bool{}
		for i, nm := range nuNames {
			nuVal[nm] = nv&(1<<i) != 0
		}
		sigs := map[uint32]map[string]bool{}
		for m := 0; m < 1<<len(xNames); m++ {
			val := map[string]bool{}
			for k, v := range nuVal {
				val[k] = v
			}
			for i, nm := range xNames {
				val[nm] = m&(1<<i) != 0
			}
			// what the criteria say about each other
			if val["empty"] && !(val["excCnameEmpty"] && val["excSuccess"]) {
				continue
			}
			if val["excSuccess"] && val["nrSuccess"] != val["sameRcode"] {
				continue
			}
			if !val["excSuccess"] && val["nrSuccess"] && val["sameRcode"] {
				continue
			}
			asg := map[string]bool{}
			for nm, at := range roles {
				asg[at.key] = val[nm]
			}
			var sig uint32
			for i, sr := range searches {
				if u.bdd.Eval(sr.phi, func(v int) bool { return asg[u.atoms[v].key] }) {
					sig |= 1 << uint(i)
				}
			}
			var want bool
			switch {
			case !val["excW"]:
				want = false
			case val["empty"]:
				want = val["excImp"] || !val["nrImp"]
			case !val["excImp"] && val["nrImp"]:
				want = false
			case !val["excCnameEmpty"]:
				want = val["sameCname"]
			default:
				want = val["sameRcode"] && (!val["excSuccess"] || (val["sameType"] && val["sameValue"]))
			}
			if want {
				sig |= 1 << 31
			}
			if _, have := sigs[sig]; !have {
				sigs[sig] = val
			}
		}
		var sl []uint32
		for sg := range sigs {
			sl = append(sl, sg)
		}
		sort.Slice(sl, func(i, j int) bool { return sl[i] < sl[j] })
		if len(sl) > 14 {
			return false, "", "too many kinds of exception rules to tell apart"
		}
		for sub := 0; sub < 1<<len(sl); sub++ {
			var present uint32
			for i, sg := range sl {
				if sub&(1<<i) != 0 {
					present |= sg
				}
			}
			asg := map[string]bool{}
			for nm, at := range roles {
				asg[at.key] = nuVal[nm]
			}
			got := u.bdd.Eval(Dc, func(v int) bool {
				at := u.atoms[v]
				if i, ok := isSearch[at]; ok {
					return present&(1<<uint(i)) != 0
				}
				return asg[at.key]
			})
			want := nuVal["nuW"] || present&(1<<31) != 0
			n++
			if got != want {
				var kinds []string
				for i, sg := range sl {
					if sub&(1<<i) == 0 {
						continue
					}
					var on []string
					for _, nm := range xNames {
						if sigs[sg][nm] {
							on = append(on, nm)
						}
					}
					kinds = append(kinds, "{"+strings.Join(on, ", ")+"}")
				}
				var nuOn []string
				for _, nm := range nuNames {
					if nuVal[nm] {
						nuOn = append(nuOn, nm)
					}
				}
				what := "is dropped although the statement keeps it"
				if !got {
					what = "is kept although the statement drops it"
				}
				return true, fmt.Sprintf("a rewrite with {%s} %s, in a list that also holds rules of the kinds %s (criteria named true, the others false)", strings.Join(nuOn, ", "), what, strings.Join(kinds, " and ")), ""
			}
		}
	}
	c.Paths += n
	return true, "", ""
}

func draCallOr(dra, coll *E) *E {
	if dra != nil {
		return dra
	}
	return coll
}

// storesTo lists the store effects of the evaluation into the location a carried loop value
// stands for.
func (e *seqEval) storesTo(lv *E) []Effect {
	k := strings.TrimPrefix(lv.Aux, "carried:")
	if len(k) < 2 {
		return nil
	}
	var out []Effect
	for _, ef := range e.top.Effects {
		if ef.Kind == "store" && ef.Addr != nil && ef.Addr.key == k[2:] {
			out = append(out, ef)
		}
	}
	return out
}

func isCarriedVal(x *E) bool {
	return x.Op == "loopval" && strings.HasPrefix(x.Aux, "carried:")
}

// resolveFlags replaces every boolean carried value in f (also inside searches) by "some
// iteration stored true".
func (e *seqEval) resolveFlags(f Ref, depth int) Ref {
	u := e.u
	if depth > 3 {
		return f
	}
	for _, at := range u.AtomsOf(f) {
		switch {
		case isCarriedVal(at) && isBoolE(at):
			var flag Ref = False
			ok := true
			stores := e.storesTo(at)
			if len(stores) == 0 {
				ok = false
			}
			for _, ef := range stores {
				if ef.Val.Op == "bool" && ef.Val.B == False {
					continue // (re)initialised
				}
				if !(ef.Val.Op == "bool" && ef.Val.B == True) || ef.Ins == nil {
					ok = false
					break
				}
				act := ef.Act
				if act == nil {
					act = e.top
				}
				if innermostLoop(loopsOf(act.Fn), ef.Ins.Block()) == nil {
					// set in a helper called from the loop: the loop is around the call
					l, lact := loopAround(e.top, act, ef.Ins)
					if l == nil {
						ok = false
						break
					}
					ro := rangedOver(l)
					if ro == nil {
						ok = false
						break
					}
					var elT types.Type = e.nrT
					if st, isSl := ro.Coll.Type().Underlying().(*types.Slice); isSl {
						elT = st.Elem()
					}
					bv := e.newBV(elT)
					p, collE, okP := e.closePred(lact, l, ef.Cond, bv)
					if !okP {
						ok = false
						break
					}
					e.colls[collE.key] = AV{lact, ro.Coll}
					flag = u.bdd.Or(flag, u.Exists(collE, p))
					continue
				}
				c2, okE := e.existsIn(act, ef.Ins, ef.Cond)
				if !okE {
					ok = false
					break
				}
				flag = u.bdd.Or(flag, c2)
			}
			if ok {
				f = u.bdd.Compose(f, u.atomIx[at.key], flag)
			}
		case (at.Op == "eq" || at.Op == "lt") && len(at.Args) == 2 && (at.Args[0].Op == "loopphi" || at.Args[1].Op == "loopphi"):
			// a counter: "n == 0" after a scan that counts the elements with P says that no element
			// has P ("0 < n": that some element has)
			var x *E
			var zeroIsTrue bool
			switch {
			case at.Op == "eq" && at.Args[0].Op == "loopphi" && isIntConst(at.Args[1], 0):
				x, zeroIsTrue = at.Args[0], true
			case at.Op == "eq" && at.Args[1].Op == "loopphi" && isIntConst(at.Args[0], 0):
				x, zeroIsTrue = at.Args[1], true
			case at.Op == "lt" && at.Args[1].Op == "loopphi" && isIntConst(at.Args[0], 0):
				x, zeroIsTrue = at.Args[1], false
			case at.Op == "lt" && at.Args[0].Op == "loopphi" && isIntConst(at.Args[1], 1):
				x, zeroIsTrue = at.Args[0], true
			}
			if x == nil {
				continue
			}
			if some, ok := e.counted(x); ok {
				if zeroIsTrue {
					some = u.bdd.Not(some)
				}
				f = u.bdd.Compose(f, u.atomIx[at.key], some)
			}
		case at.Op == "exists":
			pr := u.ToBool(at.Args[1])
			npr := e.resolveFlags(pr, depth+1)
			if npr != pr {
				f = u.bdd.Compose(f, u.atomIx[at.key], u.Exists(at.Args[0], npr))
			}
		}
	}
	return f
}

// counted: x is an integer carried around a range loop that starts at 0 and is only ever incremented
// by a positive constant; the result says "some iteration incremented it".
func (e *seqEval) counted(x *E) (Ref, bool) {
	u := e.u
	for _, act := range append([]*Summary{e.top}, e.g.Subs...) {
		for v, ex := range act.Env {
			ph, isPhi := v.(*ssa.Phi)
			if ex != x || !isPhi {
				continue
			}
			bt, isB := ph.Type().Underlying().(*types.Basic)
			if !isB || bt.Info()&types.IsInteger == 0 {
				return False, false
			}
			l := loopWithHeader(act.Fn, ph.Block())
			if l == nil {
				return False, false
			}
			var incs []ssa.Instruction
			seen := map[ssa.Value]bool{}
			var walk func(v ssa.Value) bool
			walk = func(v ssa.Value) bool {
				if v == ph || seen[v] {
					return true
				}
				seen[v] = true
				switch y := v.(type) {
				case *ssa.BinOp:
					if y.Op != token.ADD {
						return false
					}
					k, other := y.Y, y.X
					if _, isK := k.(*ssa.Const); !isK {
						k, other = y.X, y.Y
					}
					kc, isK := k.(*ssa.Const)
					if !isK || kc.Value == nil || kc.Int64() < 1 {
						return false
					}
					incs = append(incs, y)
					return walk(other)
				case *ssa.Phi:
					if !l.Blocks[y.Block()] {
						return false
					}
					for _, ed := range y.Edges {
						if !walk(ed) {
							return false
						}
					}
					return true
				}
				return false
			}
			for i, ed := range ph.Edges {
				if !l.Blocks[ph.Block().Preds[i]] {
					if !isConstInt(ed, 0) {
						return False, false
					}
					continue
				}
				if !walk(ed) {
					return False, false
				}
			}
			if len(incs) == 0 {
				return False, false
			}
			some := False
			for _, in := range incs {
				c2, ok := e.existsIn(act, in, act.RCAt(in))
				if !ok {
					return False, false
				}
				some = u.bdd.Or(some, c2)
			}
			return some, true
		}
	}
	return False, false
}

// carriedListMember: coll is a list kept in a field of a local object and appended to inside a
// loop over a view of DNSRewritesAll(); member(x) says which elements of that view it holds.
func (e *seqEval) carriedListMember(coll *E, X *E) (member Ref, isCarried, ok bool) {
	u := e.u
	if !isCarriedVal(coll) {
		return False, false, false
	}
	stores := e.storesTo(coll)
	if len(stores) == 0 {
		e.why = "no store into the list found"
		return False, true, false
	}
	member = False
	for _, ef := range stores {
		if ef.Val.IsNil() {
			continue
		}
		if ef.Val.Op != "append" || ef.Val.Aux != "elems" || len(ef.Val.Args) != 2 || ef.Ins == nil {
			e.why = "the list is stored other than by appending one element"
			return False, true, false
		}
		act := ef.Act
		if act == nil {
			act = e.top
		}
		l, lact := loopAround(e.top, act, ef.Ins)
		if l == nil {
			e.why = "an element is appended outside a loop"
			return False, true, false
		}
		ro := rangedOver(l)
		if ro == nil || ro.Kind != "index" || !ro.Full || !onlyExhaustionExit(l) {
			e.why = "the collecting loop is not a complete range"
			return False, true, false
		}
		collE := lact.Env[ro.Coll]
		el := ef.Val.Args[1]
		if collE == nil || el.Op != "index" || el.Args[0] != collE {
			e.why = "the appended element is not the element visited"
			return False, true, false
		}
		e.why = ""
		src, okS := e.seq(AV{lact, ro.Coll})
		if !okS || src.base != "ALL" || src.appElem != nil {
			e.why = "the collecting loop does not range over a view of DNSRewritesAll(): " + e.why
			return False, true, false
		}
		p, _, okP := e.closePred(lact, l, ef.Cond, X)
		if !okP {
			return False, true, false
		}
		inSrc := u.bdd.And(src.def, u.bdd.Not(u.SubstBool(src.drop, map[string]*E{e.nu.key: X})))
		member = u.bdd.Or(member, u.bdd.And(inSrc, p))
	}
	return member, true, true
}

// isControlAtom: a comparison that involves the counter of a loop and otherwise only lengths of
// lists - what a loop's own control tests.  Nothing about an element.
func isControlAtom(u *U, at *E) bool {
	if at.Op == "exists" {
		return false
	}
	counter := false
	ok := true
	var walk func(x *E, underLen bool)
	walk = func(x *E, underLen bool) {
		if x == nil || !ok {
			return
		}
		if underLen {
			return // the length of whatever list
		}
		switch x.Op {
		case "index", "iaddr", "field", "call", "lookup":
			ok = false
			return
		case "loopphi", "loopval":
			if x.Typ != nil && isIntT(x.Typ) {
				counter = true
			} else if !underLen {
				ok = false
			}
			return
		}
		for _, a := range x.Args {
			walk(a, x.Op == "len")
		}
	}
	walk(at, false)
	return ok && counter
}
