package main

// Gated evaluation of go/ssa functions: every block gets a reach condition
// (a BDD over opaque atoms), every φ becomes an if-then-else over the edge
// conditions, loops are cut at their headers (loop-carried values become
// opaque symbols), calls to repository functions may be inlined.  The result
// is, per function, the returned expression(s) and the list of effects with
// the condition under which each happens.  This is constant propagation over
// a predicate abstraction: no condition is interpreted, no solver is used.

import (
	"fmt"
	"go/constant"
	"go/token"
	"go/types"
	"os"
	"sort"
	"strings"

	"golang.org/x/tools/go/ssa"
)

// Effect is an observable action of a function.
type Effect struct {
	Cond  Ref
	Kind  string // "store", "call", "mapupdate", "send", "go", "defer", "panic"
	Addr  *E     // store / mapupdate: address (map) expression
	Val   *E     // store: value; mapupdate: value
	Key   *E     // mapupdate: key
	Call  *E     // call: the call expression (callee in Aux, args)
	Pos   token.Pos
	Fn    *ssa.Function // function containing the instruction
	Ins   ssa.Instruction
	Local bool     // store into a local (non-escaping) allocation
	Act   *Summary // activation the instruction was evaluated in
}

// Ret is one return site.
type Ret struct {
	Cond Ref
	Vals []*E
	Pos  token.Pos
}

// Summary is the gated evaluation of one function activation.
type Summary struct {
	Fn      *ssa.Function
	Rets    []Ret
	Effects []Effect
	RC      map[*ssa.BasicBlock]Ref
	Env     map[ssa.Value]*E
	Panics  Ref // condition under which an explicit panic is reached
	Loops   int
	Mem     map[string]*E                   // forwarded memory at the end of the activation (address key -> value)
	Narrow  map[*ssa.BasicBlock][]narrowing // per block: inlined calls after which RC[b] was narrowed to "the callee returned"
	Parent  *Summary                        // inlined activations: the calling activation
	Site    ssa.Instruction                 // inlined activations: the call instruction in the parent
}

// narrowing records the reach condition in effect before an inlined call of a block.
type narrowing struct {
	site   ssa.Instruction
	before Ref
}

// RCAt is the reach condition in effect at instruction in: RC of its block, except that
// instructions placed before an inlined call of the same block are not subject to "the callee
// returned".
func (s *Summary) RCAt(in ssa.Instruction) Ref {
	b := in.Block()
	ns := s.Narrow[b]
	if len(ns) == 0 {
		return s.RC[b]
	}
	pos := map[ssa.Instruction]int{}
	for i, x := range b.Instrs {
		pos[x] = i
	}
	pi, ok := pos[in]
	if !ok {
		return s.RC[b]
	}
	for _, n := range ns {
		if pi <= pos[n.site] {
			return n.before
		}
	}
	return s.RC[b]
}

// Gate is the evaluator.
type Gate struct {
	P        *Prog
	U        *U
	MaxDepth int
	// Inline decides whether a static call to a repository function is
	// expanded.  nil means: expand every repository function that is not
	// recursive, up to MaxDepth.
	Inline func(caller, callee *ssa.Function, depth int) bool
	// NoInline lists functions never expanded (by FuncName).
	NoInline map[string]bool
	// Pure lists repository functions (by FuncName) treated as side-effect
	// free, deterministic functions of their arguments when not inlined.
	Pure  map[string]bool
	stack []*ssa.Function
	// Subs lists the inlined activations of the evaluation (callee summaries
	// with reach conditions and values in terms of the top-level function).
	Subs []*Summary
	Top  *Summary // the activation of the function under evaluation
	// Search enables the canonical form of pure search loops: a complete
	// range over a collection without side effects and with one early exit
	// leaves through that exit iff exists(collection, early-exit test of the
	// element) and runs to exhaustion otherwise.  slices.Contains and
	// slices.ContainsFunc get the same form.
	Search        bool
	fnByName      map[string]*ssa.Function
	nextDepthBase int
	nextCarried   int // number of abstracted (not unrolled) loops around the call being inlined
	// ConstTables: a package-level variable that is written only by its
	// initialiser (never assigned, never written through, never handed to code
	// that could) reads as its initial value.
	ConstTables bool
	// Unroll: a range loop over a collection of small constant length is
	// evaluated iteration by iteration instead of being cut at its header.
	Unroll       bool
	globalByName map[string]*ssa.Global
	initMem      map[string]*E
	initDone     map[*ssa.Package]bool
	initTag      bool
	constGl      map[*ssa.Global]bool
	noHavoc      bool
	seq          int
	allocRC      map[*E]Ref      // reach condition of each allocation
	unescaped    map[*E]bool     // objects of the function under evaluation that only its return hands out
	memRoot      map[string]*E   // root object of a heap memory key
	Funcs        map[string]bool // functions evaluated (incl. inlined)
}

func NewGate(p *Prog) *Gate {
	curProg = p
	return &Gate{P: p, U: NewU(), MaxDepth: 6, NoInline: map[string]bool{}, Pure: map[string]bool{}, Funcs: map[string]bool{}}
}

// mem is the store-forwarding memory of one top-level evaluation.
type mem struct {
	m map[string]*E // address key -> current value
}

func (g *Gate) fresh(prefix string) string {
	g.seq++
	return fmt.Sprintf("%s#%d", prefix, g.seq)
}

// ParamExprs builds the canonical parameter symbols of fn: "recv"/"pN" are not
// used; parameters are named by their source name so that substitution
// between operands (f <-> r) is readable.
func (g *Gate) ParamExprs(fn *ssa.Function) []*E {
	out := make([]*E, len(fn.Params))
	for i, p := range fn.Params {
		out[i] = g.U.mk("param", fmt.Sprintf("%s", p.Name()), p.Type())
	}
	return out
}

// Eval evaluates fn on symbolic parameters.
func (g *Gate) Eval(fn *ssa.Function) *Summary {
	return g.EvalArgs(fn, g.ParamExprs(fn), nil)
}

// EvalArgs evaluates fn with the given argument expressions (and free-variable
// bindings for closures).
func (g *Gate) EvalArgs(fn *ssa.Function, args []*E, bindings []*E) *Summary {
	seq0, subs0, top0 := g.seq, len(g.Subs), g.Top
	s := g.eval(fn, args, bindings, &mem{m: map[string]*E{}}, True)
	if s != nil && len(g.stack) == 0 && g.findMemoInvariants(s) {
		// a value computed lazily once inside a loop: evaluate again with the invariant
		g.seq, g.Subs, g.Top = seq0, g.Subs[:subs0], top0
		s = g.eval(fn, args, bindings, &mem{m: map[string]*E{}}, True)
	}
	return s
}

type frame struct {
	g           *Gate
	fn          *ssa.Function
	env         map[ssa.Value]*E
	rc          map[*ssa.BasicBlock]Ref
	mem         *mem
	sum         *Summary
	base        Ref // reach condition of the call site in the caller
	back        map[[2]int]bool
	heads       map[*ssa.BasicBlock]bool
	tag         string
	defers      []*ssa.Defer
	order       []*ssa.BasicBlock
	relCache    map[*ssa.BasicBlock][]Ref
	curRC       Ref
	curBlock    *ssa.BasicBlock
	loops       []*Loop
	loopsOK     bool
	carriedBase int                           // abstracted loops around this activation's call site
	unrollNow   map[*ssa.BasicBlock]bool      // headers of loops being (or already) unrolled: their memory is exact
	presetPhi   map[*ssa.Phi]*E               // unrolling: value of a header φ in the current iteration
	edgeOv      map[[2]int]Ref                // unrolling: total condition of an edge leaving the unrolled region
	exitRecs    map[*ssa.BasicBlock][]exitRec // unrolling: per iteration, the edges taken into a merge block
	unrolled    map[*ssa.BasicBlock]bool      // headers that were unrolled
	search      map[*Loop]*searchInfo
	effStart    map[*ssa.BasicBlock]int // loop header -> number of effects when it was entered
	depthBase   int                     // number of search scopes enclosing this activation
}

// searchInfo is the canonical form of one pure search loop (nil X: the loop
// does not qualify).
type searchInfo struct {
	why   int
	X     Ref // exists(collection, early-exit test)
	early [2]*ssa.BasicBlock
	ok    bool
}

func (g *Gate) eval(fn *ssa.Function, args []*E, bindings []*E, m *mem, base Ref) *Summary {
	if fn.Blocks == nil {
		return nil
	}
	g.Funcs[FuncName(fn)] = true
	g.stack = append(g.stack, fn)
	defer func() { g.stack = g.stack[:len(g.stack)-1] }()

	f := &frame{g: g, fn: fn, env: map[ssa.Value]*E{}, rc: map[*ssa.BasicBlock]Ref{}, mem: m, base: base,
		back: map[[2]int]bool{}, heads: map[*ssa.BasicBlock]bool{}, tag: g.fresh("act")}
	f.sum = &Summary{Fn: fn, RC: f.rc, Env: f.env}
	if len(g.stack) == 1 {
		g.Top = f.sum
	}
	f.depthBase = g.nextDepthBase
	f.carriedBase = g.nextCarried
	for i, p := range fn.Params {
		if i < len(args) && args[i] != nil {
			f.env[p] = args[i]
		} else {
			f.env[p] = g.U.mk("param", p.Name(), p.Type())
		}
	}
	for i, fv := range fn.FreeVars {
		if i < len(bindings) && bindings[i] != nil {
			f.env[fv] = bindings[i]
		} else {
			f.env[fv] = g.U.mk("freevar", fv.Name(), fv.Type())
		}
	}
	// back edges: P->B where B dominates P
	for _, b := range fn.Blocks {
		for _, s := range b.Succs {
			if s.Dominates(b) {
				f.back[[2]int{b.Index, s.Index}] = true
				f.heads[s] = true
			}
		}
	}
	f.sum.Loops = len(f.heads)
	order := rpo(fn, f.back)
	if g.Search {
		order = rpoLoops(fn, f.back, f.heads)
	}
	f.order = order
	doneBlk := map[*ssa.BasicBlock]bool{}
	for _, b := range order {
		if doneBlk[b] {
			continue
		}
		if g.Unroll && f.heads[b] {
			if region, ok := f.tryUnroll(b); ok {
				for x := range region {
					doneBlk[x] = true
				}
				continue
			}
		}
		f.block(b)
	}
	f.sum.Mem = map[string]*E{}
	for k, v := range m.m {
		f.sum.Mem[k] = v
	}
	return f.sum
}

// rpo returns the blocks reachable from entry in reverse post-order of the
// CFG without back edges (a topological order).
func rpo(fn *ssa.Function, back map[[2]int]bool) []*ssa.BasicBlock {
	seen := make([]bool, len(fn.Blocks))
	var post []*ssa.BasicBlock
	var dfs func(b *ssa.BasicBlock)
	dfs = func(b *ssa.BasicBlock) {
		seen[b.Index] = true
		for _, s := range b.Succs {
			if back[[2]int{b.Index, s.Index}] || seen[s.Index] {
				continue
			}
			dfs(s)
		}
		post = append(post, b)
	}
	dfs(fn.Blocks[0])
	for i, j := 0, len(post)-1; i < j; i, j = i+1, j-1 {
		post[i], post[j] = post[j], post[i]
	}
	return post
}

func (f *frame) edgeCond(p, b *ssa.BasicBlock) Ref {
	u := f.g.U
	rcP, ok := f.rc[p]
	if !ok {
		return False
	}
	if ov, ok := f.edgeOv[[2]int{p.Index, b.Index}]; ok {
		return ov
	}
	if f.g.Search {
		if l, x, isExit := f.searchExit(p, b); isExit {
			return u.bdd.And(f.rc[l.Header], x)
		}
	}
	if len(p.Instrs) == 0 {
		return rcP
	}
	if iff, ok := p.Instrs[len(p.Instrs)-1].(*ssa.If); ok {
		c := u.ToBool(f.val(iff.Cond))
		t, e := p.Succs[0] == b, p.Succs[1] == b
		switch {
		case t && e:
			return rcP
		case t:
			return u.bdd.And(rcP, c)
		default:
			return u.bdd.And(rcP, u.bdd.Not(c))
		}
	}
	return rcP
}

func (f *frame) block(b *ssa.BasicBlock) {
	u := f.g.U
	// reach condition
	var rc Ref = False
	if b.Index == 0 {
		rc = f.base
	} else {
		for _, p := range b.Preds {
			if f.back[[2]int{p.Index, b.Index}] {
				continue
			}
			rc = u.bdd.Or(rc, f.edgeCond(p, b))
		}
	}
	f.rc[b] = rc
	if f.heads[b] {
		f.havocLoopMemory(b)
		if f.effStart == nil {
			f.effStart = map[*ssa.BasicBlock]int{}
		}
		f.effStart[b] = len(f.sum.Effects)
	}
	f.curRC = rc
	f.curBlock = b
	for _, in := range b.Instrs {
		// an inlined call narrows the reach condition of the rest of the block
		// to "the callee returned" (see call)
		f.instr(b, in, f.curRC)
	}
}

// underRC resolves the outer if-then-else layers of v that are decided by
// the reach condition of the block being evaluated.
func (f *frame) underRC(v *E) *E {
	u := f.g.U
	for v.Op == "ite" && f.curRC != True {
		switch {
		case u.bdd.Implies(f.curRC, v.B):
			v = v.Args[0]
		case u.bdd.Implies(f.curRC, u.bdd.Not(v.B)):
			v = v.Args[1]
		default:
			return v
		}
	}
	return v
}

// loopBlocks returns the natural loop of header h.
func loopBlocks(h *ssa.BasicBlock) map[*ssa.BasicBlock]bool {
	body := map[*ssa.BasicBlock]bool{h: true}
	var work []*ssa.BasicBlock
	for _, p := range h.Preds {
		if h.Dominates(p) && !body[p] {
			body[p] = true
			work = append(work, p)
		}
	}
	for len(work) > 0 {
		n := work[len(work)-1]
		work = work[:len(work)-1]
		for _, p := range n.Preds {
			if !body[p] {
				body[p] = true
				work = append(work, p)
			}
		}
	}
	return body
}

// havocLoopMemory forgets every forwarded store whose address is stored to
// inside the loop headed by h.
func (f *frame) havocLoopMemory(h *ssa.BasicBlock) {
	body := loopBlocks(h)
	impure := false
	for blk := range body {
		for _, in := range blk.Instrs {
			switch in := in.(type) {
			case *ssa.Store:
				// The address may be loop-variant; forget by root allocation.
				root := addrRoot(in.Addr)
				for k, old := range f.mem.m {
					if root != nil {
						if a, ok := f.env[root]; ok && strings.Contains(k, a.key) {
							// the value at the loop header is whatever earlier iterations left there
							f.mem.m[k] = f.g.U.mk("loopval", fmt.Sprintf("%s:%d:%s", f.tag, h.Index, k), old.Typ)
						}
					}
				}
				// a location first written inside the loop has no entry yet: remember that loads
				// of it at or after the header see a loop-carried value, not the initial one
				if root != nil {
					if a, ok := f.env[root]; ok {
						if addr, ok2 := f.env[in.Addr]; ok2 {
							k := f.memKey(addr)
							if _, have := f.mem.m[k]; !have && strings.Contains(k, a.key) {
								var t types.Type
								if pt, isP := in.Addr.Type().Underlying().(*types.Pointer); isP {
									t = pt.Elem()
								}
								f.mem.m[k] = f.g.U.mk("loopval", fmt.Sprintf("%s:%d:%s", f.tag, h.Index, k), t)
							}
						}
					}
				}
			case ssa.CallInstruction:
				if cal := in.Common().StaticCallee(); cal != nil && isBuilderMethod(calleeName(cal)) && len(in.Common().Args) > 0 {
					// the builder's content is carried around the loop
					if recv, ok := f.env[in.Common().Args[0]]; ok {
						u := f.g.U
						caddr := u.mk("faddr", "$content", types.NewPointer(types.Typ[types.String]), recv)
						k := f.memKey(caddr)
						f.mem.m[k] = u.mk("loopval", fmt.Sprintf("%s:%d:%s", f.tag, h.Index, k), types.Typ[types.String])
					}
				}
				impure = true
			}
		}
	}
	if impure {
		// Calls inside the loop may write anything reachable; keep only
		// entries of allocations that never escape (handled per key below).
		for k := range f.mem.m {
			if !strings.HasPrefix(k, "L:") {
				delete(f.mem.m, k)
			}
		}
	}
}

func addrRoot(v ssa.Value) ssa.Value {
	for {
		switch x := v.(type) {
		case *ssa.FieldAddr:
			v = x.X
		case *ssa.IndexAddr:
			v = x.X
		default:
			return v
		}
	}
}

// val returns the expression of an ssa.Value.
func (f *frame) val(v ssa.Value) *E {
	u := f.g.U
	if e, ok := f.env[v]; ok {
		return e
	}
	switch v := v.(type) {
	case *ssa.Const:
		if v.Value == nil {
			t := v.Type()
			if b, ok := t.Underlying().(*types.Basic); ok {
				switch {
				case b.Info()&types.IsBoolean != 0:
					return u.Bool(False)
				case b.Info()&types.IsString != 0:
					return u.ConstVal(constant.MakeString(""), t)
				case b.Info()&types.IsNumeric != 0:
					return u.ConstVal(constant.MakeInt64(0), t)
				}
			}
			if _, ok := t.Underlying().(*types.Struct); ok {
				return u.mk("zero", typeStr(t), t)
			}
			return u.mk("nil", "", t)
		}
		return u.ConstVal(v.Value, v.Type())
	case *ssa.Global:
		if f.g.globalByName == nil {
			f.g.globalByName = map[string]*ssa.Global{}
		}
		f.g.globalByName[v.RelString(nil)] = v
		return u.mk("global", v.RelString(nil), v.Type())
	case *ssa.Function:
		f.g.regFn(v)
		return u.mk("func", FuncName(v), v.Type())
	case *ssa.Builtin:
		return u.mk("builtin", v.Name(), v.Type())
	}
	// value defined in a block not yet evaluated (only possible through a
	// back edge): opaque loop-carried symbol.
	e := u.mk("loopval", f.tag+":"+v.Name(), v.Type())
	f.env[v] = e
	return e
}

func (f *frame) addEffect(e Effect) {
	e.Fn = f.fn
	e.Act = f.sum
	if (e.Kind == "store" || e.Kind == "mapupdate") && e.Val != nil && e.Cond != True {
		// the written value as it is on the paths that reach the write
		e.Val = f.g.U.Specialize(e.Val, e.Cond)
	}
	f.sum.Effects = append(f.sum.Effects, e)
}

// memKey is the forwarding key of an address expression; local allocations
// are prefixed "L:" so that calls do not invalidate them.
func (f *frame) memKey(addr *E) string {
	root := addr
	for root.Op == "faddr" || root.Op == "iaddr" {
		root = root.Args[0]
	}
	if root.Op == "alloc" && strings.HasSuffix(root.Aux, "/local") {
		return "L:" + addr.key
	}
	return "H:" + addr.key
}

func (f *frame) load(addr *E, typ types.Type) *E {
	u := f.g.U
	if addr.Op == "ite" {
		return u.ITE(addr.B, f.load(addr.Args[0], typ), f.load(addr.Args[1], typ))
	}
	if v, ok := f.mem.m[f.memKey(addr)]; ok {
		return f.underRC(v)
	}
	// a package-level table that only its initialiser writes
	if f.g.ConstTables {
		if v, ok := f.constLoad(addr); ok {
			return v
		}
	}
	// a small array value is the tuple of its elements as they are now
	if at, ok := arrayOf(typ); ok && (addr.Op != "global" || f.g.ConstTables) {
		args := make([]*E, 0, at.Len())
		for i := int64(0); i < at.Len(); i++ {
			ea := u.mk("iaddr", "", types.NewPointer(at.Elem()), addr, u.Int(i))
			args = append(args, f.load(ea, at.Elem()))
		}
		return u.mk("array", typeStr(typ), typ, args...)
	}
	// a struct value is the tuple of its fields as they are now
	if st, ok := structOf(typ); ok && addr.Op != "global" {
		args := make([]*E, 0, 2*st.NumFields())
		for i := 0; i < st.NumFields(); i++ {
			fld := st.Field(i)
			fa := u.mk("faddr", fld.Name(), types.NewPointer(fld.Type()), addr)
			args = append(args, u.Str(fld.Name()), f.load(fa, fld.Type()))
		}
		return u.mk("struct", typeStr(typ), typ, args...)
	}
	// a field of a struct that was stored as a whole
	if addr.Op == "faddr" && len(addr.Args) > 0 {
		if ov, ok := f.mem.m[f.memKey(addr.Args[0])]; ok {
			return f.underRC(u.Field(ov, addr.Aux, typ))
		}
	}
	switch addr.Op {
	case "faddr":
		return u.Field(addr.Args[0], addr.Aux, typ)
	case "iaddr":
		return u.mk("index", "", typ, addr.Args[0], addr.Args[1])
	case "global":
		if f.g.initTag && strings.HasSuffix(addr.Aux, "init$guard") {
			return u.Bool(False) // the initialiser runs once
		}
		return u.mk("gload", addr.Aux, typ)
	case "alloc":
		// load of a local that was never stored: zero value
		if strings.HasSuffix(addr.Aux, "/local") {
			return f.zero(typ)
		}
	}
	return u.mk("load", "", typ, addr)
}

func (f *frame) zero(t types.Type) *E {
	u := f.g.U
	switch b := t.Underlying().(type) {
	case *types.Basic:
		switch {
		case b.Info()&types.IsBoolean != 0:
			return u.Bool(False)
		case b.Info()&types.IsString != 0:
			return u.ConstVal(constant.MakeString(""), t)
		case b.Info()&types.IsNumeric != 0:
			return u.ConstVal(constant.MakeInt64(0), t)
		}
	case *types.Struct:
		return u.mk("zero", typeStr(t), t)
	}
	return u.mk("nil", "", t)
}

func (f *frame) store(addr, val *E, rc Ref, in ssa.Instruction) {
	u := f.g.U
	if addr.Op == "ite" {
		// a store through a pointer selected by a condition is a store to each candidate under
		// its condition
		f.store(addr.Args[0], val, u.bdd.And(rc, addr.B), in)
		f.store(addr.Args[1], val, u.bdd.And(rc, u.bdd.Not(addr.B)), in)
		return
	}
	k := f.memKey(addr)
	local := strings.HasPrefix(k, "L:")
	if rc == False {
		// unreachable in this evaluation: memory is unchanged
		f.addEffect(Effect{Cond: rc, Kind: "store", Addr: addr, Val: val, Pos: in.Pos(), Ins: in, Local: local})
		return
	}
	old, ok := f.mem.m[k]
	if !ok {
		// value before the store, as a load would see it
		var t types.Type = val.Typ
		old = f.loadNoMem(addr, t)
		if !local && in != nil && in.Block() != nil && f.carriedDepth(in.Block()) > 0 {
			// first store to a heap location inside a loop (possibly of a calling activation): on the
			// paths that skip this store the location holds what earlier iterations left there, not
			// the value it had before the loop
			old = u.mk("loopval", "carried:"+k, t)
		}
	}
	// a store that happens whenever the object it writes exists: every later load of the object
	// comes after it, so the previous content plays no part (and the selection would only drag the
	// conditions under which this code was reached into the value)
	mrc := rc
	root := addr
	for (root.Op == "faddr" || root.Op == "iaddr") && len(root.Args) > 0 {
		root = root.Args[0]
	}
	if arc, have := f.g.allocRC[root]; have && root.Op == "alloc" && arc == rc {
		mrc = True
	}
	f.mem.m[k] = u.ITE(mrc, val, old)
	if !local {
		if f.g.memRoot == nil {
			f.g.memRoot = map[string]*E{}
		}
		f.g.memRoot[k] = root
	}
	f.storeFields(addr, val, mrc)
	f.refreshOwners(addr)
	f.addEffect(Effect{Cond: rc, Kind: "store", Addr: addr, Val: val, Pos: in.Pos(), Ins: in, Local: local})
}

// refreshOwners keeps the forwarded value of a struct in step with a store into one of its
// fields: a later load of the whole struct sees the fields as they are now.
func (f *frame) refreshOwners(addr *E) {
	u := f.g.U
	for p := addr; p.Op == "faddr" && len(p.Args) > 0; p = p.Args[0] {
		owner := p.Args[0]
		ok := f.memKey(owner)
		old, have := f.mem.m[ok]
		if !have {
			continue
		}
		st, isSt := structOf(old.Typ)
		if !isSt {
			delete(f.mem.m, ok)
			continue
		}
		args := make([]*E, 0, 2*st.NumFields())
		for i := 0; i < st.NumFields(); i++ {
			fld := st.Field(i)
			fa := u.mk("faddr", fld.Name(), types.NewPointer(fld.Type()), owner)
			fk := f.memKey(fa)
			fv, haveF := f.mem.m[fk]
			if !haveF {
				// not written on its own: what the struct value stored as a whole says
				fv = u.Field(old, fld.Name(), fld.Type())
				f.mem.m[fk] = fv
			}
			args = append(args, u.Str(fld.Name()), fv)
		}
		f.mem.m[ok] = u.mk("struct", typeStr(old.Typ), old.Typ, args...)
	}
}

// storeFields forwards the fields of a stored struct value to later loads of
// the individual fields (no separate effects: the store is one effect).
func (f *frame) storeFields(addr, val *E, rc Ref) {
	u := f.g.U
	if at, ok := arrayOf(val.Typ); ok && val.Op == "array" && int64(len(val.Args)) == at.Len() {
		for i, ev := range val.Args {
			ea := u.mk("iaddr", "", types.NewPointer(at.Elem()), addr, u.Int(int64(i)))
			k := f.memKey(ea)
			old, have := f.mem.m[k]
			if !have {
				old = f.loadNoMem(ea, at.Elem())
			}
			f.mem.m[k] = u.ITE(rc, ev, old)
			f.storeFields(ea, ev, rc)
		}
		return
	}
	st, ok := structOf(val.Typ)
	if !ok || !(val.Op == "struct" || val.Op == "zero") {
		return
	}
	for i := 0; i < st.NumFields(); i++ {
		fld := st.Field(i)
		fa := u.mk("faddr", fld.Name(), types.NewPointer(fld.Type()), addr)
		fv := u.Field(val, fld.Name(), fld.Type())
		k := f.memKey(fa)
		old, have := f.mem.m[k]
		if !have {
			old = f.loadNoMem(fa, fld.Type())
		}
		f.mem.m[k] = u.ITE(rc, fv, old)
		f.storeFields(fa, fv, rc)
	}
}

// structOf: t is a struct type small enough to be tracked field by field.
func structOf(t types.Type) (*types.Struct, bool) {
	if t == nil {
		return nil, false
	}
	st, ok := t.Underlying().(*types.Struct)
	if !ok || st.NumFields() == 0 || st.NumFields() > 32 {
		return nil, false
	}
	// only the repository's own struct types (and anonymous ones): library
	// types such as netip.Addr stay opaque values
	if n, isNamed := t.(*types.Named); isNamed {
		pk := n.Obj().Pkg()
		if pk == nil || !(pk.Path() == modPath || strings.HasPrefix(pk.Path(), modPath+"/")) {
			return nil, false
		}
	} else if _, isAlias := t.(*types.Alias); isAlias {
		return structOf(types.Unalias(t))
	}
	return st, true
}

func (f *frame) loadNoMem(addr *E, typ types.Type) *E {
	u := f.g.U
	switch addr.Op {
	case "faddr":
		// fields of a fresh local struct start as zero
		root := addr.Args[0]
		if root.Op == "alloc" || root.Op == "new" {
			// a field of an object allocated by this activation that was never stored: zero value
			if typ != nil {
				return f.zero(typ)
			}
		}
		return u.Field(addr.Args[0], addr.Aux, typ)
	case "iaddr":
		return u.mk("index", "", typ, addr.Args[0], addr.Args[1])
	case "global":
		return u.mk("gload", addr.Aux, typ)
	case "alloc":
		if typ != nil {
			return f.zero(typ)
		}
	}
	return u.mk("load", "", typ, addr)
}

var pureCallPrefixes = []string{
	"strings.", "bytes.", "unicode.", "unicode/utf8.", "math/bits.", "math.", "strconv.",
	"net/netip.", "(net/netip.", "slices.Equal", "slices.Contains", "slices.Index", "slices.BinarySearch",
	"golang.org/x/net/publicsuffix.", "(*regexp.Regexp).MatchString", "(*regexp.Regexp).Match",
	"regexp.QuoteMeta", "errors.Is", "errors.As", "reflect.DeepEqual", "fmt.Sprintf", "fmt.Errorf", "fmt.Sprint",
	"(*strings.Builder).Len", "(*strings.Builder).String", "(*strings.Replacer).Replace",
	"(*regexp.Regexp).ReplaceAllString", "(*regexp.Regexp).Split", "github.com/miekg/dns.Fqdn",
	"path/filepath.Clean", "(time.Time).Unix",
}

// IsPureLib reports whether a library callee (by full name) is in the table
// of side-effect-free functions.
func IsPureLib(name string) bool {
	for _, p := range pureCallPrefixes {
		if strings.HasPrefix(name, p) {
			return true
		}
	}
	return false
}

func calleeName(fn *ssa.Function) string {
	if fn == nil {
		return "?"
	}
	if fn.Pkg == nil && fn.Origin() != nil {
		fn = fn.Origin()
	}
	return fn.String()
}

func (f *frame) canInline(callee *ssa.Function) bool {
	g := f.g
	if callee != nil && callee.Blocks != nil && (strings.HasPrefix(callee.Synthetic, "bound method wrapper") || strings.HasPrefix(callee.Synthetic, "thunk")) {
		// x.M as a value: the wrapper only forwards to the method
		for _, s := range g.stack {
			if s == callee {
				return false
			}
		}
		return len(g.stack) <= g.MaxDepth+2
	}
	if callee == nil || callee.Blocks == nil || !g.P.IsRepoFunc(callee) {
		return false
	}
	if g.NoInline[FuncName(callee)] {
		return false
	}
	if callee.Parent() == f.fn {
		// closures of the function under evaluation are part of its body
		for _, s := range g.stack {
			if s == callee {
				return false
			}
		}
		return true
	}
	for _, s := range g.stack {
		if s == callee {
			return false
		}
	}
	if len(g.stack) > g.MaxDepth {
		return false
	}
	if g.P.IsNewHelper(callee) {
		// a helper that is not part of the confirmed vocabulary is transparent
		return true
	}
	if g.Inline != nil {
		return g.Inline(f.fn, callee, len(g.stack))
	}
	return true
}

func (f *frame) call(in ssa.Instruction, c *ssa.CallCommon, rc Ref, typ types.Type) *E {
	u := f.g.U
	var args []*E
	if c.IsInvoke() {
		args = append(args, f.val(c.Value))
	}
	for _, a := range c.Args {
		args = append(args, f.val(a))
	}
	if c.IsInvoke() {
		e := u.mk("invoke", c.Method.FullName(), typ, append(args, u.mk("site", f.g.fresh("c"), nil))...)
		f.addEffect(Effect{Cond: rc, Kind: "call", Call: e, Pos: in.Pos(), Ins: in})
		return e
	}
	// builtins
	if b, ok := c.Value.(*ssa.Builtin); ok {
		switch b.Name() {
		case "len":
			return u.Len(args[0])
		case "cap":
			return u.mk("cap", "", typ, args[0])
		case "append":
			// append(s, e0, e1, ...) is compiled to a slice of a fresh array;
			// recover the elements from the forwarded stores.
			if len(args) == 2 && args[1].Op == "slice" && args[1].Args[0].Op == "alloc" {
				arr := args[1].Args[0]
				if pt, ok := arr.Typ.Underlying().(*types.Pointer); ok {
					if at, ok := pt.Elem().Underlying().(*types.Array); ok && at.Len() <= 16 {
						elems := []*E{args[0]}
						okAll := true
						for i := int64(0); i < at.Len(); i++ {
							ia := u.mk("iaddr", "", nil, arr, u.Int(i))
							v, ok := f.mem.m[f.memKey(ia)]
							if !ok {
								okAll = false
								break
							}
							elems = append(elems, f.underRC(v))
						}
						if okAll {
							return u.mk("append", "elems", typ, elems...)
						}
					}
				}
			}
			return u.mk("append", "spread", typ, args...)
		case "copy", "delete", "clear":
			e := u.mk("call", "builtin."+b.Name(), typ, args...)
			f.addEffect(Effect{Cond: rc, Kind: "call", Call: e, Pos: in.Pos(), Ins: in})
			return e
		case "min", "max":
			return u.LibCall("builtin."+b.Name(), typ, args...)
		case "panic":
			f.sum.Panics = u.bdd.Or(f.sum.Panics, rc)
			e := u.mk("call", "builtin.panic", typ, args...)
			f.addEffect(Effect{Cond: rc, Kind: "panic", Call: e, Pos: in.Pos(), Ins: in})
			return e
		}
		return u.mk("call", "builtin."+b.Name(), typ, args...)
	}
	callee := c.StaticCallee()
	var bindings []*E
	if callee == nil {
		// call of a closure built in this activation?
		fv := f.val(c.Value)
		if fv.Op == "makeclosure" {
			for _, fn := range f.fn.AnonFuncs {
				if FuncName(fn) == fv.Aux {
					callee = fn
					bindings = fv.Args
				}
			}
			if callee == nil {
				// a closure made elsewhere (passed in, or a bound method value x.M)
				if fn := f.g.fnByName[fv.Aux]; fn != nil && fn.Blocks != nil {
					callee = fn
					bindings = fv.Args
				}
			}
		}
		if fv.Op == "func" {
			if fn := f.g.fnByName[fv.Aux]; fn != nil && fn.Blocks != nil {
				callee = fn
			}
		}
		// a function value selected by a condition (find := a; if c { find = b }; find(x)): the call
		// of each alternative under its condition.  Only for alternatives that are not expanded
		// (an expanded callee narrows the reach condition of the rest of the block).
		if callee == nil && fv.Op == "ite" {
			okAlt := true
			var alts []*ssa.Function
			for leaf := range u.Leaves(fv) {
				fn := f.g.fnByName[leaf.Aux]
				if leaf.Op != "func" || fn == nil || fn.Blocks == nil || f.canInline(fn) {
					okAlt = false
				} else {
					alts = append(alts, fn)
				}
			}
			if okAlt && len(alts) >= 2 && len(alts) <= 4 {
				var build func(e *E, cond Ref) *E
				build = func(e *E, cond Ref) *E {
					if e.Op == "ite" {
						return u.ITE(e.B, build(e.Args[0], u.bdd.And(cond, e.B)), build(e.Args[1], u.bdd.And(cond, u.bdd.Not(e.B))))
					}
					cc := *c
					cc.Value = f.g.fnByName[e.Aux]
					return f.call(in, &cc, cond, typ)
				}
				return build(fv, rc)
			}
		}
		if callee == nil {
			e := u.mk("dyncall", "", typ, append([]*E{fv}, append(args, u.mk("site", f.g.fresh("c"), nil))...)...)
			f.addEffect(Effect{Cond: rc, Kind: "call", Call: e, Pos: in.Pos(), Ins: in})
			return e
		}
	}
	if mc, ok := c.Value.(*ssa.MakeClosure); ok {
		for _, b := range mc.Bindings {
			bindings = append(bindings, f.val(b))
		}
	}
	if f.canInline(callee) {
		saveBase := f.g.nextDepthBase
		f.g.nextDepthBase = f.depthBase + f.loopDepth(in.Block())
		saveCarried := f.g.nextCarried
		f.g.nextCarried = f.carriedDepth(in.Block())
		sub := f.g.eval(callee, args, bindings, f.mem, rc)
		f.g.nextDepthBase = saveBase
		f.g.nextCarried = saveCarried
		if sub != nil {
			f.g.Subs = append(f.g.Subs, sub)
			sub.Parent, sub.Site = f.sum, in
			f.sum.Effects = append(f.sum.Effects, sub.Effects...)
			f.sum.Panics = u.bdd.Or(f.sum.Panics, sub.Panics)
			v := f.retValue(sub, rc, typ)
			// execution continues only if the callee returned through one of
			// its return sites (its loops are abstracted, so this is not
			// implied by rc alone)
			if len(sub.Rets) > 0 && f.curBlock != nil && in.Block() == f.curBlock {
				exit := False
				for _, r := range sub.Rets {
					exit = u.bdd.Or(exit, r.Cond)
				}
				exit = u.bdd.And(exit, rc)
				if f.sum.Narrow == nil {
					f.sum.Narrow = map[*ssa.BasicBlock][]narrowing{}
				}
				f.sum.Narrow[f.curBlock] = append(f.sum.Narrow[f.curBlock], narrowing{in, f.curRC})
				f.curRC = exit
				f.rc[f.curBlock] = exit
			}
			return v
		}
	}
	name := calleeName(callee)
	if isBuilderMethod(name) && len(args) >= 1 {
		if e, ok := f.builderCall(in, name, args, rc, typ); ok {
			return e
		}
	}
	if (f.g.Unroll || f.g.ConstTables) && (name == "slices.Contains" || name == "slices.ContainsFunc") && len(args) == 2 {
		if e := f.tableSearch(in, name, args, rc); e != nil {
			return e
		}
	}
	if f.g.Search && (name == "slices.Contains" || name == "slices.ContainsFunc" || name == "slices.DeleteFunc" || name == "slices.IndexFunc") && len(args) == 2 {
		if e := f.searchCall(in, name, args, rc, typ); e != nil {
			return e
		}
	}
	if IsPureLib(name) {
		return u.LibCall(name, typ, args...)
	}
	if f.g.Pure[FuncName(callee)] {
		return u.mk("call", name, typ, args...)
	}
	// impure / unknown: the result is unique to this call site
	e := u.mk("call", name, typ, append(args, u.mk("site", f.g.fresh("c"), nil))...)
	f.addEffect(Effect{Cond: rc, Kind: "call", Call: e, Pos: in.Pos(), Ins: in})
	// heap values forwarded so far may have been overwritten by the callee
	if rc != False && !f.g.noHavoc {
		for k, old := range f.mem.m {
			if strings.HasPrefix(k, "H:") {
				if r := f.g.memRoot[k]; r != nil && f.g.unescaped[r] {
					continue // nobody but this function can reach the object yet
				}
				f.mem.m[k] = u.ITE(rc, u.mk("havoc", f.g.fresh("h"), old.Typ), old)
			}
		}
	}
	return e
}

// retValue folds the return sites of an inlined callee into one expression
// (a tuple for multi-value results).
func (f *frame) retValue(sub *Summary, rc Ref, typ types.Type) *E {
	u := f.g.U
	n := sub.Fn.Signature.Results().Len()
	if n == 0 {
		return u.mk("void", "", nil)
	}
	if len(sub.Rets) == 0 {
		return u.mk("noreturn", FuncName(sub.Fn), typ)
	}
	vals := make([]*E, n)
	for i := 0; i < n; i++ {
		var v *E
		for j := len(sub.Rets) - 1; j >= 0; j-- {
			r := sub.Rets[j]
			if v == nil {
				v = r.Vals[i]
			} else {
				v = u.ITE(u.bdd.Restrict(r.Cond, rc), r.Vals[i], v)
			}
		}
		vals[i] = v
	}
	if n == 1 {
		return vals[0]
	}
	return u.mk("tuple", "", typ, vals...)
}

// RetExpr folds all return sites of a summary into one expression for result i.
func (g *Gate) RetExpr(s *Summary, i int) *E {
	var v *E
	for j := len(s.Rets) - 1; j >= 0; j-- {
		r := s.Rets[j]
		if v == nil {
			v = r.Vals[i]
		} else {
			v = g.U.ITE(r.Cond, r.Vals[i], v)
		}
	}
	return v
}

func (f *frame) instr(b *ssa.BasicBlock, in ssa.Instruction, rc Ref) {
	u := f.g.U
	switch in := in.(type) {
	case *ssa.Phi:
		if v, ok := f.presetPhi[in]; ok {
			f.env[in] = v
			return
		}
		f.env[in] = f.phi(b, in, rc)
	case *ssa.BinOp:
		x, y := f.val(in.X), f.val(in.Y)
		switch in.Op {
		case token.EQL, token.NEQ, token.LSS, token.GTR, token.LEQ, token.GEQ:
			f.env[in] = u.Cmp(in.Op, x, y)
		case token.LAND, token.LOR:
			panic("logical op in SSA")
		default:
			if isBoolE(x) && isBoolE(y) {
				bx, by := u.ToBool(x), u.ToBool(y)
				switch in.Op {
				case token.AND:
					f.env[in] = u.Bool(u.bdd.And(bx, by))
				case token.OR:
					f.env[in] = u.Bool(u.bdd.Or(bx, by))
				case token.XOR:
					f.env[in] = u.Bool(u.bdd.Xor(bx, by))
				default:
					f.env[in] = u.mk("bin", in.Op.String(), in.Type(), x, y)
				}
				return
			}
			f.env[in] = u.Bin(in.Op, x, y, in.Type())
		}
	case *ssa.UnOp:
		x := f.val(in.X)
		switch in.Op {
		case token.NOT:
			f.env[in] = u.Bool(u.bdd.Not(u.ToBool(x)))
		case token.MUL:
			f.env[in] = f.load(x, in.Type())
		case token.SUB:
			if x.IsConst() {
				f.env[in] = u.ConstVal(constant.UnaryOp(token.SUB, x.Const, 0), in.Type())
			} else {
				f.env[in] = u.Un("-", x, in.Type())
			}
		case token.XOR:
			f.env[in] = u.Un("^", x, in.Type())
		case token.ARROW:
			f.env[in] = u.mk("recv", f.g.fresh("r"), in.Type(), x)
		default:
			f.env[in] = u.mk("un", in.Op.String(), in.Type(), x)
		}
	case *ssa.Call:
		f.env[in] = f.call(in, &in.Call, rc, in.Type())
	case *ssa.Alloc:
		kind := "/heap"
		if !in.Heap || allocIsLocal(in) {
			kind = "/local"
		}
		tag := f.tag
		if f.g.initTag {
			tag = "init!" + f.fn.Pkg.Pkg.Path() + ":" + tag
		}
		f.env[in] = u.mk("alloc", tag+":"+in.Name()+kind, in.Type())
		if kind == "/heap" && len(f.g.stack) == 1 && allocUnescapedUntilReturn(in) {
			if f.g.unescaped == nil {
				f.g.unescaped = map[*E]bool{}
			}
			f.g.unescaped[f.env[in]] = true
		}
		if f.g.allocRC == nil {
			f.g.allocRC = map[*E]Ref{}
		}
		if old, have := f.g.allocRC[f.env[in]]; have {
			rc = u.bdd.Or(old, rc) // an unrolled loop evaluates the allocation once per iteration
		}
		f.g.allocRC[f.env[in]] = rc
	case *ssa.FieldAddr:
		x := f.val(in.X)
		st := derefStruct(in.X.Type())
		f.env[in] = u.mk("faddr", st.Field(in.Field).Name(), in.Type(), x)
	case *ssa.Field:
		x := f.val(in.X)
		st := in.X.Type().Underlying().(*types.Struct)
		f.env[in] = u.Field(x, st.Field(in.Field).Name(), in.Type())
	case *ssa.IndexAddr:
		x := f.val(in.X)
		// s[i] with s = arr[:] addresses arr[i]
		if x.Op == "slice" && x.Args[1] == nil && x.Args[3] == nil && x.Args[0].Typ != nil {
			if pt, ok := x.Args[0].Typ.Underlying().(*types.Pointer); ok {
				if _, isArr := pt.Elem().Underlying().(*types.Array); isArr {
					x = x.Args[0]
				}
			}
		}
		f.env[in] = u.mk("iaddr", "", in.Type(), x, f.val(in.Index))
	case *ssa.Index:
		f.env[in] = u.Index(f.val(in.X), f.val(in.Index), in.Type())
	case *ssa.Lookup:
		aux := ""
		if in.CommaOk {
			aux = "commaok"
		}
		f.env[in] = u.mk("lookup", aux, in.Type(), f.val(in.X), f.val(in.Index))
	case *ssa.Slice:
		var lo, hi, mx *E
		if in.Low != nil {
			lo = f.val(in.Low)
		}
		if in.High != nil {
			hi = f.val(in.High)
		}
		if in.Max != nil {
			mx = f.val(in.Max)
		}
		f.env[in] = u.Slice(f.val(in.X), lo, hi, mx, in.Type())
	case *ssa.Extract:
		t := f.val(in.Tuple)
		if t.Op == "tuple" {
			f.env[in] = t.Args[in.Index]
		} else if t.Op == "ite" {
			f.env[in] = f.extractITE(t, in.Index, in.Type())
		} else {
			f.env[in] = u.mk("extract", fmt.Sprint(in.Index), in.Type(), t)
		}
	case *ssa.TypeAssert:
		aux := typeStr(in.AssertedType)
		if in.CommaOk {
			aux += ",ok"
		}
		x := f.val(in.X)
		if in.CommaOk {
			v := u.mk("typeassert", aux, in.AssertedType, x)
			ok := u.mk("istype", typeStr(in.AssertedType), types.Typ[types.Bool], x)
			f.env[in] = u.mk("tuple", "", in.Type(), v, u.Bool(u.Atom(ok)))
		} else {
			f.env[in] = u.mk("typeassert", aux, in.Type(), x)
			f.addEffect(Effect{Cond: rc, Kind: "assert", Val: x, Pos: in.Pos(), Ins: in})
		}
	case *ssa.MakeInterface:
		f.env[in] = u.mk("mkiface", typeStr(in.X.Type()), in.Type(), f.val(in.X))
	case *ssa.ChangeType:
		f.env[in] = f.val(in.X)
	case *ssa.ChangeInterface:
		f.env[in] = f.val(in.X)
	case *ssa.Convert:
		x := f.val(in.X)
		if x.IsConst() {
			if v, ok := convertConst(x.Const, in.Type()); ok {
				f.env[in] = u.ConstVal(v, in.Type())
				return
			}
		}
		f.env[in] = u.mk("convert", typeStr(in.Type()), in.Type(), x)
	case *ssa.SliceToArrayPointer, *ssa.MultiConvert:
		f.env[in.(ssa.Value)] = u.mk("opaque", f.g.fresh("cv"), in.(ssa.Value).Type())
	case *ssa.MakeSlice:
		f.env[in] = u.mk("makeslice", f.tag+":"+in.Name(), in.Type(), f.val(in.Len), f.val(in.Cap))
	case *ssa.MakeMap:
		f.env[in] = u.mk("makemap", f.tag+":"+in.Name(), in.Type())
	case *ssa.MakeChan:
		f.env[in] = u.mk("makechan", f.tag+":"+in.Name(), in.Type())
	case *ssa.MakeClosure:
		var bs []*E
		for _, bnd := range in.Bindings {
			bs = append(bs, f.val(bnd))
		}
		f.g.regFn(in.Fn.(*ssa.Function))
		f.env[in] = u.mk("makeclosure", FuncName(in.Fn.(*ssa.Function)), in.Type(), bs...)
	case *ssa.Range:
		f.env[in] = u.mk("range", f.tag+":"+in.Name(), in.Type(), f.val(in.X))
	case *ssa.Next:
		it := f.val(in.Iter)
		id := f.tag + ":" + in.Name()
		ok := u.Bool(u.Atom(u.mk("hasnext", id, types.Typ[types.Bool], it)))
		k := u.mk("rangekey", id, nil, it)
		v := u.mk("rangeval", id, nil, it)
		f.env[in] = u.mk("tuple", "", in.Type(), ok, k, v)
	case *ssa.Select:
		f.env[in] = u.mk("opaque", f.g.fresh("select"), in.Type())
	case *ssa.Store:
		f.store(f.val(in.Addr), f.val(in.Val), rc, in)
	case *ssa.MapUpdate:
		f.addEffect(Effect{Cond: rc, Kind: "mapupdate", Addr: f.val(in.Map), Key: f.val(in.Key), Val: f.val(in.Value), Pos: in.Pos(), Ins: in})
	case *ssa.Send:
		f.addEffect(Effect{Cond: rc, Kind: "send", Addr: f.val(in.Chan), Val: f.val(in.X), Pos: in.Pos(), Ins: in})
	case *ssa.Go:
		e := f.callExprOnly(&in.Call)
		f.addEffect(Effect{Cond: rc, Kind: "go", Call: e, Pos: in.Pos(), Ins: in})
	case *ssa.Defer:
		e := f.callExprOnly(&in.Call)
		f.addEffect(Effect{Cond: rc, Kind: "defer", Call: e, Pos: in.Pos(), Ins: in})
		f.defers = append(f.defers, in)
	case *ssa.RunDefers:
		// deferred calls run here; their effects were recorded at the defer.
	case *ssa.Return:
		vals := make([]*E, len(in.Results))
		for i, r := range in.Results {
			vals[i] = f.val(r)
		}
		if rc == False && len(f.presetPhi) > 0 {
			return // an iteration of an unrolled loop that cannot return here
		}
		f.sum.Rets = append(f.sum.Rets, Ret{Cond: rc, Vals: vals, Pos: in.Pos()})
	case *ssa.Panic:
		f.sum.Panics = u.bdd.Or(f.sum.Panics, rc)
		f.addEffect(Effect{Cond: rc, Kind: "panic", Val: f.val(in.X), Pos: in.Pos(), Ins: in})
	case *ssa.If, *ssa.Jump, *ssa.DebugRef:
	default:
		if v, ok := in.(ssa.Value); ok {
			f.env[v] = u.mk("opaque", f.g.fresh("v"), v.Type())
		}
	}
}

func (f *frame) extractITE(t *E, idx int, typ types.Type) *E {
	u := f.g.U
	get := func(x *E) *E {
		if x.Op == "tuple" {
			return x.Args[idx]
		}
		if x.Op == "ite" {
			return f.extractITE(x, idx, typ)
		}
		return u.mk("extract", fmt.Sprint(idx), typ, x)
	}
	return u.ITE(t.B, get(t.Args[0]), get(t.Args[1]))
}

func (f *frame) callExprOnly(c *ssa.CallCommon) *E {
	u := f.g.U
	var args []*E
	if c.IsInvoke() {
		args = append(args, f.val(c.Value))
		for _, a := range c.Args {
			args = append(args, f.val(a))
		}
		return u.mk("invoke", c.Method.FullName(), nil, args...)
	}
	for _, a := range c.Args {
		args = append(args, f.val(a))
	}
	if callee := c.StaticCallee(); callee != nil {
		return u.mk("call", calleeName(callee), nil, args...)
	}
	if b, ok := c.Value.(*ssa.Builtin); ok {
		return u.mk("call", "builtin."+b.Name(), nil, args...)
	}
	return u.mk("dyncall", "", nil, append([]*E{f.val(c.Value)}, args...)...)
}

func derefStruct(t types.Type) *types.Struct {
	if p, ok := t.Underlying().(*types.Pointer); ok {
		t = p.Elem()
	}
	return t.Underlying().(*types.Struct)
}

// allocIsLocal: a heap Alloc whose address is only used by loads, stores,
// field/index address computations of itself — or is returned / stored
// (escapes).  We only need to distinguish "callee calls cannot see it".
// curProg is the program of the gate most recently created (allocIsLocal asks it which
// functions are helpers outside the vocabulary).
var curProg *Prog

func allocIsLocal(a *ssa.Alloc) bool { return allocKept(a, false) }

// allocUnescapedUntilReturn: the object is handed to nobody before the function
// returns it, so no callee can reach it (its fields survive calls made meanwhile).
func allocUnescapedUntilReturn(a *ssa.Alloc) bool { return allocKept(a, true) }

func allocKept(a *ssa.Alloc, allowReturn bool) bool {
	refs := a.Referrers()
	if refs == nil {
		return false
	}
	var ok func(v ssa.Value, depth int) bool
	ok = func(v ssa.Value, depth int) bool {
		if depth > 8 {
			return false
		}
		rs := v.Referrers()
		if rs == nil {
			return false
		}
		for _, r := range *rs {
			switch r := r.(type) {
			case *ssa.UnOp:
				if r.Op != token.MUL {
					return false
				}
			case *ssa.Store:
				if r.Val == v {
					return false
				}
			case *ssa.FieldAddr:
				if !ok(r, depth+1) {
					return false
				}
			case *ssa.IndexAddr:
				if !ok(r, depth+1) {
					return false
				}
			case *ssa.DebugRef:
			case *ssa.Call:
				// x.WriteString(..), x.String() on a local strings.Builder / bytes.Buffer: modelled
				// as operations on its content, the builder does not escape
				cal := r.Call.StaticCallee()
				if cal != nil && curProg != nil && curProg.IsNewHelper(cal) && depth < 6 {
					// handed to a helper outside the vocabulary (always expanded): local if the helper
					// only reads and writes through the parameter
					kept := true
					for i, a := range r.Call.Args {
						if a == v && (i >= len(cal.Params) || !ok(cal.Params[i], depth+2)) {
							kept = false
						}
					}
					if kept {
						continue
					}
					return false
				}
				if cal == nil || !isBuilderMethod(calleeName(cal)) || len(r.Call.Args) == 0 || r.Call.Args[0] != v {
					return false
				}
			case *ssa.MakeClosure:
				// captured by a closure that is only called directly (or
				// deferred) and that only loads/stores the cell
				if depth != 0 || !closureKeepsLocal(r, v) {
					return false
				}
			case *ssa.Return:
				if !allowReturn || depth != 0 {
					return false
				}
			default:
				return false
			}
		}
		return true
	}
	return ok(a, 0)
}

func closureKeepsLocal(mc *ssa.MakeClosure, cell ssa.Value) bool {
	// a closure that only ever loads the cell cannot change it, wherever the
	// closure value travels
	fn0 := mc.Fn.(*ssa.Function)
	readOnly := true
	for i, b := range mc.Bindings {
		if b != cell {
			continue
		}
		if rs := fn0.FreeVars[i].Referrers(); rs != nil {
			for _, r := range *rs {
				switch r := r.(type) {
				case *ssa.UnOp:
					if r.Op != token.MUL {
						readOnly = false
					}
				case *ssa.DebugRef:
				default:
					readOnly = false
				}
			}
		}
	}
	if readOnly {
		return true
	}
	if rs := mc.Referrers(); rs != nil {
		for _, r := range *rs {
			switch r := r.(type) {
			case *ssa.Call:
				if r.Call.Value != ssa.Value(mc) {
					return false
				}
			case *ssa.Defer:
				if r.Call.Value != ssa.Value(mc) {
					return false
				}
			case *ssa.DebugRef:
			default:
				return false
			}
		}
	}
	fn := mc.Fn.(*ssa.Function)
	for i, b := range mc.Bindings {
		if b != cell {
			continue
		}
		fv := fn.FreeVars[i]
		if rs := fv.Referrers(); rs != nil {
			for _, r := range *rs {
				switch r := r.(type) {
				case *ssa.UnOp:
					if r.Op != token.MUL {
						return false
					}
				case *ssa.Store:
					if r.Val == ssa.Value(fv) {
						return false
					}
				case *ssa.DebugRef:
				default:
					return false
				}
			}
		}
	}
	return true
}

func convertConst(v constant.Value, t types.Type) (constant.Value, bool) {
	bt, ok := t.Underlying().(*types.Basic)
	if !ok {
		return nil, false
	}
	switch {
	case bt.Info()&types.IsInteger != 0:
		if v.Kind() == constant.Int {
			return wrapInt(v, bt), true
		}
		if v.Kind() == constant.Float {
			i := constant.ToInt(v)
			if i.Kind() == constant.Int {
				return wrapInt(i, bt), true
			}
		}
	case bt.Info()&types.IsFloat != 0:
		if v.Kind() == constant.Int || v.Kind() == constant.Float {
			return constant.ToFloat(v), true
		}
	case bt.Info()&types.IsString != 0:
		if v.Kind() == constant.String {
			return v, true
		}
		if v.Kind() == constant.Int {
			if i, ok := constant.Int64Val(v); ok {
				return constant.MakeString(string(rune(i))), true
			}
		}
	}
	return nil, false
}

func (f *frame) phi(b *ssa.BasicBlock, in *ssa.Phi, rc Ref) *E {
	u := f.g.U
	if f.heads[b] {
		// loop header: if every back-edge operand is the φ itself, the value
		// is loop-invariant; otherwise opaque.
		var init *E
		invariant := true
		for i, p := range b.Preds {
			if f.back[[2]int{p.Index, b.Index}] {
				if in.Edges[i] != ssa.Value(in) {
					invariant = false
				}
				continue
			}
			v := f.val(in.Edges[i])
			if init == nil {
				init = v
			} else if init != v {
				invariant = false
			}
		}
		if invariant && init != nil {
			return init
		}
		e := u.mk("loopphi", f.tag+":"+in.Name(), in.Type())
		return e
	}
	var v *E
	rel := f.relEdgeConds(b)
	recs := f.exitRecs[b]
	for i := len(b.Preds) - 1; i >= 0; i-- {
		p := b.Preds[i]
		if _, fromRegion := f.edgeOv[[2]int{p.Index, b.Index}]; fromRegion && len(recs) > 0 {
			continue // edges from an unrolled region: one record per iteration, merged below
		}
		if f.edgeCond(p, b) == False {
			continue
		}
		ec := rel[i]
		x := f.val(in.Edges[i])
		if v == nil {
			v = x
		} else {
			v = u.ITE(ec, x, v)
		}
	}
	for _, rec := range recs {
		x, ok := rec.vals[in]
		if !ok {
			continue
		}
		if v == nil {
			v = x
		} else {
			v = u.ITE(rec.cond, x, v)
		}
	}
	if v == nil {
		return u.mk("unreachable", "", in.Type())
	}
	return v
}

// localCond is the branch condition of edge p->b alone (no reach condition).
func (f *frame) localCond(p, b *ssa.BasicBlock) Ref {
	u := f.g.U
	if len(p.Instrs) == 0 {
		return True
	}
	if iff, ok := p.Instrs[len(p.Instrs)-1].(*ssa.If); ok {
		c := u.ToBool(f.val(iff.Cond))
		t, e := p.Succs[0] == b, p.Succs[1] == b
		switch {
		case t && e:
			return True
		case t:
			return c
		default:
			return u.bdd.Not(c)
		}
	}
	return True
}

// relEdgeConds returns, for each predecessor edge of join block b, the
// condition of taking that edge relative to b's immediate dominator (so that
// φ selectors mention only the branches between the dominator and the join).
func (f *frame) relEdgeConds(b *ssa.BasicBlock) []Ref {
	u := f.g.U
	if c, ok := f.relCache[b]; ok {
		return c
	}
	d := b.Idom()
	rel := map[*ssa.BasicBlock]Ref{}
	if d != nil {
		rel[d] = True
	}
	for _, x := range f.order {
		if x == d || x == b || d == nil || !d.Dominates(x) {
			continue
		}
		if _, done := f.rc[x]; !done {
			continue
		}
		var r Ref = False
		for _, p := range x.Preds {
			if f.back[[2]int{p.Index, x.Index}] {
				continue
			}
			if f.g.Search {
				if l, sx, isExit := f.searchExit(p, x); isExit {
					if pr, ok := rel[l.Header]; ok {
						r = u.bdd.Or(r, u.bdd.And(pr, sx))
					}
					continue
				}
			}
			if pr, ok := rel[p]; ok {
				r = u.bdd.Or(r, u.bdd.And(pr, f.localCond(p, x)))
			}
		}
		rel[x] = r
	}
	out := make([]Ref, len(b.Preds))
	for i, p := range b.Preds {
		if f.g.Search && !f.back[[2]int{p.Index, b.Index}] {
			if l, sx, isExit := f.searchExit(p, b); isExit {
				if pr, ok := rel[l.Header]; ok {
					out[i] = u.bdd.And(pr, sx)
				} else {
					out[i] = False
				}
				continue
			}
		}
		if pr, ok := rel[p]; ok && !f.back[[2]int{p.Index, b.Index}] {
			out[i] = u.bdd.And(pr, f.localCond(p, b))
		} else {
			out[i] = False
		}
	}
	if f.relCache == nil {
		f.relCache = map[*ssa.BasicBlock][]Ref{}
	}
	f.relCache[b] = out
	return out
}

// ---- helpers for rules ----

// RetTable enumerates the return sites of s: condition and values.
func (s *Summary) RetTable() []Ret { return s.Rets }

// AtomsOf returns the atom expressions a BDD depends on, sorted by key.
func (u *U) AtomsOf(f Ref) []*E {
	var out []*E
	for _, v := range u.bdd.Support(f) {
		out = append(out, u.atoms[v])
	}
	sort.Slice(out, func(i, j int) bool { return out[i].key < out[j].key })
	return out
}

// EvalUnder evaluates an expression to a leaf under an atom valuation:
// ite/bool nodes are resolved, everything else is returned as is.
func (u *U) EvalUnder(e *E, asg func(atom *E) bool) *E {
	for {
		switch e.Op {
		case "ite":
			if u.bdd.Eval(e.B, func(v int) bool { return asg(u.atoms[v]) }) {
				e = e.Args[0]
			} else {
				e = e.Args[1]
			}
		case "bool":
			if u.bdd.Eval(e.B, func(v int) bool { return asg(u.atoms[v]) }) {
				return u.Bool(True)
			}
			return u.Bool(False)
		default:
			return e
		}
	}
}

// Leaves returns the distinct non-ite leaves of an ite tree with the
// condition under which each is selected.
func (u *U) Leaves(e *E) map[*E]Ref {
	out := map[*E]Ref{}
	var rec func(x *E, c Ref)
	rec = func(x *E, c Ref) {
		if c == False {
			return
		}
		if x.Op == "ite" {
			rec(x.Args[0], u.bdd.And(c, x.B))
			rec(x.Args[1], u.bdd.And(c, u.bdd.Not(x.B)))
			return
		}
		out[x] = u.bdd.Or(out[x], c)
	}
	rec(e, True)
	return out
}

// Under simplifies an expression on the paths described by care: a selection
// whose condition is decided by care is replaced by the selected alternative.
func (u *U) Under(e *E, care Ref) *E {
	if e == nil || e.Op != "ite" || care == True {
		return e
	}
	switch {
	case care == False:
		return e
	case u.bdd.Implies(care, e.B):
		return u.Under(e.Args[0], care)
	case u.bdd.Implies(care, u.bdd.Not(e.B)):
		return u.Under(e.Args[1], care)
	}
	return u.ITE(e.B, u.Under(e.Args[0], u.bdd.And(care, e.B)), u.Under(e.Args[1], u.bdd.And(care, u.bdd.Not(e.B))))
}

// ---- canonical search loops ----

func (g *Gate) regFn(fn *ssa.Function) {
	if g.fnByName == nil {
		g.fnByName = map[string]*ssa.Function{}
	}
	g.fnByName[FuncName(fn)] = fn
}

// BVar is the element variable bound by the exists at nesting depth d; BIdx
// is its position.
func (u *U) BVar(d int, typ types.Type) *E { return u.mk("bvar", fmt.Sprint(d), typ) }
func (u *U) BIdx(d int) *E                 { return u.mk("bidx", fmt.Sprint(d), types.Typ[types.Int]) }

// Exists builds the atom "some element of coll satisfies pred" (pred is stated
// over BVar(d)/BIdx(d)).
func (u *U) Exists(coll *E, pred Ref) Ref {
	if pred == False {
		return False
	}
	return u.Atom(u.mk("exists", "", types.Typ[types.Bool], coll, u.Bool(pred)))
}

// rpoLoops is a reverse post-order in which the blocks of a loop precede the
// blocks its exits lead to (successors that leave the innermost loop of a block
// are visited first, so they finish first).
func rpoLoops(fn *ssa.Function, back map[[2]int]bool, heads map[*ssa.BasicBlock]bool) []*ssa.BasicBlock {
	type lp struct{ blocks map[*ssa.BasicBlock]bool }
	var loops []lp
	for h := range heads {
		loops = append(loops, lp{loopBlocks(h)})
	}
	inner := func(b *ssa.BasicBlock) map[*ssa.BasicBlock]bool {
		var best map[*ssa.BasicBlock]bool
		for _, l := range loops {
			if l.blocks[b] && (best == nil || len(l.blocks) < len(best)) {
				best = l.blocks
			}
		}
		return best
	}
	seen := make([]bool, len(fn.Blocks))
	var post []*ssa.BasicBlock
	var dfs func(b *ssa.BasicBlock)
	dfs = func(b *ssa.BasicBlock) {
		seen[b.Index] = true
		in := inner(b)
		succs := append([]*ssa.BasicBlock{}, b.Succs...)
		if in != nil {
			sort.SliceStable(succs, func(i, j int) bool { return !in[succs[i]] && in[succs[j]] })
		}
		for _, s := range succs {
			if back[[2]int{b.Index, s.Index}] || seen[s.Index] {
				continue
			}
			dfs(s)
		}
		post = append(post, b)
	}
	dfs(fn.Blocks[0])
	for i, j := 0, len(post)-1; i < j; i, j = i+1, j-1 {
		post[i], post[j] = post[j], post[i]
	}
	return post
}

func (f *frame) loopList() []*Loop {
	if !f.loopsOK {
		f.loops = loopsOf(f.fn)
		f.loopsOK = true
	}
	return f.loops
}

// loopDepth is the number of loops of the activation's function containing b.
func (f *frame) loopDepth(b *ssa.BasicBlock) int {
	n := 0
	for _, l := range f.loopList() {
		if l.Blocks[b] {
			n++
		}
	}
	return n
}

// carriedDepth is the number of abstracted loops (of this and of the calling activations) around
// b: loops whose body is evaluated once for an arbitrary iteration, so that memory written in them
// is loop-carried.  Unrolled loops are evaluated exactly and do not count.
func (f *frame) carriedDepth(b *ssa.BasicBlock) int {
	n := f.carriedBase
	for _, l := range f.loopList() {
		if l.Blocks[b] && !f.unrollNow[l.Header] {
			n++
		}
	}
	return n
}

// searchExit: is p->b an exit edge of a canonical search loop?  Returns the
// loop and the condition of taking the edge relative to the loop header
// (exists(...) for the early exit, its negation for exhaustion).
func (f *frame) searchExit(p, b *ssa.BasicBlock) (*Loop, Ref, bool) {
	l := innermostLoop(f.loopList(), p)
	if l == nil || l.Blocks[b] || f.unrolled[l.Header] {
		return nil, False, false
	}
	si := f.searchInfoOf(l)
	if si == nil || !si.ok {
		return nil, False, false
	}
	u := f.g.U
	if p == l.Header {
		return l, u.bdd.Not(si.X), true
	}
	if si.early == [2]*ssa.BasicBlock{p, b} {
		return l, si.X, true
	}
	return nil, False, false
}

func (f *frame) searchInfoOf(l *Loop) (ret *searchInfo) {
	if si, ok := f.search[l]; ok {
		{
			si.why = 1
			return si
		}
	}
	if os.Getenv("UFCHECK_DEBUG_SEARCH") != "" {
		defer func() {
			why := "asked too early"
			if ret != nil {
				why = fmt.Sprintf("ok=%v why=%d", ret.ok, ret.why)
			}
			fmt.Fprintf(os.Stderr, "search %s loop@%d: %s\n", FuncName(f.fn), l.Header.Index, why)
		}()
	}
	// every block of the loop must have been evaluated
	for b := range l.Blocks {
		if _, done := f.rc[b]; !done {
			return nil // not cached: asked too early
		}
	}
	if f.search == nil {
		f.search = map[*Loop]*searchInfo{}
	}
	si := &searchInfo{}
	f.search[l] = si
	u := f.g.U
	ro := rangedOver(l)
	if ro == nil || !ro.Full || ro.Kind != "index" {
		{
			si.why = 2
			return si
		}
	}
	// the only loop-carried value is the position
	var basePhi *ssa.Phi
	switch x := ro.Index.(type) {
	case *ssa.Phi:
		basePhi = x
	case *ssa.BinOp:
		basePhi, _ = x.X.(*ssa.Phi)
	}
	if basePhi == nil {
		{
			si.why = 3
			return si
		}
	}
	for _, in := range l.Header.Instrs {
		if ph, ok := in.(*ssa.Phi); ok && ph != basePhi {
			if e := f.env[ph]; e != nil && e.Op == "loopphi" {
				{
					si.why = 4
					return si
				}
			}
		}
	}
	// exits: exhaustion from the header, exactly one early exit, all leading
	// to the enclosing loop level
	parent := func(b *ssa.BasicBlock) *Loop { return innermostLoop(f.loopList(), b) }
	var outer *Loop
	for _, l2 := range f.loopList() {
		if l2 != l && l2.Blocks[l.Header] && (outer == nil || len(l2.Blocks) < len(outer.Blocks)) {
			outer = l2
		}
	}
	nEarly := 0
	for _, ex := range l.Exits {
		if parent(ex[1]) != outer {
			{
				si.why = 5
				return si
			}
		}
		if ex[0] != l.Header {
			nEarly++
			si.early = ex
		}
	}
	if nEarly != 1 {
		{
			si.why = 6
			return si
		}
	}
	// no side effects in the body
	start, have := f.effStart[l.Header]
	if !have {
		{
			si.why = 7
			return si
		}
	}
	for _, ef := range f.sum.Effects[start:] {
		if ef.Kind == "store" && ef.Local {
			continue
		}
		{
			si.why = 8
			return si
		}
	}
	// the early-exit test relative to the header
	rel := map[*ssa.BasicBlock]Ref{l.Header: True}
	for _, x := range f.order {
		if x == l.Header || !l.Blocks[x] {
			continue
		}
		var r Ref = False
		for _, p := range x.Preds {
			if f.back[[2]int{p.Index, x.Index}] {
				continue
			}
			if l2, sx, isExit := f.searchExit(p, x); isExit {
				if pr, ok := rel[l2.Header]; ok {
					r = u.bdd.Or(r, u.bdd.And(pr, sx))
				}
				continue
			}
			if pr, ok := rel[p]; ok {
				r = u.bdd.Or(r, u.bdd.And(pr, f.localCond(p, x)))
			}
		}
		rel[x] = r
	}
	pr, ok := rel[si.early[0]]
	if !ok {
		{
			si.why = 9
			return si
		}
	}
	test := u.bdd.And(pr, f.localCond(si.early[0], si.early[1]))
	// strip the loop's own continue condition (a single literal)
	var body *ssa.BasicBlock
	for _, s := range l.Header.Succs {
		if l.Blocks[s] {
			body = s
		}
	}
	if body == nil {
		{
			si.why = 10
			return si
		}
	}
	cont := f.localCond(l.Header, body)
	sup := u.bdd.Support(cont)
	if len(sup) != 1 {
		{
			si.why = 11
			return si
		}
	}
	test = u.bdd.Cofactor(test, sup[0], cont == u.bdd.Var(sup[0]))
	// element and position become the bound variables
	collE := f.val(ro.Coll)
	idxE := f.val(ro.Index)
	d := f.depthBase + f.loopDepth(l.Header) - 1
	var elemT types.Type
	switch t := ro.Coll.Type().Underlying().(type) {
	case *types.Slice:
		elemT = t.Elem()
	case *types.Array:
		elemT = t.Elem()
	case *types.Pointer:
		if a, ok := t.Elem().Underlying().(*types.Array); ok {
			elemT = a.Elem()
		}
	case *types.Basic:
		elemT = types.Typ[types.Uint8]
	}
	if elemT == nil {
		{
			si.why = 12
			return si
		}
	}
	pred := f.bindElem(test, collE, idxE, d, elemT)
	// values carried by this loop or by loops nested in it must not survive
	own := map[*E]bool{}
	for _, l2 := range f.loopList() {
		if l2 == l || l.Blocks[l2.Header] {
			for _, in := range l2.Header.Instrs {
				if ph, ok := in.(*ssa.Phi); ok {
					if e := f.env[ph]; e != nil && e.Op == "loopphi" {
						own[e] = true
					}
				}
			}
		}
	}
	bad := false
	for _, at := range u.AtomsOf(pred) {
		if u.Mentions(at, func(x *E) bool { return own[x] }) {
			bad = true
		}
	}
	if bad {
		{
			si.why = 13
			return si
		}
	}
	si.X = u.Exists(collE, pred)
	si.ok = true
	{
		si.why = 14
		return si
	}
}

// bindElem rewrites a test over coll[idx] / idx into one over BVar(d) / BIdx(d).
func (f *frame) bindElem(test Ref, collE, idxE *E, d int, elemT types.Type) Ref {
	u := f.g.U
	bi := u.BIdx(d)
	t1 := u.SubstBool(test, map[string]*E{idxE.key: bi})
	sub := map[string]*E{}
	for _, at := range u.AtomsOf(t1) {
		for _, x := range u.Collect(at, func(x *E) bool {
			return (x.Op == "index" && x.Args[0] == collE && x.Args[1] == bi) ||
				(x.Op == "load" && x.Args[0].Op == "iaddr" && x.Args[0].Args[0] == collE && x.Args[0].Args[1] == bi)
		}) {
			sub[x.key] = u.BVar(d, elemT)
		}
	}
	if len(sub) > 0 {
		t1 = u.SubstBool(t1, sub)
	}
	return t1
}

// tableSearch expands slices.Contains / slices.ContainsFunc over a table of
// known small size (a whole array with at most 8 elements whose elements are
// known: a constant package-level table or a local literal) into the
// disjunction over its elements, the predicate evaluated per element.
func (f *frame) tableSearch(in ssa.Instruction, name string, args []*E, rc Ref) *E {
	u := f.g.U
	coll := args[0]
	if coll.Op != "slice" || coll.Args[1] != nil || coll.Args[2] != nil || coll.Args[3] != nil || coll.Args[0].Typ == nil {
		return nil
	}
	pt, ok := coll.Args[0].Typ.Underlying().(*types.Pointer)
	if !ok {
		return nil
	}
	at, ok := pt.Elem().Underlying().(*types.Array)
	if !ok || at.Len() < 1 || at.Len() > 8 {
		return nil
	}
	var elems []*E
	for i := int64(0); i < at.Len(); i++ {
		ea := u.mk("iaddr", "", types.NewPointer(at.Elem()), coll.Args[0], u.Int(i))
		ev := f.load(ea, at.Elem())
		if ev == nil || ev.Op == "index" || ev.Op == "load" || ev.Op == "loopval" {
			return nil // not a known element
		}
		elems = append(elems, ev)
	}
	var res Ref = False
	if name == "slices.Contains" {
		for _, ev := range elems {
			res = u.bdd.Or(res, u.ToBool(u.Eq(ev, args[1])))
		}
		return u.Bool(res)
	}
	fv := args[1]
	var callee *ssa.Function
	var bindings []*E
	switch fv.Op {
	case "makeclosure":
		callee = f.g.fnByName[fv.Aux]
		bindings = fv.Args
	case "func":
		callee = f.g.fnByName[fv.Aux]
	}
	if callee == nil || callee.Blocks == nil {
		return nil
	}
	for _, s := range f.g.stack {
		if s == callee {
			return nil
		}
	}
	nEff, nSubs := len(f.sum.Effects), len(f.g.Subs)
	for _, ev := range elems {
		sub := f.g.eval(callee, []*E{ev}, bindings, f.mem, rc)
		if sub == nil || len(sub.Rets) == 0 {
			f.sum.Effects, f.g.Subs = f.sum.Effects[:nEff], f.g.Subs[:nSubs]
			return nil
		}
		for _, ef := range sub.Effects {
			if !(ef.Kind == "store" && ef.Local) {
				f.sum.Effects, f.g.Subs = f.sum.Effects[:nEff], f.g.Subs[:nSubs]
				return nil
			}
		}
		f.g.Subs = append(f.g.Subs, sub)
		res = u.bdd.Or(res, u.ToBool(f.retValue(sub, rc, types.Typ[types.Bool])))
	}
	return u.Bool(res)
}

// searchCall gives slices.Contains / slices.ContainsFunc the canonical form.
func (f *frame) searchCall(in ssa.Instruction, name string, args []*E, rc Ref, typ types.Type) *E {
	u := f.g.U
	coll := args[0]
	d := f.depthBase
	if in != nil && in.Block() != nil {
		d += f.loopDepth(in.Block())
	}
	var elemT types.Type
	if coll.Typ != nil {
		if st, ok := coll.Typ.Underlying().(*types.Slice); ok {
			elemT = st.Elem()
		}
	}
	if elemT == nil {
		// the list expression carries no type (a selection between lists): take it from the call
		if ci, ok := in.(ssa.CallInstruction); ok && len(ci.Common().Args) > 0 {
			if st, ok := ci.Common().Args[0].Type().Underlying().(*types.Slice); ok {
				elemT = st.Elem()
			}
		}
	}
	if elemT == nil {
		return nil
	}
	bv := u.BVar(d, elemT)
	if name == "slices.Contains" {
		return u.Bool(u.Exists(coll, u.ToBool(u.Eq(bv, args[1]))))
	}
	fv := args[1]
	var callee *ssa.Function
	var bindings []*E
	switch fv.Op {
	case "makeclosure":
		callee = f.g.fnByName[fv.Aux]
		bindings = fv.Args
	case "func":
		callee = f.g.fnByName[fv.Aux]
	}
	if callee == nil || callee.Blocks == nil {
		return nil
	}
	for _, s := range f.g.stack {
		if s == callee {
			return nil
		}
	}
	n0 := len(f.sum.Effects)
	saveBase := f.g.nextDepthBase
	f.g.nextDepthBase = d + 1
	sub := f.g.eval(callee, []*E{bv}, bindings, f.mem, rc)
	f.g.nextDepthBase = saveBase
	if sub == nil || len(sub.Rets) == 0 {
		return nil
	}
	for _, ef := range sub.Effects {
		if !(ef.Kind == "store" && ef.Local) {
			return nil
		}
	}
	_ = n0
	f.g.Subs = append(f.g.Subs, sub)
	v := f.retValue(sub, rc, types.Typ[types.Bool])
	if name == "slices.DeleteFunc" || name == "slices.IndexFunc" {
		// the predicate as a formula over the bound element: lambda<d>(P)
		return u.mk("call", name, typ, coll, u.mk("lambda", fmt.Sprint(d), nil, u.Bool(u.ToBool(v))))
	}
	return u.Bool(u.Exists(coll, u.ToBool(v)))
}

// ---- strings.Builder / bytes.Buffer as a string accumulator ----

func isBuilderMethod(name string) bool {
	for _, p := range []string{"(*strings.Builder).", "(*bytes.Buffer)."} {
		if strings.HasPrefix(name, p) {
			switch strings.TrimPrefix(name, p) {
			case "Write", "WriteString", "WriteByte", "WriteRune", "String", "Len", "Reset", "Grow":
				return true
			}
		}
	}
	return false
}

// builderCall models the accumulating methods as "content = content + piece"
// on a pseudo field of the builder, so that building a string with a Builder
// and with += are the same expression.
func (f *frame) builderCall(in ssa.Instruction, name string, args []*E, rc Ref, typ types.Type) (*E, bool) {
	u := f.g.U
	strT := types.Typ[types.String]
	recv := args[0]
	if recv.Op != "alloc" && recv.Op != "faddr" {
		return nil, false
	}
	caddr := u.mk("faddr", "$content", types.NewPointer(strT), recv)
	cur := func() *E {
		if v, ok := f.mem.m[f.memKey(caddr)]; ok {
			return f.underRC(v)
		}
		if recv.Op == "alloc" && strings.HasSuffix(recv.Aux, "/local") {
			return u.Str("") // a new builder that nobody else can have written to is empty
		}
		return u.Field(recv, "$content", strT)
	}
	method := name[strings.LastIndex(name, ".")+1:]
	appendPiece := func(piece *E) {
		f.store(caddr, u.Bin(token.ADD, cur(), piece, strT), rc, in)
	}
	errNil := u.mk("nil", "", nil)
	switch method {
	case "Write":
		if len(args) != 2 {
			return nil, false
		}
		appendPiece(u.mk("convert", "", strT, args[1]))
		return u.mk("tuple", "", typ, u.Len(args[1]), errNil), true
	case "WriteString":
		if len(args) != 2 {
			return nil, false
		}
		appendPiece(args[1])
		return u.mk("tuple", "", typ, u.Len(args[1]), errNil), true
	case "WriteByte":
		if len(args) != 2 {
			return nil, false
		}
		appendPiece(u.mk("convert", "", strT, args[1]))
		return errNil, true
	case "WriteRune":
		if len(args) != 2 {
			return nil, false
		}
		piece := u.mk("convert", "", strT, args[1])
		appendPiece(piece)
		return u.mk("tuple", "", typ, u.Len(piece), errNil), true
	case "String":
		return cur(), true
	case "Len":
		return u.Len(cur()), true
	case "Reset":
		f.store(caddr, u.Str(""), rc, in)
		return u.mk("void", "", nil), true
	case "Grow":
		return u.mk("void", "", nil), true
	}
	return nil, false
}

// arrayOf: t is an array type small enough to be tracked element by element.
func arrayOf(t types.Type) (*types.Array, bool) {
	if t == nil {
		return nil, false
	}
	at, ok := t.Underlying().(*types.Array)
	if !ok || at.Len() == 0 || at.Len() > 16 {
		return nil, false
	}
	return at, true
}

// ---- constant package-level tables ----

// constLoad: addr is (an element / field of) a package-level variable that is
// effectively constant, or of memory allocated by its initialiser: the value
// the package initialiser stored there.
func (f *frame) constLoad(addr *E) (*E, bool) {
	g := f.g
	root := addr
	for root.Op == "faddr" || root.Op == "iaddr" {
		root = root.Args[0]
	}
	switch root.Op {
	case "global":
		gl := g.globalByName[root.Aux]
		if gl == nil || !g.isConstGlobal(gl) {
			return nil, false
		}
		g.ensureInit(gl.Pkg)
	case "alloc":
		if !strings.HasPrefix(root.Aux, "init!") {
			return nil, false
		}
	default:
		return nil, false
	}
	v, ok := g.initMem[addr.key]
	return v, ok
}

// ensureInit evaluates the initialiser of pkg once and keeps the memory it
// leaves behind (keyed by address expression).
func (g *Gate) ensureInit(pkg *ssa.Package) {
	if pkg == nil || g.initDone[pkg] {
		return
	}
	if g.initDone == nil {
		g.initDone = map[*ssa.Package]bool{}
		g.initMem = map[string]*E{}
	}
	g.initDone[pkg] = true
	init := pkg.Func("init")
	if init == nil || init.Blocks == nil {
		return
	}
	saveInline, saveSearch, saveUnroll, saveSubs, saveTop, saveStack := g.Inline, g.Search, g.Unroll, g.Subs, g.Top, g.stack
	g.Inline = func(_, _ *ssa.Function, _ int) bool { return false }
	g.Search, g.Unroll, g.noHavoc = false, false, true
	g.stack = []*ssa.Function{nil} // not the top activation
	g.initTag = true
	m := &mem{m: map[string]*E{}}
	g.eval(init, nil, nil, m, True)
	g.initTag = false
	g.Inline, g.Search, g.Unroll, g.Subs, g.Top, g.stack, g.noHavoc = saveInline, saveSearch, saveUnroll, saveSubs, saveTop, saveStack, false
	for k, v := range m.m {
		// strip the forwarding prefix ("H:" / "L:")
		if i := strings.Index(k, ":"); i >= 0 {
			g.initMem[k[i+1:]] = v
		}
	}
}

// opaqueForeignPtr: a pointer to a struct type of another module without exported fields
// (*regexp.Regexp, *strings.Replacer): the library cannot write through a copy of it.
func (g *Gate) opaqueForeignPtr(t types.Type) bool {
	pt, ok := t.Underlying().(*types.Pointer)
	if !ok {
		return false
	}
	n, ok := pt.Elem().(*types.Named)
	if !ok || n.Obj().Pkg() == nil || strings.HasPrefix(n.Obj().Pkg().Path(), modPath) {
		return false
	}
	st, ok := n.Underlying().(*types.Struct)
	if !ok {
		return false
	}
	for i := 0; i < st.NumFields(); i++ {
		if st.Field(i).Exported() {
			return false
		}
	}
	return true
}

// isConstGlobal: the variable is never stored to outside its package
// initialiser, nothing is stored through it, and its value is only read
// (indexed, ranged over, measured, passed to side-effect-free library
// functions or used as a method receiver of such).
func (g *Gate) isConstGlobal(gl *ssa.Global) bool {
	if v, ok := g.constGl[gl]; ok {
		return v
	}
	if g.constGl == nil {
		g.constGl = map[*ssa.Global]bool{}
	}
	ok := true
	var readOnly func(v ssa.Value, depth int) bool
	readOnly = func(v ssa.Value, depth int) bool {
		if depth > 5 {
			return false
		}
		rs := v.Referrers()
		if rs == nil {
			return true
		}
		for _, r := range *rs {
			switch r := r.(type) {
			case *ssa.DebugRef, *ssa.Range, *ssa.Index, *ssa.Lookup, *ssa.Field, *ssa.BinOp:
			case *ssa.UnOp:
				// a load of an element: its own value is a copy
			case *ssa.IndexAddr, *ssa.FieldAddr, *ssa.Slice:
				if !readOnly(r.(ssa.Value), depth+1) {
					return false
				}
			case *ssa.Store:
				if r.Addr == v {
					return false // written through
				}
				// stored as a value somewhere else: may be modified through the copy only for
				// reference types
				if isRefType(v.Type()) && !g.opaqueForeignPtr(v.Type()) {
					return false
				}
			case *ssa.Phi:
				if !readOnly(r, depth+1) {
					return false
				}
			case ssa.CallInstruction:
				cc := r.Common()
				if b, isB := cc.Value.(*ssa.Builtin); isB && (b.Name() == "len" || b.Name() == "cap") {
					continue
				}
				cal := cc.StaticCallee()
				if cal == nil || !IsPureLib(calleeName(cal)) {
					return false
				}
			default:
				return false
			}
		}
		return true
	}
	for _, fn := range g.P.AllLibFuncs() {
		isInit := fn.Name() == "init" && fn.Pkg == gl.Pkg
		eachInstr(fn, func(_ *ssa.BasicBlock, in ssa.Instruction) {
			for _, op := range in.Operands(nil) {
				if op == nil || *op != ssa.Value(gl) {
					continue
				}
				switch x := in.(type) {
				case *ssa.Store:
					if x.Addr == ssa.Value(gl) && !isInit {
						ok = false
					}
					if x.Val == ssa.Value(gl) {
						ok = false // address escapes
					}
				case *ssa.UnOp:
					if !isInit && !readOnly(x, 0) {
						ok = false
					}
				case *ssa.IndexAddr, *ssa.FieldAddr:
					if !isInit && !readOnly(in.(ssa.Value), 0) {
						ok = false
					}
				case *ssa.DebugRef:
				default:
					if !isInit {
						ok = false
					}
				}
			}
		})
	}
	g.constGl[gl] = ok
	return ok
}

// ---- unrolling of loops over small constant ranges ----

type exitRec struct {
	cond Ref
	vals map[*ssa.Phi]*E
}

// tryUnroll evaluates the loop headed by h iteration by iteration when its
// trip count is a small constant: the header tests φ+1 < N or φ < N with φ
// starting at a constant and stepping by one, N a constant (the length of a
// constant table).  The region evaluated per iteration is the loop plus the
// single-predecessor chains its exits lead to (early returns); the blocks
// where control merges again get one record per iteration and edge.
func (f *frame) tryUnroll(h *ssa.BasicBlock) (map[*ssa.BasicBlock]bool, bool) {
	u := f.g.U
	var l *Loop
	for _, x := range f.loopList() {
		if x.Header == h {
			l = x
		}
	}
	if l == nil {
		return nil, false
	}
	// no loop nested inside (its cut symbols would be shared between iterations)
	for _, x := range f.loopList() {
		if x != l && l.Blocks[x.Header] {
			return nil, false
		}
	}
	iff, ok := h.Instrs[len(h.Instrs)-1].(*ssa.If)
	if !ok {
		return nil, false
	}
	cmp, ok := iff.Cond.(*ssa.BinOp)
	if !ok || cmp.Op != token.LSS {
		return nil, false
	}
	var ph *ssa.Phi
	switch x := cmp.X.(type) {
	case *ssa.Phi:
		ph = x
	case *ssa.BinOp:
		if p, isP := x.X.(*ssa.Phi); isP && x.Op == token.ADD && isConstInt(x.Y, 1) {
			ph = p
		}
	}
	if ph == nil || ph.Block() != h || !stepsExactlyOne(l, ph) {
		return nil, false
	}
	bound := f.val(cmp.Y)
	N, okN := bound.IntVal()
	if !okN || N < 0 || N > 8 {
		return nil, false
	}
	// entry values of the header φs
	var phis []*ssa.Phi
	for _, in := range h.Instrs {
		if p, isP := in.(*ssa.Phi); isP {
			phis = append(phis, p)
		}
	}
	cur := map[*ssa.Phi]*E{}
	var alive Ref = False
	for i, p := range h.Preds {
		if f.back[[2]int{p.Index, h.Index}] {
			continue
		}
		c := f.edgeCond(p, h)
		if c == False {
			continue
		}
		alive = u.bdd.Or(alive, c)
		for _, phx := range phis {
			v := f.val(phx.Edges[i])
			if old, have := cur[phx]; have {
				cur[phx] = u.ITE(c, v, old)
			} else {
				cur[phx] = v
			}
		}
	}
	if cur[ph] == nil {
		return nil, false
	}
	if c0, isC := cur[ph].IntVal(); !isC || c0 < -1 || c0 > 0 {
		return nil, false
	}
	// region: the loop and the single-predecessor chains behind its exits
	region := map[*ssa.BasicBlock]bool{}
	for b := range l.Blocks {
		region[b] = true
	}
	for changed := true; changed; {
		changed = false
		for _, b := range f.fn.Blocks {
			if region[b] || len(b.Preds) != 1 || !region[b.Preds[0]] {
				continue
			}
			region[b] = true
			changed = true
		}
	}
	var body []*ssa.BasicBlock
	for _, b := range f.order {
		if region[b] && b != h {
			body = append(body, b)
		}
	}
	// snapshot for giving up
	memSnap := map[string]*E{}
	for k, v := range f.mem.m {
		memSnap[k] = v
	}
	nEff, nRet, pan := len(f.sum.Effects), len(f.sum.Rets), f.sum.Panics
	restore := func() {
		f.mem.m = memSnap
		f.sum.Effects = f.sum.Effects[:nEff]
		f.sum.Rets = f.sum.Rets[:nRet]
		f.sum.Panics = pan
		f.presetPhi = nil
		delete(f.unrollNow, h)
		for b := range region {
			delete(f.rc, b)
		}
	}
	if f.presetPhi == nil {
		f.presetPhi = map[*ssa.Phi]*E{}
	}
	if f.unrollNow == nil {
		f.unrollNow = map[*ssa.BasicBlock]bool{}
	}
	f.unrollNow[h] = true
	ovSum := map[[2]int]Ref{}
	recs := map[*ssa.BasicBlock][]exitRec{}
	type phiAt struct {
		cond Ref
		rel  Ref // the same condition relative to the entry of the loop
		vals map[*ssa.Phi]*E
	}
	var atExit []phiAt
	var relAlive Ref = True
	for iter := int64(0); ; iter++ {
		if iter > N+1 {
			restore()
			return nil, false
		}
		for _, phx := range phis {
			f.presetPhi[phx] = cur[phx]
		}
		for b := range region {
			delete(f.relCache, b) // join conditions inside the body are per iteration
		}
		// header
		f.rc[h] = alive
		f.curRC, f.curBlock = alive, h
		for _, in := range h.Instrs {
			f.instr(h, in, f.curRC)
		}
		for _, b := range body {
			f.block(b)
		}
		// edges leaving the region
		snapshot := map[*ssa.Phi]*E{}
		for _, phx := range phis {
			snapshot[phx] = cur[phx]
		}
		leaving := False
		for _, b := range append([]*ssa.BasicBlock{h}, body...) {
			for _, t := range b.Succs {
				if region[t] {
					continue
				}
				c := f.edgeCondRaw(b, t)
				if c == False {
					continue
				}
				key := [2]int{b.Index, t.Index}
				ovSum[key] = u.bdd.Or(ovSum[key], c)
				leaving = u.bdd.Or(leaving, c)
				vals := map[*ssa.Phi]*E{}
				for _, in := range t.Instrs {
					tp, isP := in.(*ssa.Phi)
					if !isP {
						break
					}
					for i, p := range t.Preds {
						if p == b {
							vals[tp] = f.val(tp.Edges[i])
						}
					}
				}
				recs[t] = append(recs[t], exitRec{cond: c, vals: vals})
			}
		}
		// conditions relative to the entry of the loop (the branches taken inside it only): the
		// selections between the values of different paths must not mention how the loop was reached
		rel := map[*ssa.BasicBlock]Ref{h: relAlive}
		for _, b := range body {
			if !l.Blocks[b] {
				continue
			}
			var r Ref = False
			for _, q := range b.Preds {
				if rq, have := rel[q]; have && !f.back[[2]int{q.Index, b.Index}] {
					r = u.bdd.Or(r, u.bdd.And(rq, f.localCond(q, b)))
				}
			}
			rel[b] = r
		}
		if leaving != False {
			relLeaving := False
			for _, b := range append([]*ssa.BasicBlock{h}, body...) {
				rb, have := rel[b]
				if !have {
					continue
				}
				for _, t := range b.Succs {
					if !l.Blocks[t] {
						relLeaving = u.bdd.Or(relLeaving, u.bdd.And(rb, f.localCond(b, t)))
					}
				}
			}
			atExit = append(atExit, phiAt{leaving, relLeaving, snapshot})
		}
		// next iteration
		next := map[*ssa.Phi]*E{}
		var nextAlive, nextRel Ref = False, False
		for i, p := range h.Preds {
			if !f.back[[2]int{p.Index, h.Index}] {
				continue
			}
			c := f.edgeCondRaw(p, h)
			if c == False {
				continue
			}
			cr := c
			if rp, have := rel[p]; have {
				cr = u.bdd.And(rp, f.localCond(p, h))
			}
			if os.Getenv("UFCHECK_DEBUG_UNROLL") != "" {
				_, have := rel[p]
				fmt.Fprintf(os.Stderr, "UNROLL %s iter=%d pred=%d have=%v cr=%s\n", f.fn.Name(), iter, p.Index, have, clip(u.ShowBool(cr), 200))
			}
			nextAlive = u.bdd.Or(nextAlive, c)
			nextRel = u.bdd.Or(nextRel, cr)
			for _, phx := range phis {
				v := f.val(phx.Edges[i])
				if old, have := next[phx]; have {
					next[phx] = u.ITE(cr, v, old)
				} else {
					next[phx] = v
				}
			}
		}
		if nextAlive == False {
			break
		}
		alive, cur, relAlive = nextAlive, next, nextRel
	}
	f.presetPhi = nil
	if f.edgeOv == nil {
		f.edgeOv = map[[2]int]Ref{}
		f.exitRecs = map[*ssa.BasicBlock][]exitRec{}
	}
	// edges of the region that were never taken are dead
	for b := range region {
		for _, t := range b.Succs {
			if !region[t] {
				key := [2]int{b.Index, t.Index}
				f.edgeOv[key] = ovSum[key]
			}
		}
	}
	for t, rs := range recs {
		f.exitRecs[t] = append(f.exitRecs[t], rs...)
	}
	// the header φs as seen after the loop: their value when the region was left
	for _, phx := range phis {
		var v *E
		for _, a := range atExit {
			if v == nil {
				v = a.vals[phx]
			} else {
				v = u.ITE(a.rel, a.vals[phx], v)
			}
		}
		if v != nil {
			f.env[phx] = v
		}
	}
	// header values derived from the φs, for uses after the loop
	total := False
	for _, a := range atExit {
		total = u.bdd.Or(total, a.cond)
	}
	saveRC := f.rc[h]
	for _, in := range h.Instrs {
		if _, isP := in.(*ssa.Phi); isP {
			continue
		}
		switch in.(type) {
		case *ssa.If, *ssa.Jump:
			continue
		}
		if _, isCall := in.(ssa.CallInstruction); isCall {
			continue
		}
		f.instr(h, in, total)
	}
	f.rc[h] = saveRC
	if f.unrolled == nil {
		f.unrolled = map[*ssa.BasicBlock]bool{}
	}
	f.unrolled[h] = true
	return region, true
}

// edgeCondRaw is edgeCond without the overrides of unrolled regions.
func (f *frame) edgeCondRaw(p, b *ssa.BasicBlock) Ref {
	u := f.g.U
	rcP, ok := f.rc[p]
	if !ok {
		return False
	}
	return u.bdd.And(rcP, f.localCond(p, b))
}
