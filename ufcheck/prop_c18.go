package main

// C18 — hosts-file lines yield exactly the listed names with the given address.

import (
	"fmt"
	"go/types"
	"os"
	"strings"

	"golang.org/x/tools/go/ssa"
)

func init() {
	register(&PropDef{
		ID:  "C18",
		Run: runC18,
		Explanation: "Static decision of the structural clauses of C18. R1 (cut arithmetic): the text that is tokenised is line[:i] with i exactly the index of the first '#'. R2/R3: the tokenizer is three consecutive counted scans over the same string " +
			"(skip blanks from 0, take non-blanks, skip blanks), whose stay-conditions are evaluated on all 256 byte values and must agree with the blank set {space, tab} of the statement; the token is s[i1:i2], the remainder s[i3:] " +
			"(or a TrimLeft with exactly the blank set as cutset). R4: every token becomes a name (append in every iteration of a loop that runs until the remainder is empty); a bare domain yields one name with the unspecified IPv4 address, on the true edge of the " +
			"domain-name test. R5: HostRule.Match is true exactly when some name equals the query. R6: NewRule tries cosmetic, then hosts, then network syntax, and the cosmetic detector ignores a marker preceded by a blank. " +
			"R7: the DNS engine re-validates host-table hits and splits by address family (shared with C02). R10: in the address form the line is rejected iff netip.ParseAddr fails on the first token, and the stored address is the parsed one (not a transformed copy). R6 also: only the first occurrence of a marker character can start a cosmetic marker. R2/R3 accept the tokenizer as three counted scans or as strings.TrimLeft / strings.IndexAny / strings.TrimLeft with the three constant sets equal to {space, tab}. R6: the comment exemption of the marker search covers both blank characters of a hosts file, the space and the tab. R6 also: an accepted marker has no '#' in front of it (the marker character is '#' itself at its first occurrence, or the finder tests that the part of the line before the marker holds none), so a '$$' or '$@$' inside the comment of a hosts line is not taken for an HTML-filtering marker.",
		Trusted: []string{"netip.ParseAddr and filterutil.IsDomainName decide what an address / a domain name is (value-level, not judged)"},
	})
}

func runC18(c *Ctx) {
	c.Rule("C18.R1", "LIN", "comment cut ends exactly at the comment sign", 1)
	c.Rule("C18.R2", "TBL", "the three tokenizer scans agree with the blank set {space, tab} on all 256 byte values", 3)
	c.Rule("C18.R3", "LIN", "token = s[i1:i2], remainder = s[i3:], scans chained", 2)
	c.Rule("C18.R4", "WIRE", "every token becomes a name; bare domain => one name, unspecified IPv4", 2)
	c.Rule("C18.R5", "PDT", "HostRule.Match: true iff some name equals the query", 1)
	c.Rule("C18.R6", "WIRE", "dispatch order cosmetic > hosts > network; blank-before-marker exemption", 2)
	c.Rule("C18.R7", "IDX", "DNS engine re-validates host-table hits (shared with C02.R1)", 1)

	a := &anchors{c: c, rule: "C18.R1"}
	nhr := a.fn("rules", "NewHostRule")
	hm := a.method("rules", "HostRule", "Match")
	nr := a.fn("rules", "NewRule")
	ncr := a.fn("rules", "NewCosmeticRule")
	nnr := a.fn("rules", "NewNetworkRule")
	idn := a.fn("filterutil", "IsDomainName")
	if a.bad {
		return
	}
	// tokenizer by role: callee of NewHostRule taking *string and returning string
	tok := tokenizerRole(c.P, nhr)
	if tok == nil {
		c.Fail("C18.R2", "anchor:tokenizer", nhr.Pos(), "unresolved anchor: NewHostRule calls no tokenizer (func(*string) string or func(string) (token, rest string))")
		return
	}
	c.Fn(FuncName(tok))

	// ---------- R1 + R4 ----------
	{
		// the tokenizer is expanded at its call sites (whether it takes *string and writes the
		// remainder back, or takes the string and returns the remainder)
		g := NewGate(c.P)
		g.Inline = inlineOnly(FuncName(tok))
		s := g.Eval(nhr)
		u := g.U
		ps := g.ParamExprs(nhr)
		text := ps[0]
		var acts []*Summary
		for _, sub := range g.Subs {
			// called by the parser itself or by a helper outside the vocabulary below it
			par := sub.Parent
			for par != nil && par != s && c.P.IsNewHelper(par.Fn) {
				par = par.Parent
			}
			if sub.Fn == tok && par == s {
				acts = append(acts, sub)
			}
		}
		scanned := func(sub *Summary) *E { return tokScanned(sub) }
		token := func(sub *Summary) *E { return g.RetExpr(sub, 0) }
		bad := ""
		if len(acts) == 0 {
			bad = "UNDECIDED: the tokenizer is never called"
		} else {
			// R1: what the first tokenizer call scans is the line, cut at '#' iff '#' is at a positive index
			str1 := scanned(acts[0])
			idx := u.LibCall("strings.IndexByte", types.Typ[types.Int], text, u.ConstVal(constantInt('#'), types.Typ[types.Uint8]))
			found := u.ToBool(u.Lt(u.Int(0), idx))
			want := u.ITE(found, u.Slice(text, nil, idx, nil, types.Typ[types.String]), text)
			if str1 == nil {
				bad = "UNDECIDED: the text handed to the tokenizer is not evaluated"
			} else if ok, _ := semEqual(u, str1, want); !ok {
				bad = "the tokenised text is not the line cut at the comment sign: " + clip(u.Show(str1), 100)
				nCut := 0
				for leaf, cond := range u.Leaves(str1) {
					switch {
					case leaf == text:
					case leaf.Op == "slice" && leaf.Args[0] == text && leaf.Args[1] == nil && leaf.Args[2] != nil:
						nCut++
						var ix *E
						u.Mentions(leaf.Args[2], func(x *E) bool {
							if x.Op == "call" && (x.Aux == "strings.IndexByte" || x.Aux == "strings.Index" || x.Aux == "strings.IndexRune") {
								ix = x
								return true
							}
							return false
						})
						switch {
						case ix == nil || ix.Args[0] != text:
							bad = "the cut end is not derived from the index of the comment sign in the line"
						default:
							if d, ok := constDiff(u, ix, leaf.Args[2], ix); !ok || d != 0 {
								bad = fmt.Sprintf("the tokenised text is line[:i%+d] for i the index of '#': the character before the comment sign is dropped unless it is a blank ('0.0.0.0 example.org#note' yields 'example.or')", d)
							} else if sv, isS := ix.Args[1].StrVal(); !(isS && sv == "#") {
								if c0, isC := ix.Args[1].IntVal(); !(isC && c0 == '#') {
									bad = "the comment sign searched for is not '#'"
								}
							} else {
								for _, iv := range []int64{-1, 1, 7} {
									val, ok, _ := foldCond(u, cond, map[string]*E{ix.key: u.Int(iv)})
									if !ok || val != (iv >= 1) {
										bad = fmt.Sprintf("the comment is cut under the wrong condition (index %d: cut=%v)", iv, val)
									}
								}
							}
						}
					default:
						bad = "UNDECIDED: the text is rewritten by something that is not a prefix of the line: " + clip(u.Show(leaf), 80)
					}
				}
				if nCut == 0 {
					bad = "the comment is never stripped"
				}
			}
		}
		c.Check(bad == "", "C18.R1", "NewHostRule: comment cut is line[:index('#')]", nhr.Pos(), "slice of the original line ending exactly at the index of '#', taken iff the index is positive", bad)

		// R4: names
		// the activation the parsing happens in: the constructor itself, or a helper outside the
		// vocabulary that took its body over
		B := s
		if len(acts) > 0 && acts[0].Parent != nil {
			B = acts[0].Parent
		}
		loops := loopsOf(B.Fn)
		bad = ""
		// the appends that feed the Hostnames field (directly, or through a local list stored at
		// the end), as pseudo effects: condition, appended element, site
		type nameApp struct {
			Cond Ref
			Val  *E // append<elems>(...)
			Ins  ssa.Instruction
		}
		var inLoop, bare *nameApp
		for i := range s.Effects {
			ef := &s.Effects[i]
			if !(ef.Kind == "store" && ef.Addr.Op == "faddr" && ef.Addr.Aux == "Hostnames") {
				continue
			}
			st, ok := ef.Ins.(*ssa.Store)
			if !ok || ef.Act == nil {
				continue
			}
			ems, bases := traceAppends(g, AV{ef.Act, st.Val})
			// a one-element literal []string{x} is a list holding x
			for _, b := range bases {
				sl, isSl := b.V.(*ssa.Slice)
				if !isSl || b.Act != B {
					continue
				}
				al, isAl := sl.X.(*ssa.Alloc)
				if !isAl || al.Referrers() == nil {
					continue
				}
				if at, isArr := deref(al.Type()).Underlying().(*types.Array); !isArr || at.Len() != 1 {
					continue
				}
				for _, r := range *al.Referrers() {
					ia, isIA := r.(*ssa.IndexAddr)
					if !isIA || ia.Referrers() == nil {
						continue
					}
					for _, r2 := range *ia.Referrers() {
						if stEl, isSt := r2.(*ssa.Store); isSt && stEl.Addr == ssa.Value(ia) {
							if el := B.Env[stEl.Val]; el != nil && innermostLoop(loops, sl.Block()) == nil {
								bare = &nameApp{Cond: B.RCAt(sl), Val: u.mk("append", "elems", sl.Type(), u.mk("nil", "", sl.Type()), el), Ins: sl}
							}
						}
					}
				}
			}
			for _, em := range ems {
				if len(em.Elems) != 1 || em.Act != B {
					continue
				}
				na := &nameApp{Cond: em.RC, Val: em.Act.Env[em.Call], Ins: em.Call}
				if innermostLoop(loops, em.Call.Block()) != nil {
					inLoop = na
				} else {
					bare = na
				}
			}
		}
		if inLoop == nil {
			bad = "names after the address are not appended in a loop"
		} else {
			l := innermostLoop(loops, inLoop.Ins.Block())
			el := inLoop.Val.Args[len(inLoop.Val.Args)-1]
			cont := contCond(u, B, l)
			// cont must be: remainder != "", body unconditional, element = the token of the tokenizer
			// activation in this loop, which scans the remainder
			var actLoop *Summary
			for _, sub := range acts {
				if sub.Site != nil && l.Blocks[sub.Site.Block()] {
					actLoop = sub
				}
			}
			okEl := actLoop != nil && el == token(actLoop)
			if os.Getenv("UFCHECK_DEBUG_C18") != "" && actLoop != nil {
				fmt.Println("R4 el   :", clip(u.Show(el), 700))
				fmt.Println("R4 token:", clip(u.Show(token(actLoop)), 700))
			}
			if actLoop != nil && !okEl {
				// the same selection, folded differently at the call site
				tk := u.Specialize(token(actLoop), inLoop.Cond)
				okEl = el == tk
				if !okEl {
					okEl, _ = semEqual(u, u.Specialize(el, inLoop.Cond), tk)
				}
			}
			// the scans inside the tokenizer terminate: their control atoms are projected away
			bodyCond := inLoop.Cond
			for _, sub := range g.Subs {
				if sub.Loops == 0 {
					continue
				}
				// the block, in the parsing activation, of the call this activation descends from
				var blk *ssa.BasicBlock
				for x := sub; x != nil; x = x.Parent {
					if x.Parent == B && x.Site != nil {
						blk = x.Site.Block()
					}
				}
				if blk == nil || !l.Blocks[blk] {
					continue
				}
				for _, l2 := range loopsOf(sub.Fn) {
					for _, v := range u.bdd.Support(contCond(u, sub, l2)) {
						bodyCond = u.bdd.Exists(bodyCond, v)
					}
				}
			}
			okBody := bodyCond == u.bdd.And(B.RC[l.Header], cont)
			okExit := onlyExhaustionExit(l)
			okCont := false
			if actLoop != nil && scanned(actLoop) != nil {
				okCont = cont == u.bdd.Not(u.ToBool(u.Eq(u.Len(scanned(actLoop)), u.Int(0))))
			}
			if !(okEl && okBody && okExit && okCont) {
				bad = fmt.Sprintf("not every remaining token becomes a name (element is the next token=%v, appended in every iteration=%v, loop runs until the remainder is empty=%v, no early exit=%v)", okEl, okBody, okCont, okExit)
			}
		}
		c.Check(bad == "", "C18.R4", "NewHostRule: every token after the address becomes a name", nhr.Pos(), "loop until the remainder is empty, one append of the next token per iteration", bad)
		bad = ""
		if bare == nil {
			bad = "the bare-domain form appends no name"
		} else {
			el := bare.Val.Args[len(bare.Val.Args)-1]
			var first *E
			if len(acts) > 0 {
				first = token(acts[0])
			}
			var isDom Ref = False
			for _, at := range u.AtomsOf(bare.Cond) {
				if at.Op == "call" && at.Aux == calleeName(idn) && at.Args[0] == el {
					isDom = u.Atom(at)
				}
			}
			okIP := false
			for _, ef := range s.Effects {
				if ef.Kind == "store" && ef.Addr.Op == "faddr" && ef.Addr.Aux == "IP" && u.bdd.And(ef.Cond, bare.Cond) != False {
					// the address stored for this form (stored on the spot, or kept in a local until the rule is built)
					v := u.Specialize(ef.Val, bare.Cond)
					if v.Op == "call" && v.Aux == "net/netip.IPv4Unspecified" {
						okIP = true
					}
				}
			}
			if el != first || isDom == False || !u.bdd.Implies(bare.Cond, isDom) || !okIP {
				bad = fmt.Sprintf("bare form: name is the first token=%v, on the true edge of the domain-name test=%v, address set to the unspecified IPv4=%v", el == first, isDom != False && u.bdd.Implies(bare.Cond, isDom), okIP)
			}
		}
		c.Check(bad == "", "C18.R4", "NewHostRule: bare domain => that name with the unspecified IPv4 address", nhr.Pos(), "guarded by IsDomainName(first token)", bad)

		// R10: in the address form the line is rejected exactly when the first token does not parse
		// as an address (whatever netip.ParseAddr accepts is an address: IPv4, IPv6, zoned IPv6)
		c.Rule("C18.R10", "PDT", "address form: rejected iff netip.ParseAddr fails on the first token; the stored address is the parsed one", 2)
		bad = ""
		if len(acts) == 0 {
			bad = "UNDECIDED: the tokenizer is never called"
		} else {
			first := token(acts[0])
			var perrNil Ref = False
			for _, at := range u.atoms {
				if at.Op == "eq" && at.Args[1].IsNil() && at.Args[0].Op == "extract" && at.Args[0].Aux == "1" && at.Args[0].Args[0].Op == "call" &&
					at.Args[0].Args[0].Aux == "net/netip.ParseAddr" && at.Args[0].Args[0].Args[0] == first {
					perrNil = u.Atom(at)
				}
			}
			// the remainder after the first token decides the form
			var rem1 *E
			if tok.Signature.Results().Len() == 2 {
				rem1 = g.RetExpr(acts[0], 1)
			} else {
				for _, ef := range acts[0].Effects {
					if ef.Kind == "store" && ef.Addr == acts[0].Env[tok.Params[0]] {
						rem1 = ef.Val
					}
				}
			}
			reject := False
			for _, r := range s.Rets {
				if len(r.Vals) == 2 && r.Vals[0].IsNil() {
					reject = u.bdd.Or(reject, r.Cond)
				}
			}
			// the scans of the tokenizer and the name loop terminate
			proj := func(f Ref) Ref {
				for _, sub := range append([]*Summary{s}, g.Subs...) {
					for _, l2 := range loopsOf(sub.Fn) {
						for _, v := range u.bdd.Support(contCond(u, sub, l2)) {
							f = u.bdd.Exists(f, v)
						}
					}
				}
				return f
			}
			switch {
			case perrNil == False:
				bad = "the first token of the address form is not parsed with netip.ParseAddr"
			case rem1 == nil:
				bad = "UNDECIDED: the remainder after the first token is not evaluated"
			default:
				addrForm := u.bdd.Not(u.ToBool(u.Eq(u.Len(rem1), u.Int(0))))
				got := proj(u.bdd.And(reject, addrForm))
				want := proj(u.bdd.And(addrForm, u.bdd.Not(perrNil)))
				if got != want {
					bad = "a line \"<address> <names...>\" is not rejected exactly when netip.ParseAddr fails on the address: differs when " + clip(u.ShowBool(u.bdd.Xor(got, want)), 200) + " (e.g. a zoned IPv6 address such as fe80::1%lo0 is a valid address)"
				}
			}
		}
		c.Check(bad == "", "C18.R10", "NewHostRule: address form rejected iff the address does not parse", nhr.Pos(), "error return condition equals ParseAddr(first token) failing", bad)
		// ... and the address of the rule is the parsed address itself (or the unspecified IPv4 of the bare form)
		{
			badIP := ""
			nIP := 0
			for _, ef := range s.Effects {
				if ef.Kind != "store" || ef.Addr.Op != "faddr" || ef.Addr.Aux != "IP" || ef.Cond == False {
					continue
				}
				for leaf, lc := range u.Leaves(ef.Val) {
					if u.bdd.And(lc, ef.Cond) == False {
						continue
					}
					nIP++
					x := leaf
					if x.Op == "extract" && len(x.Args) == 1 && x.Aux == "0" {
						x = x.Args[0]
					}
					okv := x.Op == "call" && (x.Aux == "net/netip.ParseAddr" || x.Aux == "net/netip.IPv4Unspecified" || x.Aux == "net/netip.MustParseAddr")
					if x.Op == "zero" || x.Op == "struct" {
						okv = true // the zero address of a rule that is then rejected
					}
					if !okv && badIP == "" {
						badIP = c.P.Pos(ef.Pos) + ": the rule's address is " + clip(u.Show(leaf), 100) + ", not the address parsed from the line: a transformed address (Unmap, WithZone, ...) changes the family the rule is filed and answered under"
					}
				}
			}
			if nIP == 0 {
				badIP = "UNDECIDED: no store to HostRule.IP found"
			}
			c.Check(badIP == "", "C18.R10", "NewHostRule: HostRule.IP is the parsed address", nhr.Pos(), fmt.Sprintf("%d stored value(s): netip.ParseAddr(first token) or netip.IPv4Unspecified()", nIP), badIP)
		}
	}

	// ---------- R2 / R3 tokenizer ----------
	{
		g := NewGate(c.P)
		g.Inline = inlineOnly()
		s := g.Eval(tok)
		u := g.U
		p := g.ParamExprs(tok)[0]
		_, byPointer := tok.Params[0].Type().Underlying().(*types.Pointer)
		str := p // the remainder is passed and returned by value
		if byPointer {
			str = u.mk("load", "", types.Typ[types.String], p)
			// the string is *ps loaded once
			for _, in := range tok.Blocks[0].Instrs {
				if ld, ok := in.(*ssa.UnOp); ok && s.Env[ld] != nil && s.Env[ld].Typ != nil && isStringT(s.Env[ld].Typ) {
					str = s.Env[ld]
					break
				}
			}
		}
		type scan struct {
			l   *Loop
			ct  *Counted
			act *Summary
		}
		var scans []scan
		for _, li := range loopInsts(g, s) {
			if ct := countedLoop(u, li.Act, li.L); ct != nil {
				scans = append(scans, scan{li.L, ct, li.Act})
			}
		}
		libraryForm := len(scans) == 0
		if libraryForm {
			var rem0 *E
			if byPointer {
				for _, ef := range s.Effects {
					if ef.Kind == "store" && ef.Addr == p {
						rem0 = ef.Val
					}
				}
			} else if tok.Signature.Results().Len() == 2 {
				rem0 = g.RetExpr(s, 1)
			}
			checkLibraryTokenizer(c, u, tok, str, g.RetExpr(s, 0), rem0)
		}
		blank := func(b int64) bool { return b == ' ' || b == '\t' }
		// order the scans by their init chain
		byIdx := map[*E]scan{}
		for _, sc := range scans {
			byIdx[sc.ct.Idx] = sc
		}
		var chain []scan
		for _, sc := range scans {
			if v, ok := sc.ct.Init.IntVal(); ok && v == 0 {
				chain = append(chain, sc)
			}
		}
		for len(chain) > 0 && len(chain) < len(scans) {
			last := chain[len(chain)-1]
			found := false
			for _, sc := range scans {
				if sc.ct.Init == last.ct.Idx {
					chain = append(chain, sc)
					found = true
				}
			}
			if !found {
				break
			}
		}
		res := g.RetExpr(s, 0)
		var rem *E
		if byPointer {
			for _, ef := range s.Effects {
				if ef.Kind == "store" && ef.Addr == p {
					rem = ef.Val
				}
			}
		} else if tok.Signature.Results().Len() == 2 {
			rem = g.RetExpr(s, 1)
		}
		wantStay := []bool{true, false, true} // blanks, non-blanks, blanks
		names := []string{"skip leading blanks", "take the token", "skip blanks after the token"}
		nScansNeeded := 3
		trimIdiom := false
		if rem != nil && rem.Op == "call" && rem.Aux == "strings.TrimLeft" {
			trimIdiom = true
			nScansNeeded = 2
		}
		if len(chain) < nScansNeeded && !libraryForm {
			c.Fail("C18.R2", shortFn(tok)+": scans", tok.Pos(), fmt.Sprintf("UNDECIDED: expected %d chained counted scans starting at 0, found %d", nScansNeeded, len(chain)))
		}
		for i, sc := range chain {
			if i >= 3 {
				break
			}
			key := fmt.Sprintf("%s: scan %d (%s) agrees with the blank set", shortFn(tok), i+1, names[i])
			bad := ""
			if !sc.ct.StepOK || sc.ct.Step != 1 {
				bad = "the scan does not advance byte by byte"
			}
			// bound: cont == i < len(s)
			if sc.ct.Cont != u.ToBool(u.Lt(sc.ct.Idx, u.Len(str))) {
				bad = "the scan is not bounded by i < len(s): " + clip(u.ShowBool(sc.ct.Cont), 100)
			}
			// stay condition: OR of latch reach conditions
			stay := False
			for _, lt := range sc.l.Latches {
				stay = u.bdd.Or(stay, sc.act.RC[lt])
			}
			ch := u.mk("index", "", types.Typ[types.Uint8], str, sc.ct.Idx)
			for b := int64(0); b < 256 && bad == ""; b++ {
				sub := map[string]*E{ch.key: u.ConstVal(constantInt(b), types.Typ[types.Uint8])}
				for _, at := range u.AtomsOf(sc.ct.Cont) {
					sub[at.key] = u.Bool(True)
				}
				// outer scans have terminated; this scan's header is reached
				r := u.SubstBool(stay, sub)
				for _, at := range u.AtomsOf(r) {
					// control atoms of earlier scans: existentially irrelevant; fix them so that the header is reachable
					r = u.bdd.Exists(r, u.atomIx[at.key])
				}
				c.Paths++
				if r != True && r != False {
					bad = "UNDECIDED: stay condition does not fold for byte " + fmt.Sprint(b)
				} else if (r == True) != (blank(b) == wantStay[i]) {
					bad = fmt.Sprintf("for byte %q the scan %s, but the documented blank set is {space, tab}: e.g. a tab before the comment sign leaves an empty name or turns the line into a network rule", rune(b), map[bool]string{true: "continues", false: "stops"}[r == True])
				}
			}
			c.Check(bad == "", "C18.R2", key, sc.l.Header.Instrs[0].Pos(), "stay-condition evaluated on all 256 byte values", bad)
		}
		if trimIdiom && !libraryForm {
			cut, _ := rem.Args[1].StrVal()
			set := map[rune]bool{}
			for _, r := range cut {
				set[r] = true
			}
			okSet := len(set) == 2 && set[' '] && set['\t']
			c.Check(okSet, "C18.R2", shortFn(tok)+": scan 3 (skip blanks after the token) agrees with the blank set", tok.Pos(), "TrimLeft cutset is exactly {space, tab}",
				fmt.Sprintf("the blanks after a token are trimmed with cutset %q, but the other scans treat {space, tab} as blank: a tab after the last name leaves an empty name", cut))
		}
		// R3
		if len(chain) >= 2 {
			i1, i2 := chain[0].ct.Idx, chain[1].ct.Idx
			okTok := res != nil && res.Op == "slice" && res.Args[0] == str && res.Args[1] == i1 && res.Args[2] == i2
			c.Check(okTok, "C18.R3", shortFn(tok)+": token = s[end of blanks : end of non-blanks]", tok.Pos(), "slice bounds are the exit values of scans 1 and 2", "the returned token is "+clip(u.Show(res), 100))
			okRem := false
			if rem != nil {
				if trimIdiom {
					okRem = rem.Args[0].Op == "slice" && rem.Args[0].Args[0] == str && rem.Args[0].Args[1] == i2 && rem.Args[0].Args[2] == nil
				} else if len(chain) >= 3 {
					okRem = rem.Op == "slice" && rem.Args[0] == str && rem.Args[1] == chain[2].ct.Idx && rem.Args[2] == nil
				}
			}
			c.Check(okRem, "C18.R3", shortFn(tok)+": remainder = s[end of the following blanks:]", tok.Pos(), "stored back through the pointer", "the remainder stored back is "+clip(u.Show(rem), 100))
		}
	}

	// ---------- R5 ----------
	{
		g := NewGate(c.P)
		g.Inline = inlineOnly()
		g.Search = true
		s := g.Eval(hm)
		u := g.U
		ps := g.ParamExprs(hm)
		names := u.Field(ps[0], "Hostnames", nil)
		bad := ""
		// canonical search form: the result is exists(names, name == query)
		res := g.RetExpr(s, 0)
		if !isBoolE(res) {
			bad = "UNDECIDED: non-boolean result"
		} else {
			ex := u.mk("exists", "", types.Typ[types.Bool], names, u.Eq(u.BVar(0, types.Typ[types.String]), ps[1]))
			extra, missed := sameAsExists(u, u.ToBool(res), ex)
			switch {
			case extra:
				bad = "Match can return true without the query being equal to one of the rule's names"
			case missed:
				bad = "no complete scan of the names returning true on an equal name (a listed name can be missed)"
			}
		}
		c.Check(bad == "", "C18.R5", "HostRule.Match: true iff some name equals the query", hm.Pos(), "true only under name == query; complete scan returns true on equality", bad)
	}

	// ---------- R6 ----------
	{
		g := NewGate(c.P)
		g.Inline = inlineOnly()
		s := g.Eval(nr)
		u := g.U
		var cosm, host, netw *Effect
		for i := range s.Effects {
			ef := &s.Effects[i]
			if ef.Kind != "call" {
				continue
			}
			switch ef.Call.Aux {
			case calleeName(ncr):
				cosm = ef
			case calleeName(nhr):
				host = ef
			case calleeName(nnr):
				netw = ef
			}
		}
		// a constructor whose body runs in place (through a helper outside the vocabulary) shows as the
		// store of the rule text into a fresh rule of its type
		inPlace := func(typ string) *Effect {
			for i := range s.Effects {
				ef := &s.Effects[i]
				if ef.Kind != "store" || ef.Addr.Op != "faddr" || ef.Addr.Aux != "RuleText" || !(ef.Addr.Args[0].Op == "alloc" || ef.Addr.Args[0].Op == "new") {
					continue
				}
				pt, ok := ef.Addr.Args[0].Typ.(*types.Pointer)
				if !ok {
					continue
				}
				nt, ok := pt.Elem().(*types.Named)
				if !ok || nt.Obj().Name() != typ {
					continue
				}
				var id *E
				for _, e2 := range s.Effects {
					if e2.Kind == "store" && e2.Addr.Op == "faddr" && e2.Addr.Aux == "FilterListID" && e2.Addr.Args[0] == ef.Addr.Args[0] {
						id = e2.Val
					}
				}
				if id == nil {
					continue
				}
				return &Effect{Kind: "call", Cond: ef.Cond, Pos: ef.Pos, Call: u.mk("call", "in place:New"+typ, nil, ef.Val, id)}
			}
			return nil
		}
		if cosm == nil {
			cosm = inPlace("CosmeticRule")
		}
		if host == nil {
			host = inPlace("HostRule")
		}
		if netw == nil {
			netw = inPlace("NetworkRule")
		}
		bad := ""
		if cosm == nil || host == nil || netw == nil {
			bad = "UNDECIDED: NewRule does not call all three constructors"
		} else if strings.HasPrefix(host.Call.Aux, "in place:") {
			bad = "UNDECIDED: the hosts constructor runs in place; its error result is not a value of NewRule"
		} else {
			hostErr := u.mk("extract", "1", nil, host.Call)
			failed := u.bdd.Not(u.ToBool(u.Eq(hostErr, u.mk("nil", "", nil))))
			switch {
			case u.bdd.And(cosm.Cond, host.Cond) != False:
				bad = "cosmetic and hosts syntax are not exclusive"
			case !u.bdd.Implies(netw.Cond, u.bdd.And(host.Cond, failed)):
				bad = "network syntax is tried although the line parsed as a hosts line (or before hosts syntax was tried)"
			case !u.bdd.Implies(u.bdd.And(host.Cond, failed), netw.Cond):
				bad = "a line that is not a hosts line is not offered to the network parser"
			}
			// all three get the same (trimmed) line and the list id
			if bad == "" && !(cosm.Call.Args[0] == host.Call.Args[0] && host.Call.Args[0] == netw.Call.Args[0] && cosm.Call.Args[1] == host.Call.Args[1] && host.Call.Args[1] == netw.Call.Args[1]) {
				bad = "the three constructors do not receive the same text and list id"
			}
		}
		c.Check(bad == "", "C18.R6", "NewRule: cosmetic, then hosts, then network syntax", nr.Pos(), "hosts syntax tried before network syntax; network only when hosts parsing failed", bad)
		// blank-before-marker exemption
		fcm := c.P.Func("rules", "findCosmeticRuleMarker")
		if fcm == nil {
			c.Fail("C18.R6", "anchor:findCosmeticRuleMarker", 0, "unresolved anchor")
		} else {
			c.Fn(FuncName(fcm))
			g2 := NewGate(c.P)
			g2.Inline = inlineOnly()
			s2 := g2.Eval(fcm)
			u2 := g2.U
			bad := ""
			found := false
			for _, r := range s2.Rets {
				if v, ok := r.Vals[0].IntVal(); ok && v == -1 {
					continue
				}
				// a positive result: must imply !(startIndex > 0 && text[startIndex-1] == ' ')
				idx := r.Vals[0]
				prev := u2.mk("index", "", types.Typ[types.Uint8], g2.ParamExprs(fcm)[0], u2.Bin(binTokens["-"], idx, u2.Int(1), types.Typ[types.Int]))
				isSp := u2.ToBool(u2.Eq(prev, u2.ConstVal(constantInt(' '), types.Typ[types.Uint8])))
				isTab := u2.ToBool(u2.Eq(prev, u2.ConstVal(constantInt('\t'), types.Typ[types.Uint8])))
				pos := u2.ToBool(u2.Lt(u2.Int(0), idx))
				found = true
				if u2.bdd.And(r.Cond, u2.bdd.And(pos, isSp)) != False {
					bad = "a marker preceded by a blank is accepted as cosmetic: '0.0.0.0 host  ## comment' would no longer be a hosts line"
				} else if u2.bdd.And(r.Cond, u2.bdd.And(pos, isTab)) != False {
					// the blanks of a hosts file are the space and the tab (the tokenizer's set, R2/R3)
					bad = "a marker preceded by a tab is accepted as cosmetic: '0.0.0.0 host<TAB>## comment' is rejected as a broken element-hiding rule and its names are lost"
				}
				// only the FIRST occurrence of a marker character can start a marker: a later '#' is a
				// hosts-file comment (### section, # see ##2), not cosmetic syntax
				for leaf, lc := range u2.Leaves(idx) {
					if u2.bdd.And(lc, r.Cond) == False {
						continue
					}
					if !(leaf.Op == "call" && (leaf.Aux == "strings.Index" || leaf.Aux == "strings.IndexByte" || leaf.Aux == "strings.IndexRune") && len(leaf.Args) == 2 && leaf.Args[0] == g2.ParamExprs(fcm)[0]) && bad == "" {
						bad = "the returned position is " + clip(u2.Show(leaf), 80) + ", not the first occurrence of a marker character in the line: a later '#' or '$' of a hosts-file comment is taken for a cosmetic marker and the line is dropped"
					}
					// nothing behind the comment sign is a marker: the part of the line in front of an accepted
					// marker holds no '#'.  That is so when the marker character is '#' itself (first occurrence),
					// and has to be tested for every other marker character ('$' of the HTML-filtering markers).
					if bad == "" && leaf.Op == "call" && len(leaf.Args) == 2 {
						text := g2.ParamExprs(fcm)[0]
						hashB := u2.ConstVal(constantInt('#'), types.Typ[types.Uint8])
						free := False
						if leaf.Args[1] == hashB || leaf.Args[1] == u2.Str("#") || leaf.Args[1] == u2.ConstVal(constantInt('#'), types.Typ[types.Int32]) {
							free = True
						} else {
							intT := types.Typ[types.Int]
							notFound := func(x *E) Ref {
								return u2.bdd.Or(u2.ToBool(u2.Eq(x, u2.Int(-1))), u2.ToBool(u2.Lt(x, u2.Int(0))))
							}
							free = u2.bdd.Or(free, u2.ToBool(u2.Eq(leaf.Args[1], hashB)))
							for _, head := range []*E{u2.Slice(text, nil, leaf, nil, text.Typ), u2.Slice(text, u2.Int(0), leaf, nil, text.Typ)} {
								free = u2.bdd.Or(free, notFound(u2.mk("call", "strings.IndexByte", intT, head, hashB)))
								free = u2.bdd.Or(free, notFound(u2.mk("call", "strings.Index", intT, head, u2.Str("#"))))
								free = u2.bdd.Or(free, notFound(u2.mk("call", "strings.IndexRune", intT, head, u2.ConstVal(constantInt('#'), types.Typ[types.Int32]))))
								free = u2.bdd.Or(free, u2.bdd.Not(u2.ToBool(u2.mk("call", "strings.Contains", types.Typ[types.Bool], head, u2.Str("#")))))
								free = u2.bdd.Or(free, u2.bdd.Not(u2.ToBool(u2.mk("call", "strings.ContainsRune", types.Typ[types.Bool], head, u2.ConstVal(constantInt('#'), types.Typ[types.Int32])))))
							}
							for _, first := range []*E{u2.mk("call", "strings.IndexByte", intT, text, hashB), u2.mk("call", "strings.Index", intT, text, u2.Str("#")), u2.mk("call", "strings.IndexRune", intT, text, u2.ConstVal(constantInt('#'), types.Typ[types.Int32]))} {
								free = u2.bdd.Or(free, notFound(first))
								free = u2.bdd.Or(free, u2.bdd.Not(u2.ToBool(u2.Lt(first, leaf))))
								free = u2.bdd.Or(free, u2.ToBool(u2.Lt(leaf, first)))
							}
						}
						if !u2.bdd.Implies(u2.bdd.And(lc, r.Cond), free) {
							bad = "a marker is accepted although a '#' stands in front of it: in '0.0.0.0 host # a$$b' the text of the hosts-file comment is taken for an HTML-filtering marker, the line is rejected as a broken cosmetic rule and its names are lost"
						}
					}
				}
			}
			if !found {
				bad = "UNDECIDED: no positive return"
			}
			c.Check(bad == "", "C18.R6", "findCosmeticRuleMarker: a marker preceded by a blank is not cosmetic syntax", fcm.Pos(), "every positive return excludes a space or a tab at text[i-1] for i > 0 and is the first occurrence of the marker character", bad)
		}
	}

	importRules(c, runC11, map[string]string{"C11.R4": "C18.R8"}, map[string]string{"C18.R8": "a hosts line is retrieved from a file-backed list exactly as it was scanned (shared with C11.R4)"})
	importRules(c, runC11, map[string]string{"C11.R2": "C18.R8"}, nil)
	importRules(c, runC12, map[string]string{"C12.R7": "C18.R8"}, nil)
	importRules(c, runC02, map[string]string{"C02.R4": "C18.R9", "C02.R2": "C18.R9", "C02.R1": "C18.R9"}, map[string]string{"C18.R9": "the DNS engine keys every name and reports a host rule under the family of its own address (shared with C02.R2/R4)"})

	// ---------- R7 ----------
	rhr := c.P.Method("filterlist", "RuleStorage", "RetrieveHostRule")
	n := 0
	for _, fn := range c.P.AllLibFuncs() {
		if rhr != nil && len(callsTo(fn, rhr)) > 0 {
			n += guardedBy(c, "C18.R7", fn, hm, stringParamIndex(fn), "hostname")
		}
	}
	if n == 0 {
		c.Fail("C18.R7", "DNS host table probe", 0, "UNDECIDED: no emission found")
	}
	_ = strings.TrimSpace
}

// tokenizerRole: the callee of the hosts-line parser that splits off the next
// field: one parameter (*string: remainder written back; or string: remainder
// returned as second result), string result(s), at least two scanning loops.
func tokenizerRole(p *Prog, nhr *ssa.Function) *ssa.Function {
	var tok *ssa.Function
	eachInstrG(p, nhr, func(_ *ssa.BasicBlock, in ssa.Instruction) {
		ci, ok := in.(ssa.CallInstruction)
		if !ok {
			return
		}
		cal := ci.Common().StaticCallee()
		if cal == nil || !p.IsLibFunc(cal) || cal.Signature.Recv() != nil || cal.Signature.Params().Len() != 1 {
			return
		}
		pt := typeStr(cal.Signature.Params().At(0).Type())
		res := cal.Signature.Results()
		okSig := (pt == "*string" && res.Len() == 1 && typeStr(res.At(0).Type()) == "string") ||
			(pt == "string" && res.Len() == 2 && typeStr(res.At(0).Type()) == "string" && typeStr(res.At(1).Type()) == "string")
		if !okSig {
			return
		}
		nLoops := 0
		for gf := range helperGroup(p, cal) {
			nLoops += len(loopsOf(gf))
		}
		if nLoops >= 2 {
			tok = cal
		}
		// the same three scans written with the standard library: TrimLeft, IndexAny, TrimLeft
		if nLoops == 0 && len(callsByName(p, cal, "strings.TrimLeft")) >= 1 && len(callsByName(p, cal, "strings.IndexAny"))+len(callsByName(p, cal, "strings.IndexFunc")) >= 1 {
			tok = cal
		}
	})
	return tok
}

// tokScanned: the string a tokenizer activation scans: its string parameter,
// or what its *string parameter points at on entry.
func tokScanned(sub *Summary) *E {
	if sub == nil || len(sub.Fn.Params) == 0 {
		return nil
	}
	p := sub.Fn.Params[0]
	if _, isPtr := p.Type().Underlying().(*types.Pointer); !isPtr {
		return sub.Env[p]
	}
	for _, in := range sub.Fn.Blocks[0].Instrs {
		if ld, ok := in.(*ssa.UnOp); ok && ld.X == ssa.Value(p) {
			return sub.Env[ld]
		}
	}
	return nil
}

// callsByName: the static calls of a function with the given name in fn and its helper group.
func callsByName(p *Prog, fn *ssa.Function, name string) []ssa.Instruction {
	var out []ssa.Instruction
	eachInstrG(p, fn, func(_ *ssa.BasicBlock, in ssa.Instruction) {
		if ci, ok := in.(ssa.CallInstruction); ok {
			if cal := ci.Common().StaticCallee(); cal != nil && calleeName(cal) == name {
				out = append(out, in)
			}
		}
	})
	return out
}

// checkLibraryTokenizer is C18.R2/R3 for a tokenizer written with the standard library:
//
//	t := strings.TrimLeft(s, blanks); end := strings.IndexAny(t, blanks)
//	end < 0: token = t, remainder = ""        else: token = t[:end], remainder = strings.TrimLeft(t[end:], blanks)
//
// R2: the three constant sets are exactly {space, tab}.  R3: token and remainder have that form.
func checkLibraryTokenizer(c *Ctx, u *U, tok *ssa.Function, str, res, rem *E) {
	blanks := func(e *E) (string, bool) {
		sv, ok := e.StrVal()
		if !ok {
			return "", false
		}
		set := map[rune]bool{}
		for _, r := range sv {
			set[r] = true
		}
		return sv, len(set) == 2 && set[' '] && set['\t']
	}
	isCall := func(e *E, name string) bool { return e != nil && e.Op == "call" && e.Aux == name && len(e.Args) == 2 }
	// the trimmed text and the end-of-token search
	var T, end *E
	for _, root := range []*E{res, rem} {
		if root == nil {
			continue
		}
		for _, x := range u.Collect(root, func(x *E) bool { return isCall(x, "strings.TrimLeft") && x.Args[0] == str }) {
			T = x
		}
	}
	if T != nil {
		for _, root := range []*E{res, rem} {
			if root == nil {
				continue
			}
			for _, x := range u.Collect(root, func(x *E) bool { return isCall(x, "strings.IndexAny") && x.Args[0] == T }) {
				end = x
			}
			for _, lc := range u.Leaves(root) {
				for _, at := range u.AtomsOf(lc) {
					for _, x := range u.Collect(at, func(x *E) bool { return isCall(x, "strings.IndexAny") && x.Args[0] == T }) {
						end = x
					}
				}
			}
		}
	}
	names := []string{"skip leading blanks", "take the token", "skip blanks after the token"}
	key := func(i int) string {
		return fmt.Sprintf("%s: scan %d (%s) agrees with the blank set", shortFn(tok), i+1, names[i])
	}
	if T == nil || end == nil {
		c.Fail("C18.R2", shortFn(tok)+": scans", tok.Pos(), "UNDECIDED: neither three counted scans nor strings.TrimLeft(s, set) followed by strings.IndexAny(trimmed, set)")
		return
	}
	cs1, ok1 := blanks(T.Args[1])
	c.Check(ok1, "C18.R2", key(0), tok.Pos(), "TrimLeft cutset is exactly {space, tab}", fmt.Sprintf("leading blanks are trimmed with the set %q, documented {space, tab}", cs1))
	cs2, ok2 := blanks(end.Args[1])
	c.Check(ok2, "C18.R2", key(1), tok.Pos(), "IndexAny set is exactly {space, tab}", fmt.Sprintf("the token ends at the first character of %q, documented {space, tab}: e.g. a tab before the comment sign leaves an empty name or turns the line into a network rule", cs2))
	notFound := u.ToBool(u.Lt(end, u.Int(0)))
	// token
	okTok := res != nil
	if res != nil {
		for leaf, lc := range u.Leaves(res) {
			switch {
			case lc == False:
			case leaf == T:
				okTok = okTok && u.bdd.Implies(lc, notFound)
			case leaf.Op == "slice" && leaf.Args[0] == T && (leaf.Args[1] == nil || isIntConst(leaf.Args[1], 0)) && leaf.Args[2] == end:
				okTok = okTok && u.bdd.Implies(lc, u.bdd.Not(notFound))
			default:
				okTok = false
			}
		}
	}
	c.Check(okTok, "C18.R3", shortFn(tok)+": token = s[end of blanks : end of non-blanks]", tok.Pos(), "trimmed[:IndexAny(trimmed, blanks)], or all of it when no blank follows", "the returned token is "+clip(u.Show(res), 120))
	// remainder
	okRem := rem != nil
	var cs3 string
	ok3 := false
	if rem != nil {
		for leaf, lc := range u.Leaves(rem) {
			sv, isS := leaf.StrVal()
			switch {
			case lc == False:
			case isS && sv == "":
				okRem = okRem && u.bdd.Implies(lc, notFound)
			case isCall(leaf, "strings.TrimLeft"):
				// TrimLeft(tail, blanks): tail = trimmed[end:] when a blank follows, the empty
				// trimmed[len(trimmed):] otherwise (possibly selected inside the call)
				for tl, tc := range u.Leaves(leaf.Args[0]) {
					cnd := u.bdd.And(lc, tc)
					switch {
					case cnd == False:
					case tl.Op == "slice" && tl.Args[0] == T && tl.Args[1] == end && tl.Args[2] == nil:
						okRem = okRem && u.bdd.Implies(cnd, u.bdd.Not(notFound))
					case tl.Op == "slice" && tl.Args[0] == T && tl.Args[1] == u.Len(T) && tl.Args[2] == nil:
						okRem = okRem && u.bdd.Implies(cnd, notFound)
					default:
						okRem = false
					}
				}
				cs3, ok3 = blanks(leaf.Args[1])
			default:
				okRem = false
			}
		}
	}
	c.Check(ok3, "C18.R2", key(2), tok.Pos(), "TrimLeft cutset is exactly {space, tab}",
		fmt.Sprintf("the blanks after a token are trimmed with cutset %q, but the other scans treat {space, tab} as blank: a tab after the last name leaves an empty name", cs3))
	c.Check(okRem, "C18.R3", shortFn(tok)+": remainder = s[end of the following blanks:]", tok.Pos(), "TrimLeft(trimmed[end:], blanks), or empty when no blank follows", "the remainder is "+clip(u.Show(rem), 120))
}
