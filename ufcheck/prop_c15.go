package main

// C15 — cosmetic engine returns exactly the applicable, non-excepted selectors.

import (
	"fmt"
	"go/token"
	"go/types"
	"sort"
	"strings"

	"golang.org/x/tools/go/ssa"
)

func init() {
	register(&PropDef{
		ID:  "C15",
		Run: runC15,
		Explanation: "Static decision of the structural clauses of C15. R1 (IDX): every rule whose content reaches the result is on the true edge of CosmeticRule.Match(rule, hostname) and on the false edge of the exception test " +
			"for the same hostname and rule. R2: the domain table is probed with the hostname and each of its parent domains (loop-carried strings.Cut idiom or a suffix enumerator), rules with a wildcard-TLD domain are kept in a list that is scanned completely, " +
			"and only rules without such a domain are exact-keyed, under every permitted domain. R3: nothing is emitted unless the CSS flag is set, generic rules only under the generic flag, and each selector is filed as generic/specific (ext/non-ext) by its rule. " +
			"R4: exceptions are stored and looked up under the rule content and count exactly when some exception with that content matches the hostname. R5: every element-hiding rule from the scanner reaches the table. R7/R8 import C04.R5 (the domain test the table is keyed for) and C12.R7 (whole-line scanning). Table roles pass to successor helpers. Emissions are traced through fields of a local accumulator object and through helper activations; an exception lookup behind an emptiness test of the map is the lookup.",
		Trusted: []string{"CosmeticRule.Match is the semantic predicate (its domain semantics are decided under C04's label-boundary rules for the shared helper)"},
	})
}

func runC15(c *Ctx) {
	c.Rule("C15.R1", "IDX", "emission guarded by CosmeticRule.Match(rule, hostname) and not isWhitelisted(hostname, rule)", 3)
	c.Rule("C15.R2", "IDX", "probe enumerates hostname and all parent domains; wildcard-TLD rules scanned, never exact-keyed; every permitted domain keyed", 3)
	c.Rule("C15.R3", "PDT", "flag gating and generic/specific filing", 2)
	c.Rule("C15.R4", "WIRE", "exceptions keyed and looked up by content; counted iff one matches the hostname", 2)
	c.Rule("C15.R5", "WIRE", "every element-hiding rule reaches the lookup table", 2)

	a := &anchors{c: c, rule: "C15.R1"}
	cem := a.method("", "CosmeticEngine", "Match")
	crm := a.method("rules", "CosmeticRule", "Match")
	nce := a.fn("", "NewCosmeticEngine")
	sra := a.method("", "StylesResult", "append")
	if a.bad {
		return
	}
	// roles: table type = element type of CosmeticEngine.lookupTables; its methods by signature
	var tblT *types.Named
	if ce := c.P.Type("", "CosmeticEngine"); ce != nil {
		st := ce.Underlying().(*types.Struct)
		for i := 0; i < st.NumFields(); i++ {
			if m, ok := st.Field(i).Type().Underlying().(*types.Map); ok {
				if p, ok := m.Elem().(*types.Pointer); ok {
					tblT, _ = p.Elem().(*types.Named)
				}
			}
		}
	}
	if tblT == nil {
		c.Fail("C15.R1", "anchor:cosmetic lookup table type", 0, "unresolved anchor")
		return
	}
	var find, isWL, tblAdd *ssa.Function
	ms := c.P.SSA.MethodSets.MethodSet(types.NewPointer(tblT))
	for i := 0; i < ms.Len(); i++ {
		fn := c.P.SSA.MethodValue(ms.At(i))
		if fn == nil || fn.Blocks == nil || c.P.IsNewHelper(fn) {
			continue // helpers outside the vocabulary never fill a role
		}
		sig := fn.Signature
		switch {
		case sig.Params().Len() == 1 && typeStr(sig.Params().At(0).Type()) == "string" && sig.Results().Len() == 1 && typeStr(sig.Results().At(0).Type()) == "[]*rules.CosmeticRule":
			find = fn
		case sig.Params().Len() == 2 && sig.Results().Len() == 1 && typeStr(sig.Results().At(0).Type()) == "bool":
			isWL = fn
		case sig.Params().Len() == 1 && typeStr(sig.Params().At(0).Type()) == "*rules.CosmeticRule" && sig.Results().Len() == 0:
			tblAdd = fn
		}
	}
	// a role whose function is gone passes to the one helper outside the vocabulary with that
	// signature among the functions the engine's query and the table's methods call
	if find == nil || isWL == nil || tblAdd == nil {
		var callers []*ssa.Function
		if cm := c.P.Method("", "CosmeticEngine", "Match"); cm != nil {
			callers = append(callers, cm)
		}
		if ca := c.P.Method("", "CosmeticEngine", "addRule"); ca != nil {
			callers = append(callers, ca)
		}
		for i := 0; i < ms.Len(); i++ {
			if fn := c.P.SSA.MethodValue(ms.At(i)); fn != nil && fn.Blocks != nil && !c.P.IsNewHelper(fn) {
				callers = append(callers, fn)
			}
		}
		// ... and the helpers outside the vocabulary these call (a combined "applies" helper that
		// in turn asks the exception test)
		for hf := range helperGroup(c.P, callers...) {
			known := false
			for _, cl := range callers {
				if cl == hf {
					known = true
				}
			}
			if !known && hf.Parent() == nil {
				callers = append(callers, hf)
			}
		}
		sort.Slice(callers, func(i, j int) bool { return callers[i].String() < callers[j].String() })
		var alsoFn func(cal *ssa.Function) bool
		adopt := func(fits func(sig *types.Signature) bool) *ssa.Function {
			var got *ssa.Function
			for _, cl := range callers {
				if r := c.P.ResolveRole(cl, func(cal *ssa.Function) bool {
					return c.P.IsNewHelper(cal) && fits(cal.Signature) && (alsoFn == nil || alsoFn(cal))
				}); r != nil {
					if got != nil && got != r {
						return nil
					}
					got = r
				}
			}
			return got
		}
		if find == nil {
			find = adopt(func(sig *types.Signature) bool {
				return sig.Params().Len() == 1 && typeStr(sig.Params().At(0).Type()) == "string" && sig.Results().Len() == 1 && typeStr(sig.Results().At(0).Type()) == "[]*rules.CosmeticRule"
			})
		}
		if isWL == nil {
			// (a helper that itself asks the rule handed to it whether it matches is the combined
			// "applies" test, not the exception test)
			alsoFn = func(cal *ssa.Function) bool {
				self := false
				eachInstr(cal, func(_ *ssa.BasicBlock, in ssa.Instruction) {
					if ci, ok := in.(ssa.CallInstruction); ok && ci.Common().StaticCallee() == crm && len(ci.Common().Args) > 0 {
						if _, isP := ci.Common().Args[0].(*ssa.Parameter); isP {
							self = true
						}
					}
				})
				return !self
			}
			isWL = adopt(func(sig *types.Signature) bool {
				if sig.Params().Len() != 2 || sig.Results().Len() != 1 || typeStr(sig.Results().At(0).Type()) != "bool" {
					return false
				}
				t0, t1 := typeStr(sig.Params().At(0).Type()), typeStr(sig.Params().At(1).Type())
				// (hostname, rule) in either order, or (hostname, content): the content is what the
				// exceptions are looked up by
				return (t0 == "string" && t1 == "*rules.CosmeticRule") || (t1 == "string" && t0 == "*rules.CosmeticRule") || (t0 == "string" && t1 == "string")
			})
		}
		alsoFn = nil
		if tblAdd == nil {
			tblAdd = adopt(func(sig *types.Signature) bool {
				return sig.Params().Len() == 1 && typeStr(sig.Params().At(0).Type()) == "*rules.CosmeticRule" && sig.Results().Len() == 0
			})
		}
	}
	if find == nil || isWL == nil || tblAdd == nil {
		c.Fail("C15.R1", "anchor:cosmetic table methods", 0, fmt.Sprintf("unresolved anchor by role (find=%v exception test=%v add=%v)", find != nil, isWL != nil, tblAdd != nil))
		return
	}
	c.Fn(FuncName(find), FuncName(isWL), FuncName(tblAdd))
	// which parameter of the exception test is the hostname, which the rule
	wlHost, wlRule := 1, 2
	if typeStr(isWL.Params[1].Type()) != "string" {
		wlHost, wlRule = 2, 1
	} else if typeStr(isWL.Params[2].Type()) == "string" {
		// two strings: the hostname is the one handed to CosmeticRule.Match
		g := NewGate(c.P)
		g.Inline = inlineOnly()
		g.Search = true
		g.Pure[FuncName(crm)] = true
		g.Eval(isWL)
		ps := g.ParamExprs(isWL)
		for _, e := range g.U.tab {
			if e.Op == "call" && e.Aux == calleeName(crm) && len(e.Args) >= 2 && e.Args[1] == ps[2] {
				wlHost, wlRule = 2, 1
			}
		}
	}

	guarded := func(u *U, s *Summary, rc Ref, el, host *E) (okM, okW bool) {
		for _, ef := range s.Effects {
			if ef.Kind != "call" {
				continue
			}
			if ef.Call.Aux == calleeName(crm) && len(ef.Call.Args) >= 2 && ef.Call.Args[0] == el && ef.Call.Args[1] == host && u.bdd.Implies(rc, u.ToBool(ef.Call)) {
				okM = true
			}
			if ef.Call.Aux == calleeName(isWL) && len(ef.Call.Args) >= 3 && ef.Call.Args[wlHost] == host && u.bdd.Implies(rc, u.bdd.Not(u.ToBool(ef.Call))) {
				// the test is handed the rule, or the content it is looked up by
				a := ef.Call.Args[wlRule]
				if a == el || (a.Op == "field" && a.Aux == "Content" && a.Args[0] == el) {
					okW = true
				}
			}
		}
		return
	}

	// ---------- R1: findByHostname ----------
	var findLoops []*Loop
	{
		g := NewGate(c.P)
		g.Inline = inlineOnly()
		s := g.Eval(find)
		u := g.U
		host := g.ParamExprs(find)[1]
		n := 0
		for _, em := range emissionsG(g, s, 0) {
			n++
			key := shortFn(find) + ": emitted rule applies to the hostname and is not excepted"
			if em.Elems == nil {
				c.Fail("C15.R1", key, em.Call.Pos(), "UNDECIDED: an append reaching the result is not an append of single elements")
				continue
			}
			for _, el := range em.Elems {
				okM, okW := guarded(u, s, em.RC, el, host)
				c.Check(okM && okW, "C15.R1", key, em.Call.Pos(), "reach condition implies Match(rule, hostname) and !isWhitelisted(hostname, rule)",
					fmt.Sprintf("a domain-specific rule can be returned without both checks on the queried hostname (Match(rule, hostname) on the path: %v; exception test for (hostname, rule) on the path: %v)", okM, okW))
			}
		}
		if n == 0 {
			c.Fail("C15.R1", shortFn(find)+": emission", find.Pos(), "UNDECIDED: no inspectable append")
		}
		findLoops = loopsOf(find)

		// ---------- R2: probe completeness ----------
		// (a) exact-key probe: loop-carried domain = hostname, then strings.Cut(domain, ".") tail, until empty; lookup in every iteration
		okProbe := ""
		foundProbe := false
		for _, li := range loopInsts(g, s) {
			l, act := li.L, li.Act
			for _, in := range l.Header.Instrs {
				ph, ok := in.(*ssa.Phi)
				if !ok || typeStr(ph.Type()) != "string" {
					continue
				}
				var init *E
				d := act.Env[ph]
				// the value carried into the next iteration, with "the loop is left early" read as
				// "the next value is empty" (for d != ""; ...; cut  ==  for { ...; if no dot {break}; d = d[dot+1:] })
				cont := contCond(u, act, l)
				body := u.bdd.And(act.RC[l.Header], cont)
				// loops nested in the probe loop terminate: their control atoms are projected away
				var innerCtl []int
				for _, l2 := range loopsOf(act.Fn) {
					if l2 != l && l.Blocks[l2.Header] {
						innerCtl = append(innerCtl, u.bdd.Support(contCond(u, act, l2))...)
					}
				}
				rel := func(c0 Ref) Ref {
					r := u.bdd.Restrict(c0, body)
					for _, v := range innerCtl {
						r = u.bdd.Exists(r, v)
					}
					return r
				}
				var effNext *E
				okShape := true
				for i, p := range l.Header.Preds {
					if l.Blocks[p] {
						v := act.Env[ph.Edges[i]]
						if v == nil {
							okShape = false
							continue
						}
						ec := rel(act.RC[p])
						if effNext == nil {
							effNext = v
						} else {
							effNext = u.ITE(ec, v, effNext)
						}
					} else {
						init = act.Env[ph.Edges[i]]
					}
				}
				if init != host || effNext == nil || d == nil || !okShape {
					continue
				}
				early := False
				lookupsBefore := true
				for _, ex := range l.Exits {
					if ex[0] != l.Header {
						early = u.bdd.Or(early, rel(edgeCondOf(u, act, ex[0], ex[1])))
					}
				}
				if early != False {
					effNext = u.ITE(early, u.Str(""), effNext)
				}
				foundProbe = true
				// next == extract#1(strings.Cut(d, "."))
				wantNext := u.LibCall("strings.Cut", nil, d, u.Str(".")).Args[1]
				okNext, _ := semEqual(u, effNext, wantNext)
				okCont := cont == u.bdd.Not(u.ToBool(u.Eq(d, u.Str(""))))
				// lookup byHostname[d] in every iteration (before any early exit)
				okLookup := false
				for b := range l.Blocks {
					for _, in2 := range b.Instrs {
						if lk, isLk := in2.(*ssa.Lookup); isLk && act.Env[lk.Index] == d {
							if act.RC[b] == body {
								okLookup = true
							}
						}
					}
				}
				// an early exit may only skip the cut, never a lookup or an emission: everything in
				// the iteration that has an effect must precede it, i.e. be reachable with the exit
				// condition still undecided; approximated by: the exit condition is the "no dot" test
				if early != False {
					noDot := u.ToBool(u.Lt(u.LibCall("strings.Index", types.Typ[types.Int], d, u.Str(".")), u.Int(0)))
					if early != noDot {
						lookupsBefore = false
					}
					for _, ex := range l.Exits {
						if ex[0] == l.Header {
							continue
						}
						// blocks of the iteration that come after the exit test must not emit
						for b := range l.Blocks {
							if b != ex[0] && ex[0].Dominates(b) {
								for _, in2 := range b.Instrs {
									switch in2.(type) {
									case *ssa.Lookup, *ssa.MapUpdate, *ssa.Store:
										lookupsBefore = false
									case *ssa.Call:
										lookupsBefore = false
									}
								}
							}
						}
					}
				}
				if !okNext || !okCont || !okLookup || !lookupsBefore {
					okProbe = fmt.Sprintf("the probe loop does not visit the hostname and every parent domain (next = tail after the first dot: %v; runs until empty: %v; table looked up in every iteration: %v; leaves early only when no dot is left: %v)", okNext, okCont, okLookup, lookupsBefore)
				}
			}
		}
		if !foundProbe {
			// alternative idiom: range over a suffix enumerator of the hostname
			for _, l := range findLoops {
				if ro := rangedOver(l); ro != nil && ro.Full {
					if ce := s.Env[ro.Coll]; ce != nil && ce.Op == "call" && len(ce.Args) >= 1 && ce.Args[0] == host {
						for _, cs := range callSites(find, func(cal *ssa.Function, _ *ssa.CallCommon) bool { return cal != nil && calleeName(cal) == ce.Aux }) {
							if cal := cs.Common().StaticCallee(); cal != nil && c.P.IsLibFunc(cal) {
								foundProbe = true
								checkSuffixEnumerator(c, "C15.R2", cal, nil)
							}
						}
					}
				}
			}
		}
		if !foundProbe {
			okProbe = "the domain table is probed with the exact hostname only (no loop over the hostname's parent domains): example.org##.banner is not applied on sub.example.org"
		}
		c.Check(okProbe == "", "C15.R2", shortFn(find)+": probes the hostname and every parent domain", find.Pos(), "loop-carried domain: hostname, then the part after each dot, until empty; one table lookup per iteration", okProbe)

		// (b) wildcard list scanned completely
		okWild := false
		for _, em := range emissionsG(g, s, 0) {
			act := em.Act
			if act == nil {
				act = s
			}
			// the loop the append runs in: its own, or the one around the call of the helper making it
			l, lact := loopAround(s, act, em.Call)
			if l == nil || em.Elems == nil {
				continue
			}
			ro := rangedOver(l)
			if ro == nil || !ro.Full || !onlyExhaustionExit(l) {
				continue
			}
			coll := lact.Env[ro.Coll]
			if coll != nil && coll.Op == "field" && coll.Args[0] == g.ParamExprs(find)[0] && em.Elems[0].Op == "index" && em.Elems[0].Args[0] == coll {
				c.Extra["wildcard_list_field"] = coll.Aux
				okWild = true
			}
		}
		c.Check(okWild, "C15.R2", shortFn(find)+": rules with a wildcard-TLD domain are scanned", find.Pos(), "complete scan of the table's wildcard list (guarded by R1)",
			"no complete scan of a list of wildcard-TLD rules: example.*##.x can never be returned because no hostname equals its key")
	}

	// ---------- R1: CosmeticEngine.Match emissions ----------
	var genericEm, specificEm []Ref
	var cssParam, genParam int = -1, -1
	{
		g := NewGate(c.P)
		g.Inline = inlineOnly()
		s := g.Eval(cem)
		u := g.U
		ps := g.ParamExprs(cem)
		host := ps[1]
		for _, ef := range s.Effects {
			if ef.Kind != "call" || ef.Call.Aux != calleeName(sra) {
				continue
			}
			el := ef.Call.Args[1]
			key := "CosmeticEngine.Match: emitted rule applies to the hostname and is not excepted"
			switch {
			case el.Op == "index" && el.Args[0].Op == "call" && el.Args[0].Aux == calleeName(find):
				specificEm = append(specificEm, ef.Cond)
				c.Check(el.Args[0].Args[1] == host, "C15.R1", key+" (domain-specific path)", ef.Pos, "elements of findByHostname(hostname), guarded inside it", "the domain table is queried with something other than the hostname")
			case el.Op == "index" && el.Args[0].Op == "field":
				genericEm = append(genericEm, ef.Cond)
				okM, okW := guarded(u, s, ef.Cond, el, host)
				c.Check(okM && okW, "C15.R1", key+" (generic path, list "+el.Args[0].Aux+")", ef.Pos, "reach condition implies Match(rule, hostname) and !isWhitelisted(hostname, rule)",
					fmt.Sprintf("a generic rule can be returned without both checks (Match on the path: %v — rules with only negated domains are generic, so ~example.org##.x would apply on example.org; exception test on the path: %v)", okM, okW))
			case el.Op == "index" && (el.Args[0].Op == "loopphi" || el.Args[0].Op == "loopval" || el.Args[0].Op == "append"):
				// elements of a list that a helper filtered out of the generic list first: every
				// contribution to that list is judged where it is appended
				var listV ssa.Value
				for _, sub := range append([]*Summary{s}, g.Subs...) {
					for v, e := range sub.Env {
						if e == el.Args[0] {
							if _, isPhi := v.(*ssa.Phi); isPhi || listV == nil {
								listV = v
								_ = sub
							}
						}
					}
				}
				okAll := listV != nil
				nEm := 0
				if listV != nil {
					for _, sub := range append([]*Summary{s}, g.Subs...) {
						if sub.Env[listV] != el.Args[0] {
							continue
						}
						ems, bases := traceAppends(g, AV{sub, listV})
						if len(bases) != 0 {
							okAll = false
						}
						for _, em := range ems {
							nEm++
							if len(em.Elems) != 1 || em.Elems[0].Op != "index" || em.Elems[0].Args[0].Op != "field" {
								okAll = false
								continue
							}
							okM, okW := guarded(u, s, em.RC, em.Elems[0], host)
							if !okM || !okW {
								okAll = false
							}
						}
						break
					}
				}
				genericEm = append(genericEm, ef.Cond)
				c.Check(okAll && nEm > 0, "C15.R1", key+" (generic path, through a filtered list)", ef.Pos, "every element put into the intermediate list is appended under Match(rule, hostname) and !isWhitelisted(hostname, rule)",
					"a generic rule can reach the result through an intermediate list without both checks")
			default:
				c.Fail("C15.R1", key, ef.Pos, "UNDECIDED: emitted value of unknown provenance: "+clip(u.Show(el), 100))
			}
		}
		if len(genericEm)+len(specificEm) == 0 {
			c.Fail("C15.R1", "CosmeticEngine.Match: emission", cem.Pos(), "UNDECIDED: no call of StylesResult.append")
		}
		// ---------- R3 gating ----------
		roles := cosmeticGateRoles(c, cem)
		for i, r := range roles {
			switch r {
			case "CSS":
				cssParam = i
			case "GenericCSS":
				genParam = i
			}
		}
		bad := ""
		if cssParam < 0 {
			bad = "no boolean parameter gates every emission (CSS disabled must yield nothing)"
		} else if genParam < 0 {
			bad = "no boolean parameter gates the generic emissions"
		} else {
			for _, rc := range append(append([]Ref{}, genericEm...), specificEm...) {
				if !u.bdd.Implies(rc, u.ToBool(ps[cssParam])) {
					bad = "a selector is emitted although the CSS flag is off"
				}
			}
			for _, rc := range genericEm {
				if !u.bdd.Implies(rc, u.ToBool(ps[genParam])) {
					bad = "a generic selector is emitted although the generic-CSS flag is off"
				}
			}
			for _, rc := range specificEm {
				if u.bdd.Implies(rc, u.ToBool(ps[genParam])) {
					bad = "domain-specific selectors are dropped when only the generic-CSS flag is off"
				}
			}
		}
		c.Check(bad == "", "C15.R3", "CosmeticEngine.Match: flag gating", cem.Pos(), fmt.Sprintf("parameter %d gates everything, parameter %d gates the generic pass only", cssParam, genParam), bad)
	}
	// filing
	{
		g := NewGate(c.P)
		g.Inline = inlineOnly("(*rules.CosmeticRule).IsGeneric")
		s := g.Eval(sra)
		u := g.U
		ps := g.ParamExprs(sra)
		r := ps[1]
		G := u.ToBool(u.Eq(u.Len(u.Field(r, "permittedDomains", nil)), u.Int(0)))
		X := u.Atom(u.Field(r, "ExtendedCSS", types.Typ[types.Bool]))
		want := map[string]Ref{
			"Generic": u.bdd.And(G, u.bdd.Not(X)), "GenericExtCSS": u.bdd.And(G, X),
			"Specific": u.bdd.And(u.bdd.Not(G), u.bdd.Not(X)), "SpecificExtCSS": u.bdd.And(u.bdd.Not(G), X),
		}
		bad := ""
		seen := map[string]bool{}
		for _, ef := range s.Effects {
			if ef.Kind != "store" || ef.Addr.Op != "faddr" {
				continue
			}
			w, ok := want[ef.Addr.Aux]
			if !ok {
				bad = "a selector is filed under unknown list " + ef.Addr.Aux
				continue
			}
			seen[ef.Addr.Aux] = true
			okVal := ef.Val.Op == "append" && ef.Val.Aux == "elems" && len(ef.Val.Args) == 2 && ef.Val.Args[1].Op == "field" && ef.Val.Args[1].Aux == "Content" && ef.Val.Args[1].Args[0] == r &&
				ef.Val.Args[0].Op == "field" && ef.Val.Args[0].Aux == ef.Addr.Aux
			if ef.Cond != w || !okVal {
				bad = fmt.Sprintf("list %s receives %s when %s; documented: the rule's content, exactly when generic=%v/extended as named", ef.Addr.Aux, clip(u.Show(ef.Val), 80), clip(u.ShowBool(ef.Cond), 120), strings.HasPrefix(ef.Addr.Aux, "Generic"))
			}
		}
		if len(seen) != 4 && bad == "" {
			bad = fmt.Sprintf("only %d of the four lists are ever written", len(seen))
		}
		c.Check(bad == "", "C15.R3", "StylesResult.append: generic/specific filing by the rule", sra.Pos(), "four lists, each gets rule.Content exactly under its (IsGeneric, ExtendedCSS) combination", bad)
	}

	// ---------- R4 exception test ----------
	{
		g := NewGate(c.P)
		g.Inline = inlineOnly()
		g.Search = true
		g.Pure[FuncName(crm)] = true // CosmeticRule.Match reads the rule and the hostname only (C13.R1)
		s := g.Eval(isWL)
		u := g.U
		ps := g.ParamExprs(isWL)
		host, rule := ps[wlHost], ps[wlRule]
		bad := ""
		// canonical search form: result == exists(table.<field>[rule.Content], Match(exception, hostname))
		wlField := ""
		res := g.RetExpr(s, 0)
		var ex *E
		if isBoolE(res) {
			for _, at := range u.AtomsOf(u.ToBool(res)) {
				if at.Op == "exists" {
					ex = at
				}
			}
		}
		switch {
		case !isBoolE(res):
			bad = "UNDECIDED: non-boolean result " + clip(u.Show(res), 80)
		case ex == nil:
			bad = "the exception test does not scan a list of exceptions (no complete scan returning true on a match found)"
		default:
			m, k := mapLookupOf(ex.Args[0])
			pr := u.ToBool(ex.Args[1])
			pats := u.AtomsOf(pr)
			switch {
			case m == nil || k == nil || !((k.Op == "field" && k.Aux == "Content" && k.Args[0] == rule) || (k == rule && isStringT(rule.Typ))):
				bad = "exceptions are not looked up under the rule's content: " + clip(u.Show(ex.Args[0]), 80)
			case len(pats) != 1 || pr != u.Atom(pats[0]) || pats[0].Op != "call" || pats[0].Aux != calleeName(crm) || len(pats[0].Args) < 2 || pats[0].Args[0].Op != "bvar" || pats[0].Args[1] != host:
				bad = "the scan does not test Match(exception, hostname) for each exception: " + clip(u.ShowBool(pr), 100)
			default:
				if m.Op == "field" {
					wlField = m.Aux
				} else {
					// the exceptions are handed to the test (its receiver or a parameter): the field they
					// are kept in is what the callers pass
					for pi, pe := range g.ParamExprs(isWL) {
						if pe != m {
							continue
						}
						for _, caller := range c.P.AllLibFuncs() {
							for _, site := range callsTo(caller, isWL) {
								if args := site.Common().Args; pi < len(args) {
									if ld, isL := args[pi].(*ssa.UnOp); isL && ld.Op == token.MUL {
										if _, fld, isF := fieldOf(ld.X); isF {
											wlField = fld
										}
									}
								}
							}
						}
					}
				}
				extra, missed := sameAsExists(u, u.ToBool(res), ex)
				if extra || missed {
					bad = "the exception test does not return true exactly when some exception with this content matches the hostname"
				}
			}
		}
		c.Check(bad == "", "C15.R4", shortFn(isWL)+": looked up by content; true iff an exception matches the hostname", isWL.Pos(), "whitelist[rule.Content] scanned completely with Match(exception, hostname)", bad)

		// addRule stores exceptions under content
		g2 := NewGate(c.P)
		g2.Inline = inlineOnly("(*rules.CosmeticRule).IsGeneric", "(*rules.CosmeticRule).GetPermittedDomains")
		s2 := g2.Eval(tblAdd)
		u2 := g2.U
		f := g2.ParamExprs(tblAdd)[1]
		W := u2.Atom(u2.Field(f, "Whitelist", types.Typ[types.Bool]))
		bad = "exceptions are never stored"
		var keyUpd *Effect
		for i := range s2.Effects {
			ef := &s2.Effects[i]
			if ef.Kind != "mapupdate" || ef.Addr.Op != "field" {
				continue
			}
			if ef.Addr.Aux == wlField {
				okK := ef.Key.Op == "field" && ef.Key.Aux == "Content" && ef.Key.Args[0] == f
				okV := ef.Val.Op == "append" && ef.Val.Aux == "elems" && ef.Val.Args[len(ef.Val.Args)-1] == f
				if ef.Cond == W && okK && okV {
					bad = ""
				} else {
					bad = fmt.Sprintf("exception rules are not stored under their content exactly when Whitelist (cond ok=%v key ok=%v value ok=%v)", ef.Cond == W, okK, okV)
				}
			} else {
				keyUpd = ef
			}
		}
		c.Check(bad == "", "C15.R4", shortFn(tblAdd)+": exceptions stored under their content", tblAdd.Pos(), "whitelist[f.Content] = append(..., f) exactly when f.Whitelist", bad)

		// ---------- R2 (insert side) ----------
		bad = ""
		if keyUpd == nil {
			bad = "UNDECIDED: no exact-key map update"
		} else {
			loops2 := loopsOf(tblAdd)
			ok, coll, why := fullUnconditionalLoop(u2, s2, loops2, keyUpd.Ins)
			pd := u2.Field(f, "permittedDomains", nil)
			if !ok {
				bad = "not every permitted domain is keyed: " + why
			} else if ce := s2.Env[coll]; ce == nil || ce.key != pd.key || keyUpd.Key.Op != "index" || keyUpd.Key.Args[0] != ce {
				bad = "the keying loop does not range over the rule's permitted domains with the domain as key"
			} else {
				// reached only if no domain has the wildcard suffix (pre-scan loop, helper or slices.ContainsFunc)
				pre := false
				{
					g3 := NewGate(c.P)
					g3.Inline = g2.Inline
					g3.Search = true
					s3 := g3.Eval(tblAdd)
					u3 := g3.U
					pd3 := u3.Field(g3.ParamExprs(tblAdd)[1], "permittedDomains", nil)
					nUpd, nOK := 0, 0
					for _, ef := range s3.Effects {
						if ef.Kind == "mapupdate" && ef.Addr.Op == "field" && ef.Addr.Aux != wlField {
							nUpd++
							if impliesNoElemCall(u3, ef.Cond, pd3, "strings.HasSuffix", ".*") {
								nOK++
							}
						}
					}
					pre = nUpd > 0 && nUpd == nOK
				}
				if !pre {
					bad = "rules with a wildcard-TLD domain (example.*) are exact-keyed: no hostname ever equals that key"
				}
			}
		}
		c.Check(bad == "", "C15.R2", shortFn(tblAdd)+": every permitted domain keyed; wildcard-TLD rules diverted before keying", tblAdd.Pos(), "complete pre-scan for \".*\", then complete keying loop", bad)
	}

	// ---------- R5 ----------
	{
		engAdd := c.P.Method("", "CosmeticEngine", "addRule")
		if engAdd == nil {
			c.Fail("C15.R5", "anchor:CosmeticEngine.addRule", 0, "unresolved anchor")
			return
		}
		c.Fn(FuncName(engAdd))
		g := NewGate(c.P)
		g.Inline = inlineOnly()
		s := g.Eval(nce)
		u := g.U
		loops := loopsOf(nce)
		bad := "no call of the engine's addRule in the constructor"
		for _, site := range callsTo(nce, engAdd) {
			l := innermostLoop(loops, site.Block())
			if l == nil || !isScannerLoop(l) {
				bad = "addRule is not called in the scan loop"
				continue
			}
			rc := s.RCAt(site)
			var ist Ref = False
			for _, at := range u.AtomsOf(rc) {
				if at.Op == "istype" && at.Aux == "*rules.CosmeticRule" {
					ist = u.Atom(at)
				}
			}
			body := u.bdd.And(s.RC[l.Header], contCond(u, s, l))
			if ist != False && rc == u.bdd.And(body, ist) {
				bad = ""
			} else {
				bad = "addRule is not reached for every scanned *CosmeticRule"
			}
		}
		c.Check(bad == "", "C15.R5", "NewCosmeticEngine: every scanned cosmetic rule is added", nce.Pos(), "called exactly when the scanned rule is a *CosmeticRule", bad)
		g2 := NewGate(c.P)
		g2.Inline = inlineOnly()
		s2 := g2.Eval(engAdd)
		u2 := g2.U
		rule := g2.ParamExprs(engAdd)[1]
		kEH, _ := a.constInt("rules", "CosmeticElementHiding")
		bad = "element-hiding rules are not passed to the table"
		for _, ef := range s2.Effects {
			if ef.Kind == "call" && ef.Call.Aux == calleeName(tblAdd) && ef.Call.Args[1] == rule {
				want := u2.ToBool(u2.Eq(u2.Field(rule, "Type", nil), u2.ConstVal(constantInt(kEH), nil)))
				if u2.bdd.Implies(want, ef.Cond) {
					bad = ""
				}
			}
		}
		c.Check(bad == "", "C15.R5", "CosmeticEngine.addRule: element-hiding rules reach the table", engAdd.Pos(), "table.addRule(rule) whenever rule.Type == CosmeticElementHiding", bad)
	}
	importRules(c, runC04, map[string]string{"C04.R5": "C15.R7"}, map[string]string{"C15.R7": "the domain test CosmeticRule.Match applies is the one the hostname table is keyed for: exact (case-sensitive) equality or a label-boundary suffix (shared with C04.R5)"})
	importRules(c, runC12, map[string]string{"C12.R7": "C15.R8"}, map[string]string{"C15.R8": "a cosmetic rule reaches the engine as one whole line, however long its domain list (shared with C12.R7)"})
	importRules(c, runC16, map[string]string{"C16.R4": "C15.R6"}, map[string]string{"C15.R6": "the flags of a cosmetic query reach the gates they are named after: Engine.GetCosmeticResult decodes CSS / GenericCSS / JS into the matching parameters of CosmeticEngine.Match (shared with C16.R4)"})
}
