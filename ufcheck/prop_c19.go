package main

// C19 — unreadable rule lists degrade results to a subset, never crash or lie.

import (
	"fmt"
	"go/token"
	"go/types"
	"strings"

	"golang.org/x/tools/go/ssa"
)

func init() {
	register(&PropDef{
		ID:  "C19",
		Run: runC19,
		Explanation: "Static decision of the structural clauses of C19. R1: the typed retrieval helpers return nil when retrieval fails and use comma-ok assertions. R2 (NIL): at every call site of those helpers in the library, every use of the result " +
			"(method call, field access, append to a result) lies on the non-nil edge. R3: whatever the tables return passed the semantic predicate (shared with C01.R1/C02.R1), hence results under faults are a subset of the truth. " +
			"R4: the backing list is consulted only on a cache miss, a hit returns the cached rule, and nothing except the retrieval insert ever writes the cache (rules once materialised keep being served). " +
			"R5: errors of Seek and of the line reader reach the caller (io.EOF excepted). R6: the retrieval path contains no unchecked type assertion or explicit panic. R9: no value returned next to an error is used on a path where that error was discarded or is non-nil. The rule cache is located by type. R6 also: a map entry of pointer or interface type fetched without the presence flag is not used as a receiver or dereferenced without a nil test. R10 imports C12.R7.",
		Trusted: []string{"the operating system's behaviour on a closed/replaced descriptor is an error return, not a crash (outside the repository)"},
	})
}

func runC19(c *Ctx) {
	c.Rule("C19.R1", "WIRE", "RetrieveNetworkRule/RetrieveHostRule: nil on error, comma-ok assertion", 2)
	c.Rule("C19.R2", "NIL", "every use of a retrieved rule is nil-guarded", 3)
	c.Rule("C19.R3", "IDX", "returned rules are re-validated (subset property)", 4)
	c.Rule("C19.R4", "WIRE", "cache consulted first; list only on a miss; cache written only by the retrieval insert", 3)
	c.Rule("C19.R5", "WIRE", "I/O errors of the file list propagate to the caller", 2)
	c.Rule("C19.R6", "PANIC", "no unchecked assertion / explicit panic on the retrieval path", 1)

	a := &anchors{c: c, rule: "C19.R1"}
	rnr := a.method("filterlist", "RuleStorage", "RetrieveNetworkRule")
	rhr := a.method("filterlist", "RuleStorage", "RetrieveHostRule")
	rr := a.method("filterlist", "RuleStorage", "RetrieveRule")
	frl := a.method("filterlist", "FileRuleList", "RetrieveRule")
	srl := a.method("filterlist", "StringRuleList", "RetrieveRule")
	nrm := a.method("rules", "NetworkRule", "Match")
	hrm := a.method("rules", "HostRule", "Match")
	if a.bad {
		return
	}

	// ---------- R1 ----------
	for _, fn := range []*ssa.Function{rnr, rhr} {
		g := NewGate(c.P)
		g.Inline = inlineOnly()
		s := g.Eval(fn)
		u := g.U
		var call *E
		for _, ef := range s.Effects {
			if ef.Kind == "call" && ef.Call.Aux == calleeName(rr) {
				call = ef.Call
			}
		}
		bad := ""
		if call == nil {
			bad = "does not call RetrieveRule"
		} else {
			errE := u.mk("extract", "1", nil, call)
			failed := u.bdd.Not(u.ToBool(u.Eq(errE, u.mk("nil", "", nil))))
			res := g.RetExpr(s, 0)
			for leaf, cond := range u.Leaves(res) {
				if u.bdd.And(cond, failed) != False && !leaf.IsNil() {
					bad = "on a retrieval error the helper returns " + clip(u.Show(leaf), 80) + " instead of nil"
				}
				if !leaf.IsNil() && !(leaf.Op == "typeassert" && strings.HasSuffix(leaf.Aux, ",ok")) {
					bad = "the result is not a comma-ok type assertion of the retrieved rule: " + clip(u.Show(leaf), 80)
				}
			}
			for _, ef := range s.Effects {
				if ef.Kind == "assert" {
					bad = "unchecked type assertion (panics when the index points at a rule of another kind)"
				}
			}
		}
		c.Check(bad == "", "C19.R1", shortFn(fn)+": nil on error, comma-ok", fn.Pos(), "error => nil; value = rule.(T) with comma-ok", bad)
	}

	// ---------- R2 ----------
	nSites := 0
	for _, fn := range c.P.AllLibFuncs() {
		var sites []ssa.CallInstruction
		sites = append(sites, callsTo(fn, rnr)...)
		sites = append(sites, callsTo(fn, rhr)...)
		if len(sites) == 0 {
			continue
		}
		g := NewGate(c.P)
		g.Inline = inlineOnly()
		s := g.Eval(fn)
		u := g.U
		c.Fn(FuncName(fn))
		for _, site := range sites {
			nSites++
			v := site.(ssa.Value)
			ve := s.Env[v]
			nonNil := u.bdd.Not(u.ToBool(u.Eq(ve, u.mk("nil", "", nil))))
			bad := ""
			uses := 0
			var visit func(val ssa.Value, depth int)
			visit = func(val ssa.Value, depth int) {
				rs := val.Referrers()
				if rs == nil || depth > 3 {
					return
				}
				for _, r := range *rs {
					_, have := s.RC[r.Block()]
					rc := s.RCAt(r)
					if !have {
						continue
					}
					guarded := u.bdd.Implies(rc, nonNil)
					switch r := r.(type) {
					case *ssa.BinOp:
						// comparison with nil: the guard itself
					case *ssa.DebugRef:
					case *ssa.Phi:
						visit(r, depth+1)
					case *ssa.MakeInterface, *ssa.ChangeType:
						visit(r.(ssa.Value), depth+1)
					case *ssa.Store:
						// stored into a fresh array for append: the append decides
						if r.Val == val {
							uses++
							if !guarded {
								bad = c.P.Pos(r.Pos()) + ": a possibly nil rule is put into the result"
							}
						}
					default:
						uses++
						if !guarded {
							bad = fmt.Sprintf("%s: the retrieved rule is used (%s) on a path where it may be nil: when the backing list is unreadable the helper returns nil and this dereferences it", c.P.Pos(r.Pos()), clip(r.String(), 60))
						}
					}
				}
			}
			visit(v, 0)
			c.Check(bad == "", "C19.R2", shortFn(fn)+": result of "+site.Common().StaticCallee().Name()+" used only when non-nil", site.Pos(), fmt.Sprintf("%d uses, all on the non-nil edge", uses), bad)
		}
	}
	_ = nSites

	importRules(c, runC14, map[string]string{"C14.R2": "C19.R7"}, map[string]string{"C19.R7": "a failing read never leaves a mutex held (a later query would hang instead of degrading) (shared with C14.R2)"})
	importRules(c, runC12, map[string]string{"C12.R7": "C19.R10"}, map[string]string{"C19.R10": "the index a rule is retrieved by points at a whole line of its list (shared with C12.R7)"})
	// bucket scans continue past an unreadable entry
	{
		c.Rule("C19.R8", "WIRE", "bucket scans are complete: an unreadable entry is skipped, not the rest of the bucket", 3)
		for _, fn := range c.P.AllLibFuncs() {
			var sites []ssa.CallInstruction
			sites = append(sites, callsTo(fn, rnr)...)
			sites = append(sites, callsTo(fn, rhr)...)
			loops := loopsOf(fn)
			for _, site := range sites {
				l := innermostLoop(loops, site.Block())
				if l == nil {
					c.Fail("C19.R8", shortFn(fn)+": bucket scan", site.Pos(), "UNDECIDED: retrieval outside a loop over the bucket")
					continue
				}
				ro := rangedOver(l)
				ok := ro != nil && ro.Full && onlyExhaustionExit(l)
				c.Check(ok, "C19.R8", shortFn(fn)+": bucket scan continues after a failed retrieval", site.Pos(), "complete range over the bucket, no early exit",
					"the loop over the bucket can end early (break/return): after the first unreadable entry, rules later in the bucket that are already in memory are no longer served")
			}
		}
	}

	// ---------- R3 ----------
	if tbl := c.P.Type("lookup", "Table"); tbl != nil {
		for _, n := range implementers(c.P, tbl.Underlying().(*types.Interface)) {
			if ma := methodOf(c.P, n, "MatchAll"); ma != nil {
				guardedBy(c, "C19.R3", ma, nrm, 1, "request")
			}
		}
	}
	for _, fn := range c.P.AllLibFuncs() {
		if len(callsTo(fn, rhr)) > 0 {
			guardedBy(c, "C19.R3", fn, hrm, stringParamIndex(fn), "hostname")
		}
	}

	// ---------- R4 ----------
	{
		g := NewGate(c.P)
		g.Inline = inlineOnly()
		s := g.Eval(rr)
		u := g.U
		ps := g.ParamExprs(rr)
		var hit Ref = False
		var cached *E
		cOwner, cField, _ := ruleCacheField(c.P)
		// the cache of this storage: the map field, reached from the receiver
		ofRecv := func(m *E) bool {
			if m.Op != "field" || m.Aux != cField {
				return false
			}
			for x := m.Args[0]; x != nil; {
				if x == ps[0] {
					return true
				}
				if (x.Op == "field" || x.Op == "load" || x.Op == "faddr") && len(x.Args) > 0 {
					x = x.Args[0]
					continue
				}
				break
			}
			return false
		}
		for _, at := range u.atoms {
			if at.Op == "extract" && at.Aux == "1" && at.Args[0].Op == "lookup" && ofRecv(at.Args[0].Args[0]) && at.Args[0].Args[1] == ps[1] {
				hit = u.Atom(at)
				cached = u.mk("extract", "0", nil, at.Args[0])
			}
		}
		bad := ""
		if hit == False {
			bad = "the cache is not looked up with the storage index"
		} else {
			for _, ef := range s.Effects {
				if ef.Kind == "call" && strings.HasSuffix(ef.Call.Aux, "RuleList).RetrieveRule") {
					if !u.bdd.Implies(ef.Cond, u.bdd.Not(hit)) {
						bad = "the backing list is read even when the rule is cached: rules already materialised are lost when the list becomes unreadable"
					}
				}
			}
			okHit := false
			for _, r := range s.Rets {
				if r.Cond == hit && r.Vals[0].key == cached.key && r.Vals[1].IsNil() {
					okHit = true
				}
			}
			if !okHit && bad == "" {
				bad = "a cache hit does not return the cached rule with a nil error"
			}
		}
		c.Check(bad == "", "C19.R4", "RuleStorage.RetrieveRule: cache first, list only on a miss", rr.Pos(), "hit => (cached, nil) without touching the list", bad)
		// insert: cache[storageIdx] = retrieved rule, under non-nil
		okIns := false
		for _, ef := range s.Effects {
			if ef.Kind == "mapupdate" && ofRecv(ef.Addr) && ef.Key == ps[1] {
				okIns = ef.Val.Op == "extract" && ef.Val.Aux == "0" && ef.Val.Args[0].Op == "invoke"
			}
		}
		c.Check(okIns, "C19.R4", "RuleStorage.RetrieveRule: retrieved rule cached under its own index", rr.Pos(), "cache[storageIdx] = rule returned by the list", "the cache insert does not store the retrieved rule under the requested index")
		// who may write the cache
		bad = ""
		ctor := c.P.Func("filterlist", "NewRuleStorage")
		cacheWrites := fieldWrites(c.P, "filterlist", cOwner, cField)
		if cOwner != "RuleStorage" {
			// the cache lives in a type of its own: the storage's reference to it is part of the cache
			if st, ok := c.P.Type("filterlist", "RuleStorage").Underlying().(*types.Struct); ok {
				for i := 0; i < st.NumFields(); i++ {
					if strings.HasSuffix(typeStr(st.Field(i).Type()), "filterlist."+cOwner) || strings.HasSuffix(typeStr(st.Field(i).Type()), "."+cOwner) || typeStr(st.Field(i).Type()) == "*"+cOwner {
						cacheWrites = append(cacheWrites, fieldWrites(c.P, "filterlist", "RuleStorage", st.Field(i).Name())...)
					}
				}
			}
		}
		for _, w := range cacheWrites {
			switch {
			case w.Kind == "mapupdate" && inGroupOf(c.P, w.Fn, rr):
			case w.Kind == "store" && (w.Fn.Name() == "NewRuleStorage" || (ctor != nil && inGroupOf(c.P, w.Fn, ctor))):
			default:
				bad = fmt.Sprintf("%s: %s writes the rule cache (%s): rules retrieved before a fault are no longer served", c.P.Pos(w.Instr.Pos()), shortFn(w.Fn), w.Kind)
			}
		}
		// delete/clear on the cache
		for _, fn := range c.P.AllLibFuncs() {
			eachInstr(fn, func(_ *ssa.BasicBlock, in ssa.Instruction) {
				if cl, ok := in.(*ssa.Call); ok {
					if b, ok := cl.Call.Value.(*ssa.Builtin); ok && (b.Name() == "delete" || b.Name() == "clear") {
						if ld, ok := cl.Call.Args[0].(*ssa.UnOp); ok {
							if n, f, ok := fieldOf(ld.X); ok && f == cField && namedIs(n, "filterlist", cOwner) {
								bad = c.P.Pos(cl.Pos()) + ": " + b.Name() + " on the rule cache"
							}
						}
					}
				}
			})
		}
		c.Check(bad == "", "C19.R4", "RuleStorage.cache: written only by the constructor and the retrieval insert", rr.Pos(), "who-may-write over all library functions", bad)
	}

	// ---------- R5 ----------
	for _, fn := range []*ssa.Function{frl} {
		g := NewGate(c.P)
		g.Inline = inlineOnly()
		s := g.Eval(fn)
		u := g.U
		nErr := 0
		for _, ef := range s.Effects {
			if ef.Kind != "call" {
				continue
			}
			var errE *E
			isSeek := strings.HasSuffix(ef.Call.Aux, "os.File).Seek")
			isRead := false
			if cal := calleeByName(c, fn, ef.Call.Aux); cal != nil && c.P.IsLibFunc(cal) && cal.Signature.Results().Len() == 2 && typeStr(cal.Signature.Results().At(1).Type()) == "error" {
				isRead = true
			}
			if !isSeek && !isRead {
				continue
			}
			nErr++
			errE = u.mk("extract", "1", nil, ef.Call)
			failed := u.bdd.And(ef.Cond, u.bdd.Not(u.ToBool(u.Eq(errE, u.mk("nil", "", nil)))))
			// io.EOF exemption
			for _, at := range u.atoms {
				if at.Op == "eq" && (at.Args[0] == errE || at.Args[1] == errE) && (strings.Contains(at.Args[0].key, "io.EOF") || strings.Contains(at.Args[1].key, "io.EOF")) {
					failed = u.bdd.And(failed, u.bdd.Not(u.Atom(at)))
				}
			}
			returned := False
			for _, r := range s.Rets {
				v := u.EvalUnderCare(r.Vals[1], u.bdd.And(r.Cond, failed))
				if v == errE {
					returned = u.bdd.Or(returned, r.Cond)
				}
			}
			// every failing continuation returns the error: failed & (reaches any return) => returned
			anyRet := False
			for _, r := range s.Rets {
				anyRet = u.bdd.Or(anyRet, r.Cond)
			}
			okP := u.bdd.Implies(u.bdd.And(failed, anyRet), returned)
			what := "Seek"
			if isRead {
				what = "the line reader"
			}
			c.Check(okP, "C19.R5", shortFn(fn)+": error of "+what+" is returned", ef.Pos, "every continuation with a non-nil (non-EOF) error returns it",
				"an I/O error of "+what+" is dropped: the caller parses whatever was read and may cache and serve a wrong rule")
		}
		if nErr == 0 {
			c.Fail("C19.R5", shortFn(fn)+": I/O error sources", fn.Pos(), "UNDECIDED: no Seek / line-reader call found")
		}
	}

	// ---------- R6 ----------
	{
		bad := ""
		n := 0
		for fn := range c.P.Reachable(rnr, rhr, srl, frl) {
			if !c.P.IsLibFunc(fn) {
				continue
			}
			n++
			eachInstr(fn, func(_ *ssa.BasicBlock, in ssa.Instruction) {
				switch in := in.(type) {
				case *ssa.TypeAssert:
					if !in.CommaOk {
						bad = c.P.Pos(in.Pos()) + ": unchecked type assertion in " + shortFn(fn)
					}
				case *ssa.Panic:
					bad = c.P.Pos(in.Pos()) + ": explicit panic in " + shortFn(fn)
				case *ssa.Lookup:
					// m[k] without the presence flag yields nil for a key that is not there: using
					// it as a receiver or dereferencing it without a nil test panics for such a key
					if in.CommaOk {
						break
					}
					if _, isMap := in.X.Type().Underlying().(*types.Map); !isMap {
						break
					}
					_, isPtr := in.Type().Underlying().(*types.Pointer)
					_, isIface := in.Type().Underlying().(*types.Interface)
					if !isPtr && !isIface {
						break
					}
					used, tested := false, false
					if rs := in.Referrers(); rs != nil {
						for _, r := range *rs {
							switch r := r.(type) {
							case *ssa.BinOp:
								if r.Op == token.EQL || r.Op == token.NEQ {
									tested = true
								}
							case *ssa.FieldAddr:
								used = true
							case *ssa.UnOp:
								if r.Op == token.MUL {
									used = true
								}
							case ssa.CallInstruction:
								cc := r.Common()
								if cc.IsInvoke() && cc.Value == ssa.Value(in) {
									used = true
								}
								if cal := cc.StaticCallee(); cal != nil && cal.Signature.Recv() != nil && len(cc.Args) > 0 && cc.Args[0] == ssa.Value(in) {
									used = true
								}
							}
						}
					}
					if used && !tested {
						bad = c.P.Pos(in.Pos()) + ": a map entry is used as a receiver without a presence or nil test in " + shortFn(fn) + ": for a key that is not in the map the lookup yields nil and the call panics"
					}
				case *ssa.Call:
					if cal := in.Call.StaticCallee(); cal != nil && strings.Contains(calleeName(cal), ".Must") {
						bad = c.P.Pos(in.Pos()) + ": call of " + calleeName(cal) + " in " + shortFn(fn)
					}
				}
			})
		}
		c.Check(bad == "", "C19.R6", "retrieval path: no unchecked assertion, panic or Must* call", rr.Pos(), fmt.Sprintf("%d library functions reachable from the retrieval helpers", n), bad)
	}

	// ---------- R9: a result is not used while its error is ignored ----------
	// When a list has become unreadable, the calls that touch it fail: (value, error) calls return a
	// nil / zero value with the error.  Dereferencing that value without having looked at the error
	// is the crash the property excludes.
	{
		c.Rule("C19.R9", "NIL", "on the retrieval path no pointer or interface result is used while the error returned with it is discarded", 0)
		bad := ""
		n := 0
		for fn := range c.P.Reachable(rnr, rhr, srl, frl) {
			if !c.P.IsLibFunc(fn) || fn.Blocks == nil {
				continue
			}
			eachInstr(fn, func(_ *ssa.BasicBlock, in ssa.Instruction) {
				cl, ok := in.(*ssa.Call)
				if !ok {
					return
				}
				tup, isTup := cl.Type().(*types.Tuple)
				if !isTup || tup.Len() < 2 || typeStr(tup.At(tup.Len()-1).Type()) != "error" {
					return
				}
				n++
				errUsed := false
				var vals []*ssa.Extract
				if rs := cl.Referrers(); rs != nil {
					for _, r := range *rs {
						ex, isEx := r.(*ssa.Extract)
						if !isEx {
							continue
						}
						if ex.Index == tup.Len()-1 {
							if er := ex.Referrers(); er != nil {
								for _, u := range *er {
									if _, isDbg := u.(*ssa.DebugRef); !isDbg {
										errUsed = true
									}
								}
							}
						} else {
							vals = append(vals, ex)
						}
					}
				}
				if errUsed {
					return
				}
				for _, v := range vals {
					switch v.Type().Underlying().(type) {
					case *types.Pointer, *types.Interface:
					default:
						continue
					}
					if vr := v.Referrers(); vr != nil {
						for _, u := range *vr {
							deref := false
							switch x := u.(type) {
							case *ssa.FieldAddr, *ssa.Field:
								deref = true
							case *ssa.UnOp:
								deref = x.Op == token.MUL
							case ssa.CallInstruction:
								// method call on it (invoke or a pointer receiver)
								cc := x.Common()
								if cc.IsInvoke() && cc.Value == ssa.Value(v) {
									deref = true
								}
								if !cc.IsInvoke() && len(cc.Args) > 0 && cc.Args[0] == ssa.Value(v) && cc.StaticCallee() != nil && cc.StaticCallee().Signature.Recv() != nil {
									deref = true
								}
							}
							if deref && bad == "" {
								name := "a call"
								if cal := cl.Call.StaticCallee(); cal != nil {
									name = calleeName(cal)
								}
								bad = c.P.Pos(u.Pos()) + ": " + shortFn(fn) + " uses the result of " + name + " although the error returned with it is discarded: once the list is unreadable the call fails, the result is nil and the query crashes instead of degrading"
							}
						}
					}
				}
			})
		}
		if bad == "" {
			c.OK("C19.R9", "retrieval path: results of failing calls", rr.Pos(), fmt.Sprintf("%d calls returning (..., error) inspected", n))
		} else {
			c.Fail("C19.R9", "retrieval path: results of failing calls", rr.Pos(), bad)
		}
	}
	_ = token.NoPos
}

func calleeByName(c *Ctx, fn *ssa.Function, name string) *ssa.Function {
	var out *ssa.Function
	eachInstrG(c.P, fn, func(_ *ssa.BasicBlock, in ssa.Instruction) {
		if ci, ok := in.(ssa.CallInstruction); ok {
			if cal := ci.Common().StaticCallee(); cal != nil && calleeName(cal) == name {
				out = cal
			}
		}
	})
	return out
}
