package main

// C05 — the shortcut pre-check never rejects a request the rule accepts.

import (
	"fmt"
	"go/constant"
	"go/token"
	"regexp"
	"regexp/syntax"
	"sort"
	"strings"

	"golang.org/x/tools/go/ssa"
)

func init() {
	register(&PropDef{
		ID:  "C05",
		Run: runC05,
		Explanation: "Static decision of the structural clauses of C05 (mask rules at the structural level; for regular-expression rules only stated-belief checks — the soundness of the regex heuristics is NOT decided). " +
			"R1: the character set at which findShortcut splits contains every character to which the pattern compiler gives a non-literal meaning. R2: the shortcut is computed after the last rewrite of the pattern field and only the constructor writes that field. " +
			"R3: the stored shortcut is strings.ToLower of a piece of the pattern on every path, it is derived from the rule's own pattern, and the pre-check tests the lower-cased URL field. R4: the regex heuristic bails out on '?', " +
			"its splitter class contains every RE2 metacharacter, and R5: its bracket-stripping expressions are greedy (a lazy match leaves the alternation of a nested group exposed as if it were mandatory text). R7: the strippers whose expression consumes the character in front of the bracket are applied to placeholder+text, the placeholder consisting of splitter characters (otherwise a leading group is not stripped). R8 (table): the chain of constants of the heuristic (bail-out tests, stripper expressions and templates in their order, splitter) is interpreted inside the checker on 13 sample expressions, one per operator of the property's grammar, each with witness URLs it accepts; every candidate piece must be contained in every witness or the function must bail out. R8 has 20 sample rows (class escapes, two escapes in a row, hexadecimal, octal and one-letter Unicode-class escapes, escaped backslash, alternation, groups, classes, x*, x+, x{m,n}, x{0}, x{0,}, x?); the last stage may be a regexp split on a constant class or a scan cutting at strings.IndexAny(text, K) with constant K (R4 then reads the metacharacter coverage off K). R9 imports C17.R3/R4: the text the pattern runs on and the text the shortcut is searched in are the same capped URL up to letter case. R1 also reads the split set off a cutting scan in a shared helper. R8 has 23 rows since round 9 (an alternation between two groups, two character classes, two counted repetitions must not be hidden by the greedy strippers) and interprets bail-outs that test a side chain of constant replacements (strings.Contains and strings.ContainsAny).",
		Trusted:     []string{"regexp/syntax parses the constant expressions the way regexp.MustCompile does"},
		Assumptions: []string{"for regular-expression rules, 'pattern accepts u => lower(u) contains the shortcut' is a language inclusion per rule and is outside static reach (DESIGN.md section 6); two unsound shapes on today's tree (top-level alternation, class escapes) are known and not reported by any rule here"},
	})
}

// globalRegexps maps package-level *regexp.Regexp variables of pkg to the constant they are compiled from.
func globalRegexps(c *Ctx, pkg string) map[string]string {
	out := map[string]string{}
	sp := c.P.SPkg[pkgPath(pkg)]
	if sp == nil {
		return out
	}
	initFn := sp.Func("init")
	if initFn == nil {
		return out
	}
	eachInstr(initFn, func(_ *ssa.BasicBlock, in ssa.Instruction) {
		st, ok := in.(*ssa.Store)
		if !ok {
			return
		}
		gl, ok := st.Addr.(*ssa.Global)
		if !ok {
			return
		}
		cl, ok := st.Val.(*ssa.Call)
		if !ok || cl.Call.StaticCallee() == nil || !strings.HasPrefix(calleeName(cl.Call.StaticCallee()), "regexp.MustCompile") {
			return
		}
		switch a := cl.Call.Args[0].(type) {
		case *ssa.Const:
			if a.Value != nil {
				out[gl.Name()] = constantString(a)
			}
		case *ssa.Call:
			// regexp.QuoteMeta(const)
			if a.Call.StaticCallee() != nil && calleeName(a.Call.StaticCallee()) == "regexp.QuoteMeta" {
				if k, ok := a.Call.Args[0].(*ssa.Const); ok {
					out[gl.Name()] = quoteMeta(constantString(k))
				}
			}
		}
	})
	return out
}

func constantString(c *ssa.Const) string {
	if c.Value == nil {
		return ""
	}
	s := c.Value.ExactString()
	if len(s) >= 2 && s[0] == '"' {
		var out string
		fmt.Sscanf(s, "%q", &out)
		return out
	}
	return s
}

func quoteMeta(s string) string {
	var b strings.Builder
	for _, r := range s {
		if strings.ContainsRune(`\.+*?()|[]{}^$`, r) {
			b.WriteByte('\\')
		}
		b.WriteRune(r)
	}
	return b.String()
}

func runC05(c *Ctx) {
	c.Rule("C05.R1", "TBL", "findShortcut splits at every mask metacharacter", 1)
	c.Rule("C05.R2", "WIRE", "shortcut computed after the last pattern rewrite; only the constructor writes the pattern", 2)
	c.Rule("C05.R3", "WIRE", "stored shortcut = ToLower(piece of the rule's pattern); pre-check tests the lower-cased URL", 3)
	c.Rule("C05.R4", "TBL", "regex heuristic: '?' bail-out; splitter class contains every RE2 metacharacter", 2)
	c.Rule("C05.R5", "TBL", "regex heuristic: bracket-stripping expressions are greedy", 3)
	c.Rule("C05.R8", "TBL", "regex heuristic: escapes, alternation and zero repetitions never leave an optional literal among the candidate pieces (sample table over the constants)", 10)
	c.Rule("C05.R7", "WIRE", "regex heuristic: a placeholder is prepended for the strippers that consume the preceding character", 1)

	a := &anchors{c: c, rule: "C05.R1"}
	nnr := a.fn("rules", "NewNetworkRule")
	// the loader is an internal step of the constructor: when it exists under its familiar name it
	// is expanded by name, otherwise it is a new helper and transparent anyway
	ls := c.P.Method("rules", "NetworkRule", "loadShortcut")
	match := a.method("rules", "NetworkRule", "Match")
	if a.bad {
		return
	}
	lsRoots := []*ssa.Function{nnr}
	var inlLS []string
	if ls != nil {
		lsRoots = append(lsRoots, ls)
		inlLS = append(inlLS, FuncName(ls))
	}
	// roles: mask extractor / regex extractor = callees of loadShortcut func(string) string
	var extractors []*ssa.Function
	for _, gf := range groupFuncs(c.P, lsRoots...) {
		eachInstr(gf, func(_ *ssa.BasicBlock, in ssa.Instruction) {
			if ci, ok := in.(ssa.CallInstruction); ok {
				if cal := ci.Common().StaticCallee(); cal != nil && c.P.IsLibFunc(cal) && !c.P.IsNewHelper(cal) && cal.Signature.Recv() == nil && cal.Signature.Params().Len() == 1 && cal.Signature.Results().Len() == 1 &&
					typeStr(cal.Signature.Params().At(0).Type()) == "string" && typeStr(cal.Signature.Results().At(0).Type()) == "string" {
					extractors = append(extractors, cal)
				}
			}
		})
	}
	// ... or functions of that signature taken as values (find := findShortcut; ...; find(pattern))
	for _, gf := range groupFuncs(c.P, lsRoots...) {
		eachInstr(gf, func(_ *ssa.BasicBlock, in ssa.Instruction) {
			for _, op := range in.Operands(nil) {
				if op == nil || *op == nil {
					continue
				}
				fv, ok := (*op).(*ssa.Function)
				if !ok || fv.Signature.Recv() != nil || !c.P.IsLibFunc(fv) || c.P.IsNewHelper(fv) || fv.Signature.Params().Len() != 1 || fv.Signature.Results().Len() != 1 {
					continue
				}
				if ci, isCall := in.(ssa.CallInstruction); isCall && ci.Common().StaticCallee() == fv {
					continue
				}
				if typeStr(fv.Signature.Params().At(0).Type()) == "string" && typeStr(fv.Signature.Results().At(0).Type()) == "string" {
					extractors = append(extractors, fv)
				}
			}
		})
	}
	var maskX, regexX *ssa.Function
	for _, x := range extractors {
		usesRegexp := false
		for _, xf := range groupFuncs(c.P, x) {
			eachInstr(xf, func(_ *ssa.BasicBlock, in ssa.Instruction) {
				if ci, ok := in.(ssa.CallInstruction); ok {
					if cal := ci.Common().StaticCallee(); cal != nil && strings.Contains(calleeName(cal), "regexp.Regexp") {
						usesRegexp = true
					}
				}
			})
		}
		if usesRegexp {
			regexX = x
		} else {
			maskX = x
		}
	}
	if maskX == nil || regexX == nil {
		c.Fail("C05.R1", "anchor:shortcut extractors", nnr.Pos(), fmt.Sprintf("unresolved anchor by role (mask extractor=%v regex extractor=%v)", maskX != nil, regexX != nil))
		return
	}
	c.Fn(FuncName(maskX), FuncName(regexX))

	importRules(c, runC03, map[string]string{"C03.R1": "C05.R6", "C03.R2": "C05.R6", "C03.R3": "C05.R6", "C03.R4": "C05.R6", "C03.R8": "C05.R6"},
		map[string]string{"C05.R6": "the compiled mask accepts no more than the mask says: escape table, stage order, pipe partition, expansions, suffix rewrite (shared with C03.R1-R4/R8); otherwise the pattern accepts URLs that need not contain the shortcut"})

	importRules(c, runC17, map[string]string{"C17.R3": "C05.R9", "C17.R4": "C05.R9"},
		map[string]string{"C05.R9": "the text the pattern is run on and the text the shortcut is searched in are the same capped URL up to letter case (shared with C17.R3/R4): a URL capped for one and not for the other fails the pre-check behind the cap"})

	// ---------- R1 ----------
	{
		var masks []string
		for _, n := range []string{"MaskAnyCharacter", "MaskSeparator", "MaskPipe"} {
			if s, ok := a.constStr("rules", n); ok {
				masks = append(masks, s)
			}
		}
		cut := ""
		n := 0
		// the set of characters a one-argument predicate accepts, by evaluating it on every ASCII character
		predSet := func(pred *ssa.Function) (string, bool) {
			if pred == nil || pred.Blocks == nil || len(pred.Params) != 1 {
				return "", false
			}
			set := ""
			for ch := int64(1); ch < 128; ch++ {
				g := NewGate(c.P)
				sm := g.EvalArgs(pred, []*E{g.U.ConstVal(constantInt(ch), pred.Params[0].Type())}, nil)
				if len(sm.Rets) == 0 || len(sm.Effects) != 0 {
					return "", false
				}
				r := g.RetExpr(sm, 0)
				if r.Op != "bool" || (r.B != True && r.B != False) {
					return "", false
				}
				if r.B == True {
					set += string(rune(ch))
				}
			}
			return set, true
		}
		// a byte of the pattern (pattern[i], or the element of a range over it)
		isPatternByte := func(v ssa.Value) bool {
			for {
				switch x := v.(type) {
				case *ssa.Convert:
					v = x.X
					continue
				case *ssa.Lookup:
					return isStringT(x.X.Type())
				case *ssa.Index:
					return isStringT(x.X.Type())
				case *ssa.Extract:
					if nx, ok := x.Tuple.(*ssa.Next); ok && nx.IsString && x.Index == 2 {
						return true
					}
				}
				return false
			}
		}
		eachInstrG(c.P, maskX, func(_ *ssa.BasicBlock, in ssa.Instruction) {
			// a scan byte by byte: the split set is what the byte is compared with / what the byte
			// predicate accepts
			if bo, ok := in.(*ssa.BinOp); ok && bo.Op == token.EQL {
				for i, side := range []ssa.Value{bo.X, bo.Y} {
					other := []ssa.Value{bo.Y, bo.X}[i]
					if k, isK := other.(*ssa.Const); isK && k.Value != nil && isPatternByte(side) {
						if v, exact := constant.Int64Val(constant.ToInt(k.Value)); exact && v > 0 && v < 128 {
							cut += string(rune(v))
							n++
						}
					}
				}
			}
			if cl, ok := in.(*ssa.Call); ok && cl.Call.StaticCallee() != nil && c.P.IsLibFunc(cl.Call.StaticCallee()) && len(cl.Call.Args) == 1 && isPatternByte(cl.Call.Args[0]) {
				if set, ok := predSet(cl.Call.StaticCallee()); ok {
					cut += set
					n++
				}
			}
		})
		eachInstr(maskX, func(_ *ssa.BasicBlock, in ssa.Instruction) {
			if cl, ok := in.(*ssa.Call); ok && cl.Call.StaticCallee() != nil {
				switch calleeName(cl.Call.StaticCallee()) {
				case "strings.IndexAny", "strings.ContainsAny":
					if k, ok := cl.Call.Args[1].(*ssa.Const); ok {
						cut += constantString(k)
						n++
					}
				case "strings.FieldsFunc", "strings.IndexFunc", "strings.ContainsFunc":
					// the split set is the set of characters the predicate accepts: the predicate is
					// evaluated on every ASCII character inside the checker
					var pred *ssa.Function
					switch p := cl.Call.Args[1].(type) {
					case *ssa.Function:
						pred = p
					case *ssa.MakeClosure:
						if len(p.Bindings) == 0 {
							pred, _ = p.Fn.(*ssa.Function)
						}
					}
					if pred != nil && pred.Blocks != nil && len(pred.Params) == 1 {
						okAll := true
						set := ""
						for ch := int64(1); ch < 128; ch++ {
							g := NewGate(c.P)
							sm := g.EvalArgs(pred, []*E{g.U.ConstVal(constantInt(ch), pred.Params[0].Type())}, nil)
							if len(sm.Rets) == 0 || len(sm.Effects) != 0 {
								okAll = false
								break
							}
							r := g.RetExpr(sm, 0)
							if r.Op != "bool" || (r.B != True && r.B != False) {
								okAll = false
								break
							}
							if r.B == True {
								set += string(rune(ch))
							}
						}
						if okAll {
							cut += set
							n++
						}
					}
				}
			}
		})
		if n == 0 {
			// the pieces may be cut by a scan in a helper that is handed the set
			g := NewGate(c.P)
			g.Inline = inlineOnly()
			if k, _, ok := cutScanSplitter(g, g.Eval(maskX)); ok {
				cut += k
				n++
			}
		}
		bad := ""
		if n == 0 {
			bad = "UNDECIDED: the extractor does not split with strings.IndexAny on a constant set"
		}
		for _, m := range masks {
			if !strings.Contains(cut, m) && bad == "" {
				bad = fmt.Sprintf("the pattern compiler gives %q a non-literal meaning but the shortcut extractor does not split at it (split set %q): a^b would get the shortcut \"a^b\", which no URL contains", m, cut)
			}
		}
		c.Check(bad == "", "C05.R1", shortFn(maskX)+": split set contains * ^ |", maskX.Pos(), fmt.Sprintf("split set %q", cut), bad)
	}

	// ---------- R2 ----------
	{
		g := NewGate(c.P)
		g.Inline = inlineOnly(inlLS...)
		g.Pure[FuncName(maskX)] = true
		g.Pure[FuncName(regexX)] = true
		s := g.Eval(nnr)
		lastStore, callIdx := -1, -1
		for i, ef := range s.Effects {
			if ef.Kind == "store" && ef.Addr.Op == "faddr" && ef.Addr.Aux == "pattern" {
				lastStore = i
			}
			if ef.Kind == "store" && ef.Addr.Op == "faddr" && ef.Addr.Aux == "Shortcut" && callIdx < 0 {
				callIdx = i
			}
		}
		c.Check(callIdx > lastStore && callIdx >= 0, "C05.R2", "NewNetworkRule: shortcut computed after the last rewrite of the pattern", nnr.Pos(), "no store to the pattern field follows the store of the shortcut",
			"the shortcut is extracted before the pattern is rewritten (example.org/* becomes example.org^ but the shortcut stays \"example.org/\", which http://example.org does not contain)")
		bad := ""
		for _, w := range fieldWrites(c.P, "rules", "NetworkRule", "pattern") {
			if w.Fn != nnr {
				bad = c.P.Pos(w.Instr.Pos()) + ": " + shortFn(w.Fn) + " writes the pattern after construction; the shortcut would go stale"
			}
		}
		c.Check(bad == "", "C05.R2", "NetworkRule.pattern is written only by the constructor", nnr.Pos(), "who-may-write over all library functions", bad)
	}

	// ---------- R3 ----------
	{
		g := NewGate(c.P)
		g.Inline = inlineOnly()
		g.Pure[FuncName(maskX)] = true
		g.Pure[FuncName(regexX)] = true
		if irr := c.P.Method("rules", "NetworkRule", "IsRegexRule"); irr != nil {
			g.Pure[FuncName(irr)] = true
		}
		if irp := c.P.Func("rules", "isRegexPattern"); irp != nil {
			g.Pure[FuncName(irp)] = true
		}
		g.Inline = inlineOnly(inlLS...)
		s := g.Eval(nnr)
		u := g.U
		// the rule under construction and the final value of its pattern
		var f, patFinal *E
		for _, ef := range s.Effects {
			if ef.Kind == "store" && ef.Addr.Op == "faddr" && ef.Addr.Aux == "pattern" {
				f = ef.Addr.Args[0]
			}
		}
		if f != nil {
			for k, v := range s.Mem {
				if strings.HasSuffix(k, u.mk("faddr", "pattern", nil, f).key) {
					patFinal = v
				}
			}
		}
		bad := ""
		n := 0
		for _, ef := range s.Effects {
			if ef.Kind != "store" || ef.Addr.Op != "faddr" || ef.Addr.Aux != "Shortcut" {
				continue
			}
			n++
			for leaf, cond := range u.Leaves(ef.Val) {
				if u.bdd.And(cond, ef.Cond) == False {
					continue
				}
				if sv, isS := leaf.StrVal(); isS && sv == strings.ToLower(sv) {
					continue // a constant without upper-case letters (the empty shortcut)
				}
				if leaf.Op != "call" || leaf.Aux != "strings.ToLower" {
					bad = "on some path the stored shortcut is not lower-cased (" + clip(u.Show(leaf), 80) + " when " + clip(u.ShowBool(cond), 120) + "), but the pre-check searches the lower-cased URL: an upper-case letter in the shortcut can never be found"
					continue
				}
				// derived from the rule's own pattern
				okSrc := true
				for src := range u.Leaves(leaf.Args[0]) {
					isPat := len(src.Args) > 0 && ((src.Args[0].Op == "field" && src.Args[0].Aux == "pattern" && src.Args[0].Args[0] == f) || (patFinal != nil && (src.Args[0] == patFinal || src.Args[0] == u.Specialize(patFinal, u.bdd.And(cond, ef.Cond)) || u.Specialize(src.Args[0], u.bdd.And(cond, ef.Cond)) == u.Specialize(patFinal, u.bdd.And(cond, ef.Cond)))))
					if !(src.Op == "call" && (src.Aux == calleeName(maskX) || src.Aux == calleeName(regexX)) && isPat) {
						okSrc = false
					}
				}
				if !okSrc {
					bad = "the shortcut is not extracted from the rule's own pattern field: " + clip(u.Show(leaf.Args[0]), 120)
				}
			}
		}
		if n == 0 {
			bad = "the shortcut is never stored"
		}
		c.Check(bad == "", "C05.R3", "NewNetworkRule: Shortcut = ToLower(extractor(pattern)) on every path", nnr.Pos(), fmt.Sprintf("%d store site(s)", n), bad)
	}
	{
		g := NewGate(c.P)
		g.Inline = func(_, callee *ssa.Function, depth int) bool {
			return depth <= 2 && callee.Signature.Recv() != nil && (len(callee.Blocks) == 1 || (depth <= 1 && leafPredicate(callee) && len(fieldReadsIn(callee, "rules", "NetworkRule", "Shortcut")) > 0))
		}
		s := g.Eval(match)
		u := g.U
		ps := g.ParamExprs(match)
		H := u.ToBool(g.RetExpr(s, 0))
		bad := "Match has no strings.Contains(<url field>, rule.Shortcut) conjunct"
		for _, at := range u.AtomsOf(H) {
			if at.Op == "call" && at.Aux == "strings.Contains" && at.Args[1].Op == "field" && at.Args[1].Aux == "Shortcut" {
				if at.Args[0].Op == "field" && at.Args[0].Args[0] == ps[1] && at.Args[0].Aux == "URLLowerCase" {
					bad = ""
				} else {
					bad = "the lower-cased shortcut is searched in " + u.Show(at.Args[0]) + ", not in the lower-cased URL"
				}
			}
		}
		c.Check(bad == "", "C05.R3", "matchShortcut: searches Request.URLLowerCase", match.Pos(), "lower-cased shortcut vs lower-cased URL", bad)
		// and URLLowerCase is ToLower(URL) at every store (decided under C17.R3; repeated here as a who-may-write check)
		bad = ""
		for _, w := range fieldWrites(c.P, "rules", "Request", "URLLowerCase") {
			cl, ok := w.Val.(*ssa.Call)
			if !ok || cl.Call.StaticCallee() == nil || calleeName(cl.Call.StaticCallee()) != "strings.ToLower" {
				bad = c.P.Pos(w.Instr.Pos()) + ": " + shortFn(w.Fn) + " stores a URLLowerCase that is not strings.ToLower(...)"
			}
		}
		c.Check(bad == "", "C05.R3", "Request.URLLowerCase is strings.ToLower(...) at every store", match.Pos(), "who-may-write", bad)
	}

	// ---------- R4 / R5 ----------
	{
		res := globalRegexps(c, "rules")
		used := map[string]bool{}
		eachInstr(regexX, func(_ *ssa.BasicBlock, in ssa.Instruction) {
			if ld, ok := in.(*ssa.UnOp); ok && ld.Op == token.MUL {
				if gl, ok := ld.X.(*ssa.Global); ok {
					used[gl.Name()] = true
				}
			}
		})
		// bail-out on '?'
		g := NewGate(c.P)
		g.Inline = inlineOnly()
		g.Unroll, g.ConstTables = true, true // expressions kept in a package-level table and applied in a loop
		s := g.Eval(regexX)
		u := g.U
		// the compiled expressions the heuristic applies, as far as the evaluation resolves them
		// to regexp.MustCompile(<constant>) of a package initialiser
		gatePats := map[string]bool{}
		unresolved := map[string]bool{}
		scan := func(e *E) {
			if e == nil {
				return
			}
			for _, x := range u.Collect(e, func(x *E) bool { return x.Op == "call" && x.Aux == "regexp.MustCompile" && len(x.Args) >= 1 }) {
				if sv, ok := x.Args[0].StrVal(); ok {
					gatePats[sv] = true
				} else if x.Args[0].Op == "call" && x.Args[0].Aux == "regexp.QuoteMeta" && len(x.Args[0].Args) == 1 {
					if sv, ok := x.Args[0].Args[0].StrVal(); ok {
						gatePats[quoteMeta(sv)] = true
					}
				}
			}
			for _, x := range u.Collect(e, func(x *E) bool { return x.Op == "gload" }) {
				unresolved[x.Aux[strings.LastIndex(x.Aux, ".")+1:]] = true
			}
		}
		if len(s.Rets) > 0 {
			scan(g.RetExpr(s, 0))
		}
		for _, ef := range s.Effects {
			scan(ef.Call)
			scan(ef.Val)
		}
		okQ := false
		for _, r := range s.Rets {
			if sv, ok := r.Vals[0].StrVal(); ok && sv == "" {
				for _, at := range u.AtomsOf(r.Cond) {
					if at.Op == "call" && at.Aux == "strings.Contains" && isStr(at.Args[1], "?") && u.bdd.Implies(r.Cond, u.Atom(at)) {
						okQ = true
					}
				}
			}
		}
		c.Check(okQ, "C05.R4", shortFn(regexX)+": returns \"\" when the expression contains '?'", regexX.Pos(), "early return on strings.Contains(pattern, \"?\")",
			"the '?' bail-out is gone: optional parts (a?, (x)?, lookarounds) would be treated as mandatory text")
		var names []string
		for n := range used {
			names = append(names, n)
		}
		sort.Strings(names)
		meta := `\^$*+?.()|[]{}`
		nSplit, nStrip := 0, 0
		// patterns by name (single variables), plus those reached through a table
		type namedPat struct{ n, pat string }
		var pats []namedPat
		seenPat := map[string]bool{}
		for _, n := range names {
			pat, ok := res[n]
			if !ok {
				if unresolved[n] || len(gatePats) == 0 {
					c.Fail("C05.R4", "regex constant "+n, regexX.Pos(), "UNDECIDED: not compiled from a constant")
				}
				continue
			}
			seenPat[pat] = true
			pats = append(pats, namedPat{n, pat})
		}
		var gp []string
		for p := range gatePats {
			gp = append(gp, p)
		}
		sort.Strings(gp)
		for _, p := range gp {
			if !seenPat[p] {
				pats = append(pats, namedPat{fmt.Sprintf("%q", p), p})
			}
		}
		for _, np := range pats {
			n, pat := np.n, np.pat
			re, err := syntax.Parse(pat, syntax.Perl)
			if err != nil {
				c.Fail("C05.R4", "regex constant "+n, regexX.Pos(), "does not parse: "+err.Error())
				continue
			}
			// splitter: a single character class
			if re.Op == syntax.OpCharClass {
				nSplit++
				missing := ""
				for _, m := range meta {
					in := false
					for i := 0; i+1 < len(re.Rune); i += 2 {
						if m >= re.Rune[i] && m <= re.Rune[i+1] {
							in = true
						}
					}
					if !in {
						missing += string(m)
					}
				}
				c.Check(missing == "", "C05.R4", "splitter class "+n+" contains every RE2 metacharacter", regexX.Pos(), "class parsed with regexp/syntax",
					"the splitter does not split at "+fmt.Sprintf("%q", missing)+": the metacharacter would end up inside a shortcut")
				continue
			}
			// bracket strippers: contain a repetition over "any char"; must be greedy
			hasAnyStar, lazy := false, false
			var walk func(r *syntax.Regexp)
			walk = func(r *syntax.Regexp) {
				if (r.Op == syntax.OpStar || r.Op == syntax.OpPlus || r.Op == syntax.OpQuest || r.Op == syntax.OpRepeat) && len(r.Sub) == 1 &&
					(r.Sub[0].Op == syntax.OpAnyCharNotNL || r.Sub[0].Op == syntax.OpAnyChar) {
					hasAnyStar = true
					if r.Flags&syntax.NonGreedy != 0 {
						lazy = true
					}
				}
				for _, sub := range r.Sub {
					walk(sub)
				}
			}
			walk(re)
			if hasAnyStar {
				nStrip++
				c.Check(!lazy, "C05.R5", "bracket stripper "+n+" is greedy", regexX.Pos(), "no NonGreedy repetition over '.'",
					"the expression "+fmt.Sprintf("%q", pat)+" matches lazily: for nested groups only the part up to the first closing bracket is stripped and the outer group's alternatives are treated as mandatory text")
			}
		}
		if nSplit == 0 {
			// the pieces may be cut by a scan at a constant character set instead
			if k, _, ok := cutScanSplitter(g, s); ok {
				nSplit++
				missing := ""
				for _, m := range meta {
					if !strings.ContainsRune(k, m) {
						missing += string(m)
					}
				}
				c.Check(missing == "", "C05.R4", "splitter set of the cutting scan contains every RE2 metacharacter", regexX.Pos(), fmt.Sprintf("strings.IndexAny(text, %q)", k),
					"the scan does not cut at "+fmt.Sprintf("%q", missing)+": the metacharacter would end up inside a shortcut")
			}
		}
		if nSplit == 0 {
			c.Fail("C05.R4", shortFn(regexX)+": splitter class", regexX.Pos(), "UNDECIDED: no character-class splitter among the constant expressions it uses")
		}
		// ---------- R7: the strippers that need a character in front of the bracket get one ----------
		{
			var roots []*E
			for _, r := range s.Rets {
				roots = append(roots, u.AtomsOf(r.Cond)...)
				roots = append(roots, r.Vals...)
			}
			for _, ef := range s.Effects {
				roots = append(roots, ef.Call, ef.Val)
				roots = append(roots, u.AtomsOf(ef.Cond)...)
			}
			isRepl := func(x *E) bool {
				return x.Op == "call" && (x.Aux == "(*regexp.Regexp).ReplaceAllString" || x.Aux == "(*regexp.Regexp).ReplaceAllLiteralString") && len(x.Args) >= 3
			}
			seen := map[*E]bool{}
			var repls []*E
			for _, r := range roots {
				if r == nil {
					continue
				}
				for _, x := range u.Collect(r, isRepl) {
					if !seen[x] {
						seen[x] = true
						repls = append(repls, x)
					}
				}
			}
			// the splitter class, for "the placeholder cannot become part of a shortcut"
			var splitRunes []rune
			for _, np := range pats {
				if re, err := syntax.Parse(np.pat, syntax.Perl); err == nil && re.Op == syntax.OpCharClass {
					splitRunes = re.Rune
				}
			}
			inClass := func(rs []rune, ch rune) bool {
				for i := 0; i+1 < len(rs); i += 2 {
					if ch >= rs[i] && ch <= rs[i+1] {
						return true
					}
				}
				return false
			}
			bad := ""
			n := 0
			for _, x := range repls {
				patE := x.Args[0]
				if patE.Op != "call" || patE.Aux != "regexp.MustCompile" || len(patE.Args) < 1 {
					continue
				}
				pat, ok := patE.Args[0].StrVal()
				if !ok {
					continue
				}
				re, err := syntax.Parse(pat, syntax.Perl)
				if err != nil || re.Op != syntax.OpConcat || len(re.Sub) < 2 {
					continue
				}
				lead := re.Sub[0]
				for lead.Op == syntax.OpCapture {
					lead = lead.Sub[0]
				}
				var leadOK func(ch rune) bool
				switch lead.Op {
				case syntax.OpCharClass:
					rs := lead.Rune
					leadOK = func(ch rune) bool { return inClass(rs, ch) }
				case syntax.OpAnyChar, syntax.OpAnyCharNotNL:
					leadOK = func(ch rune) bool { return true }
				default:
					continue // can match at the start of the text
				}
				n++
				// innermost text of the replacement chain
				text := x.Args[1]
				for isRepl(text) {
					text = text.Args[1]
				}
				head := ""
				okHead := false
				if text.Op == "bin" && text.Aux == "+" {
					head, okHead = text.Args[0].StrVal()
				}
				switch {
				case !okHead || head == "":
					if bad == "" {
						bad = fmt.Sprintf("the stripper %q needs a character in front of the bracket, but it is applied to %s, which can start with the bracket itself: a leading group or class is not stripped and its contents become the shortcut", pat, clip(u.Show(text), 80))
					}
				case !leadOK(rune(head[len(head)-1])):
					if bad == "" {
						bad = fmt.Sprintf("the placeholder %q prepended for the stripper %q ends in a character its leading class does not accept", head, pat)
					}
				default:
					for _, ch := range head {
						if splitRunes != nil && !inClass(splitRunes, ch) && bad == "" {
							bad = fmt.Sprintf("the placeholder %q contains %q, which the splitter does not split at: it can become part of a shortcut", head, string(ch))
						}
					}
				}
			}
			c.Check(bad == "", "C05.R7", shortFn(regexX)+": strippers that consume the character before the bracket are applied to placeholder+text", regexX.Pos(), fmt.Sprintf("%d stripper applications; innermost text = constant of splitter characters + expression", n), bad)
		}
		// ---------- R8: the operators that make a literal optional are neutralised ----------
		// The pipeline of the heuristic is a chain of constants: bail-out tests on constant strings,
		// ReplaceAllString with constant expressions and templates, a constant splitter.  The chain is
		// read off the evaluated function and interpreted inside the checker (Go's regexp on the
		// constant texts) on a table of sample expressions, one per operator of the property's
		// grammar; every candidate piece must be contained in every witness URL the sample accepts.
		checkRegexHeuristicTable(c, g, s, regexX)
		c.Extra["regex_constants_used"] = names
		_ = nStrip
	}
}

// regexSample is one row of the C05.R8 table: the body of a regular-expression rule (between the
// slashes) and URLs it accepts.  Every piece the heuristic could pick must occur in all of them.
type regexSample struct {
	body      string
	witnesses []string
	what      string
}

var regexSamples = []regexSample{
	{`qqqq\dzzzz`, []string{"qqqq5zzzz"}, "class escape \\d: the letter of the escape is not literal text"},
	{`qqqq\wzzzz`, []string{"qqqq_zzzz"}, "class escape \\w"},
	{`qqqq\.zzzz`, []string{"qqqq.zzzz"}, "escaped metacharacter"},
	{`qqqq|zzzz`, []string{"qqqq", "zzzz"}, "alternation outside any group: no piece is common to both branches"},
	{`qqqq(aaaa|bbbb)zzzz`, []string{"qqqqaaaazzzz", "qqqqbbbbzzzz"}, "alternation inside a group"},
	{`(qqqq|zzzz)xxxx`, []string{"qqqqxxxx", "zzzzxxxx"}, "group at the very start"},
	{`qqqq[ab]zzzz`, []string{"qqqqazzzz"}, "character class"},
	{`qqqqx*zzzz`, []string{"qqqqzzzz"}, "x* may repeat zero times: the x is not mandatory"},
	{`qqqq(xx)*zzzz`, []string{"qqqqzzzz"}, "group repeated zero times"},
	{`qqqqx+zzzz`, []string{"qqqqxzzzz"}, "x+ repeats at least once"},
	{`qqqqx{2,3}zzzz`, []string{"qqqqxxzzzz"}, "counted repetition with a positive minimum"},
	{`qqqqx{0,2}zzzz`, []string{"qqqqzzzz"}, "x{0,n} may repeat zero times: the x is not mandatory"},
	{`qqqqx?zzzz`, []string{"qqqqzzzz"}, "optional character"},
	{`qqqq\d\wzzzz`, []string{"qqqq5_zzzz"}, "two class escapes in a row: the second one is an escape too, its letter is not literal text"},
	{`qqqq\x41zzzz`, []string{"qqqqAzzzz"}, "hexadecimal escape \\xHH: the digits are not literal text"},
	{`qqqq\101zzzz`, []string{"qqqqAzzzz"}, "octal escape: the digits are not literal text"},
	{`qqqq\pLzzzz`, []string{"qqqqezzzz"}, "one-letter Unicode class \\pL: the class name is not literal text"},
	{`qqqqx{0}zzzz`, []string{"qqqqzzzz"}, "x{0} repeats zero times: the x is not there"},
	{`qqqqx{0,}zzzz`, []string{"qqqqzzzz"}, "x{0,} may repeat zero times"},
	{`qqqq\\dzzzz`, []string{`qqqq\dzzzz`}, "escaped backslash followed by a letter: literal text"},
	{`qqqq(a)xxxx|zzzz(b)`, []string{"qqqqaxxxx", "zzzzb"}, "alternation between two groups: stripping from the first '(' to the last ')' must not hide it"},
	{`qqqq[a]xxxx|zzzz[b]yyyy`, []string{"qqqqaxxxx", "zzzzbyyyy"}, "alternation between two character classes"},
	{`qqqqx{1}|zzzzy{1}wwww`, []string{"qqqqx", "zzzzywwww"}, "alternation between two counted repetitions"},
	{`qqqq[(]xxxx|zzzz[)]`, []string{"qqqq(xxxx", "zzzz)"}, "alternation between a class holding '(' and a class holding ')': the brackets inside classes are not a group"},
	{`qqqq[)]xxxx|zzzz[(]wwww`, []string{"qqqq)xxxx", "zzzz(wwww"}, "alternation between a class holding ')' and a class holding '('"},
	{`qqqq\(xxxx|zzzz\)wwww`, []string{"qqqq(xxxx", "zzzz)wwww"}, "alternation between two escaped brackets"},
	{`qqqq[|]zzzz`, []string{"qqqq|zzzz"}, "a '|' inside a character class is literal text"},
}

// cutScanSplitter recognises the candidate pieces being cut by a scan instead
// of a regexp split: a loop-carried text t, in every iteration i =
// strings.IndexAny(t, K) with K constant, and t continues as t[i+1:].  The
// pieces are then the maximal runs free of the characters of K, as with a split
// on the class [K].  It returns K and the text the scan starts from.
func cutScanSplitter(g *Gate, s *Summary) (set string, text *E, ok bool) {
	u := g.U
	for _, li := range loopInsts(g, s) {
		for _, in := range li.L.Header.Instrs {
			ph, isPhi := in.(*ssa.Phi)
			if !isPhi {
				break
			}
			if !isStringT(ph.Type()) {
				continue
			}
			p := li.Act.Env[ph]
			if p == nil {
				continue
			}
			var init *E
			k, okAll, n := "", true, 0
			for i, pr := range li.L.Header.Preds {
				v := li.Act.Env[ph.Edges[i]]
				if v == nil {
					if cv, isC := ph.Edges[i].(*ssa.Const); isC && cv.Value != nil {
						v = u.ConstVal(cv.Value, cv.Type())
					}
				}
				if !li.L.Blocks[pr] {
					init = v
					continue
				}
				n++
				// v = p[IndexAny(p, K)+1:]
				if v == nil || v.Op != "slice" || v.Args[0] != p || v.Args[2] != nil || v.Args[1] == nil {
					okAll = false
					continue
				}
				lo := v.Args[1]
				var idx *E
				if lo.Op == "bin" && lo.Aux == "+" {
					for j := 0; j < 2; j++ {
						if c1, isI := lo.Args[j].IntVal(); isI && c1 == 1 {
							idx = lo.Args[1-j]
						}
					}
				}
				if idx == nil || idx.Op != "call" || idx.Aux != "strings.IndexAny" || len(idx.Args) != 2 || idx.Args[0] != p {
					okAll = false
					continue
				}
				kv, isK := idx.Args[1].StrVal()
				if !isK || (k != "" && kv != k) {
					okAll = false
					continue
				}
				k = kv
			}
			if okAll && n > 0 && k != "" && init != nil {
				return k, init, true
			}
		}
	}
	return "", nil, false
}

// classOf is the character class [K] as a regular expression.
func classOf(k string) string {
	var sb strings.Builder
	sb.WriteString("[")
	for _, r := range k {
		if r == '-' {
			sb.WriteString(`\-`)
			continue
		}
		sb.WriteString(regexp.QuoteMeta(string(r)))
	}
	sb.WriteString("]")
	return sb.String()
}

func checkRegexHeuristicTable(c *Ctx, g *Gate, s *Summary, regexX *ssa.Function) {
	u := g.U
	isRepl := func(x *E) bool {
		return x.Op == "call" && (x.Aux == "(*regexp.Regexp).ReplaceAllString" || x.Aux == "(*regexp.Regexp).ReplaceAllLiteralString") && len(x.Args) >= 3
	}
	constRe := func(e *E) (string, bool) {
		if e.Op == "call" && e.Aux == "regexp.MustCompile" && len(e.Args) >= 1 {
			if sv, ok := e.Args[0].StrVal(); ok {
				return sv, true
			}
			if q := e.Args[0]; q.Op == "call" && q.Aux == "regexp.QuoteMeta" && len(q.Args) == 1 {
				if sv, ok := q.Args[0].StrVal(); ok {
					return quoteMeta(sv), true
				}
			}
		}
		return "", false
	}
	// the split
	var split *E
	var roots []*E
	for _, r := range s.Rets {
		roots = append(roots, u.AtomsOf(r.Cond)...)
		roots = append(roots, r.Vals...)
	}
	for _, r := range roots {
		for _, x := range u.Collect(r, func(x *E) bool { return x.Op == "call" && x.Aux == "(*regexp.Regexp).Split" && len(x.Args) >= 2 }) {
			split = x
		}
	}
	var splitPat string
	var okS bool
	var splitText *E
	if split != nil {
		splitPat, okS = constRe(split.Args[0])
		splitText = split.Args[1]
	} else if k, text, ok := cutScanSplitter(g, s); ok {
		splitPat, okS, splitText = classOf(k), true, text
	} else {
		c.Fail("C05.R8", shortFn(regexX)+": pipeline", regexX.Pos(), "UNDECIDED: the candidate pieces are not produced by (*regexp.Regexp).Split on a constant expression, nor by a scan cutting at a constant character set")
		return
	}
	type stage struct {
		pat, repl string
		literal   bool
		text      *E // the text this stage produces
	}
	var stages []stage
	t := splitText
	okChain := okS
	for isRepl(t) {
		pat, ok1 := constRe(t.Args[0])
		repl, ok2 := t.Args[2].StrVal()
		if !ok1 || !ok2 {
			okChain = false
			break
		}
		stages = append([]stage{{pat, repl, strings.HasSuffix(t.Aux, "LiteralString"), t}}, stages...)
		t = t.Args[1]
	}
	head := ""
	body := t
	if t.Op == "bin" && t.Aux == "+" {
		if h, ok := t.Args[0].StrVal(); ok {
			head, body = h, t.Args[1]
		}
	}
	if !okChain {
		c.Fail("C05.R8", shortFn(regexX)+": pipeline", regexX.Pos(), "UNDECIDED: a stage of the heuristic does not use a constant expression / template")
		return
	}
	// the chain must start at the expression as written (the parameter, or the part of it between
	// the slashes); anything else in between was not understood and the table would judge a
	// pipeline that is not the code's
	{
		prm := g.ParamExprs(regexX)[0]
		okBody := body == prm || (body.Op == "slice" && len(body.Args) > 0 && body.Args[0] == prm)
		if !okBody {
			c.Fail("C05.R8", shortFn(regexX)+": pipeline", regexX.Pos(), "UNDECIDED: the text the stages are applied to is not the expression as written: "+clip(u.Show(body), 120))
			return
		}
	}
	// bail-outs: return "" under strings.Contains(<text of some stage>, <constant>)
	type bail struct {
		text *E
		k    string
		any  bool // strings.ContainsAny: one of the characters of k
	}
	var bails []bail
	for _, r := range s.Rets {
		if sv, ok := r.Vals[0].StrVal(); !ok || sv != "" {
			continue
		}
		for _, at := range u.AtomsOf(r.Cond) {
			if at.Op == "call" && (at.Aux == "strings.Contains" || at.Aux == "strings.ContainsAny") && len(at.Args) == 2 && u.bdd.Implies(r.Cond, u.Atom(at)) {
				if k, ok := at.Args[1].StrVal(); ok {
					bails = append(bails, bail{at.Args[0], k, at.Aux == "strings.ContainsAny"})
				}
			}
		}
	}
	hit := func(b bail, val string) bool {
		if b.any {
			return strings.ContainsAny(val, b.k)
		}
		return strings.Contains(val, b.k)
	}
	bailsAt := func(text *E, val string) bool {
		for _, b := range bails {
			if b.text != text {
				continue
			}
			if hit(b, val) {
				return true
			}
		}
		return false
	}
	// a bail-out may test a text of its own: a chain of constant replacements applied to the
	// expression as written (not one of the stages that lead to the split)
	var evalText func(e *E, sample string, depth int) (string, bool)
	evalText = func(e *E, sample string, depth int) (string, bool) {
		switch {
		case depth > 12:
			return "", false
		case e == body:
			return sample, true
		case e.Op == "bin" && e.Aux == "+":
			if h, ok := e.Args[0].StrVal(); ok {
				v, ok2 := evalText(e.Args[1], sample, depth+1)
				return h + v, ok2
			}
		case isRepl(e):
			pat, ok1 := constRe(e.Args[0])
			repl, ok2 := e.Args[2].StrVal()
			in, ok3 := evalText(e.Args[1], sample, depth+1)
			if !ok1 || !ok2 || !ok3 {
				return "", false
			}
			re, err := regexp.Compile(pat)
			if err != nil {
				return "", false
			}
			if strings.HasSuffix(e.Aux, "LiteralString") {
				return re.ReplaceAllLiteralString(in, repl), true
			}
			return re.ReplaceAllString(in, repl), true
		}
		return "", false
	}
	inChain := func(text *E) bool {
		if text == body || text == t {
			return true
		}
		for _, st := range stages {
			if st.text == text {
				return true
			}
		}
		return false
	}
	sideBail := func(sample string) bool {
		for _, b := range bails {
			if inChain(b.text) {
				continue
			}
			if v, ok := evalText(b.text, sample, 0); ok && hit(b, v) {
				return true
			}
		}
		return false
	}
	splitRe, err := regexp.Compile(splitPat)
	if err != nil {
		c.Fail("C05.R8", shortFn(regexX)+": pipeline", regexX.Pos(), "UNDECIDED: the splitter does not compile: "+err.Error())
		return
	}
	for _, sm := range regexSamples {
		key := shortFn(regexX) + ": sample /" + sm.body + "/"
		val := sm.body
		bad := ""
		out := ""
		if bailsAt(body, val) || sideBail(val) {
			out = "no shortcut (bail-out)"
		} else {
			val = head + val
			bailed := bailsAt(t, val)
			for _, st := range stages {
				if bailed {
					break
				}
				re, err := regexp.Compile(st.pat)
				if err != nil {
					bad = "UNDECIDED: " + err.Error()
					break
				}
				if st.literal {
					val = re.ReplaceAllLiteralString(val, st.repl)
				} else {
					val = re.ReplaceAllString(val, st.repl)
				}
				if bailsAt(st.text, val) {
					bailed = true
				}
			}
			if bailed {
				out = "no shortcut (bail-out)"
			} else if bad == "" {
				var cands []string
				for _, part := range splitRe.Split(val, -1) {
					if part == "" {
						continue
					}
					cands = append(cands, part)
					for _, w := range sm.witnesses {
						if !strings.Contains(strings.ToLower(w), strings.ToLower(part)) && bad == "" {
							bad = fmt.Sprintf("the piece %q can become the shortcut of /%s/, but the expression accepts %q, which does not contain it: the rule silently never fires on such URLs (%s)", part, sm.body, w, sm.what)
						}
					}
				}
				out = fmt.Sprintf("candidate pieces %q", cands)
			}
		}
		c.Paths++
		c.Check(bad == "", "C05.R8", key, regexX.Pos(), out+", each contained in "+fmt.Sprintf("%q", sm.witnesses), bad)
	}
}
