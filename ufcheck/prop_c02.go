package main

// C02 — DNS engine answer equals the reference resolution over all rules.

import (
	"fmt"
	"go/constant"
	"go/types"
	"os"
	"sort"
	"strings"

	"golang.org/x/tools/go/ssa"
)

func init() {
	register(&PropDef{
		ID:  "C02",
		Run: runC02,
		Explanation: "Static decision of the structural clauses of C02. R1: every host rule the DNS host table returns is re-validated by HostRule.Match(rule, hostname) with the very string that was hashed. " +
			"R2: addRule keys every name of a host rule (complete unconditional loop, key FastHash(name), value the storage index). R3: the constructor sends every *HostRule to the host table and a *NetworkRule to the network engine exactly when " +
			"IsHostLevelNetworkRule() holds. R4: the decision table of MatchRequest (extracted from SSA) equals the statement: empty hostname => nothing; NetworkRules = unfiltered MatchAll of the pooled request; a basic rule wins and the host table is not consulted; " +
			"otherwise matched = host lookup flag; IPv4 rules go to HostRulesV4 on the true edge of Is4, all others to HostRulesV6. R5: the lookup flag is len(result) > 0. R6: the rule selection does not write through its argument (NetworkRules stays the unfiltered list). R9: IsHostLevelNetworkRule, evaluated on no option, every single option and every pair of options, is host-level exactly when enabledOptions &^ OptionHostLevelRulesOnly == 0 (the other conjuncts as with no option). A probe that files the host rules into the result it is handed (matchLookupTable(hostname, res) bool) is accepted as a second division of the work: the flag must be the loop-carried 'filed something', the family split, re-validation and bucket scan are judged in the probe, and the result handed over must be the fresh one the query returns. R10 imports the pattern-constant table (C03.R9): a ||domain^ rule covers every sub-domain label a DNS name can have. Roles pass to successor helpers when the vocabulary function is gone (fillHostRules for matchLookupTable, hostIndex.add for addRule). R13 imports C04.R6 ($denyallow address exemption), R14 imports C12.R7 (whole lines); the routing calls of R3 are looked for in helper activations too. R7 imports C11.R1-R5 since round 13: the engine keeps only the index of a rule, so the index the scanner reports must be the position the line starts at whatever the line ending (CRLF lists), and retrieval at it must return the scanned rule.",
		Trusted: []string{"which modifiers make a rule browser-only is a product decision (the set of options in OptionHostLevelRulesOnly is not judged, only that the predicate is the subset test against it)", "C01, C06, C07, C18 decide the pieces this composes"},
	})
}

func runC02(c *Ctx) {
	c.Rule("C02.R1", "IDX", "host-table hits re-validated by HostRule.Match with the hashed hostname; whole bucket scanned", 2)
	c.Rule("C02.R2", "IDX", "every hostname of a host rule is keyed", 1)
	c.Rule("C02.R3", "WIRE", "constructor routes *HostRule to the host table and host-level *NetworkRule (only those) to the network engine", 2)
	c.Rule("C02.R4", "PDT", "MatchRequest decision table", 5)
	c.Rule("C02.R5", "PDT", "lookup flag == len(result) > 0", 1)
	c.Rule("C02.R6", "EFF", "GetDNSBasicRule and the filters it calls never write through their argument slice", 1)

	a := &anchors{c: c, rule: "C02.R1"}
	hm := a.method("rules", "HostRule", "Match")
	mr := a.method("", "DNSEngine", "MatchRequest")
	nde := a.fn("", "NewDNSEngine")
	fh := a.fn("filterutil", "FastHash")
	gdb := a.fn("rules", "GetDNSBasicRule")
	neMA := a.method("", "NetworkEngine", "MatchAll")
	neAdd := a.method("", "NetworkEngine", "AddRule")
	ihl := a.method("rules", "NetworkRule", "IsHostLevelNetworkRule")
	if a.bad {
		return
	}
	// roles: host-table probe = callee of MatchRequest returning ([]rules.Rule, bool); insert = method of DNSEngine taking *HostRule
	var probe, insert, poolGet *ssa.Function
	probeFiles := false     // the probe appends to the result's family lists itself
	hostIdx, resIdx := 1, 2 // parameter positions (receiver = 0) of the hostname and, for a filing probe, of the result
	listProbe := func(cal *ssa.Function) bool {
		r := cal.Signature.Results()
		// takes the hostname, returns the matching rules (as []rules.Rule with a found flag, or as []*rules.HostRule)
		if (r.Len() == 2 && (typeStr(r.At(0).Type()) == "[]rules.Rule" || typeStr(r.At(0).Type()) == "[]*rules.HostRule") && typeStr(r.At(1).Type()) == "bool") || (r.Len() == 1 && typeStr(r.At(0).Type()) == "[]*rules.HostRule") {
			return cal.Signature.Params().Len() == 1 && typeStr(cal.Signature.Params().At(0).Type()) == "string"
		}
		return false
	}
	filingProbe := func(cal *ssa.Function) bool {
		// ... or files them into the result it is handed and reports whether it found any
		r, ps := cal.Signature.Results(), cal.Signature.Params()
		if r.Len() != 1 || typeStr(r.At(0).Type()) != "bool" || ps.Len() != 2 || !readsHostTable(c.P, cal) {
			return false
		}
		t0, t1 := typeStr(ps.At(0).Type()), typeStr(ps.At(1).Type())
		return (t0 == "string" && strings.HasSuffix(t1, "DNSResult")) || (t1 == "string" && strings.HasSuffix(t0, "DNSResult"))
	}
	if probe = c.P.ResolveRole(mr, listProbe); probe == nil {
		if probe = c.P.ResolveRole(mr, filingProbe); probe != nil {
			probeFiles = true
			if typeStr(probe.Signature.Params().At(0).Type()) != "string" {
				hostIdx, resIdx = 2, 1
			}
		}
	}
	if probe != nil && probe.Signature.Recv() == nil {
		hostIdx, resIdx = hostIdx-1, resIdx-1
	}
	poolGet = c.P.ResolveRole(mr, func(cal *ssa.Function) bool {
		r := cal.Signature.Results()
		return r.Len() == 1 && typeStr(r.At(0).Type()) == "*rules.Request" && !c.P.IsNewHelper(cal)
	})
	insert = c.P.ResolveRole(nde, func(cal *ssa.Function) bool {
		// the host-table insert: handed the host rule (or its names) and the storage index
		ps := cal.Signature.Params()
		return cal.Signature.Recv() != nil && ps.Len() == 2 && (typeStr(ps.At(0).Type()) == "*rules.HostRule" || typeStr(ps.At(0).Type()) == "[]string")
	})
	// (the pool refill may be a helper returning the request, or Get in place plus a fill function)
	if probe == nil || insert == nil {
		c.Fail("C02.R1", "anchor:host table probe/insert", mr.Pos(), fmt.Sprintf("unresolved anchor by role (probe=%v insert=%v)", probe != nil, insert != nil))
		return
	}

	// ---------- R1 ----------
	if guardedBy(c, "C02.R1", probe, hm, hostIdx, "hostname") == 0 {
		c.Fail("C02.R1", shortFn(probe)+": emission", probe.Pos(), "UNDECIDED: no inspectable append")
	}
	{
		g := NewGate(c.P)
		g.Inline = inlineOnly()
		s := g.Eval(probe)
		ps := g.ParamExprs(probe)
		ok := false
		for _, site := range callsTo(probe, fh) {
			if ce := s.Env[site.(ssa.Value)]; ce != nil && ce.Args[0] == ps[hostIdx] {
				ok = true
			}
		}
		// (the hash may be taken by a helper outside the vocabulary: the key of the table lookup decides)
		for _, e := range g.U.tab {
			if e.Op == "lookup" && len(e.Args) == 2 && e.Args[1].Op == "call" && e.Args[1].Aux == calleeName(fh) && len(e.Args[1].Args) > 0 && e.Args[1].Args[0] == ps[hostIdx] {
				ok = true
			}
		}
		c.Check(ok, "C02.R1", shortFn(probe)+": bucket key is FastHash(hostname)", probe.Pos(), "same string hashed and re-validated", "the bucket is not selected by the hash of the queried hostname")
		// R5
		u := g.U
		bad := ""
		for _, r := range s.Rets {
			if len(r.Vals) != 2 {
				continue // no separate flag: the caller tests the length of the result (checked under R4)
			}
			want := u.bdd.Not(u.ToBool(u.Eq(u.Len(r.Vals[0]), u.Int(0))))
			got := u.ToBool(r.Vals[1])
			if u.bdd.And(r.Cond, u.bdd.Xor(want, got)) != False {
				bad = fmt.Sprintf("at %s the flag is %s but the result list is %s", c.P.Pos(r.Pos), clip(u.Show(r.Vals[1]), 80), clip(u.Show(r.Vals[0]), 80))
			}
		}
		if probeFiles {
			bad = filingFlagIsEmission(g, s, probe)
		}
		c.Check(bad == "", "C02.R5", shortFn(probe)+": flag == (len(result) > 0)", probe.Pos(), fmt.Sprintf("%d return sites", len(s.Rets)), bad)
	}

	// bucket scan completeness: every index of the bucket is examined
	{
		g := NewGate(c.P)
		g.Inline = inlineOnly()
		s := g.Eval(probe)
		bad := "no bucket scan"
		for _, l := range loopsOf(probe) {
			ro := rangedOver(l)
			if ro == nil {
				continue
			}
			if ro.Full && onlyExhaustionExit(l) {
				bad = ""
			} else {
				bad = "the scan over the bucket can stop before its end (early exit): entries after an unreadable or non-matching one are never returned"
			}
		}
		// ... and every index of the bucket is retrieved: the retrieval sits in the loop body
		// unconditionally (a skipped index is a rule that is never answered with)
		if rhr := c.P.Method("filterlist", "RuleStorage", "RetrieveHostRule"); rhr != nil && bad == "" {
			u := g.U
			found := false
			for _, ef := range s.Effects {
				if ef.Kind != "call" || ef.Call.Aux != calleeName(rhr) {
					continue
				}
				found = true
				l, la := loopAround(s, ef.Act, ef.Ins)
				if l == nil {
					bad = "UNDECIDED: the retrieval is not inside the bucket scan"
					continue
				}
				body := u.bdd.And(la.RC[l.Header], contCond(u, la, l))
				if ef.Cond != body {
					bad = "an index of the bucket can be skipped without being retrieved (the retrieval is reached only when " + clip(u.ShowBool(u.bdd.Restrict(ef.Cond, body)), 120) + "): the rule stored there is never part of an answer"
				}
			}
			if !found {
				bad = "UNDECIDED: no retrieval of the stored host rules"
			}
		}
		c.Check(bad == "", "C02.R1", shortFn(probe)+": the whole bucket is scanned", probe.Pos(), "complete range, no early exit, every index retrieved", bad)
	}
	// ---------- R9: which network rules the DNS engine loads ----------
	{
		c.Rule("C02.R9", "PDT", "a network rule is host-level iff every enabled option is one of the host-level options", 1)
		kMask, okM := a.constInt("rules", "OptionHostLevelRulesOnly")
		g := NewGate(c.P)
		g.Inline = nil // the predicate is evaluated with everything below it expanded (option helpers, bit counts)
		s := g.Eval(ihl)
		u := g.U
		f := g.ParamExprs(ihl)[0]
		res := g.RetExpr(s, 0)
		// every option constant of the package
		var bits []int64
		if sp := c.P.SPkg[pkgPath("rules")]; sp != nil {
			for _, m := range sp.Members {
				if nc, ok := m.(*ssa.NamedConst); ok && typeStr(nc.Type()) == "rules.NetworkRuleOption" {
					if v, ok := constant.Int64Val(nc.Value.Value); ok && v != 0 && v&(v-1) == 0 {
						bits = append(bits, v)
					}
				}
			}
		}
		sort.Slice(bits, func(i, j int) bool { return bits[i] < bits[j] })
		bad := ""
		if !okM || len(bits) < 8 {
			bad = "UNDECIDED: option constants not resolved"
		}
		n := 0
		// the decision with no option set: the non-option conjuncts of the predicate
		var r0 *E
		if bad == "" {
			r0 = u.Subst(res, map[string]*E{u.Field(f, "enabledOptions", nil).key: u.ConstVal(constantInt(0), types.Typ[types.Uint64])})
			if r0.Op != "bool" || r0.B == False {
				bad = "UNDECIDED/violated: with no option enabled the rule is never host-level: " + clip(u.Show(r0), 100)
			}
		}
		try := func(v int64) {
			if bad != "" {
				return
			}
			sub := map[string]*E{u.Field(f, "enabledOptions", nil).key: u.ConstVal(constantInt(v), types.Typ[types.Uint64])}
			r := u.Subst(res, sub)
			n++
			want := v&^kMask == 0
			if r.Op != "bool" || (r.B != r0.B && r.B != False) {
				bad = fmt.Sprintf("UNDECIDED: the result does not fold for options %#x: %s", v, clip(u.Show(r), 100))
			} else if (r.B == r0.B) != want {
				bad = fmt.Sprintf("for enabled options %#x the rule is host-level=%v, documented %v (host-level options mask %#x): a rule with a modifier the DNS level cannot honour is loaded into the DNS engine, or a plain one is not", v, r.B == r0.B, want, kMask)
			}
		}
		try(0)
		for _, b := range bits {
			try(b)
		}
		for _, b1 := range bits {
			for _, b2 := range bits {
				if b1 < b2 {
					try(b1 | b2)
				}
			}
		}
		c.Paths += n
		c.Check(bad == "", "C02.R9", shortFn(ihl)+": enabledOptions &^ hostLevelMask == 0", ihl.Pos(), fmt.Sprintf("decision evaluated on %d option sets (none, every single option, every pair)", n), bad)
	}
	importRules(c, runC13, map[string]string{"C13.R2": "C02.R7"}, nil)
	importRules(c, runC04, map[string]string{"C04.R5": "C02.R15", "C04.R12": "C02.R15"}, map[string]string{"C02.R15": "the $denyallow / $domain membership test and the $client values of the rules the DNS engine serves are the documented ones (shared with C04.R5, C04.R12)"})
	importRules(c, runC04, map[string]string{"C04.R6": "C02.R13"}, map[string]string{"C02.R13": "a $denyallow rule is exempt for addresses only: a host name that merely looks like an address is still judged by the domain list (shared with C04.R6)"})
	importRules(c, runC12, map[string]string{"C12.R7": "C02.R14"}, map[string]string{"C02.R14": "a hosts line reaches the engine whole, however many names it lists (shared with C12.R7)"})
	importRules(c, runC01, map[string]string{"C01.R2": "C02.R11", "C01.R3": "C02.R11", "C01.R6": "C02.R11"}, map[string]string{"C02.R11": "the network half of a DNS answer is the network engine's lookup: every table consulted, insert and probe side hash alike, tables decline only exact duplicates (shared with C01.R2/R3/R6)"})
	importRules(c, runC03, map[string]string{"C03.R9": "C02.R10"}, map[string]string{"C02.R10": "the constants a ||domain^ rule is compiled with mean what the syntax documents: every sub-domain label a DNS name can have is covered (shared with C03.R9)"})
	importRules(c, runC18, map[string]string{"C18.R1": "C02.R8", "C18.R2": "C02.R8", "C18.R3": "C02.R8", "C18.R4": "C02.R8", "C18.R5": "C02.R8", "C18.R10": "C02.R8"},
		map[string]string{"C02.R8": "the host rules the engine answers with are the lines of the lists read as hosts-file syntax: tokenizer, name list, address acceptance, name matching (shared with C18)"})
	importRules(c, runC11, map[string]string{"C11.R5": "C02.R7", "C11.R1": "C02.R7", "C11.R2": "C02.R7", "C11.R3": "C02.R7", "C11.R4": "C02.R7"},
		map[string]string{"C02.R7": "the constructor sees every rule of every list and keeps only its index: the storage scanner visits all lists, the index reported with a rule is the position its line starts at (whatever the line ending), and retrieval at that index returns the rule that was scanned (shared with C11.R1-R5)"})

	// ---------- R2 ----------
	{
		g := NewGate(c.P)
		g.Inline = inlineOnly()
		s := g.Eval(insert)
		u := g.U
		c.Fn(FuncName(insert))
		ps := g.ParamExprs(insert)
		loops := loopsOf(insert)
		var upd *ssa.MapUpdate
		eachInstr(insert, func(_ *ssa.BasicBlock, in ssa.Instruction) {
			if mu, ok := in.(*ssa.MapUpdate); ok {
				upd = mu
			}
		})
		key := shortFn(insert) + ": every hostname keyed"
		if upd == nil {
			c.Fail("C02.R2", key, insert.Pos(), "UNDECIDED: no map update")
		} else {
			ok, coll, why := fullUnconditionalLoop(u, s, loops, upd)
			ke := s.Env[upd.Key]
			collE := s.Env[coll]
			okKey := ok && ke != nil && ke.Op == "call" && ke.Aux == calleeName(fh) && ke.Args[0].Op == "index" && ke.Args[0].Args[0] == collE &&
				((collE.Op == "field" && collE.Aux == "Hostnames" && collE.Args[0] == ps[1]) || (collE == ps[1] && typeStr(insert.Params[1].Type()) == "[]string"))
			val := s.Env[upd.Value]
			okVal := val != nil && val.Op == "append" && val.Aux == "elems" && len(val.Args) == 2 && val.Args[1] == ps[2]
			c.Check(ok && okKey && okVal, "C02.R2", key, upd.Pos(), "complete unconditional loop over Hostnames; bucket[FastHash(name)] gets the storage index",
				fmt.Sprintf("not every name of a host rule is keyed (loop: %s; key=FastHash(element of Hostnames): %v; value appends the index: %v)", why, okKey, okVal))
		}
	}

	// ---------- R3 ----------
	{
		g := NewGate(c.P)
		g.Inline = inlineOnly()
		g.Pure[FuncName(ihl)] = true
		s := g.Eval(nde)
		u := g.U
		c.Fn(FuncName(nde))
		// the calls are looked for in the constructor and in the helpers expanded into it
		type siteT struct {
			ef   Effect
			l    *Loop
			lact *Summary
		}
		sitesOf := func(callee *ssa.Function) []siteT {
			var out []siteT
			for _, ef := range s.Effects {
				if ef.Kind == "call" && ef.Call != nil && ef.Call.Aux == calleeName(callee) && ef.Ins != nil {
					act := ef.Act
					if act == nil {
						act = s
					}
					l, lact := loopAround(s, act, ef.Ins)
					out = append(out, siteT{ef, l, lact})
				}
			}
			return out
		}
		for _, st := range sitesOf(insert) {
			site, l, ce := st.ef.Ins, st.l, st.ef.Call
			ok := l != nil && ce != nil
			if ok {
				body := u.bdd.And(st.lact.RC[l.Header], contCond(u, st.lact, l))
				rc := st.ef.Cond
				arg := ce.Args[1]
				if arg.Op == "field" && arg.Aux == "Hostnames" {
					arg = arg.Args[0] // the names of the rule are handed over
				}
				// reached exactly when the scanned rule is a *HostRule
				ok = arg.Op == "typeassert" || (arg.Op == "extract")
				var ist Ref = False
				for _, at := range u.AtomsOf(rc) {
					if at.Op == "istype" && at.Aux == "*rules.HostRule" {
						ist = u.Atom(at)
					}
				}
				ok = ok && rc == u.bdd.And(body, ist) && isScannerLoop(l)
			}
			c.Check(ok, "C02.R3", "NewDNSEngine: every *HostRule goes to the host table", site.Pos(), "called exactly when the scanned rule is a *HostRule, in the scan loop",
				"the host-table insert is not reached exactly for the scanned *HostRule values")
		}
		for _, st := range sitesOf(neAdd) {
			site, l := st.ef.Ins, st.l
			ok := l != nil
			if ok {
				body := u.bdd.And(st.lact.RC[l.Header], contCond(u, st.lact, l))
				rc := st.ef.Cond
				var ist, hl Ref = False, False
				for _, at := range u.AtomsOf(rc) {
					if at.Op == "istype" && at.Aux == "*rules.NetworkRule" {
						ist = u.Atom(at)
					}
					if at.Op == "call" && at.Aux == calleeName(ihl) {
						hl = u.Atom(at)
					}
				}
				// the HostRule case is tested first in a type switch: rc = body & !isHost & isNet & hostLevel; accept any rc equal to that modulo other istype atoms
				want := u.bdd.And(u.bdd.And(body, ist), hl)
				rest := rc
				for _, at := range u.AtomsOf(rc) {
					if at.Op == "istype" && at.Aux != "*rules.NetworkRule" {
						rest = u.bdd.Cofactor(rest, u.atomIx[at.key], false)
					}
				}
				ok = rest == want && hl != False && isScannerLoop(l)
			}
			c.Check(ok, "C02.R3", "NewDNSEngine: a *NetworkRule is loaded exactly when IsHostLevelNetworkRule()", site.Pos(), "guarded by the true edge of IsHostLevelNetworkRule on the scanned rule",
				"network rules are not loaded exactly under IsHostLevelNetworkRule() (all rules loaded, or some host-level rules skipped): "+clip(u.ShowBool(st.ef.Cond), 200))
		}
	}

	// ---------- R4 ----------
	{
		g := NewGate(c.P)
		g.Inline = inlineOnly()
		s := g.Eval(mr)
		u := g.U
		c.Fn(FuncName(mr))
		ps := g.ParamExprs(mr)
		host := u.Field(ps[1], "Hostname", nil)
		hostEmpty := u.ToBool(u.Eq(host, u.Str("")))
		var callMA, callGDB, callProbe, callPool *Effect
		for i := range s.Effects {
			ef := &s.Effects[i]
			if ef.Kind != "call" {
				continue
			}
			switch ef.Call.Aux {
			case calleeName(neMA):
				callMA = ef
			case calleeName(gdb):
				callGDB = ef
			case calleeName(probe):
				callProbe = ef
			}
			if poolGet != nil && ef.Call.Aux == calleeName(poolGet) {
				callPool = ef
			}
		}
		if callMA == nil || callGDB == nil || callProbe == nil {
			c.Fail("C02.R4", "MatchRequest: wiring", mr.Pos(), "UNDECIDED: expected calls (pool refill, NetworkEngine.MatchAll, GetDNSBasicRule, host-table probe) not all found")
			return
		}
		// empty hostname: nothing queried
		c.Check(u.bdd.Implies(callMA.Cond, u.bdd.Not(hostEmpty)) && u.bdd.Implies(callProbe.Cond, u.bdd.Not(hostEmpty)), "C02.R4", "MatchRequest: empty hostname queries nothing", mr.Pos(),
			"engine and host table are only consulted for a non-empty hostname", "an empty hostname reaches the engine or the host table")
		// NetworkRules = MatchAll(networkEngine, pooled request of this query), unfiltered, and the selector sees exactly that
		okNR := false
		for _, ef := range s.Effects {
			if ef.Kind == "store" && ef.Addr.Op == "faddr" && ef.Addr.Aux == "NetworkRules" && ef.Val == callMA.Call && ef.Cond == callMA.Cond {
				okNR = true
			}
		}
		okReq := false
		if len(callMA.Call.Args) >= 2 {
			req := callMA.Call.Args[1]
			if callPool != nil {
				okReq = req == callPool.Call && len(callPool.Call.Args) >= 2 && callPool.Call.Args[1] == ps[1]
			} else if req.Op == "call" && strings.Contains(req.Aux, "Pool") && strings.HasSuffix(strings.TrimSuffix(req.Aux, ")"), ".Get") {
				// taken from the pool in place: some call before the query fills it from this DNS request
				for _, ef := range s.Effects {
					if ef.Kind != "call" || &ef == nil || ef.Pos == callMA.Pos {
						continue
					}
					hasReq, hasD := false, false
					for _, a := range ef.Call.Args {
						if a == req {
							hasReq = true
						}
						if a == ps[1] || (a.Op == "field" && a.Args[0] == ps[1]) {
							hasD = true // the DNS request, or a field of it (the fill code is expanded)
						}
					}
					if hasReq && hasD {
						okReq = true
					}
				}
			}
		}
		okSel := callGDB.Call.Args[0] == callMA.Call
		c.Check(okNR && okReq && okSel && callMA.Cond == u.bdd.Not(hostEmpty), "C02.R4", "MatchRequest: NetworkRules is the unfiltered MatchAll result of this request, and the selector sees it", callMA.Pos,
			"res.NetworkRules := MatchAll(pooledRequest(dReq)); GetDNSBasicRule(res.NetworkRules)",
			fmt.Sprintf("NetworkRules stored unfiltered=%v, request built from this query=%v, selector applied to it=%v", okNR, okReq, okSel))
		// basic rule wins; host table not consulted then
		basicNil := u.ToBool(u.Eq(callGDB.Call, u.mk("nil", "", nil)))
		c.Check(u.bdd.Implies(callProbe.Cond, basicNil) && callProbe.Call.Args[hostIdx] == host, "C02.R4", "MatchRequest: host table consulted only without a basic rule, with the queried hostname", callProbe.Pos,
			"probe reached only when GetDNSBasicRule returned nil", "hosts-file rules are consulted although a basic network rule was found (or with another hostname)")
		okBasic := false
		for _, ef := range s.Effects {
			// stored whenever it is non-nil; storing a nil selection into the fresh result changes nothing
			if ef.Kind == "store" && ef.Addr.Op == "faddr" && ef.Addr.Aux == "NetworkRule" && ef.Val == callGDB.Call &&
				u.bdd.Implies(u.bdd.And(u.bdd.Not(hostEmpty), u.bdd.Not(basicNil)), ef.Cond) && u.bdd.Implies(ef.Cond, u.bdd.Not(hostEmpty)) &&
				(ef.Addr.Args[0].Op == "alloc" || ef.Addr.Args[0].Op == "new" || ef.Cond == u.bdd.And(u.bdd.Not(hostEmpty), u.bdd.Not(basicNil))) {
				okBasic = true
			}
		}
		// matched flag
		M := u.ToBool(g.RetExpr(s, 1))
		var okFlag Ref = False
		probeRes := callProbe.Call
		if probeFiles {
			okFlag = u.ToBool(callProbe.Call)
			// the result it files into is the one this query returns
			if len(callProbe.Call.Args) <= resIdx || callProbe.Call.Args[resIdx] != g.RetExpr(s, 0) || !(callProbe.Call.Args[resIdx].Op == "alloc" || callProbe.Call.Args[resIdx].Op == "new") {
				okFlag = False
			}
		} else if probe.Signature.Results().Len() == 2 {
			probeRes = u.mk("extract", "0", nil, callProbe.Call)
			for _, at := range u.AtomsOf(M) {
				if at.Op == "extract" && at.Aux == "1" && at.Args[0] == callProbe.Call {
					okFlag = u.Atom(at)
				}
			}
		} else {
			// no flag: "something was found" is "the result is not empty"
			okFlag = u.bdd.Not(u.ToBool(u.Eq(u.Len(probeRes), u.Int(0))))
		}
		// rets inside/after the host loop carry loop-control atoms; quantify them away by checking both polarities
		// a return after a loop carries the loop's exit literal; loops terminate, so quantify the control atoms away
		for _, li := range loopInsts(g, s) {
			for _, at := range u.AtomsOf(contCond(u, li.Act, li.L)) {
				M = u.bdd.Exists(M, u.atomIx[at.key])
			}
		}
		want := u.bdd.And(u.bdd.Not(hostEmpty), u.bdd.Or(u.bdd.Not(basicNil), okFlag))
		diff := u.bdd.Xor(M, want)
		// ignore return sites inside loops over the host rules (they do not exist today); M must not depend on anything else
		c.Check(okBasic && diff == False, "C02.R4", "MatchRequest: result.NetworkRule and matched flag", mr.Pos(),
			"NetworkRule := basic rule when non-nil; matched == hostname != \"\" && (basic rule != nil || host lookup flag)",
			fmt.Sprintf("basic rule stored exactly when non-nil=%v; matched differs from the documented flag when %s", okBasic, clip(u.ShowBool(diff), 200)))
		// v4 / v6 split: the appends that feed the two result fields (directly, or through a helper)
		famEms := map[string][]AEmission{}
		if probeFiles {
			// the filing loop is the bucket scan of the probe: judge it there
			g = NewGate(c.P)
			g.Inline = inlineOnly()
			s = g.Eval(probe)
			u = g.U
		}
		for _, ef := range s.Effects {
			if ef.Kind == "store" && ef.Addr.Op == "faddr" && (ef.Addr.Aux == "HostRulesV4" || ef.Addr.Aux == "HostRulesV6") {
				if st, ok := ef.Ins.(*ssa.Store); ok && ef.Act != nil {
					ems, _ := traceAppends(g, AV{ef.Act, st.Val})
					famEms[ef.Addr.Aux] = append(famEms[ef.Addr.Aux], ems...)
				}
			}
		}
		v4, v6 := famEms["HostRulesV4"], famEms["HostRulesV6"]
		bad := ""
		if len(v4) != 1 || len(v6) != 1 {
			bad = fmt.Sprintf("UNDECIDED: expected one append site per address family, found %d/%d", len(v4), len(v6))
		} else {
			e4, e6 := v4[0], v6[0]
			el := func(em AEmission) *E {
				if len(em.Elems) == 1 {
					return em.Elems[0]
				}
				return nil
			}
			r4, r6 := el(e4), el(e6)
			if r4 == nil || r6 == nil || r4 != r6 {
				bad = "UNDECIDED: the two family lists do not append the same loop element"
			} else {
				var is4 Ref = False
				for _, at := range u.AtomsOf(e4.RC) {
					if at.Op == "call" && at.Aux == "(net/netip.Addr).Is4" && at.Args[0].Op == "field" && at.Args[0].Aux == "IP" && at.Args[0].Args[0] == r4 {
						is4 = u.Atom(at)
					}
				}
				common := u.bdd.Or(e4.RC, e6.RC)
				if is4 == False || e4.RC != u.bdd.And(common, is4) || e6.RC != u.bdd.And(common, u.bdd.Not(is4)) {
					bad = "the host rule is not filed under V4 exactly when its own address (rule.IP, not a converted copy) Is4() and under V6 otherwise: e.g. an IPv4-mapped IPv6 address must stay in the IPv6 group"
				}
				// every *HostRule of the lookup result is filed
				// (the appends may sit in a helper: the loop is then the one around its call)
				loopAct := e4.Act
				blk4, blk6 := e4.Call.Block(), e6.Call.Block()
				if innermostLoop(loopsOf(loopAct.Fn), blk4) == nil && e4.Act.Parent != nil {
					loopAct = s
					blk4, blk6 = topBlockOf(e4.Act, e4.Call), topBlockOf(e6.Act, e6.Call)
				}
				loops := loopsOf(loopAct.Fn)
				l := innermostLoop(loops, blk4)
				if bad == "" && (l == nil || e6.Act != e4.Act || l != innermostLoop(loops, blk6) || !onlyExhaustionExit(l) || rangedOver(l) == nil || !rangedOver(l).Full) {
					bad = "the loop filing host rules is not a complete scan of the lookup result"
				}
				// ... and the scanned collection is the lookup result
				if bad == "" {
					coll := loopAct.Env[rangedOver(l).Coll]
					if probeFiles {
						// the scanned collection is the bucket of the host table
						isBucket := coll != nil && (coll.Op == "lookup" || (coll.Op == "extract" && coll.Aux == "0" && coll.Args[0].Op == "lookup"))
						if !isBucket {
							bad = "the loop filing host rules does not range over the bucket of the host table: " + clip(u.Show(coll), 80)
						}
					} else if coll == nil || coll.key != probeRes.key {
						bad = "the loop filing host rules does not range over the result of the host-table lookup: " + clip(u.Show(coll), 80)
					}
				}
			}
		}
		c.Check(bad == "", "C02.R4", "MatchRequest: host rules split by address family", mr.Pos(), "V4 on the true edge of IP.Is4(), V6 on the false edge, complete scan", bad)
	}

	// ---------- R12: the request the engine is queried with carries the query's own client data ----------
	{
		c.Rule("C02.R12", "WIRE", "client address, client name, client tags and record type of the engine's request are the DNS request's own values", 4)
		fn := mr
		qIdx := 1
		if poolGet != nil {
			fn = poolGet
			for i, p := range poolGet.Params {
				if strings.HasSuffix(typeStr(p.Type()), "DNSRequest") {
					qIdx = i
				}
			}
		}
		g := NewGate(c.P)
		g.Inline = inlineOnly()
		s := g.Eval(fn)
		u := g.U
		q := g.ParamExprs(fn)[qIdx]
		for _, f := range []string{"ClientIP", "ClientName", "SortedClientTags", "DNSType"} {
			bad := "the field is never set from the DNS request"
			for _, ef := range s.Effects {
				if ef.Kind != "store" {
					continue
				}
				var v *E
				switch {
				case ef.Addr.Op == "faddr" && ef.Addr.Aux == f && typeStr(ef.Addr.Typ) != "" && strings.Contains(typeStr(ef.Addr.Args[0].Typ), "rules.Request"):
					v = ef.Val
				case strings.Contains(typeStr(ef.Addr.Typ), "rules.Request") && (ef.Val.Op == "struct" || ef.Val.Op == "zero"):
					v = u.Field(ef.Val, f, nil)
				}
				if v == nil {
					continue
				}
				if v.Op == "field" && v.Aux == f && v.Args[0] == q {
					bad = ""
				} else if v.Op != "zero" && !v.IsConst() && !v.IsNil() && !u.Mentions(v, func(x *E) bool { return x.Op == "zero" }) {
					bad = "the engine is queried with " + clip(u.Show(v), 80) + " instead of the DNS request's own " + f + ": $client / $ctag / $dnstype rules are matched against a different value than the reference uses"
					break
				}
			}
			c.Check(bad == "", "C02.R12", "request field "+f+" is the query's own", fn.Pos(), "copied unchanged from the DNS request", bad)
		}
	}

	// ---------- R6 ----------
	{
		findings := aliasingWrites(c, []*ssa.Function{gdb})
		bad := ""
		if len(findings) > 0 {
			bad = findings[0]
		}
		c.Check(bad == "", "C02.R6", "GetDNSBasicRule: no write through the argument slice", gdb.Pos(), "appends only to fresh or capacity-capped slices; no in-place operation on the argument", bad)
	}
	_ = types.Typ
}

// readsHostTable: fn (or a helper outside the vocabulary below it) looks a key
// up in a map from hashes to lists of storage indexes.
func readsHostTable(p *Prog, fn *ssa.Function) bool {
	found := false
	eachInstrG(p, fn, func(_ *ssa.BasicBlock, in ssa.Instruction) {
		if lk, ok := in.(*ssa.Lookup); ok && typeStr(lk.X.Type()) == "map[uint32][]int64" {
			found = true
		}
	})
	return found
}

// filingFlagIsEmission: a probe that files the rules itself returns a
// loop-carried flag; it is false on entry, and on every way round the scan it
// becomes (flag || a rule was filed on this way round), so at the end it says
// whether any rule was filed.  Returns before the scan report false.
func filingFlagIsEmission(g *Gate, s *Summary, probe *ssa.Function) string {
	u := g.U
	ems := emissionsG(g, s, 0)
	if len(ems) == 0 {
		return "UNDECIDED: the probe files nothing"
	}
	var EM Ref = False
	for _, em := range ems {
		EM = u.bdd.Or(EM, em.RC)
	}
	var kE *E
	for _, l := range loopsOf(probe) {
		for _, in := range l.Header.Instrs {
			ph, ok := in.(*ssa.Phi)
			if !ok {
				break
			}
			if b, isB := ph.Type().Underlying().(*types.Basic); !isB || b.Kind() != types.Bool {
				continue
			}
			e := s.Env[ph]
			if e == nil || e.Op != "loopphi" {
				continue
			}
			kRef := u.ToBool(e)
			ok2 := true
			for i, pr := range l.Header.Preds {
				if !l.Blocks[pr] {
					if cv, isC := ph.Edges[i].(*ssa.Const); !isC || cv.Value == nil || cv.Value.String() != "false" {
						ok2 = false
					}
					continue
				}
				kv := s.Env[ph.Edges[i]]
				if kv == nil {
					if cv, isC := ph.Edges[i].(*ssa.Const); isC && cv.Value != nil {
						kv = u.ConstVal(cv.Value, cv.Type())
					}
				}
				if kv == nil || u.bdd.And(edgeCondOf(u, s, pr, l.Header), u.bdd.Xor(u.ToBool(kv), u.bdd.Or(kRef, EM))) != False {
					ok2 = false
					if os.Getenv("UFCHECK_DEBUG_C02") != "" && kv != nil {
						fmt.Fprintf(os.Stderr, "C02DBG edge %d kv=%s RC=%s EM=%s\n", i, u.Show(kv), clip(u.ShowBool(s.RC[pr]), 300), clip(u.ShowBool(EM), 300))
					}
				}
			}
			if ok2 {
				kE = e
			}
		}
	}
	if kE == nil {
		return "the flag the probe returns is not 'a rule was filed in some iteration of the bucket scan' (false on entry, flag || filed on every way round)"
	}
	for _, r := range s.Rets {
		if r.Cond == False || len(r.Vals) != 1 {
			continue
		}
		if r.Vals[0] == kE {
			continue
		}
		if r.Vals[0].Op == "bool" && r.Vals[0].B == False && u.bdd.And(r.Cond, EM) == False {
			continue
		}
		return "a return reports " + clip(u.Show(r.Vals[0]), 60) + ", which is not the filed-something flag"
	}
	return ""
}

// isScannerLoop: the loop is driven by a Scan() call in its header region
// (for scanner.Scan() { ... }).
func isScannerLoop(l *Loop) bool {
	for b := range l.Blocks {
		for _, in := range b.Instrs {
			if ci, ok := in.(ssa.CallInstruction); ok {
				if cal := ci.Common().StaticCallee(); cal != nil && cal.Name() == "Scan" {
					return true
				}
			}
		}
	}
	return false
}
