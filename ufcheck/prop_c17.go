package main

// C17 — request fields agree with the standard URL parser and the PSL.

import (
	"fmt"
	"go/token"
	"go/types"
	"os"
	"sort"
	"strings"

	"golang.org/x/tools/go/ssa"
)

func init() {
	register(&PropDef{
		ID:  "C17",
		Run: runC17,
		Explanation: "Static decision of the structural clauses of C17 (the value-level agreement of the hostname extractor with net/url is NOT decided). For NewRequest, FillRequestForHostname and NewRequestForHostname the final value of every " +
			"request field is extracted from SSA (gated evaluation with store forwarding) and compared with the documented derivation: both URLs capped at the 4 KiB constant before anything is derived; URLLowerCase = ToLower(URL); hostnames = extractor(capped URL); " +
			"Domain = eTLD+1(hostname) if non-empty else the hostname (same for the source); ThirdParty <=> SourceDomain != \"\" && SourceDomain != Domain; hostname requests are first-party documents with URL http://+hostname. " +
			"R6: the decision table of the hand-written eTLD+1 equals the algorithm of publicsuffix.EffectiveTLDPlusOne (leading/trailing dot, suffix not shorter than the name, label boundary, last label before the suffix), with no other early exit. R7: the extractor searches its delimiters in the whole URL or the suffix after the scheme. R8: its result is url[start:end] with start right after the scheme separator (or one before the first colon) and end at the first of / : ? after start, compared with the documented bounds in every case of its selections. A fast path that tests for an empty source host name or for equal host names is compared case by case, the stated equality substituted where it holds.",
		Trusted:     []string{"golang.org/x/net/publicsuffix.PublicSuffix is the PSL oracle; strings.ToLower is lower-casing"},
		Assumptions: []string{"equality of filterutil.ExtractHostname with net/url on the stated URL shapes is value-level and outside this check (DESIGN.md section 6)"},
	})
}

// semEqual compares two expressions on every valuation of the atoms that
// occur in their if-then-else conditions (exact when the leaves are equal
// hash-consed expressions).
func semEqual(u *U, a, b *E) (bool, string) {
	if a == b {
		return true, ""
	}
	if a == nil || b == nil {
		return false, "missing value"
	}
	vars := map[int]bool{}
	var collect func(e *E)
	seen := map[*E]bool{}
	collect = func(e *E) {
		if e == nil || seen[e] {
			return
		}
		seen[e] = true
		if e.Op == "ite" || e.Op == "bool" {
			for _, v := range u.bdd.Support(e.B) {
				vars[v] = true
			}
		}
		if e.Op == "ite" {
			collect(e.Args[0])
			collect(e.Args[1])
		}
	}
	collect(a)
	collect(b)
	var vs []int
	for v := range vars {
		vs = append(vs, v)
	}
	sort.Ints(vs)
	if len(vs) > 16 {
		return false, "too many atoms to compare"
	}
	for m := 0; m < 1<<len(vs); m++ {
		asg := map[int]bool{}
		for i, v := range vs {
			asg[v] = m&(1<<i) != 0
		}
		f := func(at *E) bool { return asg[u.atomIx[at.key]] }
		x, y := u.EvalUnder(a, f), u.EvalUnder(b, f)
		if x != y {
			// congruence: under an equality A == B assumed by this case, A and B are interchangeable;
			// cases that give the two copies of one atom different truth values do not exist
			sub := map[string]*E{}
			for _, v := range vs {
				at := u.atoms[v]
				if !asg[v] || at.Op != "eq" || at.Args[0].Op == "const" || at.Args[1].Op == "const" || at.Args[0].IsNil() || at.Args[1].IsNil() {
					continue
				}
				from, to := at.Args[1], at.Args[0]
				if from.key < to.key {
					from, to = to, from
				}
				sub[from.key] = to
			}
			// atoms over selected values (x == ite(c, a, b)) are decided by the atoms over the alternatives
			care := True
			composite := false
			for _, v := range vs {
				lit := u.bdd.Var(v)
				if !asg[v] {
					lit = u.bdd.Not(lit)
				}
				care = u.bdd.And(care, lit)
				if u.Mentions(u.atoms[v], func(e *E) bool { return e.Op == "ite" }) {
					composite = true
				}
			}
			if len(sub) > 0 || composite {
				feasible := true
				img := map[Ref]bool{}
				for _, v := range vs {
					at := u.atoms[v]
					if composite {
						at = u.Specialize(at, care)
					}
					k := u.ToBool(u.Subst(at, sub))
					if (k == True && !asg[v]) || (k == False && asg[v]) {
						feasible = false
					}
					if prev, have := img[k]; have && prev != asg[v] {
						feasible = false
					}
					img[k] = asg[v]
					if nk := u.bdd.Not(k); k != True && k != False {
						if prev, have := img[nk]; have && prev == asg[v] {
							feasible = false
						}
					}
				}
				// second pass: selections that the substituted literals decide (an atom over
				// ite(len(f(B)) == 0, ...) once B has become A) are resolved under the images
				if feasible {
					type lit struct {
						k   Ref
						pol bool
					}
					lits := make([]lit, len(vs))
					for i, v := range vs {
						at := u.atoms[v]
						if composite {
							at = u.Specialize(at, care)
						}
						lits[i] = lit{u.ToBool(u.Subst(at, sub)), asg[v]}
					}
					for i, v := range vs {
						if !feasible {
							break
						}
						// the images of the other literals
						others := True
						for j, l := range lits {
							if j == i || l.k == lits[i].k || l.k == u.bdd.Not(lits[i].k) {
								continue
							}
							if l.pol {
								others = u.bdd.And(others, l.k)
							} else {
								others = u.bdd.And(others, u.bdd.Not(l.k))
							}
						}
						if others == False {
							feasible = false
							break
						}
						at := u.atoms[v]
						if composite {
							at = u.Specialize(at, care)
						}
						k2 := u.ToBool(u.Specialize(u.Subst(at, sub), others))
						if (k2 == True && !asg[v]) || (k2 == False && asg[v]) {
							feasible = false
						}
					}
				}
				if !feasible {
					continue
				}
				x, y = u.Subst(x, sub), u.Subst(y, sub)
			}
		}
		if x != y {
			var lits []string
			for _, v := range vs {
				s := u.Show(u.atoms[v])
				if !asg[v] {
					s = "!" + s
				}
				lits = append(lits, clip(s, 60))
			}
			return false, fmt.Sprintf("when %s: got %s, documented %s", strings.Join(lits, " & "), clip(u.Show(x), 100), clip(u.Show(y), 100))
		}
	}
	return true, ""
}

// normCond rewrites the atoms of a condition whose operands contain selections that the condition
// itself decides (x < ite(p, a, b) under p becomes x < a), so that it can be compared with
// conditions built from the selected alternatives.
func normCond(u *U, c Ref) Ref {
	for round := 0; round < 3; round++ {
		changed := false
		for _, v := range u.bdd.Support(c) {
			at := u.atoms[v]
			if !u.Mentions(at, func(e *E) bool { return e.Op == "ite" }) {
				continue
			}
			nat := u.Specialize(at, c)
			if nat != at {
				c = u.bdd.Compose(c, v, u.ToBool(nat))
				changed = true
			}
		}
		if !changed {
			break
		}
	}
	return c
}

func runC17(c *Ctx) {
	c.Rule("C17.R1", "PDT", "ThirdParty <=> SourceDomain != \"\" && SourceDomain != Domain", 1)
	c.Rule("C17.R2", "PDT", "Domain / SourceDomain = eTLD+1 if non-empty else the hostname", 3)
	c.Rule("C17.R3", "WIRE", "URLLowerCase = strings.ToLower(URL) at every constructor", 2)
	c.Rule("C17.R4", "LIN/WIRE", "URLs capped at the 4 KiB constant before anything is derived", 2)
	c.Rule("C17.R5", "WIRE", "hostnames come from the extractor applied to the capped URLs; hostname requests are first-party documents", 4)
	c.Rule("C17.R6", "PDT", "hand-written eTLD+1 has the decision table of publicsuffix.EffectiveTLDPlusOne", 1)

	a := &anchors{c: c, rule: "C17.R1"}
	nreq := a.fn("rules", "NewRequest")
	fill := a.fn("rules", "FillRequestForHostname")
	nrh := a.fn("rules", "NewRequestForHostname")
	ext := a.fn("filterutil", "ExtractHostname")
	kDoc, _ := a.constInt("rules", "TypeDocument")
	if a.bad {
		return
	}
	// eTLD+1 helper by role: callee of NewRequest func(string) string other than the extractor
	var etld *ssa.Function
	for _, gf := range groupFuncs(c.P, nreq) {
		eachInstr(gf, func(_ *ssa.BasicBlock, in ssa.Instruction) {
			if ci, ok := in.(ssa.CallInstruction); ok {
				if cal := ci.Common().StaticCallee(); cal != nil && cal != ext && c.P.IsLibFunc(cal) && !c.P.IsNewHelper(cal) && cal.Signature.Params().Len() == 1 &&
					typeStr(cal.Signature.Params().At(0).Type()) == "string" && cal.Signature.Results().Len() == 1 && typeStr(cal.Signature.Results().At(0).Type()) == "string" {
					etld = cal
				}
			}
		})
	}
	if etld == nil {
		c.Fail("C17.R2", "anchor:eTLD+1 helper", nreq.Pos(), "unresolved anchor: NewRequest calls no func(string) string besides the hostname extractor")
		return
	}
	c.Fn(FuncName(etld))
	maxLen := int64(4096)
	if k := c.P.Const("rules", "maxURLLength"); k != nil {
		if v, ok := a.constInt("rules", "maxURLLength"); ok {
			maxLen = v
		}
	}
	strT := types.Typ[types.String]

	fieldVal := func(s *Summary, obj *E, name string) *E {
		for k, v := range s.Mem {
			if strings.HasSuffix(k, ":faddr<"+name+">("+obj.key+")") {
				return v
			}
		}
		return nil
	}
	fallback := func(u *U, host *E) *E {
		d := u.Call(calleeName(etld), strT, host)
		return u.ITE(u.bdd.Not(u.ToBool(u.Eq(d, u.Str("")))), d, host)
	}

	// ---------- NewRequest ----------
	{
		g := NewGate(c.P)
		g.Inline = inlineOnly()
		g.Pure[FuncName(ext)] = true
		g.Pure[FuncName(etld)] = true
		s := g.Eval(nreq)
		u := g.U
		ps := g.ParamExprs(nreq)
		obj := g.RetExpr(s, 0)
		if obj == nil || obj.Op != "alloc" {
			c.Fail("C17.R1", "NewRequest: result object", nreq.Pos(), "UNDECIDED: the result is not a freshly allocated request")
			return
		}
		capd := func(x *E) *E {
			return u.ITE(u.ToBool(u.Lt(u.Int(maxLen), u.Len(x))), u.Slice(x, nil, u.Int(maxLen), nil, strT), x)
		}
		url, src := capd(ps[0]), capd(ps[1])
		host := u.Call(calleeName(ext), strT, url)
		shost := u.Call(calleeName(ext), strT, src)
		dom, sdom := fallback(u, host), fallback(u, shost)
		want := map[string]*E{
			"URL": url, "SourceURL": src, "URLLowerCase": u.Call("strings.ToLower", strT, url),
			"Hostname": host, "SourceHostname": shost, "Domain": dom, "SourceDomain": sdom, "RequestType": ps[2],
		}
		rule := map[string]string{"URL": "C17.R4", "SourceURL": "C17.R4", "URLLowerCase": "C17.R3", "Hostname": "C17.R5", "SourceHostname": "C17.R5", "Domain": "C17.R2", "SourceDomain": "C17.R2", "RequestType": "C17.R5"}
		var names []string
		for n := range want {
			names = append(names, n)
		}
		sort.Strings(names)
		// the opaque helpers at constant arguments, evaluated by the evaluator itself
		pureAt := func(e *E) *E {
			for round := 0; round < 3 && e != nil; round++ {
				sub := map[string]*E{}
				for _, cl := range u.Collect(e, func(x *E) bool {
					return x.Op == "call" && (x.Aux == calleeName(ext) || x.Aux == calleeName(etld)) && len(x.Args) == 1 && x.Args[0].IsConst()
				}) {
					fn := ext
					if cl.Aux == calleeName(etld) {
						fn = etld
					}
					sv := g.EvalArgs(fn, []*E{cl.Args[0]}, nil)
					if len(sv.Rets) > 0 {
						if v := g.RetExpr(sv, 0); v != nil && v.IsConst() {
							sub[cl.key] = v
						}
					}
				}
				if len(sub) == 0 {
					break
				}
				e = u.Subst(e, sub)
			}
			return e
		}
		// equal as written, or equal in each of the cases "this URL is empty" (the parameter is the
		// constant "", everything derived from it folds) / "it is not"
		semEqualByCase := func(got, want *E) (bool, string) {
			ok, why := semEqual(u, got, want)
			if ok || got == nil || want == nil {
				return ok, why
			}
			for _, prm := range []*E{ps[1], ps[0]} {
				empty := u.ToBool(u.Eq(u.Len(prm), u.Int(0)))
				inSupport := false
				for _, at := range u.AtomsOf(empty) {
					if u.Mentions(got, func(x *E) bool { return x == at }) {
						inSupport = true
					}
				}
				if !inSupport {
					continue
				}
				toEmpty := map[string]*E{prm.key: u.Str("")}
				gA, wA := pureAt(u.Subst(got, toEmpty)), pureAt(u.Subst(want, toEmpty))
				gB, wB := u.Specialize(got, u.bdd.Not(empty)), u.Specialize(want, u.bdd.Not(empty))
				okA, whyA := semEqual(u, gA, wA)
				okB, whyB := semEqual(u, gB, wB)
				if okA && okB {
					return true, ""
				}
				if !okA {
					why = "with " + u.Show(prm) + " empty: " + whyA
				} else {
					why = "with " + u.Show(prm) + " not empty: " + whyB
				}
			}
			return false, why
		}
		// a fast path tests "this host name is empty" or "the two host names are the same" and
		// then writes what the general path would compute: each such test is taken both ways, with
		// the equality it states used in the case where it holds
		// what the domain helper makes of the empty host name, read off its own first test: a fast
		// path for "no source" relies on it
		axEmpty := map[string]*E{}
		{
			g2 := NewGate(c.P)
			g2.Inline = inlineOnly()
			s2 := g2.Eval(etld)
			if r2 := g2.RetExpr(s2, 0); r2 != nil && len(g2.ParamExprs(etld)) == 1 {
				if f := g2.U.Subst(r2, map[string]*E{g2.ParamExprs(etld)[0].key: g2.U.Str("")}); f != nil {
					if sv, ok := f.StrVal(); ok {
						axEmpty[u.Call(calleeName(etld), strT, u.Str("")).key] = u.Str(sv)
					}
				}
			}
		}
		withAx := func(e *E) *E {
			if e == nil || len(axEmpty) == 0 {
				return e
			}
			return u.Subst(e, axEmpty)
		}
		var semEqualSplit func(got, want *E, depth int) (bool, string)
		semEqualSplit = func(got, want *E, depth int) (bool, string) {
			ok, why := semEqualByCase(got, want)
			if ok || got == nil || want == nil || depth >= 3 {
				return ok, why
			}
			seen := map[string]bool{}
			var ats []*E
			var collect func(f Ref)
			collect = func(f Ref) {
				for _, at := range u.AtomsOf(f) {
					if !seen[at.key] {
						seen[at.key] = true
						ats = append(ats, at)
						// the tests inside selected values the atom compares
						for _, it := range u.Collect(at, func(x *E) bool { return x.Op == "ite" }) {
							collect(it.B)
						}
					}
				}
			}
			if isBoolE(got) {
				collect(u.ToBool(got))
			} else {
				for _, cond := range u.Leaves(got) {
					collect(cond)
				}
			}
			for _, at := range ats {
				if at.Op != "eq" || len(at.Args) != 2 {
					continue
				}
				var from, to *E
				switch {
				case at.Args[0].Op == "len" && isIntConst(at.Args[1], 0):
					from, to = at.Args[0].Args[0], u.Str("")
				case at.Args[0].Typ != nil && isStringT(at.Args[0].Typ) && !at.Args[0].IsConst():
					from, to = at.Args[0], at.Args[1]
				case at.Args[1].Typ != nil && isStringT(at.Args[1].Typ) && !at.Args[1].IsConst():
					from, to = at.Args[1], at.Args[0]
				default:
					continue
				}
				if from.Op == "param" || u.Mentions(to, func(x *E) bool { return x == from }) {
					continue // the parameters themselves are split by semEqualByCase
				}
				pos := u.Atom(at)
				sub := map[string]*E{from.key: to}
				gA, wA := pureAt(withAx(u.Subst(u.Specialize(got, pos), sub))), pureAt(withAx(u.Subst(u.Specialize(want, pos), sub)))
				gB, wB := u.Specialize(got, u.bdd.Not(pos)), u.Specialize(want, u.bdd.Not(pos))
				okA, whyA := semEqualSplit(gA, wA, depth+1)
				if os.Getenv("UFCHECK_DEBUG_C17") != "" {
					fmt.Println("SPLIT depth", depth, "on", clip(u.Show(at), 100), "A:", okA, clip(whyA, 300))
				}
				if !okA {
					continue
				}
				okB, whyB := semEqualSplit(gB, wB, depth+1)
				if os.Getenv("UFCHECK_DEBUG_C17") != "" {
					fmt.Println("SPLIT depth", depth, "on", clip(u.Show(at), 100), "B:", okB, clip(whyB, 300))
				}
				if okB {
					return true, ""
				}
			}
			return false, why
		}
		for _, n := range names {
			got := fieldVal(s, obj, n)
			ok, why := semEqualSplit(got, want[n], 0)
			c.Check(ok, rule[n], "NewRequest: Request."+n, nreq.Pos(), "= "+clip(u.Show(want[n]), 110), "the field is not derived as documented: "+why)
		}
		// ThirdParty
		tp := fieldVal(s, obj, "ThirdParty")
		wantTP := u.Bool(u.bdd.And(u.bdd.Not(u.ToBool(u.Eq(sdom, u.Str("")))), u.bdd.Not(u.ToBool(u.Eq(sdom, dom)))))
		if tp == nil {
			tp = u.Bool(False)
		}
		ok := true
		why := ""
		// compare under each combination of the two fallback tests (the domains are if-then-else values)
		e1 := u.Eq(u.Call(calleeName(etld), strT, host), u.Str(""))
		e2 := u.Eq(u.Call(calleeName(etld), strT, shost), u.Str(""))
		semOK, semWhy := semEqualSplit(tp, wantTP, 0)
		if os.Getenv("UFCHECK_DEBUG_C17") != "" {
			fmt.Println("TP sem:", semOK, semWhy)
		}
		for m := 0; m < 4 && !semOK; m++ {
			sub := map[string]*E{}
			for i, e := range []*E{e1, e2} {
				for _, v := range u.bdd.Support(u.ToBool(e)) {
					sub[u.atoms[v].key] = u.Bool(boolRef(m&(1<<i) != 0))
				}
			}
			gv, wv := u.SubstBool(u.ToBool(tp), sub), u.SubstBool(u.ToBool(wantTP), sub)
			c.Paths++
			if gv != wv {
				ok = false
				why = fmt.Sprintf("with eTLD+1(host) empty=%v, eTLD+1(source) empty=%v: ThirdParty = %s, documented (SourceDomain != \"\" && SourceDomain != Domain) = %s", m&1 != 0, m&2 != 0, clip(u.ShowBool(gv), 160), clip(u.ShowBool(wv), 160))
			}
		}
		c.Check(ok, "C17.R1", "NewRequest: Request.ThirdParty", nreq.Pos(), "<=> SourceDomain != \"\" && SourceDomain != Domain (symmetric in the two domains when both are non-empty)", why)
		// no other derived field silently set
		for k := range s.Mem {
			if strings.Contains(k, "("+obj.key+")") {
				f := k[strings.Index(k, "<")+1 : strings.Index(k, ">")]
				if _, known := want[f]; !known && f != "ThirdParty" {
					c.Notes = append(c.Notes, "NewRequest also sets Request."+f)
				}
			}
		}
	}

	// ---------- FillRequestForHostname ----------
	{
		g := NewGate(c.P)
		g.Inline = inlineOnly()
		g.Pure[FuncName(etld)] = true
		s := g.Eval(fill)
		u := g.U
		ps := g.ParamExprs(fill)
		r, hn := ps[0], ps[1]
		url := u.Bin(token.ADD, u.Str("http://"), hn, strT)
		want := map[string]*E{
			"URL": url, "URLLowerCase": u.Call("strings.ToLower", strT, url), "Hostname": hn, "Domain": fallback(u, hn),
			"RequestType": u.ConstVal(constantInt(kDoc), nil), "ThirdParty": u.Bool(False), "IsHostnameRequest": u.Bool(True),
		}
		rule := map[string]string{"URL": "C17.R5", "URLLowerCase": "C17.R3", "Hostname": "C17.R5", "Domain": "C17.R2", "RequestType": "C17.R5", "ThirdParty": "C17.R5", "IsHostnameRequest": "C17.R5"}
		var names []string
		for n := range want {
			names = append(names, n)
		}
		sort.Strings(names)
		for _, n := range names {
			got := fieldVal(s, r, n)
			w := want[n]
			var ok bool
			var why string
			if got != nil && got.IsConst() && w.IsConst() {
				gv, _ := got.IntVal()
				wv, _ := w.IntVal()
				ok = gv == wv
				why = fmt.Sprintf("got %d want %d", gv, wv)
			} else {
				ok, why = semEqual(u, got, w)
			}
			c.Check(ok, rule[n], "FillRequestForHostname: Request."+n, fill.Pos(), "= "+clip(u.Show(w), 100),
				"the field is not derived as documented (e.g. an upper-case hostname makes the lower-cased URL differ from what rules' lower-cased shortcuts are compared with): "+why)
		}
	}
	// NewRequestForHostname = fresh request + Fill
	{
		g := NewGate(c.P)
		g.Inline = inlineOnly()
		s := g.Eval(nrh)
		ps := g.ParamExprs(nrh)
		ok := false
		for _, ef := range s.Effects {
			if ef.Kind == "call" && ef.Call.Aux == calleeName(fill) && ef.Cond == True && ef.Call.Args[1] == ps[0] && ef.Call.Args[0] == g.RetExpr(s, 0) && (ef.Call.Args[0].Op == "alloc" || ef.Call.Args[0].Op == "new") {
				ok = true
			}
		}
		c.Check(ok, "C17.R5", "NewRequestForHostname = FillRequestForHostname(fresh request, hostname)", nrh.Pos(), "wired to the fill helper", "the constructor does not fill a fresh request through the shared helper")
	}

	// ---------- R7: delimiter searches see the whole URL ----------
	{
		c.Rule("C17.R7", "WIRE", "the hostname extractor searches its delimiters in the whole URL (or the suffix after the scheme), never in a bounded prefix", 2)
		g := NewGate(c.P)
		g.Inline = inlineOnly()
		s := g.Eval(ext)
		u := g.U
		url := g.ParamExprs(ext)[0]
		n := 0
		for _, x := range u.Collect(g.RetExpr(s, 0), func(x *E) bool { return x.Op == "call" && strings.HasPrefix(x.Aux, "strings.Index") }) {
			n++
			hay := x.Args[0]
			ok := true
			for leaf := range u.Leaves(hay) {
				if sv, isS := leaf.StrVal(); isS && sv == "" {
					continue // the "no hostname part" alternative of a helper's result: nothing of the URL is cut off
				}
				if !(leaf == url || (leaf.Op == "slice" && leaf.Args[0] == url && leaf.Args[2] == nil)) {
					ok = false
				}
			}
			c.Check(ok, "C17.R7", shortFn(ext)+": "+strings.TrimPrefix(x.Aux, "strings.")+" searches the whole URL / the suffix after the scheme", ext.Pos(), "haystack is url or url[i:]",
				"a delimiter is searched in "+clip(u.Show(hay), 80)+": a bounded prefix misses the \"//\" of a long scheme (chrome-extension://...) and the hostname is wrong")
		}
		for _, r := range s.Rets {
			for _, at := range u.AtomsOf(r.Cond) {
				_ = at
			}
		}
		if n == 0 {
			c.Fail("C17.R7", shortFn(ext)+": delimiter searches", ext.Pos(), "UNDECIDED: no strings.Index* call found in the result")
		}
	}

	// ---------- R8: the hostname is the text between the scheme separator and the next delimiter ----------
	{
		c.Rule("C17.R8", "PDT", "hostname extractor: result = url[start:end], start right after \"//\" (or one before the first ':'), end at the first of / : ? after start", 1)
		g := NewGate(c.P)
		g.Inline = inlineOnly()
		s := g.Eval(ext)
		u := g.U
		url := g.ParamExprs(ext)[0]
		intT := types.Typ[types.Int]
		dslash := u.LibCall("strings.Index", intT, url, u.Str("//"))
		colon := u.LibCall("strings.Index", intT, url, u.Str(":"))
		noSlash := u.ToBool(u.Lt(dslash, u.Int(0)))
		start := u.ITE(noSlash, u.Bin(token.SUB, colon, u.Int(1), intT), u.Bin(token.ADD, dslash, u.Int(2), intT))
		res := g.RetExpr(s, 0)
		bad := ""
		n := 0
		// the two forms of URL separately, so that the selections inside the searches are resolved
		sel := u.NestedSelectors(res)
		for _, v := range u.bdd.Support(noSlash) {
			dup := false
			for _, w := range sel {
				dup = dup || w == v
			}
			if !dup {
				sel = append(sel, v)
			}
		}
		var forms []Ref
		if len(sel) <= 8 {
			for m := 0; m < 1<<len(sel); m++ {
				care := True
				for i, v := range sel {
					lit := u.bdd.Var(v)
					if m&(1<<i) == 0 {
						lit = u.bdd.Not(lit)
					}
					care = u.bdd.And(care, lit)
				}
				forms = append(forms, care)
			}
		} else {
			forms = []Ref{noSlash, u.bdd.Not(noSlash)}
		}
		for _, form := range forms {
			resF := u.Specialize(res, form)
			for leaf, lc0 := range u.Leaves(resF) {
				lc := normCond(u, u.bdd.And(lc0, form))
				if lc == False {
					continue
				}
				if sv, ok := leaf.StrVal(); ok && sv == "" {
					continue
				}
				n++
				if leaf.Op != "slice" || leaf.Args[0] != url || leaf.Args[1] == nil {
					bad = "UNDECIDED: a non-empty result is not a slice of the URL: " + clip(u.Show(leaf), 100)
					continue
				}
				lo := u.Specialize(leaf.Args[1], lc)
				want := u.Specialize(start, lc)
				if ok, why := semEqual(u, lo, want); !ok {
					bad = "the hostname does not start right after the scheme separator (" + why + "): anything skipped or kept there (userinfo search across the whole URL, a fixed offset) moves the hostname into the path or the scheme"
				}
				// end: the first delimiter after start, or the end of the URL
				rest := u.Slice(url, lo, nil, nil, strT)
				anyIdx := u.LibCall("strings.IndexAny", intT, rest, u.Str("/:?"))
				end := u.ITE(u.ToBool(u.Lt(anyIdx, u.Int(0))), u.Len(url), u.Bin(token.ADD, anyIdx, lo, intT))
				hi := leaf.Args[2]
				if hi == nil {
					hi = u.Len(url)
				}
				if os.Getenv("UFCHECK_DEBUG_C17") != "" {
					fmt.Println("R8 leaf", clip(u.Show(leaf), 200), "\n  lc", clip(u.ShowBool(lc), 600), "\n  end", clip(u.Show(u.Specialize(end, lc)), 300))
				}
				if ok, why := semEqual(u, u.Specialize(hi, lc), u.Specialize(end, lc)); !ok && bad == "" {
					bad = "the hostname does not end at the first of '/', ':', '?' after its start (" + why + ")"
				}
			}
		}
		if n == 0 && bad == "" {
			bad = "UNDECIDED: no non-empty result"
		}
		c.Check(bad == "", "C17.R8", shortFn(ext)+": url[start:end] with the documented start and end", ext.Pos(), fmt.Sprintf("%d result form(s) compared with the documented bounds", n), bad)
	}

	// ---------- R6: eTLD+1 decision table ----------
	{
		g := NewGate(c.P)
		g.Inline = inlineOnly()
		s := g.Eval(etld)
		u := g.U
		h := g.ParamExprs(etld)[0]
		ln := u.Len(h)
		psfx := u.mk("extract", "0", strT, u.Call("golang.org/x/net/publicsuffix.PublicSuffix", nil, h))
		intT := types.Typ[types.Int]
		i := u.Bin(token.SUB, u.Bin(token.SUB, ln, u.Len(psfx), intT), u.Int(1), intT)
		byteT := types.Typ[types.Uint8]
		dot := u.ConstVal(constantInt('.'), byteT)
		at := func(ix *E) *E { return u.mk("index", "", byteT, h, ix) }
		empty := u.ToBool(u.Eq(ln, u.Int(0)))
		lead := u.ToBool(u.Eq(at(u.Int(0)), dot))
		trail := u.ToBool(u.Eq(at(u.Bin(token.SUB, ln, u.Int(1), intT)), dot))
		short := u.ToBool(u.Lt(i, u.Int(0)))
		nodot := u.bdd.Not(u.ToBool(u.Eq(at(i), dot)))
		wantEmpty := u.bdd.Or(empty, u.bdd.Or(lead, u.bdd.Or(trail, u.bdd.Or(short, nodot))))
		wantVal := u.Slice(h, u.Bin(token.ADD, u.Int(1), u.LibCall("strings.LastIndex", intT, u.Slice(h, nil, i, nil, strT), u.Str(".")), intT), nil, nil, strT)
		gotEmpty := False
		bad := ""
		for _, r := range s.Rets {
			v := r.Vals[0]
			if sv, ok := v.StrVal(); ok && sv == "" {
				gotEmpty = u.bdd.Or(gotEmpty, r.Cond)
				continue
			}
			if v != wantVal {
				bad = "the non-empty result is " + clip(u.Show(v), 140) + ", documented hostname[1+LastIndex(hostname[:i], \".\"):] with i = len(hostname)-len(publicSuffix)-1"
			}
		}
		if bad == "" && gotEmpty != wantEmpty {
			// describe the difference
			extra := u.bdd.And(gotEmpty, u.bdd.Not(wantEmpty))
			missing := u.bdd.And(wantEmpty, u.bdd.Not(gotEmpty))
			bad = fmt.Sprintf("returns \"\" (no registrable domain) additionally when %s / fails to when %s — publicsuffix.EffectiveTLDPlusOne errors exactly on: empty name, leading or trailing dot, name not longer than its public suffix, no dot before the suffix",
				clip(u.ShowBool(extra), 200), clip(u.ShowBool(missing), 120))
		}
		c.Check(bad == "", "C17.R6", shortFn(etld)+": decision table equals publicsuffix.EffectiveTLDPlusOne", etld.Pos(), "five documented early exits, nothing else; result is the last label before the public suffix plus the suffix", bad)
	}
}
