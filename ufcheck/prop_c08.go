package main

// C08 — $badfilter disables exactly its twin rules, however many are present.

import (
	"fmt"
	"go/token"
	"go/types"
	"os"
	"sort"
	"strings"

	"golang.org/x/tools/go/ssa"
)

func init() {
	register(&PropDef{
		ID:  "C08",
		Run: runC08,
		Explanation: "Static decision of the structural clauses of C08. R1 (MULT): in the badfilter filter every candidate is emitted at most once and only after a scan of ALL collected badfilter rules found none that negates it " +
			"(the scan loop is nested inside the candidate loop, ranges over the whole collection, leaves early only on the true edge of the twin test, and the emission is unreachable from that early exit); the collection holds every rule " +
			"with the badfilter option. R2: a rule with the badfilter option is never emitted. R3 (COV/SYM): the twin test is the conjunction of per-field equalities, each comparing the same field of the two operands, and it covers every modifier field " +
			"the option loaders write plus the exception flag and the pattern. R4: the option comparison removes exactly the badfilter bit (evaluated on all small bit vectors). R5: both selectors apply the filter first. R9: clients.Equal is the conjunction of element-wise list equalities over every field. R10: every store to DNSResult.NetworkRule stores the return value of the DNS selector (which filters first) or nil, never a matched rule directly. A pointer comparison of two values is accepted only next to the deep comparison of the same values. Nothing is executed. R1 also requires the collected badfilter list to be the same for every candidate and the decision for a candidate to read nothing carried over from earlier candidates. R11 imports the sorted-list invariant of $ctag (C04.R3). R8 also imports the hash agreement of insert and probe side (C01.R3); R12 imports whole-line scanning (C12.R7). R15 (shared with C04.R12): the $client entries the twin test compares are stored in their normal form (parsed address, masked prefix, name as written).",
		Trusted: []string{"slices.Equal / reflect.DeepEqual / (*clients).Equal compare by value (library and sibling contract)"},
	})
}

// twinTest resolves the twin-comparison method by role: the bool method on
// *NetworkRule taking a *NetworkRule that the badfilter filter calls.
func twinTest(c *Ctx, filter *ssa.Function) *ssa.Function {
	var out *ssa.Function
	for _, fn := range groupFuncs(c.P, filter) {
		eachInstr(fn, func(_ *ssa.BasicBlock, in ssa.Instruction) {
			ci, ok := in.(ssa.CallInstruction)
			if !ok {
				return
			}
			cal := ci.Common().StaticCallee()
			if cal == nil || !c.P.IsLibFunc(cal) || cal.Signature.Recv() == nil || c.P.IsNewHelper(cal) {
				return
			}
			sig := cal.Signature
			if sig.Params().Len() == 1 && sig.Results().Len() == 1 && strings.HasSuffix(typeStr(sig.Params().At(0).Type()), "*rules.NetworkRule") &&
				typeStr(sig.Results().At(0).Type()) == "bool" {
				out = cal
			}
		})
	}
	return out
}

// checkTwinComparison implements R3/R4 (also reported by C06).
func checkTwinComparison(c *Ctx, rule3, rule4 string, twin *ssa.Function, kBad int64) {
	g := NewGate(c.P)
	g.Inline = inlineOnly("(*rules.NetworkRule).IsOptionEnabled")
	g.Pure["(*rules.clients).Equal"] = true
	s := g.Eval(twin)
	u := g.U
	c.Fn(FuncName(twin))
	ps := g.ParamExprs(twin)
	fP, rP := ps[0], ps[1]
	swap := map[string]*E{fP.key: rP, rP.key: fP}
	H := u.ToBool(g.RetExpr(s, 0))
	mentions := func(e, p *E) bool { return u.Mentions(e, func(x *E) bool { return x == p }) }
	compared := map[string]bool{}
	boolFields := map[string][]*E{}
	all := True
	var optAtom *E
	var nilTests []*E
	for _, at := range u.AtomsOf(H) {
		c.Atoms[at.key] = true
		if !(at.Op == "field" && (at.Args[0] == fP || at.Args[0] == rP)) {
			all = u.bdd.And(all, u.Atom(at))
		}
		key := shortFn(twin) + ": comparison " + clip(u.Show(at), 120)
		var A, B *E
		switch {
		case at.Op == "eq" && (at.Args[0].IsNil() || at.Args[1].IsNil()):
			// a nil test of a pointer field: a shortcut around the deep comparison of that field
			// (judged below together with it)
			x := at.Args[0]
			if x.IsNil() {
				x = at.Args[1]
			}
			if x.Op == "field" && (x.Args[0] == fP || x.Args[0] == rP) {
				nilTests = append(nilTests, at)
				all = u.bdd.Exists(all, u.atomIx[at.key])
				continue
			}
			A, B = at.Args[0], at.Args[1]
		case at.Op == "eq":
			A, B = at.Args[0], at.Args[1]
		case at.Op == "call" && len(at.Args) == 2:
			A, B = at.Args[0], at.Args[1]
			if !isValueEquality(at.Aux) {
				c.Fail(rule3, key, twin.Pos(), "the two values are compared with "+at.Aux+", which is not equality of the values (e.g. strings.EqualFold, a length comparison, a prefix test): rules that differ there count as twins")
				continue
			}
		case at.Op == "field" && at.Args[0] == fP || at.Op == "field" && at.Args[0] == rP:
			// bool field compared through iff: appears as two atoms (f.W, r.W)
			compared[at.Aux] = true
			boolFields[at.Aux] = append(boolFields[at.Aux], at)
			continue
		}
		if A == nil {
			c.Fail(rule3, key, twin.Pos(), "UNDECIDED: not a recognised comparison")
			continue
		}
		// the badfilter self-test: reads only the receiver's options
		if isIntConst(B, kBad) && !mentions(at, rP) {
			continue
		}
		fa, ra := mentions(A, fP), mentions(A, rP)
		fb, rb := mentions(B, fP), mentions(B, rP)
		if !((fa && !ra && rb && !fb) || (ra && !fa && fb && !rb)) {
			c.Fail(rule3, key, twin.Pos(), "the comparison does not compare a value of the badfilter rule with a value of the candidate rule (both sides read the same operand): the field is effectively ignored by the twin test")
			continue
		}
		// same field on both sides (modulo the option mask)
		fSide, rSide := A, B
		if ra {
			fSide, rSide = B, A
		}
		fields := fieldsRead(u, fSide, fP)
		rfields := fieldsRead(u, rSide, rP)
		if strings.Join(fields, ",") != strings.Join(rfields, ",") {
			c.Fail(rule3, key, twin.Pos(), fmt.Sprintf("compares field(s) %v of one rule with field(s) %v of the other", fields, rfields))
			continue
		}
		if u.Subst(fSide, swap) != rSide {
			if len(fields) == 1 && fields[0] == "enabledOptions" {
				optAtom = at
			} else {
				c.Fail(rule3, key, twin.Pos(), "the two sides are not the same expression of the two rules")
				continue
			}
		}
		for _, f := range fields {
			compared[f] = true
		}
		c.OK(rule3, shortFn(twin)+": compares "+strings.Join(fields, ",")+" of both rules", twin.Pos(), "same field on both operands")
	}
	// a pointer comparison next to a deep comparison of the same two values is a shortcut for it
	// (identical pointers are deeply equal); alone it compares by identity, which no two parsed
	// rules ever satisfy
	var ax Ref = True
	for _, e := range u.AtomsOf(H) {
		if e.Op != "eq" || e.Args[0].Typ == nil {
			continue
		}
		if _, isPtr := e.Args[0].Typ.Underlying().(*types.Pointer); !isPtr {
			continue
		}
		if e.Args[0].IsNil() || e.Args[1].IsNil() {
			continue
		}
		var deep *E
		for _, d := range u.AtomsOf(H) {
			if d.Op != "call" || len(d.Args) != 2 {
				continue
			}
			a0, a1 := d.Args[0], d.Args[1]
			for a0.Op == "mkiface" {
				a0 = a0.Args[0]
			}
			for a1.Op == "mkiface" {
				a1 = a1.Args[0]
			}
			if (a0 == e.Args[0] && a1 == e.Args[1]) || (a0 == e.Args[1] && a1 == e.Args[0]) {
				deep = d
			}
		}
		if deep == nil {
			c.Fail(rule3, shortFn(twin)+": comparison "+clip(u.Show(e), 120), twin.Pos(), "the values are compared by pointer identity only: two separately parsed rules never share the object, so the twin of a rule with this modifier is never recognised")
			continue
		}
		ax = u.bdd.And(ax, u.bdd.Imp(u.Atom(e), u.Atom(deep)))
		all = u.bdd.Exists(all, u.atomIx[e.key])
	}
	// nil tests: x == nil for the same field of both rules next to the deep comparison of that field
	for _, nt := range nilTests {
		x := nt.Args[0]
		if x.IsNil() {
			x = nt.Args[1]
		}
		other := u.Subst(x, swap)
		var deep *E
		for _, d := range u.AtomsOf(H) {
			if d.Op != "call" || len(d.Args) != 2 || !isValueEquality(d.Aux) {
				continue
			}
			a0, a1 := d.Args[0], d.Args[1]
			for a0.Op == "mkiface" {
				a0 = a0.Args[0]
			}
			for a1.Op == "mkiface" {
				a1 = a1.Args[0]
			}
			if (a0 == x && a1 == other) || (a0 == other && a1 == x) {
				deep = d
			}
		}
		if deep == nil {
			c.Fail(rule3, shortFn(twin)+": comparison "+clip(u.Show(nt), 120), twin.Pos(), "a field of one rule is only tested for nil and never compared with the same field of the other rule")
			continue
		}
		xNil := u.Atom(nt)
		oNil := u.ToBool(u.Eq(other, u.mk("nil", "", other.Typ)))
		dp := u.Atom(deep)
		// both nil => equal; exactly one nil => different
		ax = u.bdd.And(ax, u.bdd.Imp(u.bdd.And(xNil, oNil), dp))
		ax = u.bdd.And(ax, u.bdd.Imp(u.bdd.And(xNil, u.bdd.Not(oNil)), u.bdd.Not(dp)))
		if pe := u.Eq(x, other); pe.Op == "bool" {
			ax = u.bdd.And(ax, u.bdd.Imp(u.bdd.And(xNil, oNil), pe.B))
			ax = u.bdd.And(ax, u.bdd.Imp(u.bdd.And(xNil, u.bdd.Not(oNil)), u.bdd.Not(pe.B)))
		}
	}
	for name, ats := range boolFields {
		if len(ats) == 2 {
			all = u.bdd.And(all, u.bdd.Iff(u.Atom(ats[0]), u.Atom(ats[1])))
		} else {
			c.Fail(rule3, shortFn(twin)+": comparison of bool field "+name, twin.Pos(), "the flag is read from one operand only")
		}
	}
	// conjunction: true iff every comparison holds
	c.Check(u.bdd.And(H, ax) == u.bdd.And(all, ax), rule3, shortFn(twin)+": conjunction of all comparisons", twin.Pos(),
		"returns true exactly when the receiver has the badfilter option and every field comparison holds",
		"the result is not the conjunction of the field comparisons (some comparison has the wrong polarity or is bypassed)")

	// coverage
	if lo := c.P.Method("rules", "NetworkRule", "loadOptions"); lo != nil {
		written := map[string]token.Pos{"Whitelist": twin.Pos(), "pattern": twin.Pos()}
		for fn := range c.P.Reachable(lo) {
			if !c.P.IsLibFunc(fn) {
				continue
			}
			eachInstr(fn, func(_ *ssa.BasicBlock, in ssa.Instruction) {
				if st, ok := in.(*ssa.Store); ok {
					if n, f, ok := fieldOf(st.Addr); ok && namedIs(n, "rules", "NetworkRule") {
						if _, seen := written[f]; !seen {
							written[f] = st.Pos()
						}
					}
				}
			})
		}
		var fs []string
		for f := range written {
			fs = append(fs, f)
		}
		sort.Strings(fs)
		for _, f := range fs {
			c.Check(compared[f], rule3, "twin test covers NetworkRule."+f, written[f], "compared",
				"the option loaders write this field but the twin test never compares it: a badfilter rule disables rules that differ in this modifier")
		}
		// ... and nothing else: a twin is "the same pattern and modifiers", wherever it comes from
		var extra []string
		for f := range compared {
			if _, isMod := written[f]; !isMod {
				extra = append(extra, f)
			}
		}
		sort.Strings(extra)
		c.Check(len(extra) == 0, rule3, "twin test compares only the pattern and the modifiers", twin.Pos(), "every compared field is written by the pattern/option loaders",
			fmt.Sprintf("the twin test also compares %v, which is not part of a rule's pattern or modifiers (e.g. the list id or the rule text): a $badfilter rule then fails to disable its twin from another list", extra))
	} else {
		c.Fail(rule3, "anchor:loadOptions", token.NoPos, "unresolved anchor")
	}

	// R4: the option comparison removes exactly the badfilter bit
	if optAtom == nil {
		c.Fail(rule4, shortFn(twin)+": option comparison", twin.Pos(), "no comparison of the enabled options found")
		return
	}
	bad := ""
	n := 0
	bitsets := []int64{0, 4, kBad, 16, 4 | kBad, 16 | kBad, 4 | 16, 4 | 16 | kBad}
	for _, v := range bitsets {
		if v&kBad == 0 {
			continue // the receiver carries the badfilter bit
		}
		for _, w := range bitsets {
			sub := map[string]*E{
				u.Field(fP, "enabledOptions", nil).key: u.ConstVal(constantInt(v), types.Typ[types.Uint64]),
				u.Field(rP, "enabledOptions", nil).key: u.ConstVal(constantInt(w), types.Typ[types.Uint64]),
			}
			val, ok, res := foldCond(u, u.Atom(optAtom), sub)
			n++
			want := v&^kBad == w
			if !ok {
				bad = "UNDECIDED: " + res
			} else if val != want {
				bad = fmt.Sprintf("badfilter rule options %#x vs candidate options %#x: compared equal=%v, want %v", v, w, val, want)
			}
		}
	}
	c.Paths += n
	c.Check(bad == "", rule4, shortFn(twin)+": option comparison ignores exactly the badfilter bit", twin.Pos(), fmt.Sprintf("%d option pairs", n), bad)
}

// fieldsRead lists the fields of param p read inside e.
func fieldsRead(u *U, e, p *E) []string {
	set := map[string]bool{}
	u.Mentions(e, func(x *E) bool {
		if x.Op == "field" && x.Args[0] == p {
			set[x.Aux] = true
		}
		return false
	})
	var out []string
	for f := range set {
		out = append(out, f)
	}
	sort.Strings(out)
	return out
}

func runC08(c *Ctx) {
	c.Rule("C08.R1", "MULT", "each candidate emitted at most once and only if no collected badfilter rule negates it; the collection holds every badfilter rule", 3)
	c.Rule("C08.R2", "WIRE", "a rule with the badfilter option is never emitted", 1)
	c.Rule("C08.R3", "COV/SYM", "twin test = conjunction of same-field comparisons covering every modifier field", 14)
	c.Rule("C08.R4", "PDT", "option comparison removes exactly the badfilter bit", 1)
	c.Rule("C08.R10", "WIRE", "the DNS verdict rule comes only from the selector that filters badfilter rules", 1)
	c.Rule("C08.R5", "WIRE", "both selectors apply the badfilter filter to their input before selecting", 3)

	a := &anchors{c: c, rule: "C08.R1"}
	nmr := a.fn("rules", "NewMatchingResult")
	gdb := a.fn("rules", "GetDNSBasicRule")
	kBad, _ := a.constInt("rules", "OptionBadfilter")
	if a.bad {
		return
	}
	filter, _ := filterRoles(c, nmr, kBad)
	if filter == nil {
		c.Fail("C08.R1", "anchor:badfilter filter", nmr.Pos(), "unresolved anchor: no callee of NewMatchingResult of type func([]*NetworkRule) []*NetworkRule tests OptionBadfilter")
		return
	}
	c.Fn(FuncName(filter))
	twin := twinTest(c, filter)
	if twin == nil {
		c.Fail("C08.R1", "anchor:twin test", filter.Pos(), "unresolved anchor: the filter calls no bool method (*NetworkRule)(*NetworkRule)")
		return
	}

	checkBadfilterFilter(c, filter, twin, kBad)
	checkTwinComparison(c, "C08.R3", "C08.R4", twin, kBad)
	checkClientsEqual(c, "C08.R9")
	checkVerdictOnlyFromSelector(c, "C08.R10", gdb)
	if !c.noImports {
		importRules(c, runC03, map[string]string{"C03.R8": "C08.R6"}, map[string]string{"C08.R6": "the '/*' normalisation acts on the pattern part only, so a rule and its $badfilter twin get equal patterns (shared with C03.R8)"})
		importRules(c, runC04, map[string]string{"C04.R12": "C08.R15"}, map[string]string{"C08.R15": "the $client entries the twin test compares are kept in their normal form (the parsed address, the masked prefix, the name as written), so the same client set written differently is the same modifier value (shared with C04.R12)"})
		importRules(c, runC04, map[string]string{"C04.R3": "C08.R11"}, map[string]string{"C08.R11": "the list-valued modifiers the twin test compares element by element are sorted when a rule is loaded, so twins written in a different order compare equal (shared with C04.R3)"})
		importRules(c, runC16, map[string]string{"C16.R8": "C08.R13"}, map[string]string{"C08.R13": "a modifier parsed later never wipes the option bits parsed before it, $badfilter among them (shared with C16.R8): '$badfilter,document' must stay a badfilter rule"})
		importRules(c, runC12, map[string]string{"C12.R7": "C08.R12"}, map[string]string{"C08.R12": "a rule and its twin reach the engine as whole lines, however long (shared with C12.R7): a twin cut inside ',badfilter' is rejected and disables nothing"})
		importRules(c, runC11, map[string]string{"C11.R4": "C08.R14"}, map[string]string{"C08.R14": "a rule and its twin are retrieved from a file-backed list as the whole lines they were scanned as (shared with C11.R4): a twin cut short on retrieval loses its badfilter modifier"})
		importRules(c, runC01, map[string]string{"C01.R6": "C08.R8", "C01.R2": "C08.R8", "C01.R3": "C08.R8"}, map[string]string{"C08.R8": "the twin is indexed like any rule: tables decline only exact duplicates, first accepting table (shared with C01.R2/R6)"})
	}
	{
		c.Rule("C08.R7", "EFF", "the filter never writes through its argument (the caller keeps the unfiltered list)", 1)
		fs := aliasingWrites(c, []*ssa.Function{filter})
		bad := ""
		if len(fs) > 0 {
			bad = fs[0]
		}
		c.Check(bad == "", "C08.R7", shortFn(filter)+": builds a fresh result", filter.Pos(), "no append / in-place operation on the parameter's backing array", bad)
	}

	// R5: filter applied first in both selectors
	for _, sel := range []*ssa.Function{nmr, gdb} {
		g := NewGate(c.P)
		g.Inline = inlineOnly()
		s := g.Eval(sel)
		ps := g.ParamExprs(sel)
		for i, p := range sel.Params {
			if !strings.HasSuffix(typeStr(p.Type()), "[]*rules.NetworkRule") {
				continue
			}
			// every loop over rules derived from this parameter must see it through the filter
			ok := false
			for _, ef := range s.Effects {
				if ef.Kind == "call" && ef.Call.Aux == calleeName(filter) {
					arg := ef.Call.Args[0]
					if arg == ps[i] || (arg.Op == "call" && len(arg.Args) > 0 && arg.Args[0] == ps[i]) {
						// unconditional, or skipped only for an empty list (nothing to filter)
						u := g.U
						ok = ef.Cond == True || ef.Cond == u.bdd.Not(u.ToBool(u.Eq(u.Len(ps[i]), u.Int(0))))
					}
				}
			}
			// and the raw parameter must not be ranged over or indexed directly
			direct := false
			eachInstr(sel, func(_ *ssa.BasicBlock, in ssa.Instruction) {
				switch in := in.(type) {
				case *ssa.IndexAddr:
					if in.X == ssa.Value(p) {
						direct = true
					}
				case *ssa.Range:
					if in.X == ssa.Value(p) {
						direct = true
					}
				}
			})
			c.Check(ok && !direct, "C08.R5", shortFn(sel)+": parameter "+p.Name()+" passes through the badfilter filter", sel.Pos(),
				"filtered unconditionally; never indexed directly", "the parameter is used without (or before) the badfilter filter")
		}
	}
}

// checkBadfilterFilter implements R1 and R2 on the filter function.
func checkBadfilterFilter(c *Ctx, filter, twin *ssa.Function, kBad int64) {
	g := NewGate(c.P)
	g.Inline = inlineOnly("(*rules.NetworkRule).IsOptionEnabled")
	g.Search = true
	g.Pure[FuncName(twin)] = true // a comparison of two rules; that it writes nothing is C13.R1
	s := g.Eval(filter)
	u := g.U
	ps := g.ParamExprs(filter)
	in0 := ps[0]
	loops := loopsOf(filter)
	isBad := func(e *E) Ref {
		en := u.Field(e, "enabledOptions", types.Typ[types.Uint64])
		k := u.ConstVal(constantInt(kBad), types.Typ[types.Uint64])
		return u.ToBool(u.Eq(u.Bin(token.AND, en, k, types.Typ[types.Uint64]), k))
	}
	// tailFromFirstBad: in0[k:] with k = slices.IndexFunc(in0, isBad): nothing in front of k is a
	// badfilter rule, so a scan of the tail sees all of them
	// firstBadOf: for in0[k:] or in0[k+1:] the position k (and whether the tail starts behind it)
	firstBadOf := func(coll *E) (k *E, behind bool) {
		if coll == nil || coll.Op != "slice" || coll.Args[0] != in0 || coll.Args[1] == nil || coll.Args[2] != nil {
			return nil, false
		}
		k = coll.Args[1]
		if k.Op == "bin" && k.Aux == "+" && len(k.Args) == 2 {
			if isIntConst(k.Args[1], 1) {
				return k.Args[0], true
			}
			if isIntConst(k.Args[0], 1) {
				return k.Args[1], true
			}
		}
		return k, false
	}
	tailFromFirstBad := func(coll *E) bool {
		k, _ := firstBadOf(coll)
		if k == nil {
			return false
		}
		if k.Op != "call" || k.Aux != "slices.IndexFunc" || len(k.Args) != 2 || k.Args[0] != in0 || k.Args[1].Op != "lambda" || len(k.Args[1].Args) != 1 {
			return false
		}
		pred := k.Args[1].Args[0]
		var bv *E
		for _, x := range u.Collect(pred, func(x *E) bool { return x.Op == "bvar" }) {
			bv = x
		}
		if bv == nil || pred.Op != "bool" {
			return false
		}
		probe := u.mk("index", "", bv.Typ, in0, u.mk("sym", "any-position", types.Typ[types.Int]))
		return u.SubstBool(pred.B, map[string]*E{bv.key: probe}) == isBad(probe)
	}
	fromInput := func(e *E) bool {
		return e != nil && e.Op == "index" && (e.Args[0] == in0 || tailFromFirstBad(e.Args[0]))
	}
	// values that reach a return
	reachRet := map[ssa.Value]bool{}
	var mark func(v ssa.Value)
	mark = func(v ssa.Value) {
		if v == nil || reachRet[v] {
			return
		}
		reachRet[v] = true
		switch x := v.(type) {
		case *ssa.Phi:
			for _, e := range x.Edges {
				mark(e)
			}
		case *ssa.Call:
			if b, ok := x.Call.Value.(*ssa.Builtin); ok && b.Name() == "append" {
				mark(x.Call.Args[0])
			}
		}
	}
	eachInstr(filter, func(_ *ssa.BasicBlock, in ssa.Instruction) {
		if r, ok := in.(*ssa.Return); ok {
			for _, v := range r.Results {
				mark(v)
			}
		}
	})
	type app struct {
		call *ssa.Call
		expr *E
		elem *E
	}
	var emits, collects []app
	eachInstr(filter, func(_ *ssa.BasicBlock, in ssa.Instruction) {
		cl, ok := in.(*ssa.Call)
		if !ok {
			return
		}
		if b, ok := cl.Call.Value.(*ssa.Builtin); !ok || b.Name() != "append" {
			return
		}
		e := s.Env[cl]
		if e == nil || e.Op != "append" || e.Aux != "elems" || len(e.Args) != 2 {
			if reachRet[cl] {
				c.Fail("C08.R1", shortFn(filter)+": emission", cl.Pos(), "UNDECIDED: an append that reaches the result is not an append of single elements")
			}
			return
		}
		if reachRet[cl] {
			emits = append(emits, app{cl, e, e.Args[1]})
		} else {
			collects = append(collects, app{cl, e, e.Args[1]})
		}
	})
	if len(emits) == 0 {
		c.Fail("C08.R1", shortFn(filter)+": emission", filter.Pos(), "UNDECIDED: no emission site (append reaching the result) found")
		return
	}
	// the collection of badfilter rules
	collOK := false
	var collPhi map[ssa.Value]bool
	for _, cp := range collects {
		l := innermostLoop(loops, cp.call.Block())
		if os.Getenv("UFCHECK_DEBUG_C08") != "" && l != nil {
			if ph, ok := cp.call.Call.Args[0].(*ssa.Phi); ok {
				for i, e := range ph.Edges {
					fmt.Fprintln(os.Stderr, "C08DBG collphi edge", i, l.Blocks[ph.Block().Preds[i]], u.Show(s.Env[e]))
				}
			}
		}
		if l == nil || !fromInput(cp.elem) {
			continue
		}
		ro := rangedOver(l)
		cont := contCond(u, s, l)
		rc := s.RCAt(cp.call)
		want := u.bdd.And(cont, isBad(cp.elem))
		full := ro != nil && ro.Full && (s.Env[ro.Coll] == in0 || tailFromFirstBad(s.Env[ro.Coll])) && onlyExhaustionExit(l)
		if k, behind := firstBadOf(s.Env[ro.Coll]); full && behind {
			// the scan starts behind the first badfilter rule: that one has to be in the collection
			// already, as the only element of the list the scan appends to
			full = false
			if ph, ok := cp.call.Call.Args[0].(*ssa.Phi); ok {
				for i, e := range ph.Edges {
					if l.Blocks[ph.Block().Preds[i]] {
						continue
					}
					init := s.Env[e]
					if init == nil || init.Op != "slice" || init.Args[0].Op != "alloc" || init.Args[1] != nil || init.Args[2] != nil {
						continue
					}
					n, first := 0, false
					for _, ef := range s.Effects {
						if ef.Kind == "store" && ef.Addr.Op == "iaddr" && ef.Addr.Args[0] == init.Args[0] {
							n++
							first = isIntConst(ef.Addr.Args[1], 0) && ef.Val.Op == "index" && ef.Val.Args[0] == in0 && ef.Val.Args[1] == k
						}
					}
					if pt, ok := init.Args[0].Typ.(*types.Pointer); ok {
						if at, ok := pt.Elem().Underlying().(*types.Array); ok && at.Len() == 1 && n == 1 && first {
							full = true
						}
					}
				}
			}
		}
		exact := u.bdd.And(rc, cont) == u.bdd.And(want, s.RC[l.Header])
		collOK = full && exact
		c.Check(collOK, "C08.R1", shortFn(filter)+": collection holds every badfilter rule of the input", cp.call.Pos(),
			"full range over the input; appended exactly when the rule has the badfilter option",
			fmt.Sprintf("the collection loop is not a complete, unconditional scan appending exactly the badfilter rules (full range=%v, condition exact=%v)", full, exact))
		collPhi = map[ssa.Value]bool{}
		var fw func(v ssa.Value)
		fw = func(v ssa.Value) {
			if collPhi[v] {
				return
			}
			collPhi[v] = true
			if rs := v.Referrers(); rs != nil {
				for _, r := range *rs {
					if ph, ok := r.(*ssa.Phi); ok {
						fw(ph)
					}
				}
			}
		}
		fw(cp.call)
	}
	// the collection may be built by a helper: then it is the list some emission's scan ranges over,
	// and it must accumulate exactly the badfilter rules of the input
	helperColl := map[*E]bool{}
	if collPhi == nil {
		for _, em := range emits {
			for _, at := range u.AtomsOf(s.RC[em.call.Block()]) {
				if at.Op != "exists" || helperColl[at.Args[0]] {
					continue
				}
				if _, exact := accumulates(g, s, at.Args[0], in0, isBad); exact {
					helperColl[at.Args[0]] = true
					collOK = true
					c.OK("C08.R1", shortFn(filter)+": collection holds every badfilter rule of the input", filter.Pos(),
						"built by a helper: full range over the input; appended exactly when the rule has the badfilter option")
				}
			}
		}
	}
	if collPhi == nil && len(helperColl) == 0 {
		c.Fail("C08.R1", shortFn(filter)+": collection holds every badfilter rule of the input", filter.Pos(), "UNDECIDED: no collection of the badfilter rules found (accepted shape: a slice appended in a full scan of the input)")
	}
	// once collected, the list stays as it is while the candidates are tested
	for _, gf := range groupFuncs(c.P, filter) {
		eachInstr(gf, func(_ *ssa.BasicBlock, in ssa.Instruction) {
			cl, ok := in.(*ssa.Call)
			if !ok || cl.Call.StaticCallee() == nil || len(cl.Call.Args) == 0 {
				return
			}
			n := calleeName(cl.Call.StaticCallee())
			for _, p := range inplaceLib {
				if strings.HasPrefix(n, p) && collPhi[cl.Call.Args[0]] {
					c.Fail("C08.R1", shortFn(filter)+": collection holds every badfilter rule of the input", cl.Pos(),
						n+" changes the collected list of badfilter rules while candidates are being tested: a badfilter rule that has already disabled one rule is no longer applied to later (duplicate) candidates")
				}
			}
		})
	}

	for _, em := range emits {
		key := shortFn(filter) + ": emission of a candidate"
		blk := em.call.Block()
		rc := s.RC[blk]
		if !fromInput(em.elem) {
			c.Fail("C08.R1", key, em.call.Pos(), "the emitted element is not an element of the input slice: "+clip(u.Show(em.elem), 100))
			continue
		}
		// R2
		c.Check(u.bdd.Implies(rc, u.bdd.Not(isBad(em.elem))), "C08.R2", key+" is not a badfilter rule", em.call.Pos(),
			"reach condition implies the element lacks the badfilter option", "a rule carrying $badfilter can be emitted")
		// candidate loop
		lc := innermostLoop(loops, blk)
		if lc == nil {
			c.Fail("C08.R1", key, em.call.Pos(), "UNDECIDED: emission outside any loop")
			continue
		}
		// find the loop in which the emitted element is the loop element: the loop over the input
		var candLoop *Loop
		for _, l := range loops {
			if l.Blocks[blk] {
				if ro := rangedOver(l); ro != nil && s.Env[ro.Coll] == in0 {
					candLoop = l
				}
			}
		}
		if candLoop == nil {
			c.Fail("C08.R1", key, em.call.Pos(), "UNDECIDED: the emission is not inside a loop over the input slice")
			continue
		}
		roC := rangedOver(candLoop)
		if !(roC.Full) {
			c.Fail("C08.R1", key, em.call.Pos(), "the candidate loop does not range over the whole input")
		}
		// at most once: the emission block must not be inside a loop nested in the candidate loop
		if lc != candLoop {
			c.Fail("C08.R1", key+": at most once", em.call.Pos(), "the emission sits inside a loop nested in the candidate loop (or the candidate loop is nested in another loop around the emission): a candidate can be emitted once per badfilter rule")
			continue
		}
		for _, l := range loops {
			if l != candLoop && l.Blocks[candLoop.Header] {
				c.Fail("C08.R1", key+": at most once", em.call.Pos(), "the candidate loop is nested inside another loop: each candidate is emitted once per outer iteration")
			}
		}
		// the decision for this candidate must not depend on anything carried over from earlier candidates
		{
			idxPhis := map[*E]bool{}
			for _, l := range loops {
				if ct := countedLoop(u, s, l); ct != nil {
					idxPhis[ct.Idx] = true
				}
				if ro := rangedOver(l); ro != nil {
					if ph, ok := ro.Index.(*ssa.BinOp); ok {
						if e := s.Env[ph.X]; e != nil {
							idxPhis[e] = true
						}
					}
					if ph, ok := ro.Index.(*ssa.Phi); ok {
						if e := s.Env[ph]; e != nil {
							idxPhis[e] = true
						}
					}
				}
			}
			stale := ""
			for _, at := range u.AtomsOf(rc) {
				if u.Mentions(at, func(x *E) bool {
					return (x.Op == "loopphi" || x.Op == "loopval") && !idxPhis[x] && !u.Mentions(em.elem, func(y *E) bool { return y == x })
				}) {
					// collection φ values are fine (the badfilter list); flags are not
					if !u.Mentions(at, func(x *E) bool { return x.Op == "len" || x.Op == "index" }) {
						stale = clip(u.Show(at), 100)
					}
				}
			}
			c.Check(stale == "", "C08.R1", key+": decided per candidate", em.call.Pos(), "the emission condition reads nothing carried over from earlier iterations",
				"whether a candidate is kept depends on a value carried over from earlier candidates ("+stale+"), e.g. a 'negated' flag that is not reset: once one rule is disabled, every later rule is dropped too")
		}
		// the scan over the collection, in canonical search form: the emission is reached only
		// when no element of the collected badfilter rules negates the candidate
		scanOK := false
		collVals := map[*E]bool{}
		for v := range collPhi {
			if e := s.Env[v]; e != nil {
				collVals[e] = true
			}
		}
		for e := range helperColl {
			collVals[e] = true
		}
		for _, at := range u.AtomsOf(rc) {
			if at.Op != "exists" {
				continue
			}
			pr := u.ToBool(at.Args[1])
			pats := u.AtomsOf(pr)
			if len(pats) != 1 || pats[0].Op != "call" || pats[0].Aux != calleeName(twin) || len(pats[0].Args) < 2 {
				continue
			}
			call := pats[0]
			if call.Args[1] != em.elem {
				continue
			}
			recvOK := call.Args[0].Op == "bvar" && collVals[at.Args[0]]
			// the list that is scanned must be the same for every candidate: not a value carried
			// around the candidate loop (shrunk, reordered or replaced after a hit)
			for _, hi := range candLoop.Header.Instrs {
				if ph, isPhi := hi.(*ssa.Phi); isPhi && s.Env[ph] == at.Args[0] {
					recvOK = false
					c.Fail("C08.R1", shortFn(filter)+": collection holds every badfilter rule of the input", em.call.Pos(),
						"the list of badfilter rules that is scanned changes from one candidate to the next (it is reassigned inside the candidate loop, e.g. a badfilter rule is removed once it has disabled one rule): a second copy of the disabled rule, from another list, is then kept")
				}
			}
			pos := pr == u.Atom(call)
			guarded := u.bdd.Implies(rc, u.bdd.Not(u.Atom(at)))
			scanOK = true
			if recvOK && pos && guarded {
				c.OK("C08.R1", key+": no collected badfilter negates it", em.call.Pos(),
					"emission only when no element of the whole collection passes the twin test against the candidate (scan loop, helper or slices.ContainsFunc)")
			} else {
				c.Fail("C08.R1", key+": no collected badfilter negates it", em.call.Pos(),
					fmt.Sprintf("the scan over the badfilter rules does not establish 'for all' (scans the collected badfilter rules with the twin test's receiver=%v, leaves exactly when negated=%v, emission only when no rule negates=%v)", recvOK, pos, guarded))
			}
		}
		if !scanOK {
			// a raw (non-canonical) scan: report what is there
			raw := false
			for _, at := range u.AtomsOf(rc) {
				if at.Op == "call" && at.Aux == calleeName(twin) {
					raw = true
				}
			}
			if raw {
				c.Fail("C08.R1", key+": no collected badfilter negates it", em.call.Pos(),
					"the scan over the badfilter rules does not establish 'for all': it is not a complete scan of the collection that leaves exactly when the twin test holds (partial range, extra exit, side effects or state carried between iterations)")
			} else {
				c.Fail("C08.R1", key+": no collected badfilter negates it", em.call.Pos(),
					"UNDECIDED: no scan of the collected badfilter rules testing this candidate guards the emission (accepted shapes: inner loop with flag/break or labelled continue, a helper, slices.ContainsFunc)")
			}
		}
	}
}

func onlyExhaustionExit(l *Loop) bool {
	for _, ex := range l.Exits {
		if ex[0] != l.Header {
			return false
		}
	}
	return true
}

// edgeCondOf is the evaluated condition of CFG edge p->b (reach condition of
// p and the branch literal).
func edgeCondOf(u *U, s *Summary, p, b *ssa.BasicBlock) Ref {
	rc, ok := s.RC[p]
	if !ok {
		return False
	}
	if iff, ok := p.Instrs[len(p.Instrs)-1].(*ssa.If); ok {
		cv := s.Env[iff.Cond]
		if cv == nil {
			return rc
		}
		cnd := u.ToBool(cv)
		t, e := p.Succs[0] == b, p.Succs[1] == b
		switch {
		case t && e:
			return rc
		case t:
			return u.bdd.And(rc, cnd)
		default:
			return u.bdd.And(rc, u.bdd.Not(cnd))
		}
	}
	return rc
}

// checkClientsEqual: the $client comparison the twin test relies on is the
// conjunction of element-wise equalities of every list of a client set.
func checkClientsEqual(c *Ctx, rule string) {
	c.Rule(rule, "PDT/COV", "client sets are equal iff every one of their lists is equal, element by element", 1)
	eq := c.P.Method("rules", "clients", "Equal")
	ct := c.P.Type("rules", "clients")
	if eq == nil || ct == nil {
		c.Fail(rule, "anchor:clients.Equal", token.NoPos, "unresolved anchor")
		return
	}
	c.Fn(FuncName(eq))
	g := NewGate(c.P)
	g.Inline = inlineOnly()
	s := g.Eval(eq)
	u := g.U
	ps := g.ParamExprs(eq)
	a, b := ps[0], ps[1]
	H := u.ToBool(g.RetExpr(s, 0))
	aNil := u.ToBool(u.Eq(a, u.mk("nil", "", nil)))
	bNil := u.ToBool(u.Eq(b, u.mk("nil", "", nil)))
	both := u.bdd.And(u.bdd.Not(aNil), u.bdd.Not(bNil))
	want := True
	covered := map[string]bool{}
	bad := ""
	for _, at := range u.AtomsOf(u.bdd.And(H, both)) {
		if u.Atom(at) == aNil || u.Atom(at) == bNil {
			continue
		}
		okCmp := at.Op == "call" && len(at.Args) == 2 && isValueEquality(at.Aux)
		if okCmp {
			x, y := at.Args[0], at.Args[1]
			if x.Op == "field" && y.Op == "field" && x.Aux == y.Aux && ((x.Args[0] == a && y.Args[0] == b) || (x.Args[0] == b && y.Args[0] == a)) {
				covered[x.Aux] = true
				want = u.bdd.And(want, u.Atom(at))
				continue
			}
		}
		bad = "client sets are compared by " + clip(u.Show(at), 100) + ", which is not an element-wise equality of the same list of both sets (e.g. comparing lengths makes $client=~guests equal to $client=~kids)"
	}
	if bad == "" {
		for _, f := range structFields(ct) {
			if !covered[f] {
				bad = "the list clients." + f + " is never compared: rules that differ only there count as twins"
			}
		}
	}
	if bad == "" && u.bdd.And(H, both) != u.bdd.And(want, both) {
		bad = "for two non-nil sets the result is not the conjunction of the list equalities"
	}
	if bad == "" {
		// nil handling: nil equals only nil
		if u.bdd.And(H, u.bdd.And(aNil, u.bdd.Not(bNil))) != False || u.bdd.And(H, u.bdd.And(u.bdd.Not(aNil), bNil)) != False || u.bdd.And(u.bdd.And(aNil, bNil), u.bdd.Not(H)) != False {
			bad = "a nil client set is not equal exactly to a nil one"
		}
	}
	c.Check(bad == "", rule, shortFn(eq)+": conjunction of element-wise list equalities", eq.Pos(), "every field of the set compared with slices.Equal", bad)
}

// checkVerdictOnlyFromSelector: the network rule a DNS result answers with is always the value
// returned by the DNS selector (which removes the badfilter rules and their twins first); no path
// takes a matched rule directly.
func checkVerdictOnlyFromSelector(c *Ctx, rule string, gdb *ssa.Function) {
	ws := fieldWrites(c.P, "", "DNSResult", "NetworkRule")
	if len(ws) == 0 {
		c.Fail(rule, "DNSResult.NetworkRule writers", gdb.Pos(), "UNDECIDED: no store to DNSResult.NetworkRule found")
		return
	}
	// the baseline functions that write the field, directly or through helpers outside the vocabulary
	writers := map[*ssa.Function]bool{}
	for _, w := range ws {
		if !c.P.IsNewHelper(w.Fn) {
			writers[w.Fn] = true
			continue
		}
		for _, fn := range c.P.AllLibFuncs() {
			if !c.P.IsNewHelper(fn) && helperGroup(c.P, fn)[w.Fn] {
				writers[fn] = true
			}
		}
	}
	var fns []*ssa.Function
	for fn := range writers {
		fns = append(fns, fn)
	}
	sort.Slice(fns, func(i, j int) bool { return FuncName(fns[i]) < FuncName(fns[j]) })
	for _, fn := range fns {
		g := NewGate(c.P)
		g.Inline = inlineOnly()
		s := g.Eval(fn)
		u := g.U
		bad := ""
		n := 0
		for _, ef := range s.Effects {
			if ef.Kind != "store" || ef.Addr.Op != "faddr" || ef.Addr.Aux != "NetworkRule" || ef.Cond == False {
				continue
			}
			if t := ef.Addr.Args[0].Typ; t == nil || !strings.HasSuffix(typeStr(t), "DNSResult") {
				continue
			}
			n++
			for leaf, lc := range u.Leaves(ef.Val) {
				if u.bdd.And(lc, ef.Cond) == False || leaf.IsNil() {
					continue
				}
				if leaf.Op == "call" && leaf.Aux == calleeName(gdb) {
					continue
				}
				if bad == "" {
					bad = c.P.Pos(ef.Pos) + ": the result's network rule is " + clip(u.Show(leaf), 100) + " when " + clip(u.ShowBool(u.bdd.And(lc, ef.Cond)), 160) + ", not the value of " + shortFn(gdb) + ": a matched $badfilter rule (or a rule its twin disables) can become the answer"
				}
			}
		}
		c.Check(bad == "", rule, shortFn(fn)+": DNSResult.NetworkRule = "+shortFn(gdb)+"(matched rules) or nil", fn.Pos(), fmt.Sprintf("%d store(s): every value leaf is the selector's return value", n), bad)
	}
}

// isValueEquality: the library (and sibling) functions that decide equality of two values.
func isValueEquality(name string) bool {
	switch {
	case name == "slices.Equal", strings.HasPrefix(name, "slices.Equal["), name == "reflect.DeepEqual", name == "bytes.Equal",
		name == "maps.Equal", strings.HasPrefix(name, "maps.Equal["), strings.HasSuffix(name, "clients).Equal"):
		return true
	}
	return false
}
