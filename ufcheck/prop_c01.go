package main

// C01 — network engine lookup is equivalent to a linear scan of all rules.

import (
	"fmt"
	"go/types"
	"os"
	"strings"

	"go/constant"
	"go/token"

	"golang.org/x/tools/go/ssa"
)

func init() {
	register(&PropDef{
		ID:  "C01",
		Run: runC01,
		Explanation: "Static decision of the structural contract of the three lookup tables (IDX). Soundness: in every implementation of lookup.Table (found with types.Implements), the reach condition of each append to the result implies " +
			"(*NetworkRule).Match(element, request) == true, so collisions and stale buckets are invisible. Completeness: the engine consults every table and appends every result; AddRule offers a rule to the tables in order and stops exactly when one accepts; " +
			"the shortcut probe visits every window start i with i+K <= len (loop condition evaluated on all small lengths), hashes [i,i+K) of the same request field that the shortcut conjunct of Match tests, K is the width of the indexed keys, " +
			"the insert-side hash equals the probe-side hash on non-empty strings, and the stored key is the hash of one generated window; the domain probe hashes every dot-suffix of the request field that Match passes to the $domain test, " +
			"the suffix enumerator emits one suffix per label, TryAdd keys every permitted domain and declines rules with a wildcard-TLD value; Match cannot return true without the shortcut conjunct. R3 also: the least-used selection of TryAdd starts its running minimum at a constant the usage counters cannot reach (at least 2^31-1 with a strict comparison, the largest value of the counter type with a non-strict one), so some window is always chosen and no rule keeps the zero hash. R4 accepts an enumerator that returns the hashes of the suffixes instead of the suffixes: the probe then looks up every element as it is and the enumerator hashes what it emits with the insert-side hash.",
		Trusted: []string{"every window of a substring of u is a window of u (why the shortcut conjunct makes the window index complete)", "hash quality is irrelevant given re-validation"},
	})
}

func runC01(c *Ctx) {
	c.Rule("C01.R1", "IDX", "every element a lookup table returns is re-validated by NetworkRule.Match(element, request)", 3)
	c.Rule("C01.R2", "WIRE", "engine consults every table; AddRule places a rule in the first table that accepts it", 2)
	c.Rule("C01.R3", "LIN/WIRE", "shortcut index: complete window enumeration, same width, same hash, same request field as the shortcut conjunct, stored key is a generated window", 7)
	c.Rule("C01.R4", "IDX", "domain index: every dot-suffix probed, every permitted domain keyed, wildcard-TLD rules declined, same request field as the $domain conjunct", 5)
	c.Rule("C01.R5", "WIRE", "Match returns true only if the shortcut conjunct holds", 1)
	c.Rule("C01.R6", "WIRE", "sequential table scans its whole list and declines only exact duplicates", 2)

	a := &anchors{c: c, rule: "C01.R1"}
	match := a.method("rules", "NetworkRule", "Match")
	fh := a.fn("filterutil", "FastHash")
	fhb := a.fn("filterutil", "FastHashBetween")
	tbl := c.P.Type("lookup", "Table")
	if tbl == nil {
		c.Fail("C01.R1", "anchor:lookup.Table", 0, "unresolved anchor")
		return
	}
	if a.bad {
		return
	}
	iface := tbl.Underlying().(*types.Interface)
	impls := implementers(c.P, iface)
	c.Extra["lookup_table_implementations"] = func() []string {
		var o []string
		for _, n := range impls {
			o = append(o, n.Obj().Name())
		}
		return o
	}()

	// ---------- R1 ----------
	for _, n := range impls {
		ma := methodOf(c.P, n, "MatchAll")
		if ma == nil {
			c.Fail("C01.R1", "anchor:"+n.Obj().Name()+".MatchAll", 0, "unresolved anchor")
			continue
		}
		if guardedBy(c, "C01.R1", ma, match, 1, "request") == 0 {
			c.Fail("C01.R1", shortFn(ma)+": emission", ma.Pos(), "UNDECIDED: the table returns rules without any append this rule can inspect")
		}
	}

	// ---------- R2 ----------
	a.rule = "C01.R2"
	neMA := a.method("", "NetworkEngine", "MatchAll")
	neAdd := a.method("", "NetworkEngine", "AddRule")
	// the table list may be wrapped in a small type whose methods do the two loops: the engine's
	// method then only delegates, and the loop is judged in the delegate with the arguments the
	// engine passes (table list = the engine's lookupTables field, request / rule / index = its own
	// parameters)
	delegateOf := func(fn *ssa.Function, method string) (*ssa.Function, *ssa.Call) {
		if len(invokesOf(fn, method)) > 0 {
			return nil, nil
		}
		var h *ssa.Function
		var at *ssa.Call
		n := 0
		eachInstr(fn, func(_ *ssa.BasicBlock, in ssa.Instruction) {
			if cl, ok := in.(*ssa.Call); ok {
				if cal := cl.Call.StaticCallee(); cal != nil && c.P.IsNewHelper(cal) && len(invokesOf(cal, method)) > 0 {
					h, at = cal, cl
					n++
				}
			}
		})
		if n != 1 {
			return nil, nil
		}
		return h, at
	}
	if neMA != nil {
		g := NewGate(c.P)
		g.Inline = inlineOnly()
		judged := neMA
		var argOf map[*E]*E // delegate parameter -> what the engine passes
		if h, at := delegateOf(neMA, "MatchAll"); h != nil {
			g.NoInline[FuncName(h)] = true
			s0 := g.Eval(neMA)
			okRet := retReaching(neMA, 0)[at]
			g = NewGate(c.P)
			g.Inline = inlineOnly()
			argOf = map[*E]*E{}
			hp := g.ParamExprs(h)
			for i, a := range at.Call.Args {
				if i < len(hp) {
					argOf[hp[i]] = s0.Env[a]
				}
			}
			// keys are expressions of the new gate's universe; values of the engine's evaluation: compare by key text
			judged = h
			if !okRet {
				judged = neMA // the delegate's result is not what the engine returns: fail below
			}
		}
		s := g.Eval(judged)
		u := g.U
		ps := g.ParamExprs(judged)
		isTables := func(e *E) bool {
			if e == nil {
				return false
			}
			if argOf != nil {
				if a := argOf[e]; a != nil {
					return a.Op == "field" && a.Aux == "lookupTables"
				}
				return false
			}
			return e.Op == "field" && e.Aux == "lookupTables"
		}
		isRequest := func(e *E) bool {
			if argOf != nil {
				a := argOf[e]
				return a != nil && a.Op == "param" && strings.HasSuffix(typeStr(a.Typ), "rules.Request")
			}
			return e == ps[1]
		}
		loops := loopsOf(judged)
		bad := "no call of Table.MatchAll"
		var pos = neMA.Pos()
		neMA0 := neMA
		neMA := judged
		_ = neMA0
		for _, site := range invokesOf(neMA, "MatchAll") {
			pos = site.Pos()
			ok, coll, why := fullUnconditionalLoop(u, s, loops, site)
			ce := s.Env[site.(ssa.Value)]
			switch {
			case !ok:
				bad = why
			case !isTables(s.Env[coll]):
				bad = "the loop does not range over the engine's table list"
			case ce == nil || len(ce.Args) < 2 || !isRequest(ce.Args[1]):
				bad = "the tables are not queried with the engine's request parameter"
			default:
				// the result of each table must be appended (spread) to a value reaching the return
				appended := false
				reach := retReaching(neMA, 0)
				eachInstr(neMA, func(_ *ssa.BasicBlock, in ssa.Instruction) {
					if cl, isC := in.(*ssa.Call); isC && reach[cl] {
						if b, isB := cl.Call.Value.(*ssa.Builtin); isB && b.Name() == "append" && cl.Call.Args[1] == site.(ssa.Value) && cl.Block() == site.Block() {
							appended = true
						}
					}
				})
				if appended {
					bad = ""
				} else {
					bad = "the result of a table is not appended to the engine's result"
				}
			}
		}
		c.Check(bad == "", "C01.R2", "NetworkEngine.MatchAll: every table consulted, every result appended", pos, "complete unconditional range over lookupTables", bad)
	}
	if neAdd != nil {
		g := NewGate(c.P)
		g.Inline = inlineOnly()
		judged := neAdd
		var argOf map[*E]*E
		if h, at := delegateOf(neAdd, "TryAdd"); h != nil {
			g.NoInline[FuncName(h)] = true
			s0 := g.Eval(neAdd)
			g = NewGate(c.P)
			g.Inline = inlineOnly()
			argOf = map[*E]*E{}
			hp := g.ParamExprs(h)
			for i, a := range at.Call.Args {
				if i < len(hp) {
					argOf[hp[i]] = s0.Env[a]
				}
			}
			judged = h
		}
		s := g.Eval(judged)
		u := g.U
		ps := g.ParamExprs(judged)
		isTables := func(e *E) bool {
			if e == nil {
				return false
			}
			if argOf != nil {
				a := argOf[e]
				return a != nil && a.Op == "field" && a.Aux == "lookupTables"
			}
			return e.Aux == "lookupTables"
		}
		isParam := func(e *E, k int) bool {
			if argOf != nil {
				a := argOf[e]
				return a != nil && a.Op == "param" && k < len(neAdd.Params) && a.Aux == neAdd.Params[k].Name()
			}
			return e == ps[k]
		}
		neAdd0 := neAdd
		neAdd := judged
		loops := loopsOf(neAdd)
		bad := "no call of Table.TryAdd"
		pos := neAdd0.Pos()
		for _, site := range invokesOf(neAdd, "TryAdd") {
			pos = site.Pos()
			l := innermostLoop(loops, site.Block())
			ce := s.Env[site.(ssa.Value)]
			if l == nil || ce == nil {
				bad = "TryAdd is not called in a loop over the tables"
				continue
			}
			ro := rangedOver(l)
			acc := u.ToBool(ce)
			early := False
			for _, ex := range l.Exits {
				if ex[0] != l.Header {
					early = u.bdd.Or(early, edgeCondOf(u, s, ex[0], ex[1]))
				}
			}
			body := u.bdd.And(s.RC[l.Header], contCond(u, s, l))
			switch {
			case ro == nil || !ro.Full || !isTables(s.Env[ro.Coll]):
				bad = "the loop is not a complete range over the engine's table list"
			case s.RCAt(site) != body:
				bad = "TryAdd is not offered to every table reached"
			case len(ce.Args) < 3 || !isParam(ce.Args[1], 1) || !isParam(ce.Args[2], 2):
				bad = "TryAdd is not called with the rule and its storage index"
			case early != u.bdd.And(body, acc):
				bad = "the loop does not stop exactly when a table accepts the rule (a rule may land in two tables or in none): exits when " + clip(u.ShowBool(early), 120)
			default:
				bad = ""
			}
		}
		c.Check(bad == "", "C01.R2", "NetworkEngine.AddRule: first accepting table, in order", pos, "complete range; stops exactly on TryAdd == true", bad)
	}

	// ---------- R3 shortcut index ----------
	a.rule = "C01.R3"
	stT := c.P.Type("lookup", "ShortcutsTable")
	var probeField string
	var Kprobe int64 = -1
	if stT != nil {
		ma := methodOf(c.P, stT, "MatchAll")
		ta := methodOf(c.P, stT, "TryAdd")
		if ma != nil {
			g := NewGate(c.P)
			g.Inline = inlineOnly()
			s := g.Eval(ma)
			u := g.U
			ps := g.ParamExprs(ma)
			loops := loopsOf(ma)
			// the hashed windows: FastHashBetween(s, lo, hi) or FastHash(s[lo:hi])
			sites := append(callsTo(ma, fhb), callsTo(ma, fh)...)
			if len(sites) == 0 {
				c.Fail("C01.R3", "ShortcutsTable.MatchAll: window hash", ma.Pos(), "UNDECIDED: no call of FastHashBetween / FastHash (the probe side hashes windows with them)")
			}
			for _, site := range sites {
				ce := s.Env[site.(ssa.Value)]
				l := innermostLoop(loops, site.Block())
				// outermost loop containing the site
				for _, l2 := range loops {
					if l2.Blocks[site.Block()] && l != nil && len(l2.Blocks) > len(l.Blocks) {
						l = l2
					}
				}
				if ce == nil || l == nil {
					c.Fail("C01.R3", "ShortcutsTable.MatchAll: window hash", site.Pos(), "UNDECIDED: hash call not in a loop")
					continue
				}
				ct := countedLoop(u, s, l)
				var str, lo, hi *E
				switch {
				case ce.Op == "call" && ce.Aux == calleeName(fhb) && len(ce.Args) >= 3:
					str, lo, hi = ce.Args[0], ce.Args[1], ce.Args[2]
				case ce.Op == "call" && ce.Aux == calleeName(fh) && len(ce.Args) >= 1 && ce.Args[0].Op == "slice" && ce.Args[0].Args[1] != nil && ce.Args[0].Args[2] != nil:
					str, lo, hi = ce.Args[0].Args[0], ce.Args[0].Args[1], ce.Args[0].Args[2]
				default:
					c.Fail("C01.R3", "ShortcutsTable.MatchAll: window hash", site.Pos(), "UNDECIDED: the hashed value is not a window s[lo:hi] of a string: "+clip(u.Show(ce), 100))
					continue
				}
				if ct == nil {
					c.Fail("C01.R3", "ShortcutsTable.MatchAll: complete window enumeration", site.Pos(), "UNDECIDED: not a counted loop")
					continue
				}
				K, okK := constDiff(u, lo, hi, ct.Idx)
				d, okD := constDiff(u, ct.Idx, lo, ct.Idx)
				c.Check(okK && okD && K > 0, "C01.R3", "ShortcutsTable.MatchAll: hashed range is [i, i+K)", site.Pos(), fmt.Sprintf("K = %d", K),
					"the hashed range is not [i+d, i+d+K) for the loop index i: "+u.Show(lo)+" .. "+u.Show(hi))
				if okK && okD {
					Kprobe = K
					why := windowsCompleteAt(u, ct, u.Len(str), K, d)
					c.Check(why == "", "C01.R3", "ShortcutsTable.MatchAll: complete window enumeration", site.Pos(),
						fmt.Sprintf("visits exactly the starts i with i+%d <= len, for all lengths 0..%d", K, 2*K+2), why)
				}
				okF := str.Op == "field" && str.Args[0] == ps[1]
				if okF {
					probeField = str.Aux
				}
				c.Check(okF, "C01.R3", "ShortcutsTable.MatchAll: probes a field of the request", site.Pos(), "field "+str.Aux, "the probed string is not a field of the request: "+u.Show(str))
				// unconditional in the window loop, and the looked-up key is the hash
				c.Check(s.RCAt(site) == u.bdd.And(s.RC[l.Header], ct.Cont), "C01.R3", "ShortcutsTable.MatchAll: every window is looked up", site.Pos(), "hash computed in every iteration", "the window hash is conditional")
			}
			// no early exit of the window loop
		}
		// shortcut conjunct field
		if match != nil {
			g := NewGate(c.P)
			g.Inline = func(_, callee *ssa.Function, depth int) bool {
				// inline only the bool methods of *NetworkRule taking the request that are leaf string tests
				return depth <= 2 && callee.Signature.Recv() != nil && (len(callee.Blocks) == 1 || (depth <= 1 && leafPredicate(callee) && len(fieldReadsIn(callee, "rules", "NetworkRule", "Shortcut")) > 0))
			}
			s := g.Eval(match)
			u := g.U
			ps := g.ParamExprs(match)
			H := u.ToBool(g.RetExpr(s, 0))
			var contains *E
			for _, at := range u.AtomsOf(H) {
				if at.Op == "call" && at.Aux == "strings.Contains" && len(at.Args) == 2 && at.Args[1].Op == "field" && at.Args[1].Aux == "Shortcut" && at.Args[1].Args[0] == ps[0] {
					contains = at
				}
			}
			if contains == nil {
				c.Fail("C01.R5", "NetworkRule.Match: shortcut conjunct", match.Pos(), "Match does not test strings.Contains(<request field>, rule.Shortcut): a rule can match a URL the window index cannot find")
			} else {
				c.Check(u.bdd.Implies(u.bdd.And(H, u.StringAxioms(H)), u.Atom(contains)), "C01.R5", "NetworkRule.Match: shortcut conjunct", match.Pos(), "Match() == true implies the request field contains the shortcut",
					"Match can return true although the shortcut is not contained in the request field")
				fld := contains.Args[0]
				okSame := fld.Op == "field" && fld.Args[0] == ps[1] && fld.Aux == probeField
				c.Check(okSame, "C01.R3", "shortcut conjunct and window probe read the same request field", match.Pos(), "both read Request."+probeField,
					fmt.Sprintf("Match tests the shortcut against %s but the index probes windows of Request.%s: e.g. a URL with upper-case letters is found by one and not by the other", u.Show(fld), probeField))
			}
		}
		// key generator: windows of width K of the shortcut, complete
		if ta != nil {
			var keygen *ssa.Function
			eachInstrG(c.P, ta, func(_ *ssa.BasicBlock, in ssa.Instruction) {
				if ci, ok := in.(ssa.CallInstruction); ok {
					if cal := ci.Common().StaticCallee(); cal != nil && c.P.IsLibFunc(cal) && !c.P.IsNewHelper(cal) && cal.Signature.Results().Len() == 1 && typeStr(cal.Signature.Results().At(0).Type()) == "[]string" {
						keygen = cal
					}
				}
			})
			checkLeastUsedBound(c, ta)
			if keygen == nil && len(append(callsToG(c.P, ta, fhb), callsToG(c.P, ta, fh)...)) > 0 {
				// no list of windows is materialised: the windows of the shortcut are hashed in place
				checkInPlaceKeys(c, ta, fh, fhb, Kprobe)
			} else if keygen == nil {
				c.Fail("C01.R3", "anchor:shortcut key generator", ta.Pos(), "unresolved anchor: TryAdd calls no function returning []string and hashes no window in place")
			} else {
				// the generator is evaluated as part of TryAdd (whatever it is handed: the rule or its
				// shortcut), so that its keys are stated in terms of TryAdd's rule
				g := NewGate(c.P)
				g.Inline = inlineOnly(FuncName(keygen))
				sTop := g.Eval(ta)
				u := g.U
				c.Fn(FuncName(keygen))
				var s *Summary
				for _, sub := range g.Subs {
					if sub.Fn == keygen {
						s = sub
					}
				}
				if s == nil {
					c.Fail("C01.R3", "shortcut key generator: windows", keygen.Pos(), "UNDECIDED: the key generator is not evaluated as part of TryAdd")
					s = sTop
				}
				ruleP := g.ParamExprs(ta)[1]
				loops := loopsOf(keygen)
				n := 0
				for _, em := range emissionsOf(keygen, s, 0) {
					if em.Elems == nil || len(em.Elems) != 1 || em.Elems[0].Op != "slice" {
						continue
					}
					n++
					sl := em.Elems[0]
					l := innermostLoop(loops, em.Call.Block())
					if l == nil {
						c.Fail("C01.R3", "shortcut key generator: windows", em.Call.Pos(), "UNDECIDED: key not generated in a loop")
						continue
					}
					ct := countedLoop(u, s, l)
					if ct == nil {
						c.Fail("C01.R3", "shortcut key generator: windows", em.Call.Pos(), "UNDECIDED: not a counted loop")
						continue
					}
					K, okK := constDiff(u, sl.Args[1], sl.Args[2], ct.Idx)
					src := sl.Args[0]
					okSrc := src.Op == "field" && src.Aux == "Shortcut" && src.Args[0] == ruleP && sl.Args[1] == ct.Idx
					c.Check(okK && okSrc && K == Kprobe, "C01.R3", "shortcut key generator: keys are windows of the shortcut of the probe width", em.Call.Pos(),
						fmt.Sprintf("Shortcut[i:i+%d], probe width %d", K, Kprobe),
						fmt.Sprintf("keys are %s with width %d (constant=%v) but the probe hashes windows of width %d: no URL window can ever hit", clip(u.Show(sl), 80), K, okK, Kprobe))
					if okK {
						why := windowsComplete(u, ct, u.Len(src), K)
						uncond := em.RC == u.bdd.And(s.RC[l.Header], ct.Cont)
						if why == "" && !uncond {
							why = "a window is skipped conditionally"
						}
						c.Check(why == "", "C01.R3", "shortcut key generator: every window of the shortcut is a candidate key", em.Call.Pos(), "complete enumeration", why)
					}
				}
				if n == 0 {
					c.Fail("C01.R3", "shortcut key generator: windows", keygen.Pos(), "UNDECIDED: no window slices are emitted")
				}
				// TryAdd: the stored key is the hash of one generated window, hashed with FastHash
				gt := NewGate(c.P)
				gt.Inline = inlineOnly()
				st := gt.Eval(ta)
				ut := gt.U
				c.Fn(FuncName(ta))
				okKey := ""
				nUpd := 0
				for ei := range st.Effects {
					mef := &st.Effects[ei]
					if mef.Kind != "mapupdate" || !(mef.Addr.Op == "field" && strings.Contains(mef.Addr.Aux, "LookupTable")) {
						continue
					}
					mu, ok := mef.Ins.(*ssa.MapUpdate)
					if !ok {
						continue
					}
					nUpd++
					// key provenance: φ over FastHash(range element of keygen result) and the zero init
					for _, leaf := range provLeaves(gt, AV{mef.Act, mu.Key}) {
						switch x := leaf.V.(type) {
						case *ssa.Const:
						case *ssa.Call:
							if x.Call.StaticCallee() != fh {
								okKey = "the stored key is not computed by FastHash: " + x.String()
								continue
							}
							ae := leaf.Act.Env[x.Call.Args[0]]
							if ae == nil || ae.Op != "index" || ae.Args[0].Op != "call" || ae.Args[0].Aux != calleeName(keygen) {
								okKey = "the hashed string is not one of the generated windows: " + clip(ut.Show(ae), 100)
							}
						default:
							okKey = "UNDECIDED: key derived from " + leaf.V.String()
						}
					}
					// reached only when at least one window exists
					var kg *E
					for _, ef := range st.Effects {
						if ef.Kind == "call" && ef.Call.Aux == calleeName(keygen) {
							kg = ef.Call
						}
					}
					if kg != nil && okKey == "" {
						empty := ut.ToBool(ut.Eq(ut.Len(kg), ut.Int(0)))
						if !ut.bdd.Implies(mef.Cond, ut.bdd.Not(empty)) {
							okKey = "the key can be stored although no window was generated (hash 0 bucket)"
						}
					}
				}
				if nUpd == 0 {
					okKey = "UNDECIDED: TryAdd updates no lookup map"
				}
				c.Check(okKey == "", "C01.R3", "ShortcutsTable.TryAdd: stored key = FastHash(one generated window)", ta.Pos(), "provenance of the map key", okKey)
			}
		}
	}
	// hash agreement: FastHash(s) == FastHashBetween(s, 0, len(s)) on non-empty s
	{
		g := NewGate(c.P)
		g.Inline = inlineOnly()
		s := g.Eval(fh)
		u := g.U
		p := g.ParamExprs(fh)[0]
		res := g.RetExpr(s, 0)
		nonEmpty := u.bdd.Not(u.ToBool(u.Eq(u.Len(p), u.Int(0))))
		ok := false
		for leaf, cond := range u.Leaves(res) {
			if leaf.Op == "call" && leaf.Aux == calleeName(fhb) && leaf.Args[0] == p && isIntConst(leaf.Args[1], 0) && leaf.Args[2] == u.Len(p) {
				if u.bdd.Implies(nonEmpty, cond) {
					ok = true
				}
			}
		}
		c.Check(ok, "C01.R3", "FastHash(s) = FastHashBetween(s, 0, len(s)) for non-empty s", fh.Pos(), "insert-side and probe-side hash agree on a window",
			"the insert-side hash is not the probe-side hash of the whole string: "+clip(u.Show(res), 160))
	}

	// ---------- R4 domain index ----------
	a.rule = "C01.R4"
	dtT := c.P.Type("lookup", "DomainsTable")
	if dtT != nil {
		ma := methodOf(c.P, dtT, "MatchAll")
		ta := methodOf(c.P, dtT, "TryAdd")
		var probeFld string
		var enum *ssa.Function
		enumHashes := false
		if ma != nil {
			g := NewGate(c.P)
			g.Inline = inlineOnly()
			// the enumerator of the suffixes (or of their hashes) is judged on its own below: keep its call
			// opaque here, whatever its name
			eachInstr(ma, func(_ *ssa.BasicBlock, in ssa.Instruction) {
				if ci, ok := in.(ssa.CallInstruction); ok {
					if cal := ci.Common().StaticCallee(); cal != nil && c.P.IsLibFunc(cal) && cal.Signature.Recv() == nil && cal.Signature.Params().Len() == 1 && cal.Signature.Results().Len() == 1 && typeStr(cal.Signature.Params().At(0).Type()) == "string" {
						if rt := typeStr(cal.Signature.Results().At(0).Type()); rt == "[]string" || rt == "[]uint32" {
							g.NoInline[FuncName(cal)] = true
						}
					}
				}
			})
			s := g.Eval(ma)
			u := g.U
			ps := g.ParamExprs(ma)
			loops := loopsOf(ma)
			done := false
			for _, site := range callsTo(ma, fh) {
				ce := s.Env[site.(ssa.Value)]
				// outermost loop around the hash
				var l *Loop
				for _, l2 := range loops {
					if l2.Blocks[site.Block()] && (l == nil || len(l2.Blocks) > len(l.Blocks)) {
						l = l2
					}
				}
				if l == nil || ce == nil {
					continue
				}
				ro := rangedOver(l)
				okFull := ro != nil && ro.Full && s.RCAt(site) == u.bdd.And(s.RC[l.Header], contCond(u, s, l))
				if os.Getenv("UFCHECK_DEBUG_C01") != "" {
					fmt.Println("R4 probe: ro", ro != nil, ro != nil && ro.Full, "rc", u.ShowBool(s.RCAt(site)), "want", u.ShowBool(u.bdd.And(s.RC[l.Header], contCond(u, s, l))), "exh", onlyExhaustionExit(l))
				}
				// exits of the probe loop: only exhaustion
				okFull = okFull && onlyExhaustionExit(l)
				var coll *E
				if ro != nil {
					coll = s.Env[ro.Coll]
				}
				okColl := coll != nil && coll.Op == "call" && len(coll.Args) >= 1 && coll.Args[0].Op == "field" && coll.Args[0].Args[0] == ps[1] && ce.Args[0].Op == "index" && ce.Args[0].Args[0] == coll
				if okColl {
					probeFld = coll.Args[0].Aux
					for _, cs := range callSites(ma, func(cal *ssa.Function, _ *ssa.CallCommon) bool { return cal != nil && calleeName(cal) == coll.Aux }) {
						enum = cs.Common().StaticCallee()
					}
				}
				done = true
				c.Check(okFull && okColl, "C01.R4", "DomainsTable.MatchAll: hashes every element of the suffix enumeration of a request field", site.Pos(),
					"complete, unconditional range over enumerator(Request."+probeFld+")",
					fmt.Sprintf("the probe does not hash every enumerated suffix (complete unconditional loop=%v, ranges over enumerator(request field)=%v)", okFull, okColl))
			}
			if !done {
				// the enumerator may hand back the hashes of the suffixes instead of the suffixes: the probe
				// then looks up every element of enumerator(request field) as it is, and the enumerator has
				// to hash what it emits (checked with the enumerator below)
				eachInstr(ma, func(b *ssa.BasicBlock, in ssa.Instruction) {
					lk, ok := in.(*ssa.Lookup)
					if !ok || done {
						return
					}
					if _, isMap := lk.X.Type().Underlying().(*types.Map); !isMap {
						return
					}
					ke := s.Env[lk.Index]
					var l *Loop
					for _, l2 := range loops {
						if l2.Blocks[b] && (l == nil || len(l2.Blocks) > len(l.Blocks)) {
							l = l2
						}
					}
					if l == nil || ke == nil || ke.Op != "index" {
						return
					}
					coll := ke.Args[0]
					if coll.Op != "call" || len(coll.Args) < 1 || typeStr(coll.Typ) != "[]uint32" {
						return
					}
					ro := rangedOver(l)
					okFull := ro != nil && ro.Full && s.Env[ro.Coll] == coll && s.RCAt(in) == u.bdd.And(s.RC[l.Header], contCond(u, s, l)) && onlyExhaustionExit(l)
					okColl := coll.Args[0].Op == "field" && coll.Args[0].Args[0] == ps[1]
					if okColl {
						probeFld = coll.Args[0].Aux
						for _, cs := range callSites(ma, func(cal *ssa.Function, _ *ssa.CallCommon) bool { return cal != nil && calleeName(cal) == coll.Aux }) {
							enum = cs.Common().StaticCallee()
							enumHashes = true
						}
					}
					done = true
					c.Check(okFull && okColl, "C01.R4", "DomainsTable.MatchAll: hashes every element of the suffix enumeration of a request field", in.Pos(),
						"complete, unconditional range over the hashes enumerator(Request."+probeFld+") returns, each looked up as it is",
						fmt.Sprintf("the probe does not look up every enumerated hash (complete unconditional loop=%v, ranges over enumerator(request field)=%v)", okFull, okColl))
				})
			}
			if !done {
				c.Fail("C01.R4", "DomainsTable.MatchAll: probe", ma.Pos(), "UNDECIDED: no FastHash probe in a loop")
			}
		}
		// the $domain conjunct of Match receives the same field
		if match != nil && probeFld != "" {
			g := NewGate(c.P)
			g.Inline = inlineOnly()
			s := g.Eval(match)
			ps := g.ParamExprs(match)
			found := false
			for _, ef := range s.Effects {
				if ef.Kind != "call" || len(ef.Call.Args) < 2 {
					continue
				}
				cal := c.P.Method("rules", "NetworkRule", strings.TrimPrefix(ef.Call.Aux[strings.LastIndex(ef.Call.Aux, ".")+1:], ""))
				if cal == nil {
					continue
				}
				// the conjunct that reads permittedDomains
				reads := len(fieldReadsIn(cal, "rules", "NetworkRule", "permittedDomains")) > 0 && cal.Name() != "IsGeneric"
				if !reads || cal.Signature.Params().Len() != 1 {
					continue
				}
				found = true
				arg := ef.Call.Args[1]
				c.Check(arg.Op == "field" && arg.Args[0] == ps[1] && arg.Aux == probeFld, "C01.R4", "the $domain conjunct of Match and the domain probe read the same request field", ef.Pos,
					"both read Request."+probeFld, "Match checks $domain against "+g.U.Show(arg)+" but the index probes suffixes of Request."+probeFld)
			}
			if !found {
				c.Fail("C01.R4", "the $domain conjunct of Match and the domain probe read the same request field", match.Pos(), "UNDECIDED: no conjunct of Match reads permittedDomains")
			}
		}
		// enumerator: one suffix per label
		if enum != nil {
			var hashFn *ssa.Function
			if enumHashes {
				hashFn = fh
			}
			checkSuffixEnumerator(c, "C01.R4", enum, hashFn)
		} else {
			c.Fail("C01.R4", "anchor:suffix enumerator", 0, "unresolved anchor: the probe does not range over the result of a repository function")
		}
		if ta != nil {
			checkDomainTryAdd(c, "C01.R4", ta, fh)
		}
	}

	// retrieval: the rule handed back for an index is the rule stored there (file and string backing, cache key)
	// ---------- R8: the $domain conjunct tests the very name the domains table is probed with ----------
	{
		c.Rule("C01.R8", "WIRE", "the $domain conjunct of Match tests the source hostname itself (the string the domains table is probed with), against the rule's own domain lists", 2)
		msd := c.P.Method("rules", "NetworkRule", "matchSourceDomain")
		if msd == nil {
			c.Fail("C01.R8", "anchor:matchSourceDomain", 0, "unresolved anchor")
		} else {
			g := NewGate(c.P)
			g.Inline = inlineOnly()
			if t := c.P.Func("rules", "isDomainOrSubdomainOfAny"); t != nil {
				g.Pure[FuncName(t)] = true
			}
			s := g.Eval(msd)
			u := g.U
			ps := g.ParamExprs(msd)
			f, name := ps[0], ps[1]
			H := u.ToBool(g.RetExpr(s, 0))
			n := 0
			for _, at := range u.AtomsOf(H) {
				if at.Op != "call" || len(at.Args) < 2 || !strings.HasSuffix(at.Aux, "isDomainOrSubdomainOfAny") {
					continue
				}
				n++
				okName := at.Args[0] == name
				okList := at.Args[1].Op == "field" && at.Args[1].Args[0] == f && (at.Args[1].Aux == "permittedDomains" || at.Args[1].Aux == "restrictedDomains")
				c.Check(okName && okList, "C01.R8", shortFn(msd)+": domain test on "+clip(u.Show(at.Args[1]), 40), msd.Pos(), "the name handed in, the rule's own list",
					"the $domain test is applied to "+clip(u.Show(at.Args[0]), 80)+" / "+clip(u.Show(at.Args[1]), 60)+", not to the source hostname as it stands: Match then accepts names (another letter case, another form) under which the domains table never files or finds the rule")
			}
			if n == 0 {
				c.Fail("C01.R8", shortFn(msd)+": domain tests", msd.Pos(), "UNDECIDED: the result does not depend on a domain test")
			}
		}
	}
	importRules(c, runC11, map[string]string{"C11.R4": "C01.R7", "C11.R5": "C01.R7", "C11.R1": "C01.R7", "C11.R3": "C01.R7"},
		map[string]string{"C01.R7": "index -> rule retrieval returns the rule that was scanned at that index (shared with C11.R1/R3/R4/R5)"})
	importRules(c, runC19, map[string]string{"C19.R4": "C01.R7"}, nil)
	importRules(c, runC11, map[string]string{"C11.R2": "C01.R7"}, nil)
	importRules(c, runC12, map[string]string{"C12.R7": "C01.R7"}, nil)
	importRules(c, runC04, map[string]string{"C04.R5": "C01.R9"}, map[string]string{"C01.R9": "the domain test Match re-validates index hits with is the documented one, on the host name as the index was probed with it (no extra case folding or looser boundary: shared with C04.R5)"})

	// ---------- R6 ----------
	a.rule = "C01.R6"
	if sq := c.P.Type("lookup", "SeqScanTable"); sq != nil {
		if ma := methodOf(c.P, sq, "MatchAll"); ma != nil {
			g := NewGate(c.P)
			g.Inline = inlineOnly()
			s := g.Eval(ma)
			u := g.U
			loops := loopsOf(ma)
			bad := "no call of Match"
			for _, site := range callsTo(ma, match) {
				ok, coll, why := fullUnconditionalLoop(u, s, loops, site)
				switch {
				case !ok:
					bad = why
				case s.Env[coll] == nil || s.Env[coll].Op != "field":
					bad = "does not range over the table's own list"
				default:
					bad = ""
				}
			}
			c.Check(bad == "", "C01.R6", "SeqScanTable.MatchAll: complete scan", ma.Pos(), "every stored rule is tested", bad)
		}
		if ta := methodOf(c.P, sq, "TryAdd"); ta != nil {
			g := NewGate(c.P)
			g.Inline = func(_, callee *ssa.Function, depth int) bool {
				return depth <= 2 && c.P.IsLibFunc(callee) && callee.Pkg != nil && callee.Pkg.Pkg.Path() == pkgPath("lookup")
			}
			g.Search = true // search loops and slices.Contains/ContainsFunc read as exists(list, predicate)
			s := g.Eval(ta)
			u := g.U
			c.Fn(sortedKeys(g.Funcs)...)
			f := g.ParamExprs(ta)[1]
			sums := summariseLoops(u, s, ta)
			// loops of inlined helpers
			bad := ""
			for _, r := range s.Rets {
				v := r.Vals[0]
				if !(v.Op == "bool" && v.B == False) {
					continue
				}
				// a rejection must be justified by an element with the same rule text (or the same pointer)
				ok := false
				isText := func(e *E) bool { return e.Op == "field" && e.Aux == "RuleText" }
				sameRule := func(at *E) bool {
					if at.Op != "eq" {
						return false
					}
					x, y := at.Args[0], at.Args[1]
					return (isText(x) && isText(y) && (x.Args[0] == f || y.Args[0] == f)) || x == f || y == f
				}
				for _, at := range u.AtomsOf(r.Cond) {
					if !u.bdd.Implies(r.Cond, u.Atom(at)) {
						continue
					}
					if sameRule(at) {
						ok = true
					}
					// exists(stored list, P): every way to satisfy P includes the equality
					if at.Op == "exists" && len(at.Args) == 2 && at.Args[1].Op == "bool" {
						pred := at.Args[1].B
						for _, pa := range u.AtomsOf(pred) {
							if sameRule(pa) && u.bdd.Implies(pred, u.Atom(pa)) {
								ok = true
							}
						}
					}
				}
				if !ok {
					bad = "the sequential table declines a rule without having found a stored rule with the same text (" + clip(u.ShowBool(r.Cond), 160) + "): a rule that merely collides (e.g. on a hash of its text) with another one is silently dropped, although it is the table of last resort"
				}
			}
			_ = sums
			c.Check(bad == "", "C01.R6", "SeqScanTable.TryAdd: declines only an exact duplicate", ta.Pos(), "every 'return false' is under equality of the rule text with a stored rule", bad)
		}
	}
}

func filterObs(obs []*Ob, key string) []*Ob {
	var out []*Ob
	for _, o := range obs {
		if o.Key != key {
			out = append(out, o)
		}
	}
	return out
}

// checkSuffixEnumerator: the function splits its argument at dots and emits
// exactly one value per label, in a complete counted loop.
func checkSuffixEnumerator(c *Ctx, rule string, enum *ssa.Function, hashFn *ssa.Function) {
	g := NewGate(c.P)
	g.Inline = inlineOnly()
	s := g.Eval(enum)
	u := g.U
	c.Fn(FuncName(enum))
	p := g.ParamExprs(enum)[0]
	loops := loopsOf(enum)
	key := shortFn(enum) + ": one suffix per label"
	ems := emissionsOf(enum, s, 0)
	if len(ems) != 1 || ems[0].Elems == nil || len(ems[0].Elems) != 1 {
		c.Fail(rule, key, enum.Pos(), fmt.Sprintf("UNDECIDED: expected one single-element append reaching the result, found %d", len(ems)))
		return
	}
	em := ems[0]
	l := innermostLoop(loops, em.Call.Block())
	if l == nil {
		c.Fail(rule, key, em.Call.Pos(), "UNDECIDED: the suffix is not emitted in a loop")
		return
	}
	bad := ""
	if hashFn != nil {
		// an enumerator of hashes: what it emits is the insert-side hash of the suffix
		if el := em.Elems[0]; !(el.Op == "call" && el.Aux == calleeName(hashFn) && len(el.Args) >= 1) {
			c.Check(false, rule, shortFn(enum)+": the emitted key is the hash of the suffix", em.Call.Pos(), "", "the enumerator emits "+clip(u.Show(el), 80)+", not "+shortFn(hashFn)+"(suffix): the probe keys differ from the keys the rules are filed under")
		} else {
			c.Check(true, rule, shortFn(enum)+": the emitted key is the hash of the suffix", em.Call.Pos(), shortFn(hashFn)+"(suffix), the hash TryAdd files the rule under", "")
		}
	}
	if ro := rangedOver(l); ro != nil && ro.Full {
		// ascending complete range over the labels
		coll := s.Env[ro.Coll]
		if coll == nil || coll.Op != "call" || coll.Aux != "strings.Split" || coll.Args[0] != p || !isStr(coll.Args[1], ".") {
			bad = "the loop does not range over strings.Split(hostname, \".\")"
		}
	} else {
		ct := countedLoop(u, s, l)
		if ct == nil {
			bad = "UNDECIDED: not a counted loop"
		} else {
			// labels = strings.Split(p, "."); init = len(labels)-1; step -1; cont: i >= 0   (or ascending 0..len-1)
			var labels *E
			u.Mentions(ct.Init, func(x *E) bool {
				if x.Op == "len" && x.Args[0].Op == "call" && x.Args[0].Aux == "strings.Split" {
					labels = x.Args[0]
					return true
				}
				return false
			})
			u.Mentions(u.Bool(ct.Cont), func(x *E) bool {
				if x.Op == "len" && x.Args[0].Op == "call" && x.Args[0].Aux == "strings.Split" {
					labels = x.Args[0]
					return true
				}
				return false
			})
			if labels == nil || labels.Args[0] != p || !isStr(labels.Args[1], ".") {
				bad = "the loop bound is not the number of labels of strings.Split(hostname, \".\")"
			} else if !ct.StepOK || (ct.Step != 1 && ct.Step != -1) {
				bad = "the loop does not step through the labels one by one"
			} else {
				for L := int64(1); L <= 6 && bad == ""; L++ {
					sub := map[string]*E{u.Len(labels).key: u.Int(L)}
					init, ok := u.Subst(ct.Init, sub).IntVal()
					if !ok {
						bad = "UNDECIDED: loop start does not fold"
						break
					}
					// simulate the index sequence on constants: count iterations and visited set
					visited := map[int64]bool{}
					i := init
					for n := 0; n < 20; n++ {
						sub[ct.Idx.key] = u.Int(i)
						val, ok, res := foldCond(u, ct.Cont, sub)
						if !ok {
							bad = "UNDECIDED: loop condition does not fold: " + res
							break
						}
						if !val {
							break
						}
						visited[i] = true
						i += ct.Step
					}
					for k := int64(0); k < L && bad == ""; k++ {
						if !visited[k] {
							bad = fmt.Sprintf("for a hostname with %d label(s) the label at index %d is never turned into a suffix (e.g. the single label of \"localhost\" or the TLD)", L, k)
						}
					}
					if int64(len(visited)) != L && bad == "" {
						bad = fmt.Sprintf("for %d labels the loop visits %d indexes", L, len(visited))
					}
				}
			}
			if bad == "" && em.RC != u.bdd.And(s.RC[l.Header], ct.Cont) {
				bad = "a suffix is emitted only conditionally"
			}
		}
	}
	if !onlyExhaustionExit(l) && bad == "" {
		bad = "the loop has an early exit"
	}
	c.Check(bad == "", rule, key, em.Call.Pos(), "complete counted loop over the labels of strings.Split(hostname, \".\"), one append per iteration", bad)
}

// checkDomainTryAdd: every permitted domain is keyed (complete unconditional
// loop with a map update keyed by FastHash(element)); rules with a
// wildcard-TLD value are declined before anything is keyed.
func checkDomainTryAdd(c *Ctx, rule string, ta, fh *ssa.Function) {
	g := NewGate(c.P)
	g.Inline = inlineOnly("(*rules.NetworkRule).GetPermittedDomains")
	s := g.Eval(ta)
	u := g.U
	c.Fn(FuncName(ta))
	ps := g.ParamExprs(ta)
	loops := loopsOf(ta)
	var upd *Effect
	for i := range s.Effects {
		if s.Effects[i].Kind == "mapupdate" {
			upd = &s.Effects[i]
		}
	}
	key := "DomainsTable.TryAdd: every permitted domain keyed"
	if upd == nil {
		c.Fail(rule, key, ta.Pos(), "UNDECIDED: no map update")
		return
	}
	ok, coll, why := fullUnconditionalLoopAt(u, s, loops, topBlockOf(upd.Act, upd.Ins), upd.Cond)
	ke := upd.Key
	pd := u.Field(ps[1], "permittedDomains", nil)
	collE := s.Env[coll]
	okKey := ke != nil && ke.Op == "call" && ke.Aux == calleeName(fh) && ke.Args[0].Op == "index" && collE != nil && ke.Args[0].Args[0] == collE && collE.key == pd.key
	val := upd.Val
	okVal := val != nil && val.Op == "append" && val.Aux == "elems" && len(val.Args) == 2 && val.Args[1] == ps[2]
	c.Check(ok && okKey && okVal, rule, key, upd.Pos, "complete unconditional loop over permittedDomains; bucket[FastHash(domain)] gets the storage index",
		fmt.Sprintf("not every permitted domain is keyed with the rule's storage index (loop: %s; key is FastHash(element of permittedDomains)=%v; value appends the index=%v)", why, okKey, okVal))

	// wildcard-TLD values: a complete pre-scan returning false on HasSuffix(element, ".*")
	key = "DomainsTable.TryAdd: rules with a wildcard-TLD $domain value are declined"
	// canonical search form: every keying update happens only when no permitted
	// domain ends in ".*" (hand-written pre-scan, helper or slices.ContainsFunc)
	found := false
	{
		g2 := NewGate(c.P)
		g2.Inline = inlineOnly("(*rules.NetworkRule).GetPermittedDomains")
		g2.Search = true
		s2 := g2.Eval(ta)
		u2 := g2.U
		pd2 := u2.Field(g2.ParamExprs(ta)[1], "permittedDomains", nil)
		nUpd, nGuarded := 0, 0
		for _, ef := range s2.Effects {
			if ef.Kind != "mapupdate" {
				continue
			}
			nUpd++
			for _, at := range u2.AtomsOf(ef.Cond) {
				if at.Op == "exists" && at.Args[0] == pd2 && u2.bdd.Implies(ef.Cond, u2.bdd.Not(u2.Atom(at))) {
					pr := u2.ToBool(at.Args[1])
					pats := u2.AtomsOf(pr)
					if len(pats) == 1 && pr == u2.Atom(pats[0]) && pats[0].Op == "call" && pats[0].Aux == "strings.HasSuffix" && pats[0].Args[0].Op == "bvar" && isStr(pats[0].Args[1], ".*") {
						nGuarded++
						break
					}
				}
			}
		}
		found = nUpd > 0 && nUpd == nGuarded
	}
	c.Check(found, rule, key, ta.Pos(), "complete pre-scan of permittedDomains returns false on a value ending in \".*\"; keys are stored only after the scan is exhausted",
		"a rule whose $domain list has a wildcard-TLD value (google.*) is exact-keyed: the probe hashes only real dot-suffixes of the source hostname, so the rule is never found although Match accepts it")
}

// callsToG: the call sites of callee in fn and in the helpers outside the vocabulary it uses.
func callsToG(p *Prog, fn, callee *ssa.Function) []ssa.Instruction {
	var out []ssa.Instruction
	eachInstrG(p, fn, func(_ *ssa.BasicBlock, in ssa.Instruction) {
		if ci, ok := in.(ssa.CallInstruction); ok && ci.Common().StaticCallee() == callee {
			out = append(out, in)
		}
	})
	return out
}

// checkInPlaceKeys is the insert side of C01.R3 for a TryAdd that hashes the windows of the rule's
// shortcut where they are (FastHashBetween(f.Shortcut, i, i+K) or FastHash(f.Shortcut[i:i+K]) in a
// counted loop) instead of building the list of windows first: same width as the probe, complete
// enumeration, every window hashed, the stored key is one of these hashes, and a key is stored only
// when at least one window exists.
func checkInPlaceKeys(c *Ctx, ta, fh, fhb *ssa.Function, Kprobe int64) {
	g := NewGate(c.P)
	g.Inline = inlineOnly()
	s := g.Eval(ta)
	u := g.U
	c.Fn(FuncName(ta))
	ruleP := g.ParamExprs(ta)[1]
	n := 0
	var srcLen *E
	hashVals := map[*E]bool{}
	for ei := range s.Effects {
		_ = ei
	}
	for _, li := range loopInsts(g, s) {
		for b := range li.L.Blocks {
			for _, in := range b.Instrs {
				cl, ok := in.(*ssa.Call)
				if !ok || (cl.Call.StaticCallee() != fh && cl.Call.StaticCallee() != fhb) {
					continue
				}
				if il := innermostLoop(loopsOf(li.Act.Fn), b); il == nil || il.Header != li.L.Header {
					continue
				}
				ce := li.Act.Env[cl]
				if ce == nil {
					continue
				}
				var str, lo, hi *E
				switch {
				case ce.Aux == calleeName(fhb) && len(ce.Args) >= 3:
					str, lo, hi = ce.Args[0], ce.Args[1], ce.Args[2]
				case ce.Aux == calleeName(fh) && len(ce.Args) >= 1 && ce.Args[0].Op == "slice" && ce.Args[0].Args[1] != nil && ce.Args[0].Args[2] != nil:
					str, lo, hi = ce.Args[0].Args[0], ce.Args[0].Args[1], ce.Args[0].Args[2]
				default:
					c.Fail("C01.R3", "ShortcutsTable.TryAdd: key windows", cl.Pos(), "UNDECIDED: the hashed value is not a window s[lo:hi]: "+clip(u.Show(ce), 100))
					continue
				}
				n++
				hashVals[ce] = true
				ct := countedLoop(u, li.Act, li.L)
				if ct == nil {
					c.Fail("C01.R3", "ShortcutsTable.TryAdd: key windows", cl.Pos(), "UNDECIDED: not a counted loop")
					continue
				}
				K, okK := constDiff(u, lo, hi, ct.Idx)
				d, okD := constDiff(u, ct.Idx, lo, ct.Idx)
				okSrc := str.Op == "field" && str.Aux == "Shortcut" && str.Args[0] == ruleP
				c.Check(okK && okD && okSrc && K == Kprobe, "C01.R3", "shortcut key generator: keys are windows of the shortcut of the probe width", cl.Pos(),
					fmt.Sprintf("Shortcut[i:i+%d] hashed in place, probe width %d", K, Kprobe),
					fmt.Sprintf("keys are windows [%s, %s) of %s (width %d, constant=%v) but the probe hashes windows of width %d of the request field: no URL window can ever hit", clip(u.Show(lo), 40), clip(u.Show(hi), 40), clip(u.Show(str), 40), K, okK, Kprobe))
				if okK && okD {
					srcLen = u.Len(str)
					why := windowsCompleteAt(u, ct, u.Len(str), K, d)
					if why == "" && li.Act.RCAt(cl) != u.bdd.And(li.Act.RC[li.L.Header], ct.Cont) {
						why = "a window is skipped conditionally"
					}
					c.Check(why == "", "C01.R3", "shortcut key generator: every window of the shortcut is a candidate key", cl.Pos(), "complete enumeration", why)
				}
			}
		}
	}
	if n == 0 {
		c.Fail("C01.R3", "shortcut key generator: windows", ta.Pos(), "UNDECIDED: no window of the shortcut is hashed in a loop")
		return
	}
	okKey := ""
	nUpd := 0
	for ei := range s.Effects {
		mef := &s.Effects[ei]
		if mef.Kind != "mapupdate" || !(mef.Addr.Op == "field" && strings.Contains(mef.Addr.Aux, "LookupTable")) {
			continue
		}
		mu, ok := mef.Ins.(*ssa.MapUpdate)
		if !ok {
			continue
		}
		nUpd++
		for _, leaf := range provLeaves(g, AV{mef.Act, mu.Key}) {
			switch x := leaf.V.(type) {
			case *ssa.Const:
			case *ssa.Call:
				if !hashVals[leaf.Act.Env[x]] {
					okKey = "the stored key is not one of the window hashes: " + x.String()
				}
			default:
				okKey = "UNDECIDED: key derived from " + leaf.V.String()
			}
		}
		if srcLen != nil && okKey == "" && Kprobe > 0 {
			tooShort := u.ToBool(u.Lt(srcLen, u.Int(Kprobe)))
			if !u.bdd.Implies(mef.Cond, u.bdd.Not(tooShort)) {
				okKey = "the key can be stored although the shortcut has no window (hash 0 bucket)"
			}
		}
	}
	if nUpd == 0 {
		okKey = "UNDECIDED: TryAdd updates no lookup map"
	}
	c.Check(okKey == "", "C01.R3", "ShortcutsTable.TryAdd: stored key = FastHash(one generated window)", ta.Pos(), "provenance of the map key", okKey)
}

// checkLeastUsedBound: the key of a rule starts as the zero hash and is replaced by the hash of a window
// when that window's usage count is below the running minimum.  The first window is chosen only if its
// count is below the *initial* minimum, so that constant has to be out of reach of the counters: at least
// 2^31-1 (no table holds that many rules) with a strict comparison, or the largest value of the counter
// type with a non-strict one.  With a smaller bound (a saturating 8-bit counter, say) a rule all of whose
// windows have reached it keeps the zero hash: it is filed in a bucket no request ever probes.
func checkLeastUsedBound(c *Ctx, ta *ssa.Function) {
	fns := []*ssa.Function{ta}
	seen := map[*ssa.Function]bool{ta: true}
	for d := 0; d < 2; d++ {
		for _, fn := range append([]*ssa.Function(nil), fns...) {
			for _, b := range fn.Blocks {
				for _, in := range b.Instrs {
					if ci, ok := in.(ssa.CallInstruction); ok {
						if cal := ci.Common().StaticCallee(); cal != nil && c.P.IsLibFunc(cal) && cal.Pkg == ta.Pkg && len(cal.Blocks) > 0 && !seen[cal] {
							seen[cal] = true
							fns = append(fns, cal)
						}
					}
				}
			}
		}
	}
	fromMap := func(v ssa.Value) bool {
		var walk func(v ssa.Value, d int) bool
		walk = func(v ssa.Value, d int) bool {
			if d > 4 {
				return false
			}
			switch x := v.(type) {
			case *ssa.Lookup:
				_, ok := x.X.Type().Underlying().(*types.Map)
				return ok
			case *ssa.Extract:
				return walk(x.Tuple, d+1)
			case *ssa.Phi:
				for _, e := range x.Edges {
					if walk(e, d+1) {
						return true
					}
				}
			case *ssa.Convert:
				return walk(x.X, d+1)
			case *ssa.ChangeType:
				return walk(x.X, d+1)
			}
			return false
		}
		return walk(v, 0)
	}
	for _, fn := range fns {
		loops := loopsOf(fn)
		for _, b := range fn.Blocks {
			for _, in := range b.Instrs {
				bo, ok := in.(*ssa.BinOp)
				if !ok {
					continue
				}
				var cnt, min ssa.Value
				strict := false
				switch bo.Op {
				case token.LSS:
					cnt, min, strict = bo.X, bo.Y, true
				case token.LEQ:
					cnt, min = bo.X, bo.Y
				case token.GTR:
					cnt, min, strict = bo.Y, bo.X, true
				case token.GEQ:
					cnt, min = bo.Y, bo.X
				default:
					continue
				}
				ph, ok := min.(*ssa.Phi)
				if !ok || !fromMap(cnt) {
					continue
				}
				l := innermostLoop(loops, b)
				if l == nil || l.Header != ph.Block() {
					continue
				}
				// the initial value: the constant that enters the loop from outside
				var init *ssa.Const
				for i, e := range ph.Edges {
					if !l.Blocks[ph.Block().Preds[i]] {
						if k, ok := e.(*ssa.Const); ok && k.Value != nil && k.Value.Kind() == constant.Int {
							init = k
						}
					}
				}
				if init == nil {
					continue
				}
				bt, ok := cnt.Type().Underlying().(*types.Basic)
				if !ok || bt.Info()&types.IsInteger == 0 {
					continue
				}
				bits := map[types.BasicKind]uint{types.Int8: 7, types.Uint8: 8, types.Int16: 15, types.Uint16: 16, types.Int32: 31, types.Uint32: 32, types.Int: 63, types.Int64: 63, types.Uint: 64, types.Uint64: 64, types.Uintptr: 64}[bt.Kind()]
				if bits == 0 {
					continue
				}
				typeMax := constant.BinaryOp(constant.Shift(constant.MakeInt64(1), token.SHL, bits), token.SUB, constant.MakeInt64(1))
				big := constant.MakeInt64(1<<31 - 1)
				bad := ""
				switch {
				case constant.Compare(init.Value, token.GEQ, big):
				case !strict && constant.Compare(init.Value, token.GEQ, typeMax):
				default:
					bad = fmt.Sprintf("the running minimum of the least-used selection starts at %s and a window is chosen only when its count is %s: once the counts of all windows of a rule have reached that value (%s counters) no window is chosen, the rule keeps the zero hash and is filed in a bucket that no request probes", init.Value.ExactString(), map[bool]string{true: "strictly below it", false: "at most it"}[strict], bt.Name())
				}
				c.Check(bad == "", "C01.R3", "least-used selection: the initial bound is out of reach of the usage counters", bo.Pos(), "initial minimum >= 2^31-1 (strict comparison) or the largest value of the counter type (non-strict)", bad)
			}
		}
	}
}
