package main

// C10 — parsed $dnsrewrite values always have the published shape.

import (
	"fmt"
	"go/constant"
	"go/token"
	"go/types"
	"sort"
	"strings"

	"golang.org/x/tools/go/ssa"
)

func init() {
	register(&PropDef{
		ID:  "C10",
		Run: runC10,
		Explanation: "Static decision of the shape contract of C10 for ALL inputs, as a statement about construction sites and static types: every place in package rules that builds a DNSRewrite is inspected. " +
			"R1: (a) a site that sets NewCNAME sets nothing else; (b) a site that sets RRType is reachable only with a success response code (constant, or the dispatcher's guard); (c) the static type of Value is the one published for the record type " +
			"(netip.Addr for A on the true edge of Is4 and of a successful parse, for AAAA on the Is6 / not-Is4 edge of a successful parse, *DNSMX, *DNSSRV, *DNSSVCB, string for PTR/TXT, nothing otherwise). " +
			"R2: the dispatcher looks the handler up with the very value it passes as record type, and handlers store their parameters. R3: the PTR value is the FQDN helper's result or already ends in a dot. " +
			"R4: the parser functions have no out-of-range index. R5: the parser writes no shared memory and the handler table is written only by its initialiser (determinism). R6: every store to NetworkRule.DNSRewrite stores the return value of the parser for the rule's own value, or nil (no cache or shared object in between). R7: a parsed number is converted only to a field at least as wide as the bit size handed to strconv (out-of-range values are rejected, not truncated). A dispatcher outside the vocabulary is judged inside the vocabulary function that reaches it (its success guard may sit in the caller). R11 imports C04.R13 (the option splitter keeps every byte of the value). A handler registered for several record types is judged once per type with its type parameter being that type. R12: the NewCNAME a construction site stores is the very text that was handed to the host validator, in the shorthand and in the full form alike, so both forms of one CNAME rewrite carry the same value (imported by C09: an exception written in one form disables the rewrite written in the other). R13: every iteration of a loop that fills the parameter map of an SVCB/HTTPS value stores an entry or fails (the store dominates every back edge), so a made map is never left empty and equal values are equal for reflect.DeepEqual (imported by C09). R4 also covers the option splitter the value passes through on its way to the parser. R8 also: when the labels are cut off one by one with strings.Cut, the walk continues on the 'found' result, not while the rest is non-empty (which would never look at the empty label behind a final dot).",
		Trusted:     []string{"github.com/miekg/dns constants (TypeA, ...) and dns.Fqdn; netip.Addr.Is4/Is6"},
		Assumptions: []string{"that every malformed value is REJECTED is not decided (needs the value grammar as oracle)"},
	})
}

func dnsConst(c *Ctx, name string) (int64, bool) {
	pk := c.P.Pkgs["github.com/miekg/dns"]
	if pk == nil {
		return 0, false
	}
	k, ok := pk.Types.Scope().Lookup(name).(*types.Const)
	if !ok {
		return 0, false
	}
	return constant.Int64Val(constant.ToInt(k.Val()))
}

type rwSite struct {
	fn     *ssa.Function
	alloc  *ssa.Alloc
	obj    *E
	fields map[string]*E
	cond   Ref
	pos    token.Pos
}

func runC10(c *Ctx) {
	c.Rule("C10.R1", "TYFLOW/WIRE", "every DNSRewrite construction site satisfies the shape table", 14)
	c.Rule("C10.R2", "WIRE", "handler looked up with the record type that is passed to it; handlers store their parameters", 2)
	c.Rule("C10.R3", "WIRE", "PTR value is fully qualified", 1)
	c.Rule("C10.R4", "PANIC", "parser functions: all index/slice operations in range", 1)
	c.Rule("C10.R7", "TBL", "numbers are parsed with the width of the field they are stored in (out-of-range values are rejected, not truncated)", 1)
	c.Rule("C10.R6", "WIRE", "a rule's rewrite is the parser's result for its own value (no cache or shared object in between)", 1)
	c.Rule("C10.R5", "EFF", "parser writes no shared memory; handler table written only by its initialiser", 2)

	importRules(c, runC04, map[string]string{"C04.R13": "C10.R11"}, map[string]string{"C10.R11": "the value handed to the $dnsrewrite parser is the text written in the rule: the option splitter keeps every byte of it (shared with C04.R13)"})
	a := &anchors{c: c, rule: "C10.R1"}
	ldr := a.fn("rules", "loadDNSRewrite")
	rwT := c.P.Type("rules", "DNSRewrite")
	if a.bad || rwT == nil {
		return
	}
	types_ := map[string]int64{}
	for _, n := range []string{"TypeA", "TypeAAAA", "TypeCNAME", "TypeMX", "TypePTR", "TypeTXT", "TypeHTTPS", "TypeSVCB", "TypeSRV", "RcodeSuccess"} {
		v, ok := dnsConst(c, n)
		if !ok {
			c.Fail("C10.R1", "anchor:dns."+n, token.NoPos, "unresolved anchor: constant of github.com/miekg/dns")
			return
		}
		types_[n] = v
	}
	succ := types_["RcodeSuccess"]

	// handler table: key -> function, from the package initialiser
	handlers := map[int64]*ssa.Function{}
	var handlerGlobal *ssa.Global
	if sp := c.P.SPkg[pkgPath("rules")]; sp != nil {
		if initFn := sp.Func("init"); initFn != nil {
			eachInstr(initFn, func(_ *ssa.BasicBlock, in ssa.Instruction) {
				mu, ok := in.(*ssa.MapUpdate)
				if !ok {
					return
				}
				k, ok := mu.Key.(*ssa.Const)
				if !ok || k.Value == nil {
					return
				}
				var fn *ssa.Function
				switch v := mu.Value.(type) {
				case *ssa.Function:
					fn = v
				case *ssa.MakeClosure:
					fn = v.Fn.(*ssa.Function)
				case *ssa.ChangeType:
					if f, ok := v.X.(*ssa.Function); ok {
						fn = f
					}
				}
				if fn != nil && fn.Signature.Results().Len() == 2 && strings.HasSuffix(typeStr(fn.Signature.Results().At(0).Type()), "*rules.DNSRewrite") {
					handlers[k.Int64()] = fn
				}
			})
			eachInstr(initFn, func(_ *ssa.BasicBlock, in ssa.Instruction) {
				if st, ok := in.(*ssa.Store); ok {
					if g, ok := st.Addr.(*ssa.Global); ok && strings.Contains(typeStr(g.Type()), "dnsRewriteRRHandler") {
						handlerGlobal = g
					}
				}
			})
		}
	}
	if len(handlers) < 9 {
		c.Fail("C10.R2", "anchor:handler table", ldr.Pos(), fmt.Sprintf("unresolved anchor: %d handlers found in the package initialiser (9 record types are published)", len(handlers)))
	}
	keysOf := map[*ssa.Function][]int64{}
	for k, f := range handlers {
		keysOf[f] = append(keysOf[f], k)
	}
	allowedVal := map[int64]string{
		types_["TypeA"]: "net/netip.Addr", types_["TypeAAAA"]: "net/netip.Addr", types_["TypeMX"]: "*rules.DNSMX", types_["TypeSRV"]: "*rules.DNSSRV",
		types_["TypeHTTPS"]: "*rules.DNSSVCB", types_["TypeSVCB"]: "*rules.DNSSVCB", types_["TypePTR"]: "string", types_["TypeTXT"]: "string",
	}

	// scope: functions of package rules reachable from loadDNSRewrite, plus all handlers
	scopeSet := c.P.Reachable(ldr)
	for _, f := range handlers {
		for g := range c.P.Reachable(f) {
			scopeSet[g] = true
		}
	}
	var scope []*ssa.Function
	for f := range scopeSet {
		if c.P.IsLibFunc(f) && f.Blocks != nil {
			scope = append(scope, f)
		}
	}
	sort.Slice(scope, func(i, j int) bool { return scope[i].String() < scope[j].String() })

	// the dispatcher: the function that calls a handler dynamically
	var dispatcher *ssa.Function
	for _, fn := range scope {
		eachInstr(fn, func(_ *ssa.BasicBlock, in ssa.Instruction) {
			if cl, ok := in.(*ssa.Call); ok && cl.Call.StaticCallee() == nil && !cl.Call.IsInvoke() {
				if _, isB := cl.Call.Value.(*ssa.Builtin); !isB && strings.HasSuffix(typeStr(cl.Type()), "error)") {
					dispatcher = fn
				}
			}
		})
	}

	// a dispatcher outside the vocabulary (the old one split or renamed) is judged inside the
	// vocabulary function that reaches it: guards may sit in the caller
	dispHome := dispatcher
	if dispatcher != nil && c.P.IsNewHelper(dispatcher) {
		for _, fn := range scope {
			if !c.P.IsNewHelper(fn) && fn != dispatcher && helperGroup(c.P, fn)[dispatcher] {
				dispHome = fn
			}
		}
	}

	// ---------- R1: construction sites anywhere in the library ----------
	nSites := 0
	for _, fn := range c.P.AllLibFuncs() {
		var allocs []*ssa.Alloc
		eachInstr(fn, func(_ *ssa.BasicBlock, in ssa.Instruction) {
			if al, ok := in.(*ssa.Alloc); ok {
				if p, ok := al.Type().(*types.Pointer); ok {
					if n, ok := p.Elem().(*types.Named); ok && n == rwT {
						allocs = append(allocs, al)
					}
				}
			}
		})
		// stores to DNSRewrite fields through anything that is not a local construction are forbidden
		eachInstr(fn, func(_ *ssa.BasicBlock, in ssa.Instruction) {
			if st, ok := in.(*ssa.Store); ok {
				if n, f, ok := fieldOf(st.Addr); ok && n == rwT {
					if fa, ok := st.Addr.(*ssa.FieldAddr); ok {
						if _, isAlloc := fa.X.(*ssa.Alloc); !isAlloc {
							c.Fail("C10.R1", shortFn(fn)+": field "+f+" of an existing DNSRewrite is overwritten", st.Pos(), "a rewrite is mutated after construction: the shape established at the construction site no longer holds")
						}
					}
				}
			}
		})
		allLib := map[*ssa.Function]bool{}
		for _, lf := range c.P.AllLibFuncs() {
			allLib[lf] = true
		}
		if contextualHelper(c.P, fn, allLib) {
			// a new constructor helper: its construction sites are judged at every call site
			continue
		}
		callsHelper := len(helperGroup(c.P, fn)) > 1+len(fn.AnonFuncs)
		if len(allocs) == 0 && !callsHelper {
			continue
		}
		if fn.Pkg == nil || fn.Pkg.Pkg.Path() != pkgPath("rules") {
			if fn.Parent() == nil || fn.Parent().Pkg == nil || fn.Parent().Pkg.Pkg.Path() != pkgPath("rules") {
				// composite zero values used for comparison (e.g. rules.DNSRewrite{} in package urlfilter) are Allocs of the struct, not pointers: only pointer-typed constructions matter
			}
		}
		g := NewGate(c.P)
		g.Inline = inlineOnly()
		s := g.Eval(fn)
		u := g.U
		c.Fn(FuncName(fn))
		ps := g.ParamExprs(fn)
		isHandler := len(keysOf[fn]) > 0
		type actAlloc struct {
			act *Summary
			al  *ssa.Alloc
		}
		var sites []actAlloc
		for _, al := range allocs {
			sites = append(sites, actAlloc{s, al})
		}
		for _, sub := range g.Subs {
			if !c.P.IsNewHelper(sub.Fn) {
				continue
			}
			eachInstr(sub.Fn, func(_ *ssa.BasicBlock, in ssa.Instruction) {
				if al, ok := in.(*ssa.Alloc); ok {
					if p, ok := al.Type().(*types.Pointer); ok {
						if n, ok := p.Elem().(*types.Named); ok && n == rwT {
							sites = append(sites, actAlloc{sub, al})
						}
					}
				}
			})
		}
		for _, sa := range sites {
			al := sa.al
			obj := sa.act.Env[al]
			if obj == nil {
				continue
			}
			site := rwSite{fn: fn, alloc: al, obj: obj, fields: map[string]*E{}, cond: sa.act.RCAt(al), pos: al.Pos()}
			for _, ef := range s.Effects {
				if ef.Kind == "store" && ef.Addr.Op == "faddr" && ef.Addr.Args[0] == obj {
					site.fields[ef.Addr.Aux] = ef.Val
				}
			}
			nSites++
			var set []string
			for f := range site.fields {
				set = append(set, f)
			}
			sort.Strings(set)
			key := fmt.Sprintf("%s: DNSRewrite{%s}", shortFn(fn), strings.Join(set, ","))
			bad := ""
			_, hasC := site.fields["NewCNAME"]
			if hasC && len(set) > 1 {
				bad = "a new-CNAME rewrite also carries " + strings.Join(set, ",") + ": clients must ignore other fields, so the published contract says it carries nothing else"
			}
			rt, hasT := site.fields["RRType"]
			rcE := site.fields["RCode"]
			if hasT && bad == "" {
				// (b) success only
				okS := false
				switch {
				case rcE != nil && isIntConst(rcE, succ):
					okS = true
				case rcE != nil && isHandler && len(ps) >= 1 && rcE == ps[0]:
					okS = true // handlers are called only through the dispatcher's success guard (checked below)
				case rcE != nil && u.bdd.Implies(site.cond, u.ToBool(u.Eq(rcE, u.ConstVal(constantInt(succ), rcE.Typ)))):
					okS = true
				}
				if !okS {
					bad = "a record type is set although the response code is not known to be success here (RCode = " + clip(u.Show(rcE), 60) + " under " + clip(u.ShowBool(site.cond), 160) + "): RRType must be zero unless RCode is NOERROR"
				}
			}
			val, hasV := site.fields["Value"]
			if hasV && !hasT && bad == "" {
				bad = "a value is set without a record type"
			}
			if bad == "" && hasT {
				// which record types can this site carry?
				var rts []int64
				rtCond := map[int64]Ref{}
				if v, ok := rt.IntVal(); ok {
					rts = []int64{v}
				} else if rt.Op == "ite" {
					// a record type chosen by a condition: each alternative under its own condition
					for leaf, lc := range u.Leaves(rt) {
						if v, ok := leaf.IntVal(); ok {
							rts = append(rts, v)
							rtCond[v] = u.bdd.Or(rtCond[v], u.bdd.And(site.cond, lc))
						} else {
							bad = "UNDECIDED: record type of unknown provenance " + clip(u.Show(leaf), 60)
						}
					}
					sort.Slice(rts, func(i, j int) bool { return rts[i] < rts[j] })
				} else if isHandler && len(ps) >= 2 && rt == ps[1] {
					rts = keysOf[fn]
				} else if fn == dispatcher || fn == dispHome {
					rts = nil // unknown type without handler: must carry no value
					if hasV {
						bad = "the dispatcher builds a value for a record type without handler"
					}
				} else {
					bad = "UNDECIDED: record type of unknown provenance " + clip(u.Show(rt), 60)
				}
				for _, t := range rts {
					siteCond := site.cond
					if cnd, ok := rtCond[t]; ok {
						siteCond = cnd
					}
					if isHandler && len(ps) >= 2 && rt == ps[1] && len(rts) > 1 {
						// one handler registered for several record types: judged for each type with
						// the type parameter being that type
						siteCond = u.SubstBool(siteCond, map[string]*E{ps[1].key: u.ConstVal(constantInt(t), ps[1].Typ)})
						if siteCond == False {
							continue
						}
					}
					want, needV := allowedVal[t]
					if !needV {
						if hasV {
							bad = fmt.Sprintf("record type %d carries a value although none is published for it", t)
						}
						continue
					}
					if !hasV {
						bad = fmt.Sprintf("record type %d is built without the value published for it", t)
						continue
					}
					got := ""
					if val.Op == "mkiface" {
						got = val.Aux
					}
					if got != want {
						bad = fmt.Sprintf("record type %d carries a value of static type %s, published: %s (consumers type-assert the published type)", t, got, want)
						continue
					}
					inner := val.Args[0]
					switch t {
					case types_["TypeA"], types_["TypeAAAA"]:
						// provenance: extract#0 of netip.ParseAddr; guarded by err == nil and the family test
						var perr Ref = False
						var is4, is6 Ref = False, False
						for _, at := range u.AtomsOf(siteCond) {
							if at.Op == "eq" && at.Args[1].IsNil() && at.Args[0].Op == "extract" && at.Args[0].Aux == "1" && at.Args[0].Args[0].Op == "call" && at.Args[0].Args[0].Aux == "net/netip.ParseAddr" &&
								inner.Op == "extract" && inner.Args[0] == at.Args[0].Args[0] && u.bdd.Implies(siteCond, u.Atom(at)) {
								perr = u.Atom(at)
							}
							if at.Op == "call" && at.Aux == "(net/netip.Addr).Is4" && at.Args[0] == inner {
								is4 = u.Atom(at)
							}
							if at.Op == "call" && at.Aux == "(net/netip.Addr).Is6" && at.Args[0] == inner {
								is6 = u.Atom(at)
							}
						}
						if perr == False {
							bad = fmt.Sprintf("the address stored for record type %d is not known to have parsed successfully here (the zero netip.Addr is neither IPv4 nor IPv6)", t)
						} else if t == types_["TypeA"] && !(is4 != False && u.bdd.Implies(siteCond, is4)) {
							bad = "an A rewrite is built outside the true edge of Is4()"
						} else if t == types_["TypeAAAA"] && !((is6 != False && u.bdd.Implies(siteCond, is6)) || (is4 != False && u.bdd.Implies(siteCond, u.bdd.Not(is4)))) {
							bad = "an AAAA rewrite is built without Is6() (or not Is4()) being established"
						}
					case types_["TypeMX"], types_["TypeSRV"], types_["TypeHTTPS"], types_["TypeSVCB"]:
						if inner.Op != "alloc" && inner.Op != "new" {
							bad = fmt.Sprintf("the structure pointer for record type %d is not a freshly built (non-nil) value", t)
						}
					}
				}
			}
			c.Check(bad == "", "C10.R1", key, site.pos, "shape table satisfied", bad)
		}
	}
	if nSites == 0 {
		c.Fail("C10.R1", "construction sites", ldr.Pos(), "UNDECIDED: no DNSRewrite construction found")
	}

	// ---------- R2 ----------
	if dispatcher == nil {
		c.Fail("C10.R2", "anchor:dispatcher", ldr.Pos(), "unresolved anchor: no function calls a handler dynamically")
	} else {
		g := NewGate(c.P)
		g.Inline = inlineOnly()
		if st := c.P.Func("rules", "strToRRType"); st != nil {
			g.Pure[FuncName(st)] = true
		}
		s := g.Eval(dispHome)
		u := g.U
		c.Fn(FuncName(dispatcher))
		bad := "no dynamic handler call"
		for _, ef := range s.Effects {
			if ef.Kind != "call" || ef.Call.Op != "dyncall" {
				continue
			}
			fv := ef.Call.Args[0]
			args := ef.Call.Args[1:]
			bad = ""
			if !(fv.Op == "extract" && fv.Aux == "0" && fv.Args[0].Op == "lookup" && len(args) >= 3 && fv.Args[0].Args[1] == args[1]) {
				bad = "the handler is not looked up with the record type that is passed to it: " + clip(u.Show(fv), 100)
			}
			// success guard
			rcode := args[0]
			if bad == "" && !u.bdd.Implies(ef.Cond, u.ToBool(u.Eq(rcode, u.ConstVal(constantInt(succ), rcode.Typ)))) {
				bad = "a handler (which sets RRType) can be called with a non-success response code"
			}
			// found guard
			if bad == "" {
				okFound := false
				for _, at := range u.AtomsOf(ef.Cond) {
					if at.Op == "extract" && at.Aux == "1" && at.Args[0] == fv.Args[0] && u.bdd.Implies(ef.Cond, u.Atom(at)) {
						okFound = true
					}
				}
				if !okFound {
					bad = "the handler is called without checking that one is registered (nil function call)"
				}
			}
		}
		c.Check(bad == "", "C10.R2", shortFn(dispatcher)+": handler(rcode, rr, value) with handler = table[rr], only for success", dispatcher.Pos(), "lookup key == passed record type; guarded by rcode == success and found", bad)
		// handlers store their parameters
		bad = ""
		n := 0
		for fn, ks := range keysOf {
			g2 := NewGate(c.P)
			g2.Inline = inlineOnly()
			s2 := g2.Eval(fn)
			ps := g2.ParamExprs(fn)
			for _, ef := range s2.Effects {
				if ef.Kind == "store" && ef.Addr.Op == "faddr" && (ef.Addr.Args[0].Op == "alloc") {
					if n2, _, ok := fieldOf(ef.Ins.(*ssa.Store).Addr); !ok || n2 != rwT {
						continue
					}
					n++
					if ef.Addr.Aux == "RRType" && ef.Val != ps[1] {
						if v, isC := ef.Val.IntVal(); !(isC && len(ks) == 1 && v == ks[0]) {
							bad = shortFn(fn) + " stores a record type that is neither its parameter nor its registration key"
						}
					}
					if ef.Addr.Aux == "RCode" && ef.Val != ps[0] && !isIntConst(ef.Val, succ) {
						bad = shortFn(fn) + " stores a response code that is neither its parameter nor success"
					}
				}
			}
		}
		c.Check(bad == "" && n > 0, "C10.R2", "handlers store the response code and record type they are given", ldr.Pos(), fmt.Sprintf("%d stores in %d handlers", n, len(keysOf)), bad)
	}

	// ---------- R3 ----------
	if ptr := handlers[types_["TypePTR"]]; ptr != nil {
		g := NewGate(c.P)
		g.Inline = inlineOnly()
		s := g.Eval(ptr)
		u := g.U
		ps := g.ParamExprs(ptr)
		bad := "the PTR handler stores no value"
		for _, ef := range s.Effects {
			if ef.Kind == "store" && ef.Addr.Op == "faddr" && ef.Addr.Aux == "Value" && ef.Val.Op == "mkiface" {
				bad = ""
				for leaf, cond := range u.Leaves(ef.Val.Args[0]) {
					if leaf.Op == "call" && strings.HasSuffix(leaf.Aux, "dns.Fqdn") {
						continue
					}
					// must be the parameter itself under "last byte is a dot"
					v := ps[2]
					last := u.mk("index", "", types.Typ[types.Uint8], v, u.Bin(token.SUB, u.Len(v), u.Int(1), types.Typ[types.Int]))
					dot := u.ToBool(u.Eq(last, u.ConstVal(constantInt('.'), types.Typ[types.Uint8])))
					// ... or something with a dot appended
					endsInDot := leaf.Op == "bin" && leaf.Aux == "+" && len(leaf.Args) == 2 && isStr(leaf.Args[1], ".")
					if !endsInDot && (leaf != v || !u.bdd.Implies(u.bdd.And(cond, ef.Cond), dot)) {
						bad = "the PTR value can be stored without a trailing dot (" + clip(u.Show(leaf), 60) + "): it must be a fully-qualified name"
					}
				}
			}
		}
		c.Check(bad == "", "C10.R3", shortFn(ptr)+": PTR value is fully qualified", ptr.Pos(), "dns.Fqdn(value) or value ending in '.'", bad)
		// the name that is validated is the value without exactly one trailing dot: otherwise
		// "example.net.." passes validation although the stored value is not a well-formed FQDN
		bad = "the PTR value is not validated as a host name"
		for _, ef := range s.Effects {
			if ef.Kind == "call" && strings.HasSuffix(ef.Call.Aux, "validateHost") && len(ef.Call.Args) >= 1 {
				v := ps[2]
				want := u.LibCall("strings.TrimSuffix", types.Typ[types.String], v, u.Str("."))
				if ok, _ := semEqual(u, ef.Call.Args[0], want); ok {
					bad = ""
				} else {
					bad = "the validated name is " + clip(u.Show(ef.Call.Args[0]), 100) + ", not the value without exactly one trailing dot: a value with several trailing dots (example.net..) is accepted and stored as is"
				}
			}
		}
		c.Check(bad == "", "C10.R3", shortFn(ptr)+": the validated name is the value minus one trailing dot", ptr.Pos(), "validateHost(strings.TrimSuffix(value, \".\")) in normal form", bad)
	} else {
		c.Fail("C10.R3", "PTR handler", ldr.Pos(), "no handler registered for PTR")
	}

	// ---------- R8: the host validator judges the text it is given ----------
	if vh := c.P.Func("rules", "validateHost"); vh != nil {
		c.Rule("C10.R8", "WIRE", "validateHost validates the text it is handed, untrimmed", 1)
		g := NewGate(c.P)
		g.Inline = inlineOnly()
		g.Eval(vh)
		u := g.U
		host := g.ParamExprs(vh)[0]
		bad := ""
		// what is cut into labels at the dots must be the argument (or, label by label, a remainder
		// carried around a loop): not a shortened copy of it
		n := 0
		for _, e := range u.tab {
			if e.Op != "call" || len(e.Args) < 2 || !isStr(e.Args[1], ".") {
				continue
			}
			switch e.Aux {
			case "strings.Split", "strings.SplitN", "strings.Cut", "strings.Index", "strings.IndexByte":
			default:
				continue
			}
			n++
			for leaf := range u.Leaves(e.Args[0]) {
				base := leaf
				for base.Op == "slice" && base.Args[2] == nil {
					base = base.Args[0] // a suffix: the rest behind a label
				}
				if base != host && base.Op != "loopphi" && base.Op != "extract" {
					bad = "the labels are taken from " + clip(u.Show(leaf), 80) + ", not from the text handed in: a caller that already removed one trailing dot (the PTR handler) now lets \"name..\" through, and the stored value is not a well-formed name"
				}
			}
		}
		if n == 0 {
			bad = "UNDECIDED: no split of the name at its dots found"
		}
		c.Check(bad == "", "C10.R8", shortFn(vh)+": labels of the argument itself", vh.Pos(), "no trimming of the argument before its labels are checked", bad)
		// labels cut off one by one with strings.Cut: the walk goes on while the last cut found a dot.
		// "While the rest is not empty" stops in front of the empty label behind a final dot, which is
		// then never rejected ("example.net.." behind the PTR handler's own trimming of one dot).
		for _, fn := range groupFuncs(c.P, vh) {
			loops := loopsOf(fn)
			eachInstr(fn, func(b *ssa.BasicBlock, in ssa.Instruction) {
				cl, ok := in.(*ssa.Call)
				if !ok {
					return
				}
				cal := cl.Call.StaticCallee()
				if cal == nil || calleeName(cal) != "strings.Cut" || len(cl.Call.Args) != 2 {
					return
				}
				if k, isK := cl.Call.Args[1].(*ssa.Const); !isK || k.Value == nil || k.Value.ExactString() != "\".\"" {
					return
				}
				l := innermostLoop(loops, b)
				if l == nil {
					return
				}
				iff, isIf := l.Header.Instrs[len(l.Header.Instrs)-1].(*ssa.If)
				if !isIf {
					return
				}
				bad2 := ""
				if bo, isB := iff.Cond.(*ssa.BinOp); isB {
					isStr := func(v ssa.Value) bool {
						bt, ok := v.Type().Underlying().(*types.Basic)
						return ok && bt.Kind() == types.String
					}
					if (bo.Op == token.NEQ || bo.Op == token.EQL || bo.Op == token.GTR || bo.Op == token.LSS) && (isStr(bo.X) || isStr(bo.Y)) {
						bad2 = "the walk over the labels goes on while the rest of the name is not empty: the empty label behind a final dot is never looked at, so a name that ends in a dot (\"example.net..\" after the PTR handler has removed one) passes"
					}
					if un, isLen := bo.X.(*ssa.Call); isLen && bad2 == "" {
						if bi, isBi := un.Call.Value.(*ssa.Builtin); isBi && bi.Name() == "len" && isStr(un.Call.Args[0]) {
							bad2 = "the walk over the labels goes on while the rest of the name is not empty: the empty label behind a final dot is never looked at"
						}
					}
				}
				c.Check(bad2 == "", "C10.R8", shortFn(fn)+": the label walk continues while a dot was found", cl.Pos(), "loop condition is the 'found' result of strings.Cut, not the emptiness of the rest", bad2)
			})
		}
	}

	// ---------- R9: the value part is everything behind the second ';' ----------
	{
		c.Rule("C10.R9", "WIRE", "the full form is split into at most three parts: the value may contain ';'", 1)
		g := NewGate(c.P)
		g.Inline = inlineOnly()
		g.Eval(ldr)
		u := g.U
		sv := g.ParamExprs(ldr)[0]
		bad, n := "", 0
		for _, e := range u.tab {
			if e.Op != "call" || len(e.Args) < 2 || e.Args[0] != sv {
				continue
			}
			switch e.Aux {
			case "strings.SplitN":
				n++
				if k, ok := e.Args[len(e.Args)-1].IntVal(); !ok || k != 3 {
					bad = "the modifier value is split with a limit other than 3"
				}
			case "strings.Split", "strings.Fields", "strings.FieldsFunc":
				n++
				bad = "the modifier value is split at every ';' (" + clip(u.Show(e), 60) + "): a value that contains ';' itself (TXT records: v=DKIM1;k=rsa) is cut at its first ';', so different values become equal and an exception for one disables the other"
			case "strings.Cut":
				n++
			}
		}
		_ = n // cuts at the first and second ';' (strings.Cut, Index + slicing) keep the value whole by construction
		c.Check(bad == "", "C10.R9", shortFn(ldr)+": RCODE;RRTYPE;VALUE with VALUE kept whole", ldr.Pos(), "SplitN(value, \";\", 3) or two cuts", bad)
	}

	// ---------- R10: a parser answers with a rewrite or with an error ----------
	{
		c.Rule("C10.R10", "PDT", "no $dnsrewrite parser returns (nil, nil): a rule that parsed as a rewrite rule carries a rewrite", 2)
		for _, fn := range scope {
			r := fn.Signature.Results()
			if r.Len() != 2 || typeStr(r.At(0).Type()) != "*rules.DNSRewrite" || typeStr(r.At(1).Type()) != "error" {
				continue
			}
			g := NewGate(c.P)
			g.Inline = inlineOnly()
			s := g.Eval(fn)
			u := g.U
			bad := ""
			for _, rt := range s.Rets {
				if rt.Cond == False || len(rt.Vals) != 2 {
					continue
				}
				for l0, c0 := range u.Leaves(rt.Vals[0]) {
					for l1, c1 := range u.Leaves(rt.Vals[1]) {
						cc := u.bdd.And(rt.Cond, u.bdd.And(c0, c1))
						if cc == False {
							continue
						}
						nilHere := func(l *E) bool {
							// nil literally, or a value the path condition knows to be nil (an error
							// variable already tested)
							return l.IsNil() || (l.Op != "alloc" && l.Op != "new" && l.Op != "mkiface" && u.bdd.Implies(cc, u.ToBool(u.Eq(l, u.mk("nil", "", nil)))))
						}
						if nilHere(l0) && nilHere(l1) {
							bad = c.P.Pos(rt.Pos) + ": returns (nil, nil): the rule is accepted without a rewrite, is not filtered as a rewrite rule and takes part in the block/allow precedence"
						}
					}
				}
			}
			c.Check(bad == "", "C10.R10", shortFn(fn)+": rewrite or error", fn.Pos(), "no return site yields a nil rewrite together with a nil error", bad)
		}
	}

	// ---------- R12: the stored CNAME is the validated text ----------
	if vh := c.P.Func("rules", "validateHost"); vh != nil {
		c.Rule("C10.R12", "WIRE", "a rewrite's NewCNAME is the very text the host validator accepted, in the shorthand and in the full form alike", 2)
		for _, fn := range scope {
			r := fn.Signature.Results()
			if r.Len() != 2 || typeStr(r.At(0).Type()) != "*rules.DNSRewrite" {
				continue
			}
			g := NewGate(c.P)
			g.Inline = inlineOnly()
			s := g.Eval(fn)
			u := g.U
			var validated []*E
			for _, ef := range s.Effects {
				if ef.Kind == "call" && ef.Call.Aux == calleeName(vh) && len(ef.Call.Args) > 0 {
					validated = append(validated, ef.Call.Args[0])
				}
			}
			for _, ef := range s.Effects {
				if ef.Kind != "store" || ef.Addr.Op != "faddr" || ef.Addr.Aux != "NewCNAME" {
					continue
				}
				if sv, ok := ef.Val.StrVal(); ok && sv == "" {
					continue
				}
				bad := ""
				ok := false
				for _, v := range validated {
					if v == ef.Val {
						ok = true
					}
				}
				switch {
				case len(validated) == 0:
					bad = "the name is stored without having been validated"
				case !ok:
					bad = "the stored name is " + clip(u.Show(ef.Val), 80) + ", the validated one " + clip(u.Show(validated[0]), 80) + ": the shorthand and the full form of one CNAME rewrite no longer store the same text (a trailing dot, a different case), so an exception written in one form does not disable the rewrite written in the other"
				}
				c.Check(bad == "", "C10.R12", shortFn(fn)+": NewCNAME = the validated text", ef.Pos, "store of NewCNAME takes the argument of validateHost", bad)
			}
		}
	}

	// ---------- R13: a parameter map that is made is filled ----------
	// Two equal SVCB/HTTPS values must be equal for reflect.DeepEqual (the exception matcher of C09): no
	// parameters is a nil map, parameters is a filled map.  A map that was made and left empty because an
	// iteration was skipped is a third state that equals neither.
	{
		c.Rule("C10.R13", "WIRE", "every iteration of a loop that fills the parameter map of a rewrite value stores an entry or fails", 1)
		for _, fn := range scope {
			loops := loopsOf(fn)
			for _, b := range fn.Blocks {
				for _, in := range b.Instrs {
					mu, ok := in.(*ssa.MapUpdate)
					if !ok {
						continue
					}
					if typeStr(mu.Map.Type()) != "map[string]string" {
						continue
					}
					l := innermostLoop(loops, b)
					if l == nil {
						continue
					}
					bad := ""
					for _, lt := range l.Latches {
						if !b.Dominates(lt) {
							bad = c.P.Pos(lt.Instrs[len(lt.Instrs)-1].Pos()) + ": an iteration can go on to the next field without having stored a parameter (a skipped empty field): \"32 host \" then yields an empty, non-nil parameter map, which reflect.DeepEqual tells from the nil map of \"32 host\", and an exception for one no longer disables the rewrite written as the other"
						}
					}
					c.Check(bad == "", "C10.R13", shortFn(fn)+": the parameter loop stores on every iteration", mu.Pos(), "the store dominates every back edge of the loop", bad)
				}
			}
		}
	}

	// ---------- R4 ----------
	{
		// the value reaches the parser through the option splitter: a panic there is a panic on a
		// $dnsrewrite value too (a value that ends in the escape character)
		scope4 := append([]*ssa.Function(nil), scope...)
		if lo := c.P.Method("rules", "NetworkRule", "loadOptions"); lo != nil {
			have := map[*ssa.Function]bool{}
			for _, f := range scope4 {
				have[f] = true
			}
			eachInstr(lo, func(_ *ssa.BasicBlock, in ssa.Instruction) {
				if ci, ok := in.(ssa.CallInstruction); ok {
					if cal := ci.Common().StaticCallee(); cal != nil && c.P.IsLibFunc(cal) && cal.Blocks != nil && !have[cal] && cal.Signature.Recv() == nil && cal.Signature.Results().Len() == 1 && typeStr(cal.Signature.Results().At(0).Type()) == "[]string" {
						have[cal] = true
						scope4 = append(scope4, cal)
					}
				}
			})
		}
		res := boundsAudit(c, scope4)
		bad := ""
		for _, r := range res {
			if r.Verdict == "violation" && bad == "" {
				bad = fmt.Sprintf("%s: %s in %s may be out of range: %s", c.P.Pos(r.Pos), r.Expr, shortFn(r.Fn), r.Why)
			}
		}
		c.Check(bad == "", "C10.R4", "$dnsrewrite parser: all index/slice operations in range", ldr.Pos(), fmt.Sprintf("%d sites in %d functions", len(res), len(scope4)), bad)
	}

	// ---------- R7: numbers are parsed with the width of the field they are stored in ----------
	{
		n := 0
		bad := ""
		intBits := func(t types.Type) (int, bool) {
			b, ok := t.Underlying().(*types.Basic)
			if !ok || b.Info()&types.IsInteger == 0 {
				return 0, false
			}
			return intWidth(b), true
		}
		for _, fn := range groupFuncs(c.P, scope...) {
			eachInstr(fn, func(_ *ssa.BasicBlock, in ssa.Instruction) {
				cv, ok := in.(*ssa.Convert)
				if !ok {
					return
				}
				dw, ok1 := intBits(cv.Type())
				sw, ok2 := intBits(cv.X.Type())
				if !ok1 || !ok2 || dw >= sw {
					return
				}
				// a narrowing conversion: where does the number come from?
				var src ssa.Value = cv.X
				for i := 0; i < 4; i++ {
					if ph, isPhi := src.(*ssa.Phi); isPhi && len(ph.Edges) > 0 {
						src = ph.Edges[0]
					} else if ld, isLd := src.(*ssa.UnOp); isLd && ld.Op == token.MUL {
						// a local cell: its single store
						if al, isAl := ld.X.(*ssa.Alloc); isAl && al.Referrers() != nil {
							var st ssa.Value
							k := 0
							for _, r := range *al.Referrers() {
								if s, isSt := r.(*ssa.Store); isSt && s.Addr == ssa.Value(al) {
									st = s.Val
									k++
								}
							}
							if k == 1 {
								src = st
								continue
							}
						}
						break
					} else {
						break
					}
				}
				ex, isEx := src.(*ssa.Extract)
				if !isEx {
					return
				}
				call, isCall := ex.Tuple.(*ssa.Call)
				if !isCall || call.Call.StaticCallee() == nil {
					return
				}
				name := calleeName(call.Call.StaticCallee())
				if name != "strconv.ParseUint" && name != "strconv.ParseInt" {
					return
				}
				n++
				k, isK := call.Call.Args[2].(*ssa.Const)
				if !isK || k.Value == nil {
					if bad == "" {
						bad = c.P.Pos(cv.Pos()) + ": UNDECIDED: the bit size handed to " + name + " is not a constant"
					}
					return
				}
				if bits := k.Int64(); (bits == 0 || int(bits) > dw) && bad == "" {
					bad = fmt.Sprintf("%s: %s parses with bit size %d but the value is then converted to a %d-bit field: a number that does not fit (e.g. %d) is accepted and silently truncated instead of rejected", c.P.Pos(cv.Pos()), name, bits, dw, (int64(1)<<uint(dw))+1)
				}
			})
		}
		if n == 0 && bad == "" {
			bad = "UNDECIDED: no narrowing conversion of a parsed number found in the parser (the MX/SRV/SVCB fields are 16-bit)"
		}
		c.Check(bad == "", "C10.R7", "$dnsrewrite parser: parsed numbers fit the fields they are stored in", ldr.Pos(), fmt.Sprintf("%d narrowing conversion(s) of strconv results: bit size <= field width", n), bad)
	}

	// ---------- R6: a rule's rewrite is the parse of its own value ----------
	{
		ws := fieldWrites(c.P, "rules", "NetworkRule", "DNSRewrite")
		writers := map[*ssa.Function]bool{}
		for _, w := range ws {
			if !c.P.IsNewHelper(w.Fn) {
				writers[w.Fn] = true
				continue
			}
			for _, fn := range c.P.AllLibFuncs() {
				if !c.P.IsNewHelper(fn) && helperGroup(c.P, fn)[w.Fn] {
					writers[fn] = true
				}
			}
		}
		var fns []*ssa.Function
		for fn := range writers {
			fns = append(fns, fn)
		}
		sort.Slice(fns, func(i, j int) bool { return FuncName(fns[i]) < FuncName(fns[j]) })
		if len(fns) == 0 {
			c.Fail("C10.R6", "NetworkRule.DNSRewrite writers", ldr.Pos(), "UNDECIDED: no store to NetworkRule.DNSRewrite found")
		}
		for _, fn := range fns {
			g := NewGate(c.P)
			g.Inline = inlineOnly()
			s := g.Eval(fn)
			u := g.U
			bad := ""
			n := 0
			for _, ef := range s.Effects {
				if ef.Kind != "store" || ef.Addr.Op != "faddr" || ef.Addr.Aux != "DNSRewrite" || ef.Cond == False {
					continue
				}
				n++
				for leaf, lc := range u.Leaves(ef.Val) {
					if u.bdd.And(lc, ef.Cond) == False || leaf.IsNil() {
						continue
					}
					x := leaf
					if x.Op == "extract" && len(x.Args) == 1 {
						x = x.Args[0]
					}
					if x.Op == "call" && x.Aux == calleeName(ldr) {
						continue
					}
					if bad == "" {
						bad = c.P.Pos(ef.Pos) + ": the rule's rewrite is " + clip(u.Show(leaf), 100) + ", not the value parsed from its own modifier text by " + shortFn(ldr) + ": the result of parsing then depends on what was parsed before (cache, shared object), not only on the value"
					}
				}
			}
			c.Check(bad == "", "C10.R6", shortFn(fn)+": NetworkRule.DNSRewrite = "+shortFn(ldr)+"(value)", fn.Pos(), fmt.Sprintf("%d store(s): every value leaf is the parser's return value", n), bad)
		}
	}

	// ---------- R5 ----------
	{
		e := effOf(c)
		roots := []*ssa.Function{ldr}
		for _, f := range handlers {
			roots = append(roots, f)
		}
		ws := e.WritesFrom(roots...)
		bad := ""
		for _, w := range ws {
			bad = fmt.Sprintf("%s: %s: %s (%s)", c.P.Pos(w.Instr.Pos()), shortFn(w.Fn), w.Desc, w.What)
			break
		}
		c.Check(bad == "", "C10.R5", "$dnsrewrite parser writes only memory it allocates", ldr.Pos(), "ownership analysis over everything reachable from loadDNSRewrite and the handlers", bad)
		bad = ""
		if handlerGlobal != nil {
			for _, fn := range c.P.AllLibFuncs() {
				if fn.Name() == "init" {
					continue
				}
				eachInstr(fn, func(_ *ssa.BasicBlock, in ssa.Instruction) {
					switch in := in.(type) {
					case *ssa.MapUpdate:
						if ld, ok := in.Map.(*ssa.UnOp); ok && ld.X == ssa.Value(handlerGlobal) {
							bad = c.P.Pos(in.Pos()) + ": " + shortFn(fn) + " updates the handler table at run time"
						}
					case *ssa.Store:
						if in.Addr == ssa.Value(handlerGlobal) {
							bad = c.P.Pos(in.Pos()) + ": " + shortFn(fn) + " replaces the handler table at run time"
						}
					}
				})
			}
		} else {
			bad = "UNDECIDED: handler table global not found"
		}
		c.Check(bad == "", "C10.R5", "handler table is written only by the package initialiser", ldr.Pos(), "who-may-write over all library functions", bad)
	}
}
