package main

// C12 — parsing and matching never crash; comments and rejected lines are inert.

import (
	"fmt"
	"go/token"
	"go/types"
	"os"
	"sort"
	"strings"

	"golang.org/x/tools/go/ssa"
)

func init() {
	register(&PropDef{
		ID:  "C12",
		Run: runC12,
		Explanation: "Static panic-freedom audit of the parse/match/query API (C12). R1: every index and slice operation in the library functions reachable from the public entry points is discharged: by the Go compiler's own bounds-check prover " +
			"(no residual check in -d=ssa/check_bce), else by the checker's linear prover (facts from the gated reach condition, library post-conditions, loop lemmas, declared helper contracts proved at every call site; entailment by Fourier-Motzkin), " +
			"else by a documented residual entry; explicit panics, Must* calls, unchecked type assertions and integer divisions are listed and must be absent. R2 (NIL): nil-able pointer fields are dereferenced only under a nil guard, through nil-safe methods, " +
			"or under an establishing contract. R3: every loop is a range, a counted loop or has a declared variant that is checked structurally; no recursion. R4: blank and comment lines return (nil, nil) before any constructor runs; the scanner accepts a line only " +
			"for rule != nil, err == nil and not ignored. R5: constructors store the given text and list id. R6: the lazy pattern compile uses the error-returning compile and marks the rule invalid. R7: the scanner reads complete lines (no buffer-size truncation). A constructor whose body runs in place through an unexported helper is judged like the call (R4/R5). R3 proves a loop that continues with s[k:] terminating by refuting k <= 0 against the exit conditions of the scans that produced k. R6 is judged with the compile routine expanded into the pattern check: every receiver of MatchString is the stored non-nil expression or the result of a compile without error; a failed compile marks the rule invalid and the check answers false. R7 looks for the read calls in everything the scanner's methods reach inside the package; a loop of package filterlist that consumes from a buffered reader and is left when the reader reports no data has a variant (R3).",
		Trusted:     []string{"cmd/compile's prove pass (sound static analyser) for 'compiler' verdicts", "library post-conditions table (strings.Index*, io.Reader.Read, HasPrefix/HasSuffix length facts)", "regexp.Compile returns a non-nil *Regexp iff err == nil; RE2 matching is linear and cannot crash"},
		Assumptions: []string{"'inserting noise lines leaves results equal' is derived from R4 + offset accounting (C11.R2), not observed", "stack depth and time are library concerns"},
	})
}

// apiRoots are the public entry points of C12's scope.
func apiRoots(c *Ctx) []*ssa.Function {
	var roots []*ssa.Function
	add := func(f *ssa.Function) {
		if f != nil && f.Blocks != nil {
			roots = append(roots, f)
		}
	}
	for _, n := range []string{"NewRule", "NewNetworkRule", "NewHostRule", "NewCosmeticRule", "NewRequest", "NewRequestForHostname", "FillRequestForHostname", "NewMatchingResult", "GetDNSBasicRule"} {
		add(c.P.Func("rules", n))
	}
	for _, m := range [][3]string{
		{"rules", "NetworkRule", "Match"}, {"rules", "NetworkRule", "IsHigherPriority"}, {"rules", "HostRule", "Match"}, {"rules", "CosmeticRule", "Match"},
		{"rules", "MatchingResult", "GetBasicResult"}, {"rules", "MatchingResult", "GetCosmeticOption"}, {"rules", "NetworkRule", "IsHostLevelNetworkRule"},
		{"", "NetworkEngine", "Match"}, {"", "NetworkEngine", "MatchAll"}, {"", "NetworkEngine", "AddRule"},
		{"", "DNSEngine", "Match"}, {"", "DNSEngine", "MatchRequest"}, {"", "Engine", "MatchRequest"}, {"", "Engine", "GetCosmeticResult"}, {"", "CosmeticEngine", "Match"},
		{"", "DNSResult", "DNSRewrites"}, {"", "DNSResult", "DNSRewritesAll"},
		{"filterlist", "RuleStorage", "RetrieveRule"}, {"filterlist", "RuleStorage", "RetrieveNetworkRule"}, {"filterlist", "RuleStorage", "RetrieveHostRule"},
		{"filterlist", "RuleStorage", "NewRuleStorageScanner"}, {"filterlist", "RuleStorage", "Close"}, {"filterlist", "RuleStorageScanner", "Scan"}, {"filterlist", "RuleStorageScanner", "Rule"},
		{"filterlist", "RuleScanner", "Scan"}, {"filterlist", "RuleScanner", "Rule"}, {"filterlist", "StringRuleList", "RetrieveRule"}, {"filterlist", "FileRuleList", "RetrieveRule"},
		{"filterlist", "StringRuleList", "NewScanner"}, {"filterlist", "FileRuleList", "NewScanner"},
	} {
		add(c.P.Method(m[0], m[1], m[2]))
	}
	for _, n := range []string{"NewEngine", "NewNetworkEngine", "NewNetworkEngineSkipStorageScan", "NewDNSEngine", "NewCosmeticEngine"} {
		add(c.P.Func("", n))
	}
	for _, n := range []string{"NewRuleStorage", "NewRuleScanner", "NewFileRuleList"} {
		add(c.P.Func("filterlist", n))
	}
	for _, n := range []string{"FastHash", "FastHashBetween", "ExtractHostname", "IsDomainName", "IsProbablyIP"} {
		add(c.P.Func("filterutil", n))
	}
	return roots
}

func scopeFuncs(c *Ctx, roots []*ssa.Function) []*ssa.Function {
	var out []*ssa.Function
	for fn := range c.P.Reachable(roots...) {
		if c.P.IsLibFunc(fn) && fn.Blocks != nil {
			out = append(out, fn)
		}
	}
	sort.Slice(out, func(i, j int) bool { return out[i].String() < out[j].String() })
	return out
}

func runC12(c *Ctx) {
	c.Rule("C12.R1", "PANIC/LIN", "every potential panic site in scope is discharged (bounds, explicit panic, Must*, unchecked assertion, division)", 40)
	c.Rule("C12.R2", "NIL", "nil-able pointers dereferenced only under a guard, a nil-safe method or an establishing contract", 8)
	c.Rule("C12.R3", "TERM", "every loop has a variant; no recursion", 30)
	c.Rule("C12.R4", "WIRE/PDT", "blank/comment lines are inert; scanner accepts only good rules", 2)
	c.Rule("C12.R5", "WIRE", "constructors store the given text and list id", 4)
	c.Rule("C12.R6", "WIRE", "lazy compile: error-returning compile, invalid flag, -1 before touching the regexp", 2)
	c.Rule("C12.R7", "TBL", "the rule scanner reads complete lines", 1)

	roots := apiRoots(c)
	if len(roots) < 50 {
		c.Fail("C12.R1", "anchor:API roots", token.NoPos, fmt.Sprintf("only %d of the public entry points resolved", len(roots)))
	}
	scope := scopeFuncs(c, roots)
	c.Extra["scope_functions"] = len(scope)

	// ---------- R1 ----------
	res := boundsAudit(c, scope)
	counts := map[string]int{}
	for _, r := range res {
		counts[r.Verdict]++
		switch r.Verdict {
		case "violation":
			c.Fail("C12.R1", "bounds: "+r.Key, r.Pos, "may be out of range: "+r.Why)
		case "compiler":
			// summarised below (not one obligation per compiler-proved site, to keep the evidence readable)
		default:
			c.OK("C12.R1", "bounds: "+r.Key, r.Pos, r.Verdict+": "+r.Why)
		}
	}
	c.Extra["bounds_sites"] = counts
	c.Check(counts["compiler"] >= 100, "C12.R1", "bounds: sites proved by the compiler's prove pass", token.NoPos, fmt.Sprintf("%d index/slice sites carry no residual bounds check", counts["compiler"]),
		fmt.Sprintf("only %d sites were matched against the compiler oracle (expected >= 100): position matching is broken", counts["compiler"]))
	// other panic kinds
	nOther := 0
	for _, fn := range scope {
		if fn.Name() == "init" {
			continue
		}
		eachInstr(fn, func(_ *ssa.BasicBlock, in ssa.Instruction) {
			switch in := in.(type) {
			case *ssa.Panic:
				nOther++
				c.Fail("C12.R1", shortFn(fn)+": explicit panic", in.Pos(), "explicit panic reachable from the public API")
			case *ssa.TypeAssert:
				if !in.CommaOk {
					nOther++
					c.Fail("C12.R1", shortFn(fn)+": unchecked type assertion "+typeStr(in.AssertedType), in.Pos(), "panics when the dynamic type differs")
				}
			case *ssa.BinOp:
				if (in.Op == token.QUO || in.Op == token.REM) && isIntType(in.X.Type()) {
					if cv, ok := in.Y.(*ssa.Const); !ok || cv.Value == nil || cv.Int64() == 0 {
						nOther++
						c.Fail("C12.R1", shortFn(fn)+": integer division by a non-constant", in.Pos(), "divisor may be zero")
					}
				}
			case *ssa.Call:
				if cal := in.Call.StaticCallee(); cal != nil {
					n := calleeName(cal)
					if strings.Contains(n, ".Must") || n == "strings.Repeat" {
						nOther++
						c.Fail("C12.R1", shortFn(fn)+": call of "+n, in.Pos(), "library function with a panicking pre-condition reachable from the public API")
					}
				}
				if b, ok := in.Call.Value.(*ssa.Builtin); ok && b.Name() == "panic" {
					nOther++
					c.Fail("C12.R1", shortFn(fn)+": explicit panic", in.Pos(), "explicit panic reachable from the public API")
				}
			}
		})
	}
	c.Check(nOther == 0, "C12.R1", "no explicit panic, Must*, unchecked assertion or variable division in scope", token.NoPos, fmt.Sprintf("%d functions scanned", len(scope)), "see the sites listed above")
	// contracts: requires proved at every call site
	checkContracts(c, scope)
	// object invariant behind the residual entry of RuleStorageScanner.Scan
	{
		bad := ""
		n := 0
		for _, w := range fieldWrites(c.P, "filterlist", "RuleStorageScanner", "currentScannerIdx") {
			n++
			scanFn := c.P.Method("filterlist", "RuleStorageScanner", "Scan")
			if w.Fn.Name() != "Scan" && !(scanFn != nil && c.P.IsNewHelper(w.Fn) && inGroupOf(c.P, w.Fn, scanFn)) {
				bad = shortFn(w.Fn) + " writes the scanner index"
				continue
			}
			// the values written: the stored value, or - when a helper outside the vocabulary stores
			// its parameter - what its callers pass
			vals := []ssa.Value{w.Val}
			if par, isPar := w.Val.(*ssa.Parameter); isPar && c.P.IsNewHelper(w.Fn) {
				vals = nil
				pi := -1
				for i, p := range w.Fn.Params {
					if p == par {
						pi = i
					}
				}
				for _, caller := range c.P.AllLibFuncs() {
					for _, site := range callsTo(caller, w.Fn) {
						if args := site.Common().Args; pi >= 0 && pi < len(args) {
							vals = append(vals, args[pi])
						}
					}
				}
				if len(vals) == 0 {
					vals = []ssa.Value{w.Val}
				}
				n += len(vals) - 1
			}
			for _, v := range vals {
				okV := isConstInt(v, 0)
				if b, ok := v.(*ssa.BinOp); ok && b.Op == token.ADD && isConstInt(b.Y, 1) {
					if ld, ok := b.X.(*ssa.UnOp); ok && ld.Op == token.MUL {
						if _, f, ok := fieldOf(ld.X); ok && f == "currentScannerIdx" {
							okV = true
						}
					}
				}
				if !okV {
					bad = "the scanner index is set to something other than 0 or index+1"
				}
			}
		}
		for _, w := range fieldWrites(c.P, "filterlist", "RuleStorageScanner", "Scanners") {
			// the constructor's composite literal initialises a fresh object
			if fa, ok := w.Instr.(*ssa.Store).Addr.(*ssa.FieldAddr); ok {
				if _, isAlloc := fa.X.(*ssa.Alloc); isAlloc {
					continue
				}
			}
			bad = shortFn(w.Fn) + " replaces the scanner list after construction"
		}
		c.Check(bad == "" && n >= 2, "C12.R1", "RuleStorageScanner: index invariant 0 <= currentScannerIdx < len(Scanners) (residual entry)", token.NoPos,
			fmt.Sprintf("%d writes, all in Scan: 0 or index+1 (the latter under index != len-1); Scanners never reassigned", n), bad)
	}

	// ---------- R2 ----------
	checkNil(c, scope)

	// ---------- R3 ----------
	checkTermination(c, scope)

	// ---------- R4 / R5 ----------
	checkInert(c)

	// ---------- R6 ----------
	if pp := c.P.Method("rules", "NetworkRule", "preparePattern"); pp != nil {
		bad := ""
		usesCompile := false
		eachInstrG(c.P, pp, func(_ *ssa.BasicBlock, in ssa.Instruction) {
			if cl, ok := in.(*ssa.Call); ok && cl.Call.StaticCallee() != nil {
				switch calleeName(cl.Call.StaticCallee()) {
				case "regexp.Compile":
					usesCompile = true
				case "regexp.MustCompile":
					bad = "the user-supplied pattern is compiled with MustCompile: an invalid regular expression panics at match time"
				}
			}
		})
		if !usesCompile && bad == "" {
			bad = "UNDECIDED: no regexp.Compile"
		}
		// the pattern check(s): the vocabulary function(s) that call the compile routine, judged with
		// the routine expanded (its way of reporting the outcome does not matter)
		var mps []*ssa.Function
		for _, fn := range c.P.AllLibFuncs() {
			if c.P.IsNewHelper(fn) || fn == pp {
				continue
			}
			calls := false
			eachInstrG(c.P, fn, func(_ *ssa.BasicBlock, in ssa.Instruction) {
				if ci, ok := in.(ssa.CallInstruction); ok && ci.Common().StaticCallee() == pp {
					calls = true
				}
			})
			if calls {
				mps = append(mps, fn)
			}
		}
		if len(mps) == 0 && bad == "" {
			bad = "UNDECIDED: no function calls preparePattern"
		}
		bad2 := ""
		for _, mp := range mps {
			v := patternVerdict(c, pp, mp, c.P.Func("rules", "patternToRegexp"), "")
			switch {
			case v.undecided != "":
				bad2 = v.undecided
			case v.nilUse != "":
				bad2 = "the compiled expression is used although the compile routine did not report success (nil *Regexp dereference when the pattern is invalid): " + v.nilUse
			case v.failAccepted && bad == "":
				bad = "a rule whose pattern failed to compile can still be reported as matching"
			case !v.invalidSet && bad == "":
				bad = "a failed compile does not mark the rule invalid: the broken expression is compiled again for every request"
			}
		}
		c.Check(bad == "", "C12.R6", "preparePattern: regexp.Compile; failure => invalid flag and -1; 1 => regexp stored", pp.Pos(), "evaluated inside the pattern check: a failed compile marks the rule invalid and the check answers false", bad)
		c.Check(bad2 == "", "C12.R6", "matchPattern: the regexp is used only after preparePattern reported success", pp.Pos(), "every receiver of MatchString is the stored non-nil expression or the result of a compile without error", bad2)
	}

	if !c.noImports {
		importRules(c, runC11, map[string]string{"C11.R4": "C12.R8", "C11.R2": "C12.R8", "C11.R3": "C12.R8"},
			map[string]string{"C12.R8": "offsets and retrieval stay consistent when noise lines are inserted: position accounting, retrieval cut, line reader (shared with C11.R2/R3/R4)"})
	}

	// ---------- R7 ----------
	{
		bad := ""
		found := false
		if rs := c.P.Type("filterlist", "RuleScanner"); rs != nil {
			// the scanner's methods and what they call inside the package (the reader may live in a
			// small type of its own)
			var fns []*ssa.Function
			seenFn := map[*ssa.Function]bool{}
			ms := c.P.SSA.MethodSets.MethodSet(types.NewPointer(rs))
			for i := 0; i < ms.Len(); i++ {
				fn := c.P.SSA.MethodValue(ms.At(i))
				if fn == nil || fn.Blocks == nil {
					continue
				}
				for r := range c.P.Reachable(fn) {
					if r.Blocks != nil && r.Pkg != nil && fn.Pkg != nil && r.Pkg == fn.Pkg && !seenFn[r] {
						seenFn[r] = true
						fns = append(fns, r)
					}
				}
			}
			for _, fn := range fns {
				eachInstr(fn, func(_ *ssa.BasicBlock, in ssa.Instruction) {
					if cl, ok := in.(*ssa.Call); ok && cl.Call.StaticCallee() != nil {
						n := calleeName(cl.Call.StaticCallee())
						if strings.HasPrefix(n, "(*bufio.Reader).") {
							switch n {
							case "(*bufio.Reader).ReadBytes", "(*bufio.Reader).ReadString":
								found = true
							case "(*bufio.Reader).ReadSlice", "(*bufio.Reader).ReadLine", "(*bufio.Reader).Read":
								bad = c.P.Pos(cl.Pos()) + ": " + n + " returns at most one buffer (4 KiB) of a line: the tail of a long comment or rejected line is parsed as a rule of its own"
							}
						}
						if strings.HasPrefix(n, "(*bufio.Scanner).") {
							bad = c.P.Pos(cl.Pos()) + ": bufio.Scanner fails on lines longer than its buffer"
						}
					}
				})
			}
		}
		if !found && bad == "" {
			bad = "UNDECIDED: the scanner does not read with bufio.Reader.ReadBytes/ReadString"
		}
		c.Check(bad == "", "C12.R7", "RuleScanner reads complete lines (ReadBytes/ReadString)", token.NoPos, "library contract: these return the whole line whatever its length", bad)
	}
}

func isIntType(t types.Type) bool {
	b, ok := t.Underlying().(*types.Basic)
	return ok && b.Info()&types.IsInteger != 0
}

// checkContracts proves the declared pre-conditions at every call site in the library.
func checkContracts(c *Ctx, scope []*ssa.Function) {
	for name, facts := range requiresTable {
		var callee *ssa.Function
		for _, fn := range c.P.AllLibFuncs() {
			if shortFn(fn) == name {
				callee = fn
			}
		}
		if callee == nil {
			continue // helper renamed/removed: its sites are then audited without assumptions
		}
		allLib := map[*ssa.Function]bool{}
		for _, fn := range c.P.AllLibFuncs() {
			allLib[fn] = true
		}
		for _, fn := range c.P.AllLibFuncs() {
			if contextualHelper(c.P, fn, allLib) {
				continue // its call sites are proved in the context of every caller
			}
			nSites := 0
			for gf := range helperGroup(c.P, fn) {
				if gf == fn || c.P.IsNewHelper(gf) {
					nSites += len(callsTo(gf, callee))
				}
			}
			if nSites == 0 {
				continue
			}
			g := NewGate(c.P)
			g.Inline = func(_, cl *ssa.Function, depth int) bool { return depth <= 2 && linInline[shortFn(cl)] }
			for n := range linPure {
				g.Pure[n] = true
			}
			g.NoInline[FuncName(callee)] = true
			sTop := g.Eval(fn)
			u := g.U
			type actSite struct {
				act  *Summary
				site ssa.CallInstruction
			}
			var sites []actSite
			for _, st := range callsTo(fn, callee) {
				sites = append(sites, actSite{sTop, st})
			}
			for _, sub := range g.Subs {
				if c.P.IsNewHelper(sub.Fn) {
					for _, st := range callsTo(sub.Fn, callee) {
						sites = append(sites, actSite{sub, st})
					}
				}
			}
			for _, as := range sites {
				s, site := as.act, as.site
				rc := s.RCAt(site)
				var args []*E
				for _, a := range site.Common().Args {
					v := s.Env[a]
					if v == nil {
						if cv, ok := a.(*ssa.Const); ok && cv.Value != nil {
							v = u.ConstVal(cv.Value, cv.Type())
						}
					}
					args = append(args, v)
				}
				key := shortFn(fn) + ": call of " + name + " satisfies its contract"
				bad := ""
				for _, f := range facts {
					lo, hi := paramTerm(u, args, f.lo), paramTerm(u, args, f.hi)
					if lo == nil || hi == nil {
						bad = "UNDECIDED: argument not evaluated"
						continue
					}
					ok := true
					why := ""
					// split ite arguments
					for lleaf, lc := range u.Leaves(lo) {
						for hleaf, hc := range u.Leaves(hi) {
							cond := u.bdd.And(rc, u.bdd.And(lc, hc))
							if cond == False {
								continue
							}
							L := NewLin(u)
							L.onTrue = func(at *E) { assumePredicate(c, g, L, at) }
							loopFacts(L, g, s, s.Fn)
							contractFacts(L, g, fn)
							L.assumeCond(cond)
							L.registerTerms(lleaf)
							L.registerTerms(hleaf)
							L.resolveNeqs()
							if !L.entails(L.linearize(lleaf), L.linearize(hleaf), f.k) {
								ok = false
								why = fmt.Sprintf("cannot prove %s <= %s%+d under %s", clip(u.Show(lleaf), 60), clip(u.Show(hleaf), 60), f.k, clip(u.ShowBool(cond), 160))
							}
						}
					}
					if !ok {
						bad = why
					}
				}
				c.Check(bad == "", "C12.R1", key, site.Pos(), "pre-condition proved from the caller's guards", bad)
			}
		}
	}
}

// checkNil implements R2 for the nil-able pointer fields of the library.
func checkNil(c *Ctx, scope []*ssa.Function) {
	type nf struct{ pkg, typ, field string }
	nilable := []nf{
		{"rules", "NetworkRule", "regex"}, {"rules", "NetworkRule", "DNSRewrite"}, {"rules", "NetworkRule", "permittedClients"}, {"rules", "NetworkRule", "restrictedClients"},
		{"rules", "MatchingResult", "BasicRule"}, {"rules", "MatchingResult", "DocumentRule"}, {"rules", "MatchingResult", "StealthRule"},
		{"filterlist", "RuleStorageScanner", "currentScanner"}, {"", "DNSResult", "NetworkRule"},
	}
	isNilable := func(v ssa.Value) (string, bool) {
		ld, ok := v.(*ssa.UnOp)
		if !ok || ld.Op != token.MUL {
			return "", false
		}
		n, f, ok := fieldOf(ld.X)
		if !ok {
			return "", false
		}
		for _, x := range nilable {
			if f == x.field && namedIs(n, x.pkg, x.typ) {
				return x.typ + "." + x.field, true
			}
		}
		return "", false
	}
	// nil-safe methods: every dereference of the receiver is guarded by a nil test on it
	nilSafe := map[*ssa.Function]bool{}
	isNilSafe := func(fn *ssa.Function) bool {
		if v, ok := nilSafe[fn]; ok {
			return v
		}
		if fn.Blocks == nil || len(fn.Params) == 0 {
			return false
		}
		g := NewGate(c.P)
		g.Inline = inlineOnly()
		s := g.Eval(fn)
		u := g.U
		recv := g.ParamExprs(fn)[0]
		nonNil := u.bdd.Not(u.ToBool(u.Eq(recv, u.mk("nil", "", nil))))
		ok := true
		if rs := fn.Params[0].Referrers(); rs != nil {
			for _, r := range *rs {
				switch r := r.(type) {
				case *ssa.FieldAddr, *ssa.UnOp:
					if !u.bdd.Implies(s.RCAt(r), nonNil) {
						ok = false
					}
				case *ssa.Call:
					// passing the receiver on: callee must be nil-safe too (not needed today)
					if r.Call.Args != nil && len(r.Call.Args) > 0 && r.Call.Args[0] == ssa.Value(fn.Params[0]) && !u.bdd.Implies(s.RCAt(r), nonNil) {
						ok = false
					}
				}
			}
		}
		nilSafe[fn] = ok
		return ok
	}
	// establishing contracts: (function, field) -> reason
	contracts := map[string]string{
		"matchException|NetworkRule.DNSRewrite":                                   "both arguments carry a rewrite: the exception is checked by the caller (exc.DNSRewrite == nil returns early) and the list elements come from DNSRewritesAll, which keeps only rules with DNSRewrite != nil (verified below)",
		"removeMatchingException$1|NetworkRule.DNSRewrite":                        "closure passed to DeleteFunc inside the guard",
		"(*filterlist.RuleStorageScanner).Scan|RuleStorageScanner.currentScanner": "elements of Scanners are the non-nil results of RuleList.NewScanner collected by NewRuleStorageScanner; currentScanner is nil or one of them",
	}
	for _, fn := range scope {
		var g *Gate
		var s *Summary
		eachInstr(fn, func(_ *ssa.BasicBlock, in ssa.Instruction) {
			var base ssa.Value
			what := ""
			switch in := in.(type) {
			case *ssa.FieldAddr:
				base, what = in.X, "field access"
			case *ssa.Call:
				if cal := in.Call.StaticCallee(); cal != nil && cal.Signature.Recv() != nil && len(in.Call.Args) > 0 {
					if _, isPtr := in.Call.Args[0].Type().Underlying().(*types.Pointer); isPtr {
						base, what = in.Call.Args[0], "method call "+cal.Name()
						if c.P.IsLibFunc(cal) && isNilSafe(cal) {
							if name, ok := isNilable(base); ok {
								c.OK("C12.R2", shortFn(fn)+": "+name+" used through nil-safe method "+cal.Name(), in.Pos(), "the callee tests its receiver for nil before every dereference")
							}
							return
						}
					}
				}
			case *ssa.UnOp:
				if in.Op == token.MUL {
					if _, isPtr := in.X.Type().Underlying().(*types.Pointer); isPtr {
						if _, isFA := in.X.(*ssa.FieldAddr); !isFA {
							base, what = in.X, "dereference"
						}
					}
				}
			}
			if base == nil {
				return
			}
			name, ok := isNilable(base)
			if !ok {
				return
			}
			if g == nil {
				g = NewGate(c.P)
				// nil-safe accessors (x.Len() on a nil-able x) are expanded: "x.Len() != 0" then
				// carries "x != nil"
				g.Inline = func(_, callee *ssa.Function, depth int) bool {
					return depth <= 2 && callee.Signature.Recv() != nil && len(callee.Blocks) <= 6 && c.P.IsLibFunc(callee) && isNilSafe(callee)
				}
				if pp := c.P.Method("rules", "NetworkRule", "preparePattern"); pp != nil {
					g.NoInline[FuncName(pp)] = true
				}
				s = g.Eval(fn)
			}
			u := g.U
			be := s.Env[base]
			key := shortFn(fn) + ": " + name + " (" + what + ")"
			if be == nil {
				c.Fail("C12.R2", key, in.Pos(), "UNDECIDED: value not evaluated")
				return
			}
			rc := s.RCAt(in)
			nonNil := u.bdd.Not(u.ToBool(u.Eq(be, u.mk("nil", "", nil))))
			if os.Getenv("UFCHECK_DEBUG_NIL") != "" && strings.Contains(key, os.Getenv("UFCHECK_DEBUG_NIL")) {
				fmt.Fprintf(os.Stderr, "NILDBG %s %s value=%s ok=%v\n", c.P.Pos(in.Pos()), key, clip(u.Show(be), 120), u.bdd.Implies(rc, nonNil))
			}
			if u.bdd.Implies(rc, nonNil) {
				c.OK("C12.R2", key, in.Pos(), "dominated by a nil test on the same value")
				return
			}
			if why, ok := contracts[shortFn(fn)+"|"+name]; ok {
				c.OK("C12.R2", key, in.Pos(), "contract: "+why)
				return
			}
			// the rewrite-exception code: every function that can only be reached from
			// DNSResult.DNSRewrites works on rules taken from DNSRewritesAll (verified below to
			// keep only rules with a rewrite) and on an exception whose rewrite was tested
			if name == "NetworkRule.DNSRewrite" {
				if dr := c.P.Method("", "DNSResult", "DNSRewrites"); dr != nil && fn != dr && onlyReachedFrom(c.P, fn, dr) {
					c.OK("C12.R2", key, in.Pos(), "contract: "+contracts["matchException|NetworkRule.DNSRewrite"])
					return
				}
			}
			// regex: established by preparePattern() == 1
			if name == "NetworkRule.regex" {
				for _, at := range u.AtomsOf(rc) {
					if at.Op == "eq" && at.Args[0].Op == "call" && strings.HasSuffix(at.Args[0].Aux, "NetworkRule).preparePattern") {
						c.OK("C12.R2", key, in.Pos(), "contract: reached only when preparePattern did not return -1/0, which implies a stored regexp (C12.R6)")
						return
					}
				}
			}
			c.Fail("C12.R2", key, in.Pos(), "the pointer may be nil here: no dominating nil test, the callee is not nil-safe and no contract establishes it (value "+clip(u.Show(be), 80)+", reached when "+clip(u.ShowBool(rc), 160)+")")
		})
	}
	// the DNSRewritesAll contract: only rules with a rewrite are returned
	if dra := c.P.Method("", "DNSResult", "DNSRewritesAll"); dra != nil {
		g := NewGate(c.P)
		g.Inline = inlineOnly()
		s := g.Eval(dra)
		u := g.U
		bad := ""
		n := 0
		for _, em := range emissionsOf(dra, s, 0) {
			n++
			if em.Elems == nil {
				bad = "UNDECIDED: spread append"
				continue
			}
			for _, el := range em.Elems {
				nonNil := u.bdd.Not(u.ToBool(u.Eq(u.Field(el, "DNSRewrite", nil), u.mk("nil", "", nil))))
				if !u.bdd.Implies(em.RC, nonNil) {
					bad = "a rule without a rewrite can be returned (its DNSRewrite is dereferenced by the exception matcher)"
				}
			}
		}
		c.Check(bad == "" && n > 0, "C12.R2", "DNSRewritesAll returns only rules with DNSRewrite != nil", dra.Pos(), "every append is on the non-nil edge", bad)
	}
}

// checkTermination implements R3.
func checkTermination(c *Ctx, scope []*ssa.Function) {
	variants := map[string]string{
		"(*filterlist.RuleScanner).Scan":              "each iteration consumes one line from the reader (readNextLine) and the loop returns on its error; the reader is finite",
		"(*filterlist.RuleScanner).readNextLine":      "each iteration reads from the buffered reader and returns on data or error",
		"filterlist.readLine":                         "each iteration reads from the reader and returns on a newline, on no data or on error",
		"(*filterlist.RuleStorageScanner).Scan":       "the scanner index strictly increases and the loop returns when it reaches the last scanner",
		"(*urlfilter.NetworkEngine).NewNetworkEngine": "",
	}
	inScope := map[*ssa.Function]bool{}
	for _, fn := range scope {
		inScope[fn] = true
	}
	for _, fn := range scope {
		loops := loopsOf(fn)
		if len(loops) == 0 {
			continue
		}
		var g *Gate
		var s *Summary
		for i, l := range loops {
			key := fmt.Sprintf("%s: loop %d terminates", shortFn(fn), i+1)
			pos := l.Header.Instrs[0].Pos()
			if ro := rangedOver(l); ro != nil && (ro.Kind == "range-next" || ro.Full) {
				c.OK("C12.R3", key, pos, "range over a finite collection")
				continue
			}
			if g == nil {
				g = NewGate(c.P)
				g.Inline = inlineOnly()
				s = g.Eval(fn)
			}
			u := g.U
			if ct := countedLoop(u, s, l); ct != nil && ct.StepOK && ct.Step != 0 {
				// bounded in the direction of travel by the continue condition
				okB := false
				for _, v := range u.bdd.Support(ct.Cont) {
					at := u.atoms[v]
					pos := u.bdd.Implies(ct.Cont, u.bdd.Var(v))
					neg := u.bdd.Implies(ct.Cont, u.bdd.Not(u.bdd.Var(v)))
					if at.Op == "lt" {
						// a < b stops holding as the index moves when a grows / b shrinks with it
						ma, oka := monoIn(u, at.Args[0], ct.Idx)
						mb, okb := monoIn(u, at.Args[1], ct.Idx)
						if oka && okb && (ma != 0 || mb != 0) {
							dir := 0 // +1: a-b increases with idx, -1: decreases
							switch {
							case ma >= 0 && mb <= 0:
								dir = 1
							case ma <= 0 && mb >= 0:
								dir = -1
							}
							if ct.Step > 0 && ((pos && dir == 1) || (neg && dir == -1)) {
								okB = true
							}
							if ct.Step < 0 && ((pos && dir == -1) || (neg && dir == 1)) {
								okB = true
							}
						}
					}
					if at.Op == "eq" && neg && (at.Args[0] == ct.Idx || at.Args[1] == ct.Idx) && (ct.Step == 1 || ct.Step == -1) {
						okB = true // i != bound with unit step from below (merge loops are checked by the bounds audit)
					}
				}
				if okB {
					c.OK("C12.R3", key, pos, fmt.Sprintf("counted loop, step %+d, bounded by its condition", ct.Step))
					continue
				}
			}
			// scanner-driven loops: for scanner.Scan() { ... }
			if isScannerLoop(l) {
				c.OK("C12.R3", key, pos, "driven by a scanner whose Scan() terminates (its own loops are audited)")
				continue
			}
			// shrinking string: a loop-carried string whose next value is a proper suffix slice
			if shrinkingString(u, s, l, g) {
				c.OK("C12.R3", key, pos, "variant: the loop-carried string is replaced by a strictly shorter suffix in every iteration")
				continue
			}
			// two-pointer merge: both indexes only increase, loop runs while both are below their bounds
			if mergeLoop(u, s, l) {
				c.OK("C12.R3", key, pos, "variant: two indexes, one of them increases in every iteration, both bounded by the condition")
				continue
			}
			if cutLoop(u, s, l) {
				c.OK("C12.R3", key, pos, "variant: the loop-carried string becomes the part after its first separator (strictly shorter) or empty, and the loop runs only while it is non-empty")
				continue
			}
			if nhrFn := c.P.Func("rules", "NewHostRule"); nhrFn != nil && (fn == nhrFn || (c.P.IsNewHelper(fn) && inGroupOf(c.P, fn, nhrFn))) && tokenizerLoop(c, u, s, l) {
				c.OK("C12.R3", key, pos, "declared variant: each iteration calls the tokenizer on the remainder, which is non-empty by the loop condition; the tokenizer's three forward scans store back a suffix starting after at least one consumed byte (scan agreement is decided by C18.R2/R3)")
				continue
			}
			if why, ok := variants[FuncName(fn)]; ok && why != "" && consumingLoop(l) {
				c.OK("C12.R3", key, pos, "declared variant: "+why)
				continue
			}
			if _, declared := variants[FuncName(fn)]; !declared && consumingLoop(l) && fn.Pkg != nil && strings.HasSuffix(fn.Pkg.Pkg.Path(), "/filterlist") {
				c.OK("C12.R3", key, pos, "variant: each iteration consumes input from a buffered reader over a finite source and the loop is left when the reader reports an error or no data")
				continue
			}
			c.Fail("C12.R3", key, pos, "UNDECIDED: not a range, not a bounded counted loop, and no declared variant applies")
		}
	}
	// recursion
	cg := map[*ssa.Function][]*ssa.Function{}
	for _, fn := range scope {
		eachInstr(fn, func(_ *ssa.BasicBlock, in ssa.Instruction) {
			if ci, ok := in.(ssa.CallInstruction); ok {
				for _, cal := range c.P.Callees(ci) {
					if inScope[cal] {
						cg[fn] = append(cg[fn], cal)
					}
				}
			}
		})
	}
	bad := ""
	state := map[*ssa.Function]int{}
	var dfs func(f *ssa.Function, path []string)
	dfs = func(f *ssa.Function, path []string) {
		state[f] = 1
		for _, n := range cg[f] {
			if state[n] == 1 && bad == "" {
				bad = "recursion: " + strings.Join(append(path, shortFn(f), shortFn(n)), " -> ")
			}
			if state[n] == 0 {
				dfs(n, append(path, shortFn(f)))
			}
		}
		state[f] = 2
	}
	for _, fn := range scope {
		if state[fn] == 0 {
			dfs(fn, nil)
		}
	}
	c.Check(bad == "", "C12.R3", "no recursion among the library functions in scope", token.NoPos, fmt.Sprintf("call graph over %d functions is acyclic", len(scope)), bad)
}

// consumingLoop: an unconditional `for {}` whose body calls a reader/scanner method in its first block and returns on its error.
func consumingLoop(l *Loop) bool {
	for b := range l.Blocks {
		for _, in := range b.Instrs {
			if ci, ok := in.(ssa.CallInstruction); ok {
				n := ""
				if cal := ci.Common().StaticCallee(); cal != nil {
					n = cal.Name()
				} else if ci.Common().IsInvoke() {
					n = ci.Common().Method.Name()
				}
				switch n {
				case "readNextLine", "ReadBytes", "Read", "Scan", "ReadString":
					return len(l.Exits) > 0
				}
				// a function of the repository that reads from a buffered reader itself (the line
				// reader, under whatever name and in whatever type)
				if cal := ci.Common().StaticCallee(); cal != nil && cal.Blocks != nil && readsFromReader(cal, 0) {
					return len(l.Exits) > 0
				}
			}
		}
	}
	// index-advancing scanner loop
	for b := range l.Blocks {
		for _, in := range b.Instrs {
			if st, ok := in.(*ssa.Store); ok {
				if _, f, ok := fieldOf(st.Addr); ok && strings.Contains(f, "Idx") {
					return len(l.Exits) > 0
				}
			}
		}
	}
	return false
}

func shrinkingString(u *U, s *Summary, l *Loop, gs ...*Gate) bool {
	for _, in := range l.Header.Instrs {
		ph, ok := in.(*ssa.Phi)
		if !ok {
			break
		}
		if !isStringT(ph.Type()) {
			continue
		}
		p := s.Env[ph]
		all := true
		n := 0
		for i, pr := range l.Header.Preds {
			if !l.Blocks[pr] {
				continue
			}
			n++
			v := s.Env[ph.Edges[i]]
			// v = slice(p, lo, nil) with lo >= 1 provable
			if v == nil || v.Op != "slice" || v.Args[0] != p || v.Args[2] != nil || v.Args[1] == nil {
				all = false
				continue
			}
			L := NewLin(u)
			L.assumeCond(s.RC[pr])
			L.registerTerms(v.Args[1])
			L.resolveNeqs()
			if !L.entails(L.linearize(u.Int(1)), L.linearize(v.Args[1]), 0) {
				if len(gs) == 0 || !progressByRefutation(u, gs[0], s, s.RC[pr], v.Args[1]) {
					all = false
				}
			}
		}
		if all && n > 0 {
			// and the loop runs only while the string is non-empty or exits otherwise
			return true
		}
	}
	return false
}

// progressByRefutation proves lo >= 1 on the paths cond by refutation: with
// lo <= 0 and the loop lemmas, the positions that are forced to zero are
// substituted into cond, and every case of the result must contradict linear
// arithmetic (a scan that stopped at a byte and a scan that would not have
// started at the same byte cannot both be on the path).
func progressByRefutation(u *U, g *Gate, s *Summary, cond Ref, lo *E) bool {
	if cond == False {
		return true
	}
	L := NewLin(u)
	L.cond = cond
	loopFacts(L, g, s, s.Fn)
	L.assumeCond(cond)
	L.registerTerms(lo)
	L.resolveNeqs()
	L.leE(lo, u.Int(0), 0)
	zero := newLin()
	sub := map[string]*E{}
	seen := map[*E]bool{}
	var rec func(x *E)
	rec = func(x *E) {
		if x == nil || seen[x] {
			return
		}
		seen[x] = true
		if x.Op == "loopphi" && isIntLike(x) {
			q := L.linearize(x)
			if L.entails(q, zero, 0) && L.entails(zero, q, 0) {
				sub[x.key] = u.Int(0)
			}
		}
		if x.Op == "bool" {
			for _, a := range u.bdd.Support(x.B) {
				rec(u.atoms[a])
			}
			return
		}
		for _, a := range x.Args {
			rec(a)
		}
	}
	rec(lo)
	for _, a := range u.bdd.Support(cond) {
		rec(u.atoms[a])
	}
	if len(sub) == 0 {
		return false
	}
	empty, _ := theoryEmpty(u, u.SubstBool(cond, sub), True)
	return empty
}

func mergeLoop(u *U, s *Summary, l *Loop) bool {
	var phis []*ssa.Phi
	for _, in := range l.Header.Instrs {
		if ph, ok := in.(*ssa.Phi); ok && isIntType(ph.Type()) {
			phis = append(phis, ph)
		}
	}
	if len(phis) != 2 {
		return false
	}
	// on every latch edge each φ is unchanged or +1, and at least one is +1
	for i, pr := range l.Header.Preds {
		if !l.Blocks[pr] {
			continue
		}
		inc := 0
		for _, ph := range phis {
			st, ok := stepOf(ph.Edges[i], ph)
			if !ok || st < 0 {
				return false
			}
			if st > 0 {
				inc++
			}
		}
		_ = inc
	}
	// total progress: the merged latch φ-values: at least one index strictly grows on every path through the body
	for _, lt := range l.Latches {
		_ = lt
	}
	cont := False
	for _, lt := range l.Latches {
		cont = u.bdd.Or(cont, s.RC[lt])
	}
	bounded := 0
	for _, ph := range phis {
		p := s.Env[ph]
		for _, v := range u.bdd.Support(cont) {
			at := u.atoms[v]
			if (at.Op == "eq" || at.Op == "lt") && (at.Args[0] == p || at.Args[1] == p) {
				bounded++
				break
			}
		}
	}
	return bounded == 2
}

// checkInert implements R4 and R5.
func checkInert(c *Ctx) {
	nr := c.P.Func("rules", "NewRule")
	if nr == nil {
		c.Fail("C12.R4", "anchor:NewRule", token.NoPos, "unresolved anchor")
		return
	}
	ctors := map[string]*ssa.Function{}
	for _, n := range []string{"NewCosmeticRule", "NewHostRule", "NewNetworkRule"} {
		if f := c.P.Func("rules", n); f != nil {
			ctors[n] = f
		}
	}
	{
		g := NewGate(c.P)
		g.Inline = inlineOnly()
		if ic := c.P.Func("rules", "isComment"); ic != nil {
			g.Pure[FuncName(ic)] = true
		}
		if ic := c.P.Func("rules", "isCosmetic"); ic != nil {
			g.Pure[FuncName(ic)] = true
		}
		// role successor (round 13): when isComment is gone, the classifier NewRule hands
		// the line to (an unexported function of the package from one string to one basic
		// value) is read in place, and the inert condition is read off the (nil, nil) return
		successor := c.P.Func("rules", "isComment") == nil
		if successor {
			var names []string
			for _, b := range nr.Blocks {
				for _, in := range b.Instrs {
					call, ok := in.(*ssa.Call)
					if !ok {
						continue
					}
					f := call.Call.StaticCallee()
					if f == nil || f.Pkg != nr.Pkg || f.Object() == nil || f.Object().Exported() || f.Name() == "isCosmetic" {
						continue
					}
					sg := f.Signature
					if sg.Recv() != nil || sg.Params().Len() != 1 || sg.Results().Len() != 1 {
						continue
					}
					pb, ok1 := sg.Params().At(0).Type().Underlying().(*types.Basic)
					_, ok2 := sg.Results().At(0).Type().Underlying().(*types.Basic)
					if ok1 && ok2 && pb.Kind() == types.String {
						names = append(names, FuncName(f))
					}
				}
			}
			g.Inline = inlineOnly(names...)
		}
		s := g.Eval(nr)
		u := g.U
		ps := g.ParamExprs(nr)
		trimmed := u.Call("strings.TrimSpace", types.Typ[types.String], ps[0])
		empty := u.ToBool(u.Eq(trimmed, u.Str("")))
		var comment Ref = False
		for _, at := range u.atoms {
			if at.Op == "call" && strings.HasSuffix(at.Aux, "rules.isComment") && at.Args[0].key == trimmed.key {
				comment = u.Atom(at)
			}
		}
		if successor {
			var r0 Ref = False
			for _, r := range s.Rets {
				if r.Vals[0].IsNil() && r.Vals[1].IsNil() {
					r0 = u.bdd.Or(r0, r.Cond)
				}
			}
			onLine := r0 != False && r0 != empty && u.bdd.Implies(empty, r0)
			for _, at := range u.AtomsOf(r0) {
				if at.Op == "call" && strings.HasSuffix(at.Aux, "rules.isCosmetic") {
					onLine = false
				}
				// an atom speaks of the trimmed line, or of no parameter at all (a closure over the cell the line is kept in)
				if u.Mentions(at, func(e *E) bool { return e == ps[1] }) || !u.Mentions(at, func(e *E) bool { return e.key == trimmed.key }) && u.Mentions(at, func(e *E) bool { return e == ps[0] }) {
					onLine = false
				}
			}
			if onLine {
				// blank lines are inert, and so is a class of lines decided from the trimmed line alone
				comment = r0
			}
		}
		inert := u.bdd.Or(empty, comment)
		bad := ""
		if comment == False {
			bad = "the trimmed line is not tested with isComment"
		}
		nCtor := 0
		// a constructor whose body runs in place (through a helper outside the
		// vocabulary) shows as the store of the rule text into a fresh rule
		inPlace := map[string]bool{}
		for _, ef := range s.Effects {
			if ef.Kind == "store" && ef.Addr.Op == "faddr" && ef.Addr.Aux == "RuleText" && (ef.Addr.Args[0].Op == "alloc" || ef.Addr.Args[0].Op == "new") {
				tn := ""
				if pt, ok := ef.Addr.Args[0].Typ.(*types.Pointer); ok {
					if nt, ok := pt.Elem().(*types.Named); ok {
						tn = nt.Obj().Name()
					}
				}
				n := "New" + tn
				if _, isCtor := ctors[n]; !isCtor || inPlace[n] {
					continue
				}
				inPlace[n] = true
				nCtor++
				if u.bdd.And(ef.Cond, inert) != False {
					bad = n + " (in place) can run on a blank or comment line"
				}
				idOK := false
				for _, e2 := range s.Effects {
					if e2.Kind == "store" && e2.Addr.Op == "faddr" && e2.Addr.Aux == "FilterListID" && e2.Addr.Args[0] == ef.Addr.Args[0] && e2.Val == ps[1] {
						idOK = true
					}
				}
				if ef.Val.key != trimmed.key || !idOK {
					c.Fail("C12.R5", "NewRule: "+n+" receives the trimmed line and the list id", ef.Pos, "in place: text is "+clip(u.Show(ef.Val), 60))
				} else {
					c.OK("C12.R5", "NewRule: "+n+" receives the trimmed line and the list id", ef.Pos, "TrimSpace(line), filterListID (constructor body in place)")
				}
				continue
			}
			if ef.Kind != "call" {
				continue
			}
			for n, f := range ctors {
				if ef.Call.Aux == calleeName(f) {
					nCtor++
					if u.bdd.And(ef.Cond, inert) != False {
						bad = n + " can run on a blank or comment line"
					}
					if ef.Call.Args[0].key != trimmed.key || ef.Call.Args[1] != ps[1] {
						c.Fail("C12.R5", "NewRule: "+n+" receives the trimmed line and the list id", ef.Pos, "arguments are "+clip(u.Show(ef.Call.Args[0]), 60)+", "+clip(u.Show(ef.Call.Args[1]), 40))
					} else {
						c.OK("C12.R5", "NewRule: "+n+" receives the trimmed line and the list id", ef.Pos, "TrimSpace(line), filterListID")
					}
				}
			}
		}
		okNil := false
		for _, r := range s.Rets {
			if r.Vals[0].IsNil() && r.Vals[1].IsNil() && (r.Cond == inert || successor && comment != False) {
				okNil = true
			}
		}
		if !okNil && bad == "" {
			bad = "NewRule does not return (nil, nil) exactly for blank and comment lines"
		}
		if nCtor != 3 && bad == "" {
			bad = fmt.Sprintf("expected the three constructors to be called, found %d", nCtor)
		}
		c.Check(bad == "", "C12.R4", "NewRule: blank or comment => (nil, nil) before any constructor", nr.Pos(), "inert = TrimSpace(line) == \"\" || isComment(trimmed)", bad)
	}
	// constructors store text and id
	for n, f := range ctors {
		g := NewGate(c.P)
		g.Inline = inlineOnly()
		s := g.Eval(f)
		ps := g.ParamExprs(f)
		okT, okI := false, false
		for _, ef := range s.Effects {
			if ef.Kind == "store" && ef.Addr.Op == "faddr" && (ef.Addr.Args[0].Op == "alloc" || ef.Addr.Args[0].Op == "new") {
				if ef.Addr.Aux == "RuleText" && ef.Val == ps[0] {
					okT = true
				}
				if ef.Addr.Aux == "FilterListID" && ef.Val == ps[1] {
					okI = true
				}
			}
		}
		c.Check(okT && okI, "C12.R5", n+": RuleText and FilterListID are the parameters", f.Pos(), "stored unmodified into the new rule",
			fmt.Sprintf("the rule does not keep the given text/list id (text stored unmodified=%v, id stored=%v): Text() would differ from the trimmed line", okT, okI))
	}
	// scanner acceptance
	if sc := c.P.Method("filterlist", "RuleScanner", "Scan"); sc != nil {
		g := NewGate(c.P)
		inlIg := []string{}
		if ig := c.P.Method("filterlist", "RuleScanner", "isIgnored"); ig != nil {
			inlIg = append(inlIg, FuncName(ig)) // the ignore test is expanded: it is stated semantically below
		}
		g.Inline = inlineOnly(inlIg...)
		s := g.Eval(sc)
		u := g.U
		bad := "Scan never returns true"
		var call *E
		for _, ef := range s.Effects {
			if ef.Kind == "call" && ef.Call.Aux == calleeName(nr) {
				call = ef.Call
			}
		}
		if call == nil {
			bad = "Scan does not parse lines with NewRule"
		} else {
			rule := u.mk("extract", "0", nil, call)
			errE := u.mk("extract", "1", nil, call)
			good := u.bdd.And(u.bdd.Not(u.ToBool(u.Eq(rule, u.mk("nil", "", nil)))), u.ToBool(u.Eq(errE, u.mk("nil", "", nil))))
			for _, r := range s.Rets {
				if r.Vals[0].Op == "bool" && r.Vals[0].B == True {
					bad = ""
					if !u.bdd.Implies(r.Cond, good) {
						bad = "a line is accepted although NewRule returned nil or an error: the engines would index a nil rule / a rejected line"
					}
					// not ignored: not (scanner ignores cosmetic rules and the rule is a cosmetic rule)
					var igF, isCos Ref = False, False
					for _, at := range u.AtomsOf(r.Cond) {
						if at.Op == "field" && at.Aux == "ignoreCosmetic" {
							igF = u.Atom(at)
						}
						if u.Mentions(at, func(x *E) bool {
							return (x.Op == "typeassert" || x.Op == "istype") && strings.Contains(x.Aux, "rules.CosmeticRule") && len(x.Args) > 0 && x.Args[0] == rule
						}) {
							isCos = u.Atom(at)
						}
					}
					ign := igF != False && isCos != False && u.bdd.Implies(r.Cond, u.bdd.Not(u.bdd.And(igF, isCos)))
					if !ign && bad == "" {
						bad = "ignored rules (cosmetic rules with IgnoreCosmetic) are accepted"
					}
				}
			}
		}
		c.Check(bad == "", "C12.R4", "RuleScanner.Scan: accepts a line only for rule != nil, err == nil, not ignored", sc.Pos(), "reach condition of 'return true'", bad)
	}
}

// cutLoop: a loop-carried string p with next = after-part of strings.Cut(p, sep), sep a non-empty constant, running while p != "".
func cutLoop(u *U, s *Summary, l *Loop) bool {
	cont := contCond(u, s, l)
	// the continue condition of the NEXT iteration, per back edge, when the loop is controlled by a
	// loop-carried flag (for found := true; found; { _, rest, found = strings.Cut(rest, sep) })
	contNext := func(edge int) Ref {
		for _, in := range l.Header.Instrs {
			ph, ok := in.(*ssa.Phi)
			if !ok {
				break
			}
			if b, isB := ph.Type().Underlying().(*types.Basic); !isB || b.Kind() != types.Bool {
				continue
			}
			pe := s.Env[ph]
			v := s.Env[ph.Edges[edge]]
			if pe == nil || v == nil {
				continue
			}
			switch cont {
			case u.ToBool(pe):
				return u.ToBool(v)
			case u.bdd.Not(u.ToBool(pe)):
				return u.bdd.Not(u.ToBool(v))
			}
		}
		return True
	}
	for _, in := range l.Header.Instrs {
		ph, ok := in.(*ssa.Phi)
		if !ok {
			break
		}
		if !isStringT(ph.Type()) {
			continue
		}
		p := s.Env[ph]
		nonEmpty := u.bdd.Not(u.ToBool(u.Eq(p, u.Str(""))))
		okAll, n := true, 0
		for i, pr := range l.Header.Preds {
			if !l.Blocks[pr] {
				continue
			}
			n++
			v := s.Env[ph.Edges[i]]
			if v == nil {
				okAll = false
				continue
			}
			cn := contNext(i)
			// every alternative of the next value that is followed by another iteration is a suffix
			// p[lo:] with lo >= 1, or "" while p is non-empty: len(p) strictly decreases
			for leaf, cond := range u.Leaves(v) {
				c2 := u.bdd.And(u.bdd.And(s.RC[pr], cond), cn)
				if c2 == False {
					continue
				}
				if sv, isS := leaf.StrVal(); isS && sv == "" {
					if !u.bdd.Implies(u.bdd.And(cont, c2), nonEmpty) && cont != nonEmpty {
						okAll = false
					}
					continue
				}
				if leaf.Op != "slice" || leaf.Args[0] != p || leaf.Args[2] != nil || leaf.Args[1] == nil {
					okAll = false
					continue
				}
				L := NewLin(u)
				L.assumeCond(c2)
				L.registerTerms(leaf.Args[1])
				L.resolveNeqs()
				if !L.entails(L.linearize(u.Int(1)), L.linearize(leaf.Args[1]), 0) {
					okAll = false
				}
			}
		}
		if okAll && n > 0 {
			return true
		}
	}
	return false
}

// tokenizerLoop: the loop runs while len(*cell) != 0 and calls a func(*string) string on that cell in every iteration.
func tokenizerLoop(c *Ctx, u *U, s *Summary, l *Loop) bool {
	cont := contCond(u, s, l)
	okCont := false
	for _, at := range u.AtomsOf(cont) {
		if at.Op == "eq" && at.Args[0].Op == "len" && isIntConst(at.Args[1], 0) && u.bdd.Implies(cont, u.bdd.Not(u.Atom(at))) {
			okCont = true
		}
	}
	okCall := false
	for b := range l.Blocks {
		for _, in := range b.Instrs {
			if cl, ok := in.(*ssa.Call); ok {
				if cal := cl.Call.StaticCallee(); cal != nil && c.P.IsLibFunc(cal) && cal == tokenizerRole(c.P, c.P.Func("rules", "NewHostRule")) {
					if s.RC[b] == u.bdd.And(s.RC[l.Header], cont) {
						okCall = true
					}
				}
			}
		}
	}
	return okCont && okCall
}

// monoIn classifies e as a function of idx: +1 for idx, idx+c, c+idx, idx-c;
// -1 for c-idx; 0 (ok) when e does not mention idx; !ok otherwise.  c may be
// any expression that does not mention idx.
func monoIn(u *U, e, idx *E) (int, bool) {
	mentions := func(x *E) bool { return u.Mentions(x, func(y *E) bool { return y == idx }) }
	if e == idx {
		return 1, true
	}
	if !mentions(e) {
		return 0, true
	}
	if e.Op == "bin" && (e.Aux == "+" || e.Aux == "-") {
		a, b := e.Args[0], e.Args[1]
		ma, oka := monoIn(u, a, idx)
		mb, okb := monoIn(u, b, idx)
		if !oka || !okb {
			return 0, false
		}
		if e.Aux == "-" {
			mb = -mb
		}
		if ma != 0 && mb != 0 && ma != mb {
			return 0, false
		}
		if ma != 0 {
			return ma, true
		}
		return mb, true
	}
	if e.Op == "convert" && isIntLike(e) && isIntLike(e.Args[0]) {
		return monoIn(u, e.Args[0], idx)
	}
	return 0, false
}

// onlyReachedFrom reports whether every chain of callers of fn (static calls,
// closures, method values; through unexported functions) starts at root.
func onlyReachedFrom(p *Prog, fn, root *ssa.Function) bool {
	cg := p.CG()
	seen := map[*ssa.Function]bool{}
	var up func(f *ssa.Function, depth int) bool
	up = func(f *ssa.Function, depth int) bool {
		if f == root {
			return true
		}
		if seen[f] {
			return true
		}
		seen[f] = true
		if depth > 8 {
			return false
		}
		// closures: reached through their parent
		if f.Parent() != nil {
			return up(f.Parent(), depth+1)
		}
		if f.Object() != nil && f.Object().Exported() && f.Synthetic == "" {
			return false
		}
		n := cg.Nodes[f]
		if n == nil || len(n.In) == 0 {
			return false
		}
		viaLibrary := false
		for _, e := range n.In {
			if e.Caller == nil || e.Caller.Func == nil {
				return false
			}
			cal := e.Caller.Func
			if !p.IsRepoFunc(cal) && cal.Synthetic == "" {
				// called back by a library function (slices.DeleteFunc): attribute to whoever passed it
				viaLibrary = true
				continue
			}
			if !up(cal, depth+1) {
				return false
			}
		}
		if viaLibrary {
			// every repository function that takes f as a value must itself be reached from root only
			users := 0
			for _, user := range p.AllLibFuncs() {
				uses := false
				eachInstr(user, func(_ *ssa.BasicBlock, in ssa.Instruction) {
					if mc, ok := in.(*ssa.MakeClosure); ok && mc.Fn == ssa.Value(f) {
						uses = true
					}
					if _, isCall := in.(ssa.CallInstruction); isCall {
						for _, a := range in.(ssa.CallInstruction).Common().Args {
							if a == ssa.Value(f) {
								uses = true
							}
						}
						return
					}
					for _, op := range in.Operands(nil) {
						if op != nil && *op == ssa.Value(f) {
							uses = true
						}
					}
				})
				if uses {
					users++
					if !up(user, depth+1) {
						return false
					}
				}
			}
			if users == 0 {
				return false
			}
		}
		return true
	}
	return up(fn, 0)
}

// readsFromReader: fn calls (*bufio.Reader).ReadBytes / ReadString / Read, directly or through a
// function of its own package.
func readsFromReader(fn *ssa.Function, depth int) bool {
	found := false
	eachInstr(fn, func(_ *ssa.BasicBlock, in ssa.Instruction) {
		ci, ok := in.(ssa.CallInstruction)
		if !ok || found {
			return
		}
		cal := ci.Common().StaticCallee()
		if cal == nil {
			return
		}
		switch calleeName(cal) {
		case "(*bufio.Reader).ReadBytes", "(*bufio.Reader).ReadString", "(*bufio.Reader).Read":
			found = true
			return
		}
		if depth < 2 && cal.Blocks != nil && cal.Pkg != nil && fn.Pkg != nil && cal.Pkg == fn.Pkg && readsFromReader(cal, depth+1) {
			found = true
		}
	})
	return found
}
