package main

// Obligations, verdicts, evidence and known findings.

import (
	"crypto/sha1"
	"encoding/json"
	"fmt"
	"go/token"
	"os"
	"path/filepath"
	"sort"
	"strings"
	"time"
)

type Status int

const (
	StOK Status = iota
	StViolation
	StKnown
)

// Ob is one obligation: a rule applied to one construct.
type Ob struct {
	Rule   string `json:"rule"`   // e.g. "C01.R1"
	Key    string `json:"key"`    // construct key: function + role + canonical expression; never a line number
	Pos    string `json:"pos"`    // file:line:col, for diagnosis only
	Status string `json:"status"` // discharged | violation | known-finding
	How    string `json:"how"`    // how discharged / why violated
	st     Status
}

// RuleInfo carries the instance floor of a rule.
type RuleInfo struct {
	ID        string `json:"id"`
	Engine    string `json:"engine"`
	What      string `json:"what"`
	Instances int    `json:"instances"`
	Floor     int    `json:"floor"`
}

// Ctx collects the obligations of one property run.
type Ctx struct {
	Prop      string
	Tier      string
	P         *Prog
	Obs       []*Ob
	Rules     map[string]*RuleInfo
	ruleOrd   []string
	Funcs     map[string]bool // functions analysed
	Paths     int             // paths / valuations enumerated
	Atoms     map[string]bool
	Notes     []string
	Known     []KnownFinding
	knownHit  []string
	Extra     map[string]any
	noImports bool // set on child contexts whose parent must not be re-entered
}

func NewCtx(prop, tier string, p *Prog) *Ctx {
	return &Ctx{Prop: prop, Tier: tier, P: p, Rules: map[string]*RuleInfo{},
		Funcs: map[string]bool{}, Atoms: map[string]bool{}, Extra: map[string]any{}}
}

// Rule declares a rule with its instance floor.
func (c *Ctx) Rule(id, engine, what string, floor int) {
	if _, ok := c.Rules[id]; !ok {
		c.ruleOrd = append(c.ruleOrd, id)
		c.Rules[id] = &RuleInfo{ID: id, Engine: engine, What: what, Floor: floor}
	}
}

func (c *Ctx) add(rule, key string, pos token.Pos, st Status, how string) {
	ri := c.Rules[rule]
	if ri == nil {
		panic("undeclared rule " + rule)
	}
	ri.Instances++
	ps := "-"
	if c.P != nil {
		ps = c.P.Pos(pos)
	}
	ob := &Ob{Rule: rule, Key: key, Pos: ps, How: how, st: st}
	if st == StViolation {
		for _, k := range c.Known {
			if k.Fixed == "" && k.Property == c.Prop && k.Rule == rule && k.Key == key {
				ob.st = StKnown
				c.knownHit = append(c.knownHit, fmt.Sprintf("%s %s: %s", rule, key, k.What))
			}
		}
	}
	switch ob.st {
	case StOK:
		ob.Status = "discharged"
	case StViolation:
		ob.Status = "violation"
	case StKnown:
		ob.Status = "known-finding"
	}
	c.Obs = append(c.Obs, ob)
}

// OK records a discharged obligation.
func (c *Ctx) OK(rule, key string, pos token.Pos, how string) { c.add(rule, key, pos, StOK, how) }

// Fail records a violated obligation.
func (c *Ctx) Fail(rule, key string, pos token.Pos, why string) {
	c.add(rule, key, pos, StViolation, why)
}

// Check records ok or failure depending on cond.
func (c *Ctx) Check(cond bool, rule, key string, pos token.Pos, how, why string) bool {
	if cond {
		c.OK(rule, key, pos, how)
	} else {
		c.Fail(rule, key, pos, why)
	}
	return cond
}

// Fn marks a function as analysed.
func (c *Ctx) Fn(names ...string) {
	for _, n := range names {
		c.Funcs[n] = true
	}
}

// KnownFinding is an entry of /verif/known_findings.json.
type KnownFinding struct {
	Property string `json:"property"`
	Rule     string `json:"rule,omitempty"`
	Key      string `json:"key,omitempty"`
	What     string `json:"what"`
	Input    string `json:"input,omitempty"`
	Fixed    string `json:"fixed,omitempty"` // commit; a fixed entry suppresses nothing
}

func loadKnown(path string) ([]KnownFinding, error) {
	b, err := os.ReadFile(path)
	if err != nil {
		if os.IsNotExist(err) {
			return nil, nil
		}
		return nil, err
	}
	var kf struct {
		Findings []KnownFinding `json:"findings"`
	}
	if err := json.Unmarshal(b, &kf); err != nil {
		return nil, fmt.Errorf("%s: %w", path, err)
	}
	return kf.Findings, nil
}

// Finish applies floors, prints the report, writes evidence (and a replay file
// on violation) and returns the process exit code.
func (c *Ctx) Finish(verifDir string, seed int64, start time.Time, explanation string, trusted, assumptions []string) int {
	// floors
	for _, id := range c.ruleOrd {
		ri := c.Rules[id]
		if ri.Instances < ri.Floor {
			c.Obs = append(c.Obs, &Ob{Rule: id, Key: "instance-floor", Pos: "-", Status: "violation", st: StViolation,
				How: fmt.Sprintf("rule matched %d instance(s), fewer than the %d confirmed by hand: the construct the rule inspects was not found (fail closed)", ri.Instances, ri.Floor)})
		}
	}
	sort.SliceStable(c.Obs, func(i, j int) bool {
		a, b := c.Obs[i], c.Obs[j]
		if a.Rule != b.Rule {
			return a.Rule < b.Rule
		}
		return posLess(a.Pos, b.Pos)
	})
	var viol, known, okc int
	for _, o := range c.Obs {
		switch o.st {
		case StViolation:
			viol++
		case StKnown:
			known++
		default:
			okc++
		}
	}
	for _, o := range c.Obs {
		if o.st == StViolation {
			fmt.Printf("%s: %s: %s: %s\n", o.Pos, o.Rule, o.Key, o.How)
		}
	}
	sort.Strings(c.knownHit)
	for _, k := range c.knownHit {
		fmt.Printf("KNOWN-FINDING: property=%s %s\n", c.Prop, k)
	}

	// evidence
	samples := []any{}
	perRule := map[string]int{}
	for _, o := range c.Obs {
		if o.st != StOK || perRule[o.Rule] < 3 {
			samples = append(samples, o)
			perRule[o.Rule]++
		}
	}
	rules := []*RuleInfo{}
	for _, id := range c.ruleOrd {
		rules = append(rules, c.Rules[id])
	}
	fns := []string{}
	for f := range c.Funcs {
		fns = append(fns, f)
	}
	sort.Strings(fns)
	keys := map[string]bool{}
	for _, o := range c.Obs {
		keys[o.Rule+"|"+o.Key] = true
	}
	cov := map[string]any{
		"explanation":         explanation,
		"obligations":         len(c.Obs),
		"discharged":          okc,
		"known_findings_hit":  c.knownHit,
		"evaluations":         len(c.Obs),
		"distinct_nontrivial": len(keys),
		"rule":                "one obligation per (rule, construct) found in /repo's current source; distinct = distinct (rule, construct-key) pairs; all are non-trivial in the sense that each names a concrete function/site/table row that the rule inspected",
		"samples":             samples,
		"rules":               rules,
		"functions_analysed":  fns,
		"paths_or_valuations": c.Paths,
		"atoms":               len(c.Atoms),
		"exhaustive":          true,
		"checker_cmd":         strings.Join(os.Args, " "),
		"trusted_base":        trusted,
		"notes":               c.Notes,
	}
	for k, v := range c.Extra {
		if !strings.HasPrefix(k, "__") {
			cov[k] = v
		}
	}
	if assumptions == nil {
		assumptions = []string{}
	}
	assumptions = append(assumptions,
		"the verdict is about /repo's source as loaded by go/packages for the default build configuration (linux/amd64, no build tags)",
		"undecided clauses of the property (listed in DESIGN.md section 6 and in MANIFEST level_note) are not covered by this check")
	if trusted == nil {
		trusted = []string{}
	}
	ev := map[string]any{
		"property_id": c.Prop,
		"tier":        c.Tier,
		"seed":        seed,
		"level":       "other",
		"coverage":    cov,
		"assumptions": assumptions,
		"wall_s":      time.Since(start).Seconds(),
		"violations":  viol,
	}
	// sub-run summary
	if subRun.jsonOut != "" {
		var vs []*Ob
		for _, o := range c.Obs {
			if o.st == StViolation {
				vs = append(vs, o)
			}
		}
		sb, _ := json.Marshal(map[string]any{"property": c.Prop, "obligations": len(c.Obs), "discharged": okc, "violations": vs, "config": c.Extra["config"], "wall_s": time.Since(start).Seconds()})
		_ = os.WriteFile(subRun.jsonOut, sb, 0o644)
	}
	if subRun.noEvidence {
		for _, o := range c.Obs {
			if o.st == StViolation {
				fmt.Printf("%s: %s: %s: %s\n", o.Pos, o.Rule, clipS(o.Key, 100), clipS(o.How, 200))
			}
		}
		if viol > 0 {
			return 1
		}
		return 0
	}
	// merge sub-runs of the thorough tier
	if subRun.merge != "" {
		files, _ := filepath.Glob(filepath.Join(subRun.merge, "*.json"))
		sort.Strings(files)
		var configs, live []map[string]any
		for _, f := range files {
			b, err := os.ReadFile(f)
			if err != nil {
				continue
			}
			var m map[string]any
			if json.Unmarshal(b, &m) != nil {
				continue
			}
			name := strings.TrimSuffix(filepath.Base(f), ".json")
			m["name"] = name
			nv := 0
			if vsl, ok := m["violations"].([]any); ok {
				nv = len(vsl)
			}
			if strings.HasPrefix(name, "cfg-") {
				configs = append(configs, map[string]any{"config": name[4:], "obligations": m["obligations"], "violations": nv})
				if nv > 0 {
					viol += nv
					for _, v := range m["violations"].([]any) {
						if vm, ok := v.(map[string]any); ok {
							fmt.Printf("[%s] %v: %v: %v: %v\n", name[4:], vm["pos"], vm["rule"], vm["key"], vm["how"])
						}
					}
				}
			} else if strings.HasPrefix(name, "live-") {
				caught := nv > 0
				live = append(live, map[string]any{"seeded_change": name[5:], "reported": caught, "violations": nv})
				if !caught {
					fmt.Printf("LIVENESS: seeded change %s, which is known to break %s, is NOT reported by this check (the checker lost its teeth)\n", name[5:], c.Prop)
					viol++
				}
			}
		}
		cov["other_build_configurations"] = configs
		cov["liveness_seeded_changes"] = live
		ev["violations"] = viol
	}
	evDir := filepath.Join(verifDir, "evidence")
	_ = os.MkdirAll(evDir, 0o755)
	b, _ := json.MarshalIndent(ev, "", " ")
	if err := os.WriteFile(filepath.Join(evDir, c.Prop+".json"), append(b, '\n'), 0o644); err != nil {
		fmt.Fprintln(os.Stderr, "cannot write evidence:", err)
		return 2
	}
	fmt.Printf("%s %s: %d obligations, %d discharged, %d known findings, %d violations (%d functions, %.1fs)\n",
		c.Prop, c.Tier, len(c.Obs), okc, known, viol, len(fns), time.Since(start).Seconds())
	if viol > 0 {
		var vs []*Ob
		for _, o := range c.Obs {
			if o.st == StViolation {
				vs = append(vs, o)
			}
		}
		rb, _ := json.MarshalIndent(map[string]any{"property": c.Prop, "tier": c.Tier, "violations": vs}, "", " ")
		h := sha1.Sum(rb)
		rdir := filepath.Join(evDir, "replay")
		_ = os.MkdirAll(rdir, 0o755)
		rp := filepath.Join(rdir, fmt.Sprintf("%s-%x.json", c.Prop, h[:5]))
		_ = os.WriteFile(rp, append(rb, '\n'), 0o644)
		fmt.Printf("VIOLATION property=%s replay=%s\n", c.Prop, rp)
		return 1
	}
	return 0
}

// posLess orders "file:line:col" strings by file, then numerically.
func posLess(a, b string) bool {
	pa, pb := strings.Split(a, ":"), strings.Split(b, ":")
	if pa[0] != pb[0] {
		return pa[0] < pb[0]
	}
	for i := 1; i < 3; i++ {
		var x, y int
		if i < len(pa) {
			fmt.Sscan(pa[i], &x)
		}
		if i < len(pb) {
			fmt.Sscan(pb[i], &y)
		}
		if x != y {
			return x < y
		}
	}
	return false
}

func clipS(s string, n int) string {
	if len(s) > n {
		return s[:n] + "…"
	}
	return s
}
