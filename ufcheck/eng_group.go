package main

import (
	"go/token"

	"golang.org/x/tools/go/ssa"
)

// Helper transparency.
//
// The rule sets name the functions they reason about (anchors) and the
// functions they keep opaque (vocabulary).  A function that did not exist when
// the rule sets were confirmed (baseline_funcs.go) can be neither: it is a
// helper somebody extracted later.  The analyses treat such a helper as part of
// its callers: the gated evaluator expands it at every call site, structural
// searches look through it, and ownership rules accept a write in it exactly
// when every caller of the helper is a function that was allowed to make that
// write itself.

// IsNewHelper reports whether fn is a repository function (or a closure of one)
// that is not part of the confirmed vocabulary.
func (p *Prog) IsNewHelper(fn *ssa.Function) bool {
	if fn == nil || fn.Blocks == nil || !p.IsRepoFunc(fn) {
		return false
	}
	top := fn
	for top.Parent() != nil {
		top = top.Parent()
	}
	if o := top.Origin(); o != nil && o != top {
		top = o // an instantiation of a generic function: judged by the generic function
	}
	if top.Synthetic != "" && top.Name() != "init" {
		return false
	}
	if p.adopted[top] {
		return false
	}
	return !baselineFuncs[FuncName(top)]
}

// ResolveRole finds the callee of caller (directly, or through helpers outside
// the vocabulary) that fits a role.  Vocabulary functions come first.  When the
// function that had the role is gone and exactly one helper outside the
// vocabulary that caller calls directly fits, that helper is its successor: it
// is adopted into the vocabulary (kept opaque where the old function was, judged
// where the old function was judged).
func (p *Prog) ResolveRole(caller *ssa.Function, fits func(cal *ssa.Function) bool) *ssa.Function {
	var voc *ssa.Function
	eachInstrG(p, caller, func(_ *ssa.BasicBlock, in ssa.Instruction) {
		if ci, ok := in.(ssa.CallInstruction); ok {
			if cal := ci.Common().StaticCallee(); cal != nil && p.IsLibFunc(cal) && !p.IsNewHelper(cal) && fits(cal) {
				voc = cal
			}
		}
	})
	if voc != nil {
		return voc
	}
	cands := map[*ssa.Function]bool{}
	eachInstr(caller, func(_ *ssa.BasicBlock, in ssa.Instruction) {
		if ci, ok := in.(ssa.CallInstruction); ok {
			if cal := ci.Common().StaticCallee(); cal != nil && p.IsLibFunc(cal) && p.IsNewHelper(cal) && fits(cal) {
				cands[cal] = true
			}
		}
	})
	if len(cands) != 1 {
		return nil
	}
	for cal := range cands {
		if p.adopted == nil {
			p.adopted = map[*ssa.Function]bool{}
		}
		p.adopted[cal] = true
		return cal
	}
	return nil
}

// helperGroup returns the roots, their closures and every new helper reachable
// from them through static calls (transitively, through helpers only).
func helperGroup(p *Prog, roots ...*ssa.Function) map[*ssa.Function]bool {
	g := map[*ssa.Function]bool{}
	var add func(fn *ssa.Function)
	add = func(fn *ssa.Function) {
		if fn == nil || g[fn] || fn.Blocks == nil {
			return
		}
		g[fn] = true
		for _, a := range fn.AnonFuncs {
			add(a)
		}
		eachInstr(fn, func(_ *ssa.BasicBlock, in ssa.Instruction) {
			if ci, ok := in.(ssa.CallInstruction); ok {
				if cal := ci.Common().StaticCallee(); cal != nil && p.IsNewHelper(cal) {
					add(cal)
				}
			}
		})
	}
	for _, r := range roots {
		add(r)
	}
	return g
}

// groupFuncs lists a helper group in a stable order (roots first).
func groupFuncs(p *Prog, roots ...*ssa.Function) []*ssa.Function {
	g := helperGroup(p, roots...)
	var out []*ssa.Function
	seen := map[*ssa.Function]bool{}
	for _, r := range roots {
		if r != nil && !seen[r] {
			seen[r] = true
			out = append(out, r)
		}
	}
	for _, fn := range p.AllLibFuncs() {
		if g[fn] && !seen[fn] {
			seen[fn] = true
			out = append(out, fn)
		}
	}
	return out
}

// onlyUsedInGroup reports whether every use of fn (a call, or taking it as a
// value) occurs inside the group: nobody outside can reach the helper.
func onlyUsedInGroup(p *Prog, fn *ssa.Function, group map[*ssa.Function]bool) bool {
	top := fn
	for top.Parent() != nil {
		top = top.Parent()
	}
	if top.Object() != nil && top.Object().Exported() {
		return false
	}
	for _, user := range p.AllLibFuncs() {
		if group[user] {
			continue
		}
		used := false
		eachInstr(user, func(_ *ssa.BasicBlock, in ssa.Instruction) {
			for _, op := range in.Operands(nil) {
				if op != nil && *op != nil {
					if f, ok := (*op).(*ssa.Function); ok && f == top {
						used = true
					}
				}
			}
		})
		if used {
			return false
		}
	}
	return true
}

// inGroupOf reports whether fn is root itself (or one of its closures), or a
// new helper used by nobody outside root's helper group.
func inGroupOf(p *Prog, fn *ssa.Function, roots ...*ssa.Function) bool {
	g := helperGroup(p, roots...)
	if !g[fn] {
		return false
	}
	for _, r := range roots {
		for f := fn; f != nil; f = f.Parent() {
			if f == r {
				return true
			}
		}
	}
	return onlyUsedInGroup(p, fn, g)
}

// LoopInst is a loop of the evaluated function or of a new helper inlined
// into it (one instance per inlined activation).
type LoopInst struct {
	Act *Summary
	L   *Loop
}

// loopInsts lists the loops of the top-level activation s and of every
// activation of a new helper inlined into the evaluation g.
func loopInsts(g *Gate, s *Summary) []LoopInst {
	var out []LoopInst
	for _, l := range loopsOf(s.Fn) {
		out = append(out, LoopInst{s, l})
	}
	for _, sub := range g.Subs {
		if sub != s && sub.Loops > 0 && g.P.IsNewHelper(sub.Fn) {
			for _, l := range loopsOf(sub.Fn) {
				out = append(out, LoopInst{sub, l})
			}
		}
	}
	return out
}

// AV is an SSA value in one activation of the evaluation.
type AV struct {
	Act *Summary
	V   ssa.Value
}

// AEmission is an append of single elements found while tracing where a slice
// value comes from.
type AEmission struct {
	Act   *Summary
	Call  *ssa.Call
	Elems []*E // nil: not an append of single elements
	RC    Ref
}

// subAt returns the inlined activation of the call instruction site in act.
func subAt(g *Gate, act *Summary, site ssa.Instruction) *Summary {
	for _, sub := range g.Subs {
		if sub.Parent == act && sub.Site == site {
			return sub
		}
	}
	return nil
}

// traceAppends follows a slice value backwards through φs, appends, helper
// calls (inlined activations), their parameters and results, and collects the
// append sites that contribute elements to it.  bases are the values the
// trace stops at (loads, parameters of the top activation, opaque calls...).
func traceAppends(g *Gate, start AV) (ems []AEmission, bases []AV) {
	seen := map[AV]bool{}
	var walk func(a AV, ret int)
	walk = func(a AV, ret int) {
		if a.V == nil || a.Act == nil || seen[a] {
			return
		}
		seen[a] = true
		switch v := a.V.(type) {
		case *ssa.Phi:
			for _, e := range v.Edges {
				walk(AV{a.Act, e}, 0)
			}
		case *ssa.Extract:
			if call, ok := v.Tuple.(*ssa.Call); ok {
				if sub := subAt(g, a.Act, call); sub != nil {
					for _, b := range sub.Fn.Blocks {
						if r, ok := b.Instrs[len(b.Instrs)-1].(*ssa.Return); ok && v.Index < len(r.Results) {
							walk(AV{sub, r.Results[v.Index]}, 0)
						}
					}
					return
				}
			}
			bases = append(bases, a)
		case *ssa.Call:
			if b, ok := v.Call.Value.(*ssa.Builtin); ok && b.Name() == "append" {
				em := AEmission{Act: a.Act, Call: v, RC: a.Act.RCAt(v)}
				if e := a.Act.Env[v]; e != nil && e.Op == "append" && e.Aux == "elems" {
					em.Elems = e.Args[1:]
				}
				ems = append(ems, em)
				walk(AV{a.Act, v.Call.Args[0]}, 0)
				return
			}
			if sub := subAt(g, a.Act, v); sub != nil {
				for _, b := range sub.Fn.Blocks {
					if r, ok := b.Instrs[len(b.Instrs)-1].(*ssa.Return); ok && len(r.Results) > 0 {
						walk(AV{sub, r.Results[0]}, 0)
					}
				}
				return
			}
			bases = append(bases, a)
		case *ssa.Parameter:
			if a.Act.Parent != nil && a.Act.Site != nil {
				if ci, ok := a.Act.Site.(ssa.CallInstruction); ok {
					for i, p := range a.Act.Fn.Params {
						if p == v && i < len(ci.Common().Args) {
							walk(AV{a.Act.Parent, ci.Common().Args[i]}, 0)
							return
						}
					}
				}
			}
			bases = append(bases, a)
		case *ssa.UnOp:
			// load of a named result / local variable cell: the stores into the cell
			if al, ok := v.X.(*ssa.Alloc); ok && v.Op == token.MUL {
				if rs := al.Referrers(); rs != nil {
					n := 0
					for _, r := range *rs {
						if st, ok := r.(*ssa.Store); ok && st.Addr == al {
							n++
							walk(AV{a.Act, st.Val}, 0)
						}
					}
					if n > 0 {
						return
					}
				}
			}
			// load of a field of a local object (an accumulator struct): the stores into that field,
			// in whichever activation they are made
			if fa, ok := v.X.(*ssa.FieldAddr); ok && v.Op == token.MUL && g.Top != nil {
				if ae := a.Act.Env[fa]; ae != nil && ae.Op == "faddr" && len(ae.Args) > 0 && (ae.Args[0].Op == "alloc" || ae.Args[0].Op == "new") {
					n := 0
					for _, ef := range g.Top.Effects {
						if ef.Kind != "store" || ef.Addr != ae || ef.Act == nil {
							continue
						}
						if st, ok := ef.Ins.(*ssa.Store); ok {
							n++
							walk(AV{ef.Act, st.Val}, 0)
						}
					}
					if n > 0 {
						return
					}
				}
			}
			bases = append(bases, a)
		case *ssa.ChangeType:
			walk(AV{a.Act, v.X}, 0)
		case *ssa.Const:
			// nil slice: contributes nothing
		default:
			bases = append(bases, a)
		}
	}
	walk(start, 0)
	return
}

// topBlockOf returns the block of the top-level function in which the
// instruction ins of activation act executes (the block of the outermost call
// site for instructions of inlined activations).
func topBlockOf(act *Summary, ins ssa.Instruction) *ssa.BasicBlock {
	if ins == nil {
		return nil
	}
	for act != nil && act.Parent != nil && act.Site != nil {
		ins = act.Site
		act = act.Parent
	}
	return ins.Block()
}

// eachInstrG visits the instructions of fn, of its closures and of the new
// helpers it calls (its helper group).  Role anchors ("the callee of X with
// signature S") are resolved over the group so that they survive the
// extraction of a helper; the new helpers themselves never fill a role.
func eachInstrG(p *Prog, fn *ssa.Function, f func(b *ssa.BasicBlock, in ssa.Instruction)) {
	for _, gf := range groupFuncs(p, fn) {
		if gf != fn && gf.Parent() != nil && !p.IsNewHelper(gf) {
			// closures of vocabulary functions keep being visited by the callers that want them
			continue
		}
		eachInstr(gf, f)
	}
}

// provLeaves follows a value backwards through φs, parameters of inlined
// activations (to the caller's argument), results of inlined calls and type
// changes, and returns the values the walk stops at.
func provLeaves(g *Gate, start AV) []AV {
	var out []AV
	seen := map[AV]bool{}
	var walk func(a AV)
	walk = func(a AV) {
		if a.V == nil || a.Act == nil || seen[a] {
			return
		}
		seen[a] = true
		switch v := a.V.(type) {
		case *ssa.Phi:
			for _, e := range v.Edges {
				walk(AV{a.Act, e})
			}
		case *ssa.ChangeType:
			walk(AV{a.Act, v.X})
		case *ssa.Parameter:
			if a.Act.Parent != nil && a.Act.Site != nil {
				if ci, ok := a.Act.Site.(ssa.CallInstruction); ok {
					for i, p := range a.Act.Fn.Params {
						if p == v && i < len(ci.Common().Args) {
							walk(AV{a.Act.Parent, ci.Common().Args[i]})
							return
						}
					}
				}
			}
			out = append(out, a)
		case *ssa.Call:
			if sub := subAt(g, a.Act, v); sub != nil {
				for _, b := range sub.Fn.Blocks {
					if r, ok := b.Instrs[len(b.Instrs)-1].(*ssa.Return); ok && len(r.Results) > 0 {
						walk(AV{sub, r.Results[0]})
					}
				}
				return
			}
			out = append(out, a)
		case *ssa.Extract:
			// one of several results of an expanded helper
			if call, ok := v.Tuple.(*ssa.Call); ok {
				if sub := subAt(g, a.Act, call); sub != nil {
					for _, b := range sub.Fn.Blocks {
						if r, ok := b.Instrs[len(b.Instrs)-1].(*ssa.Return); ok && v.Index < len(r.Results) {
							walk(AV{sub, r.Results[v.Index]})
						}
					}
					return
				}
			}
			out = append(out, a)
		default:
			out = append(out, a)
		}
	}
	walk(start)
	return out
}

// fullUnconditionalLoopAt is fullUnconditionalLoop for an operation given by
// its block in the evaluated function and its reach condition (an effect of an
// inlined helper is placed at the block of the outermost call site).
func fullUnconditionalLoopAt(u *U, s *Summary, loops []*Loop, blk *ssa.BasicBlock, cond Ref) (ok bool, coll ssa.Value, why string) {
	if blk == nil {
		return false, nil, "not inside a loop"
	}
	l := innermostLoop(loops, blk)
	if l == nil {
		return false, nil, "not inside a loop"
	}
	ro := rangedOver(l)
	if ro == nil || !ro.Full {
		return false, nil, "the loop is not a complete range over a collection"
	}
	if !onlyExhaustionExit(l) {
		return false, ro.Coll, "the loop has an early exit"
	}
	if cond != u.bdd.And(s.RC[l.Header], contCond(u, s, l)) {
		return false, ro.Coll, "the operation is conditional inside the loop: " + clip(u.ShowBool(cond), 160)
	}
	return true, ro.Coll, ""
}

// evalInner evaluates top with the call(s) of inner expanded and returns the
// (last) activation of inner: its values are stated in terms of top's
// parameters, whatever inner's own parameter list looks like.  localBool gives
// a boolean result of the activation relative to the activation's entry
// condition.
func evalInner(g *Gate, top, inner *ssa.Function) (sTop, sub *Summary) {
	prev := g.Inline
	name := FuncName(inner)
	g.Inline = func(caller, callee *ssa.Function, depth int) bool {
		if FuncName(callee) == name {
			return true
		}
		if prev != nil && caller != top {
			return prev(caller, callee, depth)
		}
		return false
	}
	sTop = g.Eval(top)
	for _, s := range g.Subs {
		if s.Fn != inner {
			continue
		}
		// called by top directly, or through helpers outside the vocabulary
		p := s.Parent
		for p != nil && p != sTop && g.P.IsNewHelper(p.Fn) {
			p = p.Parent
		}
		if p == sTop {
			sub = s
		}
	}
	return
}

func localBool(g *Gate, sub *Summary, i int) Ref {
	u := g.U
	h := u.ToBool(g.RetExpr(sub, i))
	base := sub.RC[sub.Fn.Blocks[0]]
	if base == True || base == False {
		return h
	}
	return u.bdd.Restrict(h, base)
}

// collectsAll decides the lemma "acc is empty  =>  no element of coll satisfies P" for a slice acc
// built by a filter loop:  var acc []T; for _, x := range coll { if C(x) { acc = append(acc, x) } }.
// It holds when acc starts empty, every contribution is an append of the single current element
// inside a complete range over coll without early exit, and P(x) (given as a function from the
// element expression to a condition) implies the append's condition within the loop body.
func collectsAll(g *Gate, s *Summary, acc *E, coll *E, P func(elem *E) Ref) bool {
	ok, _ := accumulates(g, s, acc, coll, P)
	return ok
}

// accumulates is the general form: acc (a value of activation s, possibly the result of an inlined
// helper) is built from nothing by appends of the current element inside complete ranges over coll;
// covers: P(x) implies the append's condition; exact: the append's condition is exactly P(x).
func accumulates(g *Gate, s *Summary, acc *E, coll *E, P func(elem *E) Ref) (covers, exact bool) {
	u := g.U
	var accV ssa.Value
	for v, e := range s.Env {
		if e == acc {
			if _, isPhi := v.(*ssa.Phi); isPhi || accV == nil {
				accV = v
			}
		}
	}
	if accV == nil {
		return false, false
	}
	ems, bases := traceAppends(g, AV{s, accV})
	if len(ems) == 0 || len(bases) != 0 {
		return false, false
	}
	covers, exact = true, true
	for _, em := range ems {
		if len(em.Elems) != 1 {
			return false, false
		}
		el := em.Elems[0]
		if el.Op != "index" || el.Args[0] != coll {
			return false, false
		}
		l := innermostLoop(loopsOf(em.Act.Fn), em.Call.Block())
		if l == nil {
			return false, false
		}
		ro := rangedOver(l)
		if ro == nil || !ro.Full || em.Act.Env[ro.Coll] != coll || !onlyExhaustionExit(l) {
			return false, false
		}
		body := u.bdd.And(em.Act.RC[l.Header], contCond(u, em.Act, l))
		want := u.bdd.And(body, P(el))
		if !u.bdd.Implies(want, em.RC) {
			covers = false
		}
		if want != u.bdd.And(em.RC, body) {
			exact = false
		}
	}
	return covers, covers && exact
}

// loopAround finds the innermost loop around an instruction of activation act,
// looking first in act itself and then, call site by call site, in the
// activations it was expanded into (up to and including top).  It returns the
// loop and the activation the loop belongs to.
func loopAround(top, act *Summary, ins ssa.Instruction) (*Loop, *Summary) {
	blk := ins.Block()
	for a := act; a != nil; a = a.Parent {
		if blk != nil {
			if l := innermostLoop(loopsOf(a.Fn), blk); l != nil {
				return l, a
			}
		}
		if a == top || a.Site == nil {
			break
		}
		blk = a.Site.Block()
	}
	return nil, nil
}
