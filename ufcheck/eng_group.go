package main

import (
	"golang.org/x/tools/go/ssa"
)

// Helper transparency.
//
// The rule sets name the functions they reason about (anchors) and the
// functions they keep opaque (vocabulary).  A function that did not exist when
// the rule sets were confirmed (baseline_funcs.go) can be neither: it is a
// helper somebody extracted later.  The analyses treat such a helper as part of
// its callers: the gated evaluator expands it at every call site, structural
// searches look through it, and ownership rules accept a write in it exactly
// when every caller of the helper is a function that was allowed to make that
// write itself.

// IsNewHelper reports whether fn is a repository function (or a closure of one)
// that is not part of the confirmed vocabulary.
func (p *Prog) IsNewHelper(fn *ssa.Function) bool {
	if fn == nil || fn.Blocks == nil || !p.IsRepoFunc(fn) {
		return false
	}
	top := fn
	for top.Parent() != nil {
		top = top.Parent()
	}
	if top.Synthetic != "" && top.Name() != "init" {
		return false
	}
	return !baselineFuncs[FuncName(top)]
}

// helperGroup returns the roots, their closures and every new helper reachable
// from them through static calls (transitively, through helpers only).
func helperGroup(p *Prog, roots ...*ssa.Function) map[*ssa.Function]bool {
	g := map[*ssa.Function]bool{}
	var add func(fn *ssa.Function)
	add = func(fn *ssa.Function) {
		if fn == nil || g[fn] || fn.Blocks == nil {
			return
		}
		g[fn] = true
		for _, a := range fn.AnonFuncs {
			add(a)
		}
		eachInstr(fn, func(_ *ssa.BasicBlock, in ssa.Instruction) {
			if ci, ok := in.(ssa.CallInstruction); ok {
				if cal := ci.Common().StaticCallee(); cal != nil && p.IsNewHelper(cal) {
					add(cal)
				}
			}
		})
	}
	for _, r := range roots {
		add(r)
	}
	return g
}

// groupFuncs lists a helper group in a stable order (roots first).
func groupFuncs(p *Prog, roots ...*ssa.Function) []*ssa.Function {
	g := helperGroup(p, roots...)
	var out []*ssa.Function
	seen := map[*ssa.Function]bool{}
	for _, r := range roots {
		if r != nil && !seen[r] {
			seen[r] = true
			out = append(out, r)
		}
	}
	for _, fn := range p.AllLibFuncs() {
		if g[fn] && !seen[fn] {
			seen[fn] = true
			out = append(out, fn)
		}
	}
	return out
}

// onlyUsedInGroup reports whether every use of fn (a call, or taking it as a
// value) occurs inside the group: nobody outside can reach the helper.
func onlyUsedInGroup(p *Prog, fn *ssa.Function, group map[*ssa.Function]bool) bool {
	top := fn
	for top.Parent() != nil {
		top = top.Parent()
	}
	if top.Object() != nil && top.Object().Exported() {
		return false
	}
	for _, user := range p.AllLibFuncs() {
		if group[user] {
			continue
		}
		used := false
		eachInstr(user, func(_ *ssa.BasicBlock, in ssa.Instruction) {
			for _, op := range in.Operands(nil) {
				if op != nil && *op != nil {
					if f, ok := (*op).(*ssa.Function); ok && f == top {
						used = true
					}
				}
			}
		})
		if used {
			return false
		}
	}
	return true
}

// inGroupOf reports whether fn is root itself (or one of its closures), or a
// new helper used by nobody outside root's helper group.
func inGroupOf(p *Prog, fn *ssa.Function, roots ...*ssa.Function) bool {
	g := helperGroup(p, roots...)
	if !g[fn] {
		return false
	}
	for _, r := range roots {
		for f := fn; f != nil; f = f.Parent() {
			if f == r {
				return true
			}
		}
	}
	return onlyUsedInGroup(p, fn, g)
}

// LoopInst is a loop of the evaluated function or of a new helper inlined
// into it (one instance per inlined activation).
type LoopInst struct {
	Act *Summary
	L   *Loop
}

// loopInsts lists the loops of the top-level activation s and of every
// activation of a new helper inlined into the evaluation g.
func loopInsts(g *Gate, s *Summary) []LoopInst {
	var out []LoopInst
	for _, l := range loopsOf(s.Fn) {
		out = append(out, LoopInst{s, l})
	}
	for _, sub := range g.Subs {
		if sub != s && sub.Loops > 0 && g.P.IsNewHelper(sub.Fn) {
			for _, l := range loopsOf(sub.Fn) {
				out = append(out, LoopInst{sub, l})
			}
		}
	}
	return out
}
