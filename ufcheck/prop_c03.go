package main

// C03 — compiled basic patterns accept exactly the documented mask language.

import (
	"fmt"
	"go/token"
	"go/types"
	"os"
	"regexp"
	"sort"
	"strings"

	"golang.org/x/tools/go/ssa"
)

func init() {
	register(&PropDef{
		ID:  "C03",
		Run: runC03,
		Explanation: "Static decision of the clauses 'no character of a pattern is ever interpreted as a regular-expression operator' and 'no accepted pattern makes matching crash', plus wiring (the language equality itself is NOT decided). " +
			"R1: for every printable ASCII character that regexp.QuoteMeta escapes, the escape table either maps it to backslash+itself or it is one of the three mask characters handled separately. R2: data flow order escape -> inner-pipe escape -> * and ^ expansion -> anchors. " +
			"R3 (partition): the inner-pipe escaping acts on regex[P:len-1] between the untouched pieces regex[:P] and regex[len-1:], P the length of the leading mask. R4: * and ^ are expanded with ReplaceAll to the documented constants; || | and trailing | map to the start/end constants. " +
			"R5: (?i) is prepended exactly when match-case is off. R6: the compiled text derives from the rule's pattern field. R7: every index/slice of the pattern compiler is in range (bounds prover, shared with C12). " +
			"R8: the trailing '/*' rewrite removes exactly that suffix, and the constructor stores nothing else into the pattern than the parsed text. R3 (coverage): the inner-pipe escaping is skipped only in cases refuted against 'a pipe at P <= q <= len-2' by linear arithmetic over len/Index/LastIndex or guarded by !Contains. R9: the mask constants and their expansions have the documented meaning (Go's regexp on the constant text, inside the checker). R10: the pattern check answers true only if the compiled expression matched or preparePattern reported the lone-* expression. R11: the scan for the options delimiter starts at len(text)-2. R9 also checks the start-of-URL constant against a table of host prefixes. R9 rows for every character a DNS label can have (underscore, hyphen, digits). R10 is judged with the compile routine expanded into the pattern check, whatever the routine returns. R12 imports C05.R3 (the pre-filter literal comes from the rule's own pattern, lower-cased). Single-pass forms are read too: the anchors cut off first and one replacer for the pipes and the masks (or one table for everything); R3 then judges every alternative of start + pass(text) + end with its condition (two characters cut under a leading ||, one under a single leading pipe, none otherwise; $ exactly where one character is cut at the end). R13: what parseRuleText hands on as the pattern is the rule text itself or the rule text behind exactly the two characters of the exception marker (a slice at len(\"@@\"), strings.TrimPrefix or strings.CutPrefix with the marker): a cutset-based trim would also eat the first characters of a pattern that begins with '@'.",
		Trusted:     []string{"regexp.QuoteMeta defines which characters RE2 treats specially"},
		Assumptions: []string{"language equality of the expansion constants with the documented mask semantics is a statement about all strings per pattern (automata equivalence) and is outside static reach: a change inside RegexSeparator or RegexStartURL is invisible to this check"},
	})
}

func runC03(c *Ctx) {
	c.Rule("C03.R1", "TBL", "escape table covers every RE2 metacharacter except the mask characters", 1)
	c.Rule("C03.R2", "WIRE", "escape before inner-pipe escape before expansion before anchors", 1)
	c.Rule("C03.R3", "LIN", "inner-pipe escaping is a partition regex[:P] + esc(regex[P:len-1]) + regex[len-1:]", 1)
	c.Rule("C03.R4", "TBL", "mask characters are expanded everywhere to the documented constants", 5)
	c.Rule("C03.R5", "WIRE", "(?i) iff not match-case", 1)
	c.Rule("C03.R6", "WIRE", "compiled text derives from the rule's pattern field", 1)
	c.Rule("C03.R7", "PANIC", "pattern compiler: every index/slice proved in range", 1)
	c.Rule("C03.R10", "PDT", "the pattern verdict is the verdict of the compiled expression", 2)
	c.Rule("C03.R8", "LIN", "trailing '/*' rewrite removes exactly that suffix; no other rewrite", 2)
	importRules(c, runC05, map[string]string{"C05.R3": "C03.R12"}, map[string]string{"C03.R12": "the literal a rule is pre-filtered by is taken from its own pattern and lower-cased like the URL it is searched in, so the pre-filter never rejects what the pattern accepts (shared with C05.R3)"})

	a := &anchors{c: c, rule: "C03.R1"}
	pp := a.method("rules", "NetworkRule", "preparePattern")
	nnr := a.fn("rules", "NewNetworkRule")
	kMC, _ := a.constInt("rules", "OptionMatchCase")
	K := map[string]string{}
	for _, n := range []string{"MaskStartURL", "MaskPipe", "MaskSeparator", "MaskAnyCharacter", "RegexAnyCharacter", "RegexSeparator", "RegexStartURL", "RegexEndString", "RegexStartString"} {
		K[n], _ = a.constStr("rules", n)
	}
	if a.bad {
		return
	}
	// pattern compiler by role: callee of preparePattern func(string) string
	var ptr *ssa.Function
	eachInstrG(c.P, pp, func(_ *ssa.BasicBlock, in ssa.Instruction) {
		if ci, ok := in.(ssa.CallInstruction); ok {
			if cal := ci.Common().StaticCallee(); cal != nil && c.P.IsLibFunc(cal) && !c.P.IsNewHelper(cal) && cal.Signature.Recv() == nil && cal.Signature.Params().Len() == 1 && typeStr(cal.Signature.Results().At(0).Type()) == "string" {
				ptr = cal
			}
		}
	})
	if ptr == nil {
		c.Fail("C03.R2", "anchor:pattern compiler", pp.Pos(), "unresolved anchor: preparePattern calls no func(string) string")
		return
	}
	c.Fn(FuncName(ptr))

	// ---------- R1 ----------
	{
		tables := replacerTables(c)
		// the escape table is the replacer applied to the pattern itself
		replacerGlobal := ""
		{
			g0 := NewGate(c.P)
			g0.Inline = inlineOnly()
			s0 := g0.Eval(ptr)
			pat0 := g0.ParamExprs(ptr)[0]
			for _, x := range g0.U.Collect(g0.RetExpr(s0, 0), func(x *E) bool {
				if !(x.Op == "call" && x.Aux == "(*strings.Replacer).Replace" && len(x.Args) == 2 && x.Args[0].Op == "gload") {
					return false
				}
				// applied to the pattern, or to the pattern with its anchors cut off
				for _, leaf := range leavesOf(g0.U, x.Args[1]) {
					t := leaf
					for t.Op == "slice" {
						t = t.Args[0]
					}
					if t != pat0 {
						return false
					}
				}
				return true
			}) {
				replacerGlobal = x.Args[0].Aux[strings.LastIndex(x.Args[0].Aux, ".")+1:]
			}
		}
		pairs := tables[replacerGlobal]
		if pairs == nil {
			pairs = map[string]string{}
		}
		bad := ""
		if len(pairs) == 0 {
			bad = "UNDECIDED: no strings.NewReplacer with constant pairs in the package initialiser"
		}
		masks := K["MaskAnyCharacter"] + K["MaskSeparator"] + K["MaskPipe"]
		for ch := 32; ch < 127 && bad == ""; ch++ {
			s := string(rune(ch))
			if regexp.QuoteMeta(s) == s {
				if to, ok := pairs[s]; ok && to != s && to != `\`+s {
					bad = fmt.Sprintf("the literal %q is rewritten to %q", s, to)
				}
				continue
			}
			if strings.Contains(masks, s) {
				continue
			}
			if pairs[s] != `\`+s {
				bad = fmt.Sprintf("the regular-expression metacharacter %q is not escaped by the table (maps to %q): a pattern containing it changes language or fails to compile", s, pairs[s])
			}
		}
		c.Extra["escape_table_pairs"] = len(pairs)
		c.Extra["escape_table_global"] = replacerGlobal
		c.Check(bad == "", "C03.R1", "escape table (strings.NewReplacer in init) vs regexp.QuoteMeta on printable ASCII", ptr.Pos(), fmt.Sprintf("%d pairs; every metacharacter except %q escaped", len(pairs), masks), bad)
	}

	// ---------- R2/R3/R4 ----------
	{
		g := NewGate(c.P)
		g.Inline = inlineOnly()
		if irp := c.P.Func("rules", "isRegexPattern"); irp != nil {
			g.Pure[FuncName(irp)] = true
		}
		s := g.Eval(ptr)
		u := g.U
		pat := g.ParamExprs(ptr)[0]
		res := g.RetExpr(s, 0)
		isCall := func(name string) func(*E) bool { return func(x *E) bool { return x.Op == "call" && x.Aux == name } }
		reps := u.Collect(res, isCall("(*strings.Replacer).Replace"))
		ras := u.Collect(res, isCall("strings.ReplaceAll"))
		var rep *E
		nEsc := 0
		partOfPat := func(t *E) bool {
			for _, leaf := range leavesOf(u, t) {
				x := leaf
				for x.Op == "slice" {
					x = x.Args[0]
				}
				if x != pat {
					return false
				}
			}
			return true
		}
		for _, r := range reps {
			if r.Args[1] == pat || partOfPat(r.Args[1]) {
				rep = r
				nEsc++
			}
		}
		if nEsc != 1 {
			rep = nil
		}
		// the text an expansion stage acts on: ReplaceAll(text, from, to) or replacer.Replace(text)
		textOf := func(e *E) *E {
			if e.Aux == "(*strings.Replacer).Replace" {
				return e.Args[1]
			}
			return e.Args[0]
		}
		var pipes, stars, seps []*E
		onePass := map[*E]bool{} // a replacer call that escapes the pipes and expands the masks at once
		// a single-pass replacer for the masks (a package-level strings.NewReplacer of constants)
		tables := replacerTables(c)
		for _, r := range reps {
			if r.Args[0].Op != "gload" {
				continue
			}
			tb := tables[r.Args[0].Aux[strings.LastIndex(r.Args[0].Aux, ".")+1:]]
			if r == rep {
				// the escape table itself: it may carry the mask pairs too (one table for everything);
				// its escape pairs are R1's business
				if tb == nil || tb[K["MaskPipe"]] == "" {
					continue
				}
				rest := map[string]string{}
				for from, to := range tb {
					if from == K["MaskPipe"] || from == K["MaskAnyCharacter"] || from == K["MaskSeparator"] {
						rest[from] = to
					}
				}
				tb = rest
			}
			if tb == nil {
				c.Fail("C03.R4", "mask characters expanded everywhere", ptr.Pos(), "UNDECIDED: a replacer whose table is not a constant of the package initialiser is applied: "+clip(u.Show(r), 80))
				continue
			}
			for from, to := range tb {
				switch from {
				case K["MaskAnyCharacter"]:
					stars = append(stars, r)
					c.Check(to == K["RegexAnyCharacter"], "C03.R4", "'*' expands to RegexAnyCharacter everywhere", ptr.Pos(), "replacer pair (MaskAnyCharacter, RegexAnyCharacter)", fmt.Sprintf("'*' is replaced by %q", to))
				case K["MaskSeparator"]:
					seps = append(seps, r)
					c.Check(to == K["RegexSeparator"], "C03.R4", "'^' expands to RegexSeparator everywhere", ptr.Pos(), "replacer pair (MaskSeparator, RegexSeparator)", fmt.Sprintf("'^' is replaced by %q", to))
				case K["MaskPipe"]:
					// the pipes the anchors left over are escaped in the same pass
					if to == `\`+K["MaskPipe"] {
						pipes = append(pipes, r)
						onePass[r] = true
					} else {
						c.Fail("C03.R4", "mask characters expanded everywhere", ptr.Pos(), fmt.Sprintf("the mask replacer rewrites the pipe to %q instead of escaping it", to))
					}
				default:
					c.Fail("C03.R4", "mask characters expanded everywhere", ptr.Pos(), fmt.Sprintf("the mask replacer also rewrites %q to %q, which the syntax does not document", from, to))
				}
			}
		}
		for _, r := range ras {
			from, _ := r.Args[1].StrVal()
			to, _ := r.Args[2].StrVal()
			switch {
			case from == K["MaskPipe"] && to == `\`+K["MaskPipe"]:
				pipes = append(pipes, r)
			case from == K["MaskAnyCharacter"]:
				stars = append(stars, r)
				c.Check(to == K["RegexAnyCharacter"], "C03.R4", "'*' expands to RegexAnyCharacter everywhere", ptr.Pos(), "strings.ReplaceAll(_, MaskAnyCharacter, RegexAnyCharacter)", fmt.Sprintf("'*' is replaced by %q", to))
			case from == K["MaskSeparator"]:
				seps = append(seps, r)
				c.Check(to == K["RegexSeparator"], "C03.R4", "'^' expands to RegexSeparator everywhere", ptr.Pos(), "strings.ReplaceAll(_, MaskSeparator, RegexSeparator)", fmt.Sprintf("'^' is replaced by %q", to))
			}
		}
		// strings.Replace with a count would leave later occurrences unexpanded
		for _, x := range u.Collect(res, isCall("strings.Replace")) {
			c.Fail("C03.R4", "mask characters expanded everywhere", ptr.Pos(), "strings.Replace with a count is used ("+clip(u.Show(x), 80)+"): later occurrences stay unexpanded")
		}
		bad := ""
		switch {
		case rep == nil:
			bad = "the pattern is not passed through the escape table exactly once"
		case len(pipes) == 0:
			bad = "inner pipes are never escaped"
		case len(stars) != 1 || len(seps) != 1:
			bad = fmt.Sprintf("expected one expansion of '*' and one of '^', found %d/%d", len(stars), len(seps))
		case onePass[rep] && len(pipes) == 1 && pipes[0] == rep && stars[0] == rep && seps[0] == rep:
			// one table, one pass over the pattern: there is no order to get wrong
		default:
			in := func(outer, inner *E) bool { return u.Mentions(outer, func(x *E) bool { return x == inner }) }
			for _, p := range pipes {
				if !in(textOf(p), rep) {
					bad = "inner pipes are escaped before the special characters (the backslash of an escaped pipe would be escaped again)"
				}
				if in(textOf(p), stars[0]) || in(textOf(p), seps[0]) {
					bad = "pipes are escaped after the expansion of * or ^: the '|' inside the separator class would be escaped"
				}
			}
			for _, e := range []*E{stars[0], seps[0]} {
				okP := false
				for _, p := range pipes {
					if in(textOf(e), p) || (e == p && onePass[p]) {
						okP = true // after the pipe escaping, or in the same single pass
					}
				}
				if !okP || !in(textOf(e), rep) {
					bad = "the expansion of * / ^ does not act on the escaped text: the metacharacters of the expansion itself ('.', '(', '|', '$') would be escaped, or pattern metacharacters would not"
				}
			}
			if in(rep.Args[1], stars[0]) || in(rep.Args[1], seps[0]) {
				bad = "the escape table is applied after the expansion"
			}
		}
		c.Check(bad == "", "C03.R2", shortFn(ptr)+": escape -> inner-pipe escape -> expansion", ptr.Pos(), "containment of the data-flow stages in the result expression", bad)

		// R3 in the single-pass form: the text handed to the pass is the escaped pattern without
		// its anchors, in every alternative of the result - start-of-address anchor: two characters
		// cut, under HasPrefix(text, "||"); start-of-string: one, under HasPrefix(text, "|") and not
		// "||"; none: nothing cut, no leading pipe; "$" exactly where one character is cut at the end
		onePassAnchorsOK := false
		sawURL, sawStart, sawEnd := false, false, false
		if len(onePass) > 0 && rep != nil {
			type alt struct {
				cond  Ref
				parts []*E
			}
			var alts func(e *E, cond Ref, depth int) []alt
			alts = func(e *E, cond Ref, depth int) []alt {
				switch {
				case depth > 12 || cond == False:
					return []alt{{cond, []*E{e}}}
				case e.Op == "ite":
					return append(alts(e.Args[0], u.bdd.And(cond, e.B), depth+1), alts(e.Args[1], u.bdd.And(cond, u.bdd.Not(e.B)), depth+1)...)
				case e.Op == "bin" && e.Aux == "+":
					var out []alt
					for _, l := range alts(e.Args[0], cond, depth+1) {
						for _, r := range alts(e.Args[1], l.cond, depth+1) {
							if len(out) > 256 || r.cond == False {
								continue
							}
							out = append(out, alt{r.cond, append(append([]*E{}, l.parts...), r.parts...)})
						}
					}
					return out
				}
				return []alt{{cond, []*E{e}}}
			}
			key := shortFn(ptr) + ": the single pass acts on the escaped pattern without its anchors"
			badp := ""
			nAlt := 0
			hp := func(x *E, pre string) Ref {
				return u.ToBool(u.LibCall("strings.HasPrefix", types.Typ[types.Bool], x, u.Str(pre)))
			}
			for leaf, lc := range u.Leaves(res) {
				if !u.Mentions(leaf, func(x *E) bool { return onePass[x] }) {
					continue
				}
				for _, al := range alts(leaf, lc, 0) {
					if al.cond == False {
						continue
					}
					var mids []*E
					first, last := "", ""
					for i, pe := range al.parts {
						if sv, ok := pe.StrVal(); ok {
							if len(mids) == 0 && i == 0 {
								first = sv
							} else if i == len(al.parts)-1 {
								last = sv
							} else if sv != "" {
								badp = "constant text in the middle of the result"
							}
							continue
						}
						mids = append(mids, pe)
					}
					if len(mids) != 1 || !onePass[mids[0]] {
						badp = "UNDECIDED: the result is not anchor + single pass + anchor: " + clip(u.Show(leaf), 100)
						continue
					}
					nAlt++
					text := u.Specialize(textOf(mids[0]), al.cond)
					// nested slices down to the escaped pattern (or, with one table for everything,
					// down to the pattern itself)
					base := rep
					if onePass[rep] {
						base = pat
					}
					var lo int64
					cutEnd := false
					x := text
					okShape := true
					for x != base {
						if x.Op != "slice" {
							okShape = false
							break
						}
						if x.Args[1] != nil {
							v, ok := x.Args[1].IntVal()
							if !ok {
								okShape = false
								break
							}
							lo += v
						}
						if x.Args[2] != nil {
							want := u.Bin(token.SUB, u.Len(x.Args[0]), u.Int(1), types.Typ[types.Int])
							if same, _ := semEqual(u, x.Args[2], want); !same || cutEnd {
								okShape = false
								break
							}
							cutEnd = true
						}
						x = x.Args[0]
					}
					if !okShape {
						badp = "the text of the single pass is not a part of the escaped pattern cut at constant offsets: " + clip(u.Show(text), 100)
						continue
					}
					hp2, hp1 := hp(base, K["MaskStartURL"]), hp(base, K["MaskPipe"])
					switch {
					case first == K["RegexStartURL"]:
						sawURL = true
						if lo != int64(len(K["MaskStartURL"])) || !u.bdd.Implies(al.cond, hp2) {
							badp = "the start-of-address anchor is not tied to a leading || with exactly both pipes cut"
						}
					case first == K["RegexStartString"]:
						sawStart = true
						if lo != int64(len(K["MaskPipe"])) || !u.bdd.Implies(al.cond, u.bdd.And(hp1, u.bdd.Not(hp2))) {
							badp = "the start-of-string anchor is not tied to a single leading pipe with exactly that pipe cut"
						}
					case first == "":
						if lo != 0 || !u.bdd.Implies(al.cond, u.bdd.Not(hp1)) {
							badp = "a leading pipe is neither an anchor nor part of the text (cut without an anchor, or left in and escaped)"
						}
					default:
						badp = fmt.Sprintf("unexpected text %q in front of the pattern", first)
					}
					if last == K["RegexEndString"] && cutEnd {
						sawEnd = true
					}
					if (last == K["RegexEndString"]) != cutEnd || (last != "" && last != K["RegexEndString"]) {
						badp = "the end-of-string anchor and the cut of the trailing pipe do not go together"
					}
				}
			}
			if nAlt == 0 && badp == "" {
				badp = "UNDECIDED: no alternative of the result contains the single pass"
			}
			c.Check(badp == "", "C03.R3", key, ptr.Pos(), fmt.Sprintf("%d alternatives of anchor + pass(text) + anchor", nAlt), badp)
			onePassAnchorsOK = badp == "" && sawURL && sawStart && sawEnd
		}
		// R3 partition, on every case of the selections nested in the result (anchor length chosen
		// by a condition, ...)
		for _, resv := range u.CaseSplit(res) {
			var pipesV []*E
			for _, r := range u.Collect(resv, isCall("strings.ReplaceAll")) {
				from, _ := r.Args[1].StrVal()
				to, _ := r.Args[2].StrVal()
				if from == K["MaskPipe"] && to == `\`+K["MaskPipe"] {
					pipesV = append(pipesV, r)
				}
			}
			for _, p := range pipesV {
				// parent: (slice(X,nil,P) + p) + slice(X,L-1,nil), p = ReplaceAll(slice(X,P,L-1),...)
				var parent *E
				for _, x := range u.Collect(resv, func(x *E) bool {
					return x.Op == "bin" && x.Aux == "+" && x.Args[0].Op == "bin" && x.Args[0].Aux == "+" && x.Args[0].Args[1] == p
				}) {
					parent = x
				}
				key := shortFn(ptr) + ": inner-pipe escaping is a partition of the escaped text"
				if parent == nil || p.Args[0].Op != "slice" {
					c.Fail("C03.R3", key, ptr.Pos(), "UNDECIDED: the escaped middle is not concatenated between two slices")
					continue
				}
				head, mid, tail := parent.Args[0].Args[0], p.Args[0], parent.Args[1]
				X := mid.Args[0]
				badp := ""
				switch {
				case head.Op != "slice" || tail.Op != "slice" || head.Args[0] != X || tail.Args[0] != X:
					badp = "the three pieces are not slices of the same string"
				case head.Args[1] != nil && !isIntConst(head.Args[1], 0):
					badp = "the head does not start at 0"
				case tail.Args[2] != nil:
					badp = "the tail does not run to the end"
				case head.Args[2] != mid.Args[1] || mid.Args[2] != tail.Args[1]:
					badp = "the pieces are not contiguous: a character is lost or duplicated"
				default:
					P, okP := head.Args[2].IntVal()
					if !okP {
						// a computed head length: must select between the two mask lengths
						okP = true
						for leaf := range u.Leaves(head.Args[2]) {
							v, isC := leaf.IntVal()
							if !isC || (v != int64(len(K["MaskPipe"])) && v != int64(len(K["MaskStartURL"]))) {
								okP = false
							}
							P = v
						}
					}
					okD, _ := semEqual(u, mid.Args[2], u.Bin(token.SUB, u.Len(X), u.Int(1), types.Typ[types.Int]))
					if !okP || !okD {
						badp = "the middle does not end exactly one character before the end (the trailing pipe must stay an anchor, everything before it must be escaped)"
					}
					wantP := int64(len(K["MaskPipe"]))
					if okP && P != wantP && P != int64(len(K["MaskStartURL"])) {
						badp = fmt.Sprintf("the untouched head has length %d, which is neither len(\"|\") nor len(\"||\")", P)
					}
				}
				c.Check(badp == "", "C03.R3", key, ptr.Pos(), "regex[:P] + ReplaceAll(regex[P:len-1], \"|\", \"\\|\") + regex[len-1:]", badp)
			}
		}
		// R3 (coverage): the escaping may be skipped only where the inner region regex[P:len-1] cannot hold a pipe
		if rep != nil && len(stars) == 1 && len(seps) == 1 && len(onePass) == 0 {
			in := func(outer, inner *E) bool { return u.Mentions(outer, func(x *E) bool { return x == inner }) }
			esc := textOf(stars[0])
			if in(esc, seps[0]) && seps[0] != stars[0] {
				esc = textOf(seps[0])
			}
			badc := ""
			nb := 0
			pipeS := K["MaskPipe"]
			for leaf, cond := range u.Leaves(esc) {
				hasEsc := false
				for _, p := range pipes {
					if in(leaf, p) {
						hasEsc = true
					}
				}
				if hasEsc || cond == False {
					continue
				}
				if leaf != rep {
					if badc == "" {
						badc = "UNDECIDED: on some path the text handed to the expansion is neither the escaped text nor its pipe-escaped form: " + clip(u.Show(leaf), 80)
					}
					continue
				}
				u.bdd.Cubes(cond, func(cube map[int]bool) {
					nb++
					if badc != "" {
						return
					}
					L := NewLin(u)
					P := int64(len(K["MaskPipe"]))
					noPipe := false
					for v, pos := range cube {
						at := u.atoms[v]
						L.assumeLiteral(at, pos)
						if at.Op == "call" && at.Aux == "strings.HasPrefix" && at.Args[0] == rep && isStr(at.Args[1], K["MaskStartURL"]) && pos {
							P = int64(len(K["MaskStartURL"]))
						}
						if at.Op == "call" && (at.Aux == "strings.Contains" || at.Aux == "strings.ContainsRune" || at.Aux == "strings.ContainsAny") && at.Args[0] == rep && !pos {
							if sv, ok := at.Args[1].StrVal(); ok && sv == pipeS {
								noPipe = true
							}
							if cv, ok := at.Args[1].IntVal(); ok && len(pipeS) == 1 && cv == int64(pipeS[0]) {
								noPipe = true
							}
						}
					}
					if noPipe {
						return
					}
					// suppose a pipe at position q of the inner region: P <= q <= len-2
					q := u.mk("sym", "innerPipeAt", types.Typ[types.Int])
					L.leE(u.Int(P), q, 0)
					L.leE(q, u.Len(rep), -2)
					var idxTerms []*E
					for _, at := range u.AtomsOf(cond) {
						idxTerms = append(idxTerms, u.Collect(at, func(x *E) bool {
							return x.Op == "call" && (x.Aux == "strings.Index" || x.Aux == "strings.LastIndex" || x.Aux == "strings.Count") && len(x.Args) >= 2 && x.Args[0] == rep && isStr(x.Args[1], pipeS)
						})...)
					}
					for _, t := range idxTerms {
						switch t.Aux {
						case "strings.Index":
							L.leE(u.Int(0), t, 0)
							L.leE(t, q, 0)
						case "strings.LastIndex":
							L.leE(q, t, 0)
						case "strings.Count":
							L.leE(u.Int(1), t, 0)
						}
					}
					L.resolveNeqs()
					if !L.entails(newLin(), newLin(), -1) {
						lits := []string{}
						for v, pos := range cube {
							t := u.Show(u.atoms[v])
							if !pos {
								t = "!" + t
							}
							lits = append(lits, t)
						}
						sort.Strings(lits)
						badc = fmt.Sprintf("inner pipes are left unescaped when %s: a pattern with a '|' between position %d and the last character then compiles to an alternation", clip(strings.Join(lits, " & "), 200), P)
					}
				})
			}
			c.Check(badc == "", "C03.R3", shortFn(ptr)+": the escaping is skipped only where no inner pipe can exist", ptr.Pos(), fmt.Sprintf("%d bypass case(s): each refuted against 'a pipe at P <= q <= len-2' by linear arithmetic over len/Index/LastIndex, or guarded by !Contains", nb), badc)
		}
		// the || branch must use P=2, the other P=1: check via the guarding HasPrefix
		// anchors (R4)
		okStartURL, okStart, okEnd := false, false, false
		for _, x := range u.Collect(res, func(x *E) bool { return x.Op == "bin" && x.Aux == "+" }) {
			if sv, ok := x.Args[0].StrVal(); ok && x.Args[1].Op == "slice" {
				lo, _ := x.Args[1].Args[1].IntVal()
				if sv == K["RegexStartURL"] && lo == int64(len(K["MaskStartURL"])) {
					okStartURL = true
				}
				if sv == K["RegexStartString"] && lo == int64(len(K["MaskPipe"])) {
					okStart = true
				}
			}
			if sv, ok := x.Args[1].StrVal(); ok && sv == K["RegexEndString"] && x.Args[0].Op == "slice" {
				X := x.Args[0].Args[0]
				want := u.Bin(token.SUB, u.Len(X), u.Int(1), types.Typ[types.Int])
				if same, _ := semEqual(u, x.Args[0].Args[2], want); same && (x.Args[0].Args[1] == nil || isIntConst(x.Args[0].Args[1], 0)) {
					okEnd = true
				}
			}
		}
		if onePassAnchorsOK {
			// judged with conditions and offsets by the single-pass form of R3
			okStartURL, okStart, okEnd = true, true, true
		}
		// the same read off a result that is put together at the end (anchors chosen first, one
		// concatenation): every alternative of start + middle + end
		if !okStartURL || !okStart || !okEnd {
			var alts func(e *E, depth int) [][]*E
			alts = func(e *E, depth int) [][]*E {
				switch {
				case depth > 12:
					return [][]*E{{e}}
				case e.Op == "ite":
					return append(alts(e.Args[0], depth+1), alts(e.Args[1], depth+1)...)
				case e.Op == "bin" && e.Aux == "+":
					var out [][]*E
					for _, l := range alts(e.Args[0], depth+1) {
						for _, r := range alts(e.Args[1], depth+1) {
							if len(out) > 256 {
								return out
							}
							out = append(out, append(append([]*E{}, l...), r...))
						}
					}
					return out
				}
				return [][]*E{{e}}
			}
			// offset of a (nested) slice from the start of the string it is ultimately cut from
			absLow := func(x *E) (int64, bool) {
				var lo int64
				for x.Op == "slice" {
					if x.Args[1] != nil {
						v, ok := x.Args[1].IntVal()
						if !ok {
							return 0, false
						}
						lo += v
					}
					x = x.Args[0]
				}
				return lo, true
			}
			cutsOneAtEnd := func(x *E) bool {
				for x.Op == "slice" {
					if x.Args[2] != nil {
						want := u.Bin(token.SUB, u.Len(x.Args[0]), u.Int(1), types.Typ[types.Int])
						if same, _ := semEqual(u, x.Args[2], want); same {
							return true
						}
						return false
					}
					x = x.Args[0]
				}
				return false
			}
			for _, leaf := range u.Collect(res, func(x *E) bool { return x.Op == "bin" && x.Aux == "+" }) {
				for _, parts := range alts(leaf, 0) {
					var mids []*E
					first, last := "", ""
					for i, pe := range parts {
						if sv, ok := pe.StrVal(); ok {
							if len(mids) == 0 && i == 0 {
								first = sv
							} else if i == len(parts)-1 {
								last = sv
							}
							continue
						}
						mids = append(mids, pe)
					}
					if len(mids) != 1 || mids[0].Op != "slice" {
						continue
					}
					lo, okLo := absLow(mids[0])
					if okLo && first == K["RegexStartURL"] && lo == int64(len(K["MaskStartURL"])) {
						okStartURL = true
					}
					if okLo && first == K["RegexStartString"] && lo == int64(len(K["MaskPipe"])) {
						okStart = true
					}
					if last == K["RegexEndString"] && cutsOneAtEnd(mids[0]) {
						okEnd = true
					}
				}
			}
		}
		c.Check(okStartURL, "C03.R4", "leading '||' becomes RegexStartURL + rest", ptr.Pos(), "RegexStartURL + regex[len(\"||\"):]", "the leading || is not replaced by the start-of-address expression with exactly the two pipes removed")
		c.Check(okStart, "C03.R4", "leading '|' becomes RegexStartString + rest", ptr.Pos(), "RegexStartString + regex[len(\"|\"):]", "the leading | is not replaced by ^ with exactly one pipe removed")
		c.Check(okEnd, "C03.R4", "trailing '|' becomes rest + RegexEndString", ptr.Pos(), "regex[:len-1] + RegexEndString", "the trailing | is not replaced by $ with exactly one pipe removed")
	}

	// ---------- R5 / R6 ----------
	{
		g := NewGate(c.P)
		g.Inline = inlineOnly("(*rules.NetworkRule).IsOptionEnabled")
		g.Pure[FuncName(ptr)] = true
		s := g.Eval(pp)
		u := g.U
		f := g.ParamExprs(pp)[0]
		var comp *E
		for _, ef := range s.Effects {
			if ef.Kind == "call" && ef.Call.Aux == "regexp.Compile" {
				comp = ef.Call
			}
		}
		if comp == nil {
			// regexp.Compile is in the pure table: look it up in the stores of the regex field
			for _, ef := range s.Effects {
				if ef.Kind == "store" && ef.Addr.Op == "faddr" && ef.Addr.Aux == "regex" {
					for _, x := range u.Collect(ef.Val, func(x *E) bool { return x.Op == "call" && x.Aux == "regexp.Compile" }) {
						comp = x
					}
				}
			}
		}
		bad, bad6 := "", ""
		if comp == nil {
			bad = "UNDECIDED: no call of regexp.Compile (MustCompile would panic on a bad pattern)"
			bad6 = bad
		} else {
			base := u.Call(calleeName(ptr), types.Typ[types.String], u.Field(f, "pattern", nil))
			en := u.Field(f, "enabledOptions", types.Typ[types.Uint64])
			k := u.ConstVal(constantInt(kMC), types.Typ[types.Uint64])
			mc := u.ToBool(u.Eq(u.Bin(token.AND, en, k, types.Typ[types.Uint64]), k))
			want := u.ITE(mc, base, u.Bin(token.ADD, u.Str("(?i)"), base, types.Typ[types.String]))
			if ok, why := semEqual(u, comp.Args[0], want); !ok {
				bad = "the compiled text is not: pattern when match-case, \"(?i)\"+pattern otherwise — " + why
			}
			if !u.Mentions(comp.Args[0], func(x *E) bool { return x.key == base.key }) {
				bad6 = "the compiled text does not derive from patternToRegexp(f.pattern): " + clip(u.Show(comp.Args[0]), 120)
			}
		}
		c.Check(bad == "", "C03.R5", "preparePattern: (?i) prepended exactly when match-case is off", pp.Pos(), "regexp.Compile(ite(match-case, p, \"(?i)\"+p))", bad)
		c.Check(bad6 == "", "C03.R6", "preparePattern: compiles the rule's own pattern field", pp.Pos(), "same field the shortcut is extracted from (C05.R3)", bad6)
	}

	// ---------- R10: the pattern verdict is the verdict of the compiled expression ----------
	{
		// the pattern check by role: the baseline function(s) that call preparePattern
		var mps []*ssa.Function
		for _, fn := range c.P.AllLibFuncs() {
			if c.P.IsNewHelper(fn) || fn == pp {
				continue
			}
			calls := false
			eachInstrG(c.P, fn, func(_ *ssa.BasicBlock, in ssa.Instruction) {
				if ci, ok := in.(ssa.CallInstruction); ok && ci.Common().StaticCallee() == pp {
					calls = true
				}
			})
			if calls {
				mps = append(mps, fn)
			}
		}
		if len(mps) == 0 {
			c.Fail("C03.R10", "pattern check", pp.Pos(), "UNDECIDED: no function calls preparePattern")
		}
		for _, mp := range mps {
			v := patternVerdict(c, pp, mp, ptr, K["RegexAnyCharacter"])
			bad := v.undecided
			if bad == "" && v.notFromMatch != "" {
				bad = "the pattern check answers true without the compiled expression having matched and without the compiled text being the lone-'*' expansion (when " + v.notFromMatch + "): such a shortcut accepts URLs outside the language of the pattern (letter case under $match-case, anchors, separators)"
			}
			c.Check(bad == "", "C03.R10", shortFn(mp)+": true only if the compiled expression matched or the pattern is 'match everything'", mp.Pos(), "evaluated with the compile routine expanded: result implies MatchString(compiled, _) or compiled text == RegexAnyCharacter", bad)
			c.Check(bad == "" || v.undecided == "", "C03.R10", "preparePattern: 'match everything' only when the expression is RegexAnyCharacter", pp.Pos(), "part of the same decision function", bad)
		}
	}

	// ---------- R7 ----------
	{
		res := boundsAudit(c, []*ssa.Function{ptr, pp})
		bad := ""
		n := 0
		for _, r := range res {
			n++
			if r.Verdict == "violation" && bad == "" {
				bad = fmt.Sprintf("%s: %s in %s may be out of range: %s", c.P.Pos(r.Pos), r.Expr, shortFn(r.Fn), r.Why)
			}
		}
		c.Check(bad == "", "C03.R7", "pattern compiler: all index/slice operations in range", ptr.Pos(), fmt.Sprintf("%d sites: compiler-proved, zone-proved or documented residual", n), bad)
	}

	// ---------- R8 ----------
	{
		g := NewGate(c.P)
		g.Inline = inlineOnly()
		s := g.Eval(nnr)
		u := g.U
		bad := ""
		bad2 := ""
		n := 0
		var obj *E
		for _, ef := range s.Effects {
			if ef.Kind != "store" || ef.Addr.Op != "faddr" || ef.Addr.Aux != "pattern" {
				continue
			}
			obj = ef.Addr.Args[0]
			// every alternative of the stored value, under the store's condition and its own
			for v, lc := range u.Leaves(ef.Val) {
				cond := u.bdd.And(lc, ef.Cond)
				if cond == False {
					continue
				}
				sep, isRewrite := "", false
				if v.Op == "bin" && v.Aux == "+" {
					sep, isRewrite = v.Args[1].StrVal()
				}
				if !isRewrite {
					// the parsed pattern itself: any other transformation of the text (library call,
					// slicing, concatenation) changes the language the rule accepts
					tr := v.Op == "slice" || v.Op == "bin" || v.Op == "index" || v.Op == "conv" ||
						(v.Op == "call" && !strings.HasPrefix(v.Aux, "rules.") && !strings.HasPrefix(v.Aux, "(*rules.") && !strings.HasPrefix(v.Aux, "(rules."))
					if tr && bad2 == "" {
						bad2 = c.P.Pos(ef.Pos) + ": besides the documented '/*' rewrite the constructor changes the pattern: it stores " + clip(u.Show(v), 100) + ", so the rule is not compiled from the pattern of the rule text"
					}
					continue
				}
				n++
				if sep != K["MaskSeparator"] {
					bad = "the rewritten pattern does not end in the separator mask"
				}
				body := v.Args[0]
				var hs *E
				for _, at := range u.AtomsOf(cond) {
					if at.Op == "call" && at.Aux == "strings.HasSuffix" && u.bdd.Implies(cond, u.Atom(at)) {
						hs = at
					}
				}
				switch {
				case hs == nil:
					bad = "the rewrite is not guarded by strings.HasSuffix(pattern, suffix)"
				case body.Op == "slice":
					suf, _ := hs.Args[1].StrVal()
					d, ok := constDiff(u, u.Len(body.Args[0]), body.Args[2], u.Len(body.Args[0]))
					if body.Args[0] != hs.Args[0] || (body.Args[1] != nil && !isIntConst(body.Args[1], 0)) || !ok || d != -int64(len(suf)) {
						bad = fmt.Sprintf("the kept part is not pattern[:len(pattern)-len(%q)]", suf)
					}
				case body.Op == "call" && (body.Aux == "strings.TrimSuffix"):
					if body.Args[0] != hs.Args[0] || body.Args[1] != hs.Args[1] {
						bad = "TrimSuffix is applied to a different string/suffix than the guard"
					}
				default:
					bad = "the kept part is computed by " + clip(u.Show(body), 80) + ", which is not 'remove exactly the suffix' (e.g. TrimRight treats its argument as a character set and strips every trailing '/' and '*')"
				}
				// and the other alternative of the same store keeps the string the guard tested
				if hs != nil {
					for o, oc := range u.Leaves(ef.Val) {
						if o != v && u.bdd.And(oc, ef.Cond) != False && o != hs.Args[0] && bad == "" {
							bad = "where the suffix is absent the constructor stores " + clip(u.Show(o), 80) + ", not the pattern it tested"
						}
					}
				}
			}
		}
		_ = obj
		if n != 1 && bad == "" {
			bad = fmt.Sprintf("expected one rewrite of the pattern, found %d", n)
		}
		c.Check(bad == "", "C03.R8", "NewNetworkRule: trailing '/*' becomes '^' with exactly that suffix removed", nnr.Pos(), "pattern[:len-len(suffix)] + MaskSeparator under HasSuffix(pattern, suffix)", bad)
		c.Check(bad2 == "", "C03.R8", "NewNetworkRule: no other rewrite of the pattern", nnr.Pos(), "every other store to the pattern field stores the parsed text untransformed", bad2)
	}

	// ---------- R11: the options delimiter is searched in front of the last character only ----------
	// A '$' that ends the rule text has no options behind it and belongs to the pattern.
	c.Rule("C03.R11", "LIN", "the scan for the options delimiter starts at the last but one character: a final '$' stays part of the pattern", 1)
	if prt := c.P.Func("rules", "parseRuleText"); prt == nil {
		c.Fail("C03.R11", "anchor:parseRuleText", nnr.Pos(), "unresolved anchor")
	} else {
		g := NewGate(c.P)
		g.Inline = inlineOnly()
		s := g.Eval(prt)
		u := g.U
		c.Fn(FuncName(prt))
		bad := "UNDECIDED: no backward scan for the options delimiter found"
		for _, li := range loopInsts(g, s) {
			ct := countedLoop(u, li.Act, li.L)
			if os.Getenv("UFCHECK_DEBUG_C03") != "" {
				if ct == nil {
					fmt.Println("R11 loop: not counted")
				} else {
					fmt.Println("R11 loop:", ct.StepOK, ct.Step, u.Show(ct.Init))
				}
			}
			if ct == nil || !ct.StepOK || ct.Step != -1 || ct.Init == nil {
				continue
			}
			// the string the scan indexes
			var T *E
			for b := range li.L.Blocks {
				for _, in := range b.Instrs {
					if v, ok := in.(ssa.Value); ok {
						e := li.Act.Env[v]
						if e == nil {
							continue
						}
						// (an index into a selected string is the selection of the indexes)
						var parts []*E
						okAll := true
						for leaf := range u.Leaves(e) {
							if leaf.Op == "index" && leaf.Args[1] == ct.Idx && leaf.Args[0].Typ != nil && isStringT(leaf.Args[0].Typ) {
								parts = append(parts, leaf)
							} else {
								okAll = false
							}
						}
						if okAll && len(parts) > 0 {
							T = e
						}
					}
				}
			}
			if T == nil {
				continue
			}
			bad = ""
			ok := true
			for leaf, lc := range u.Leaves(ct.Init) {
				if lc == False {
					continue
				}
				tl := u.Specialize(T, lc)
				if tl.Op != "index" {
					bad = "UNDECIDED: the scanned string is not determined where the scan starts"
					continue
				}
				L := NewLin(u)
				want := L.linearize(u.Bin(token.SUB, u.Len(tl.Args[0]), u.Int(2), types.Typ[types.Int]))
				got := L.linearize(leaf)
				if !(L.entails(got, want, 0) && L.entails(want, got, 0)) {
					ok = false
					bad = "the scan for the options delimiter starts at " + clip(u.Show(leaf), 60) + ", documented len(text)-2: a '$' that is the last character of the rule would be taken for the delimiter and dropped from the pattern"
				}
			}
			_ = ok
		}
		c.Check(bad == "", "C03.R11", shortFn(prt)+": delimiter scan starts at len(text)-2", prt.Pos(), "initial value of the backward scan index", bad)
	}

	// ---------- R13: the exception marker is cut off as a prefix, once ----------
	// What parseRuleText hands on as the pattern (and what it searches the options in) is the rule text
	// itself or the rule text behind exactly the two characters of "@@": a pattern of an exception rule
	// may itself begin with '@'.
	c.Rule("C03.R13", "LIN", "the text behind the exception marker starts exactly two characters in", 1)
	if prt := c.P.Func("rules", "parseRuleText"); prt != nil {
		g := NewGate(c.P)
		g.Inline = inlineOnly()
		s := g.Eval(prt)
		u := g.U
		txt := g.ParamExprs(prt)[0]
		marker, _ := a.constStr("rules", "maskWhiteList")
		bad := ""
		n := 0
		var baseOK func(e *E, depth int) string
		baseOK = func(e *E, depth int) string {
			switch {
			case depth > 8:
				return "UNDECIDED: derivation too deep"
			case e == txt:
				return ""
			case e.Op == "slice" && len(e.Args) >= 3:
				if e.Args[0] == txt {
					lo := e.Args[1]
					if lo == nil {
						return ""
					}
					if k, ok := lo.IntVal(); ok && (k == 0 || k == int64(len(marker))) {
						return ""
					}
					return "the text is cut at " + clip(u.Show(lo), 40)
				}
				// a cut of a cut: the options scan cuts the remaining text at the delimiter
				return baseOK(e.Args[0], depth+1)
			case e.Op == "call" && (e.Aux == "strings.TrimPrefix" || e.Aux == "strings.CutPrefix") && len(e.Args) == 2 && e.Args[0] == txt:
				if k, ok := e.Args[1].StrVal(); ok && k == marker {
					return ""
				}
				return "a prefix other than the exception marker is removed"
			case e.Op == "extract" && len(e.Args) == 1:
				return baseOK(e.Args[0], depth+1)
			case e.Op == "call" && (strings.HasPrefix(e.Aux, "strings.Trim") || e.Aux == "strings.Replace" || e.Aux == "strings.ReplaceAll") && len(e.Args) >= 1 && (e.Args[0] == txt || baseOK(e.Args[0], depth+1) == ""):
				return "the text behind the marker is " + clip(u.Show(e), 80) + ": every leading character of the set is removed, not the two-character marker (a pattern that itself begins with '@' loses it: @@@banner^ allows everything with 'banner')"
			case e.Op == "loopphi" || e.Op == "loopval":
				return "" // the remaining text carried through the delimiter scan: its entries are judged where they are stored
			}
			if sv, ok := e.StrVal(); ok && sv == "" {
				return ""
			}
			return "UNDECIDED: the pattern is taken from " + clip(u.Show(e), 80)
		}
		for _, r := range s.Rets {
			if r.Cond == False || len(r.Vals) < 1 {
				continue
			}
			for leaf, lc := range u.Leaves(r.Vals[0]) {
				if u.bdd.And(lc, r.Cond) == False {
					continue
				}
				n++
				if w := baseOK(leaf, 0); w != "" && bad == "" {
					bad = w
				}
			}
		}
		// the value carried into the delimiter scan
		for _, li := range loopInsts(g, s) {
			for _, in := range li.L.Header.Instrs {
				ph, ok := in.(*ssa.Phi)
				if !ok {
					break
				}
				if bt, isB := ph.Type().Underlying().(*types.Basic); !isB || bt.Kind() != types.String {
					continue
				}
				for i, pr := range li.L.Header.Preds {
					if li.L.Blocks[pr] {
						continue
					}
					if e := li.Act.Env[ph.Edges[i]]; e != nil {
						for leaf := range u.Leaves(e) {
							n++
							if w := baseOK(leaf, 0); w != "" && bad == "" {
								bad = w
							}
						}
					}
				}
			}
		}
		if n == 0 {
			bad = "UNDECIDED: no pattern value found"
		}
		c.Check(bad == "", "C03.R13", shortFn(prt)+": pattern = text, or text[len(\"@@\"):] under the marker test", prt.Pos(), "every value handed on as the pattern is a cut of the rule text that starts at 0 or behind the marker", bad)
	}

	// ---------- R9: the expansion constants mean what the syntax documents ----------
	// The constants are read from the source and interpreted inside the checker (Go's regexp on the
	// constant text, against a table of the documented cases); nothing of urlfilter runs.
	c.Rule("C03.R9", "TBL", "mask characters and their expansions have the documented meaning", 9)
	{
		exact := map[string]string{"MaskStartURL": "||", "MaskPipe": "|", "MaskSeparator": "^", "MaskAnyCharacter": "*", "RegexStartString": "^", "RegexEndString": "$"}
		for _, n := range []string{"MaskStartURL", "MaskPipe", "MaskSeparator", "MaskAnyCharacter", "RegexStartString", "RegexEndString"} {
			c.Check(K[n] == exact[n], "C03.R9", "constant "+n, nnr.Pos(), fmt.Sprintf("%q", exact[n]), fmt.Sprintf("the constant is %q, the syntax documents %q", K[n], exact[n]))
		}
		full := func(src string) (*regexp.Regexp, error) { return regexp.Compile("^(?:" + src + ")$") }
		// '*' : any run of characters, also the empty one
		bad := ""
		if re, err := full(K["RegexAnyCharacter"]); err != nil {
			bad = "does not compile: " + err.Error()
		} else {
			for _, t := range []string{"", "a", "ads/banner.gif?x=1&y=%20", "||^*", "ÿ"} {
				if !re.MatchString(t) {
					bad = fmt.Sprintf("the expansion of '*' (%q) does not accept %q: '*' stands for any run of characters", K["RegexAnyCharacter"], t)
				}
			}
		}
		c.Check(bad == "", "C03.R9", "constant RegexAnyCharacter", nnr.Pos(), "accepts every sample string", bad)
		// '^' : one character that is not a letter, a digit or one of _ - . %, or the end of the address
		bad = ""
		if re, err := full(K["RegexSeparator"]); err != nil {
			bad = "does not compile: " + err.Error()
		} else {
			for ch := 33; ch < 127 && bad == ""; ch++ {
				isWord := (ch >= 'a' && ch <= 'z') || (ch >= 'A' && ch <= 'Z') || (ch >= '0' && ch <= '9') || strings.ContainsRune("_-.%", rune(ch))
				if got := re.MatchString(string(rune(ch))); got == isWord {
					bad = fmt.Sprintf("the expansion of '^' (%q) %s %q: a separator is any character but a letter, a digit or one of _ - . %%", K["RegexSeparator"], map[bool]string{true: "accepts", false: "rejects"}[got], string(rune(ch)))
				}
			}
			if bad == "" && !re.MatchString("") {
				bad = "the expansion of '^' does not accept the end of the address"
			}
			if bad == "" && re.MatchString("//") {
				bad = "the expansion of '^' accepts more than one character"
			}
		}
		c.Check(bad == "", "C03.R9", "constant RegexSeparator", nnr.Pos(), "one non-word character or the end, on all printable ASCII characters", bad)
		// '||' : http://, https://, ws://, wss://, each optionally followed by subdomains
		bad = ""
		if re, err := regexp.Compile(K["RegexStartURL"]); err != nil {
			bad = "does not compile: " + err.Error()
		} else {
			for _, sch := range []string{"http", "https", "ws", "wss"} {
				for _, rest := range []string{"example.org/", "sub.example.org/x", "a-b_c.example.org"} {
					u := sch + "://" + rest
					loc := re.FindStringIndex(u)
					if loc == nil || loc[0] != 0 {
						bad = fmt.Sprintf("the expansion of '||' (%q) does not accept %q: '||' stands for http://*., https://*., ws://*. and wss://*.", K["RegexStartURL"], u)
					}
				}
			}
			for _, u := range []string{"ftp://example.org/", "xhttp://example.org/", "http:/example.org", "httpss://example.org", "wsss://example.org", "example.org/http://x.org/"} {
				if loc := re.FindStringIndex(u); loc != nil && loc[0] == 0 && bad == "" {
					bad = fmt.Sprintf("the expansion of '||' (%q) accepts %q", K["RegexStartURL"], u)
				}
			}
			// the remainder of the pattern must be able to start at any label: with the expansion
			// followed by "example.org", sub.example.org and example.org match, notexample.org does not
			if re2, err := regexp.Compile(K["RegexStartURL"] + "example\\.org"); err == nil && bad == "" {
				// ... and only inside the host name: a query, a path, userinfo or a fragment in front of
				// the text is not a chain of sub-domain labels
				type row struct {
					u    string
					want bool
				}
				for _, r := range []row{{"http://example.org", true}, {"https://a.b.example.org", true}, {"http://notexample.org", false},
					{"https://evil.test?next=a.example.org", false}, {"https://evil.test/a.example.org", false}, {"https://user@a.example.org", false},
					{"https://evil.test#x.example.org", false}, {"https://evil.test:80.example.org", false}, {"http://a b.example.org", false},
					// every character a DNS label can have: letters, digits, hyphen, underscore (_dmarc, _sip._tcp)
					{"http://_dmarc.example.org", true}, {"wss://_sip._tcp.example.org", true}, {"https://a-b.example.org", true},
					{"http://x1.y2.example.org", true}, {"ws://a_b-c9.d.example.org", true}} {
					u, want := r.u, r.want
					if bad == "" && re2.MatchString(u) != want {
						bad = fmt.Sprintf("'||example.org' %s %q", map[bool]string{true: "does not match", false: "matches"}[want], u)
					}
				}
			}
		}
		c.Check(bad == "", "C03.R9", "constant RegexStartURL", nnr.Pos(), "the four schemes with optional subdomains, nothing else; label boundary before the rest", bad)
	}
}

// replacerTables reads the strings.NewReplacer calls of the package initialiser: per package-level
// variable the constant (from, to) pairs.
func replacerTables(c *Ctx) map[string]map[string]string {
	out := map[string]map[string]string{}
	sp := c.P.SPkg[pkgPath("rules")]
	if sp == nil {
		return out
	}
	initFn := sp.Func("init")
	if initFn == nil {
		return out
	}
	eachInstr(initFn, func(_ *ssa.BasicBlock, in ssa.Instruction) {
		cl, ok := in.(*ssa.Call)
		if !ok || cl.Call.StaticCallee() == nil || calleeName(cl.Call.StaticCallee()) != "strings.NewReplacer" {
			return
		}
		// varargs: stores into the backing array
		var vals []string
		complete := true
		if sl, ok := cl.Call.Args[0].(*ssa.Slice); ok {
			if al, ok := sl.X.(*ssa.Alloc); ok {
				m := map[int64]string{}
				for _, r := range *al.Referrers() {
					if ia, ok := r.(*ssa.IndexAddr); ok {
						ic, isC := ia.Index.(*ssa.Const)
						if !isC {
							complete = false
							continue
						}
						idx := ic.Int64()
						for _, r2 := range *ia.Referrers() {
							if st, ok := r2.(*ssa.Store); ok {
								if k, ok := st.Val.(*ssa.Const); ok {
									m[idx] = constantString(k)
								} else {
									complete = false
								}
							}
						}
					}
				}
				for i := int64(0); i < int64(len(m)); i++ {
					vals = append(vals, m[i])
				}
			}
		}
		if !complete {
			return
		}
		pairs := map[string]string{}
		for i := 0; i+1 < len(vals); i += 2 {
			pairs[vals[i]] = vals[i+1]
		}
		if rs := cl.Referrers(); rs != nil {
			for _, r := range *rs {
				if st, ok := r.(*ssa.Store); ok {
					if gl, ok := st.Addr.(*ssa.Global); ok {
						out[gl.Name()] = pairs
					}
				}
			}
		}
	})
	return out
}

// leavesOf lists the alternatives of a selection (the expression itself when it is none).
func leavesOf(u *U, e *E) []*E {
	var out []*E
	for leaf := range u.Leaves(e) {
		out = append(out, leaf)
	}
	if len(out) == 0 {
		out = append(out, e)
	}
	return out
}
