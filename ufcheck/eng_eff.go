package main

// EFF — write effects by ownership ("freshness").  A reference value (slice,
// pointer, map) is *fresh* when it designates memory allocated during the
// current activation tree (allocations, make, results of functions that
// return fresh memory, appends on fresh or capacity-capped slices, the
// object handed out by the request pool).  A write through a non-fresh
// reference is an effect on memory somebody else can see.
//
// Parameter freshness is the conjunction over all call sites inside the
// library (exported functions: not fresh); field freshness is the
// conjunction over all stores to that field.  Everything starts optimistic
// and is lowered to a fixpoint.

import (
	"fmt"
	"go/token"
	"go/types"
	"sort"
	"strings"

	"golang.org/x/tools/go/ssa"
)

type Eff struct {
	p          *Prog
	funcs      []*ssa.Function
	paramFresh map[*ssa.Function][]bool
	retFresh   map[*ssa.Function][]bool
	fieldFresh map[string]bool // "pkg.Type.field" -> every stored value is fresh
	callers    map[*ssa.Function]int
	addrTaken  map[*ssa.Function]bool
	cur        *ssa.Function
	memo       map[ssa.Value]int // 0 unknown, 1 in progress, 2 fresh, 3 not
	deepSeen   map[ssa.Value]bool
}

// Write is one write effect through a non-fresh reference.
type Write struct {
	Fn    *ssa.Function
	Instr ssa.Instruction
	Kind  string // store | mapupdate | append | inplace | libcall
	What  string // field name / callee
	Desc  string
}

func isRefType(t types.Type) bool {
	switch t.Underlying().(type) {
	case *types.Slice, *types.Pointer, *types.Map:
		return true
	}
	return false
}

func NewEff(p *Prog) *Eff {
	// (deepSeen: cycle guard of deepFresh)
	e := &Eff{p: p, funcs: p.AllLibFuncs(), paramFresh: map[*ssa.Function][]bool{}, retFresh: map[*ssa.Function][]bool{},
		fieldFresh: map[string]bool{}, callers: map[*ssa.Function]int{}, addrTaken: map[*ssa.Function]bool{}}
	for _, fn := range e.funcs {
		eachInstr(fn, func(_ *ssa.BasicBlock, in ssa.Instruction) {
			if ci, ok := in.(ssa.CallInstruction); ok {
				for _, cal := range p.Callees(ci) {
					e.callers[cal]++
				}
			}
			// function values used other than as static callee
			var ops []*ssa.Value
			for _, op := range in.Operands(ops) {
				if f, ok := (*op).(*ssa.Function); ok {
					if ci, isCall := in.(ssa.CallInstruction); !isCall || ci.Common().Value != ssa.Value(f) {
						e.addrTaken[f] = true
					}
				}
			}
		})
	}
	for _, fn := range e.funcs {
		pf := make([]bool, len(fn.Params))
		open := e.isOpen(fn)
		for i := range pf {
			pf[i] = !open
		}
		e.paramFresh[fn] = pf
		rf := make([]bool, fn.Signature.Results().Len())
		for i := range rf {
			rf[i] = true
		}
		e.retFresh[fn] = rf
	}
	e.solve()
	return e
}

// isOpen: the function can be called from outside the library with
// arbitrary arguments (exported, or a method of an exported type reachable
// through an interface, or used as a function value).
func (e *Eff) isOpen(fn *ssa.Function) bool {
	if fn.Parent() != nil {
		// closures: their parameters come from whoever calls the function value
		return true
	}
	if e.addrTaken[fn] {
		return true
	}
	if fn.Object() != nil && fn.Object().Exported() {
		return true
	}
	if e.callers[fn] == 0 {
		return true
	}
	return false
}

func fieldKey(n *types.Named, f string) string {
	if n == nil || n.Obj() == nil {
		return "?." + f
	}
	pk := ""
	if n.Obj().Pkg() != nil {
		pk = n.Obj().Pkg().Name()
	}
	return pk + "." + n.Obj().Name() + "." + f
}

func (e *Eff) solve() {
	for iter := 0; iter < 40; iter++ {
		changed := false
		for _, fn := range e.funcs {
			e.cur = fn
			e.memo = map[ssa.Value]int{}
			eachInstr(fn, func(_ *ssa.BasicBlock, in ssa.Instruction) {
				switch in := in.(type) {
				case ssa.CallInstruction:
					cc := in.Common()
					args := cc.Args
					for _, cal := range e.p.Callees(in) {
						pf, ok := e.paramFresh[cal]
						if !ok {
							continue
						}
						off := 0
						if cc.IsInvoke() {
							// receiver is cc.Value
							if len(pf) > 0 && pf[0] && isRefType(cc.Value.Type()) && !e.fresh(cc.Value) {
								pf[0] = false
								changed = true
							}
							off = 1
						}
						for i, a := range args {
							j := i + off
							if j < len(pf) && pf[j] && isRefType(a.Type()) && !e.fresh(a) {
								pf[j] = false
								changed = true
							}
						}
					}
				case *ssa.Store:
					if n, f, ok := fieldOf(in.Addr); ok && isRefType(in.Val.Type()) {
						k := fieldKey(n, f)
						if v, seen := e.fieldFresh[k]; (!seen || v) && !e.fresh(in.Val) {
							e.fieldFresh[k] = false
							changed = true
						} else if !seen {
							e.fieldFresh[k] = true
						}
					}
				case *ssa.Return:
					rf := e.retFresh[fn]
					for i, r := range in.Results {
						if i < len(rf) && rf[i] && isRefType(r.Type()) && !e.fresh(r) {
							rf[i] = false
							changed = true
						}
					}
				}
			})
		}
		if !changed {
			break
		}
	}
}

// libPassthrough: library functions whose (first) result designates the same
// memory as their first argument.
func libPassthrough(name string) bool {
	for _, p := range []string{"slices.Delete", "slices.DeleteFunc", "slices.Compact", "slices.Clip", "slices.Grow", "slices.Insert", "slices.Replace"} {
		if strings.HasPrefix(name, p) {
			return true
		}
	}
	return false
}

// libFreshResult: library functions that return newly allocated memory.
func libFreshResult(name string) bool {
	for _, p := range []string{"strings.", "bytes.", "slices.Clone", "strconv.", "fmt.", "regexp.", "(*regexp.Regexp)", "net/netip.", "(net/netip.",
		"errors.", "github.com/AdguardTeam/golibs/errors.", "io.", "(*strings.Builder)", "github.com/miekg/dns.", "math", "unicode",
		"golang.org/x/net/publicsuffix.", "(*github.com/AdguardTeam/golibs/syncutil.Pool", "github.com/AdguardTeam/golibs/syncutil.NewPool",
		"bufio.", "os.Open", "path/filepath.", "compress/gzip.", "github.com/AdguardTeam/gomitmproxy/proxyutil.", "(*bytes.", "text/template", "(*text/template", "net/http.", "(*net/http", "(net/http", "net/url", "(*net/url", "time.", "(time."} {
		if strings.HasPrefix(name, p) {
			return true
		}
	}
	return false
}

// fresh reports whether v designates memory owned by the current activation tree.
func (e *Eff) fresh(v ssa.Value) bool {
	switch e.memo[v] {
	case 1, 2:
		return true // optimistic on cycles
	case 3:
		return false
	}
	e.memo[v] = 1
	r := e.fresh1(v)
	if r {
		e.memo[v] = 2
	} else {
		e.memo[v] = 3
	}
	return r
}

func (e *Eff) fresh1(v ssa.Value) bool {
	switch x := v.(type) {
	case *ssa.Const:
		return true
	case *ssa.Alloc, *ssa.MakeSlice, *ssa.MakeMap, *ssa.MakeChan, *ssa.MakeClosure, *ssa.MakeInterface:
		if mi, ok := v.(*ssa.MakeInterface); ok {
			if isRefType(mi.X.Type()) {
				return e.fresh(mi.X)
			}
		}
		return true
	case *ssa.Parameter:
		fn := x.Parent()
		for i, p := range fn.Params {
			if p == x {
				if pf, ok := e.paramFresh[fn]; ok && i < len(pf) {
					return pf[i]
				}
			}
		}
		return false
	case *ssa.FreeVar:
		// the captured variable cell belongs to the enclosing activation
		return true
	case *ssa.Global:
		return false
	case *ssa.Phi:
		for _, ed := range x.Edges {
			if !e.fresh(ed) {
				return false
			}
		}
		return true
	case *ssa.FieldAddr:
		return e.fresh(x.X)
	case *ssa.IndexAddr:
		return e.fresh(x.X)
	case *ssa.Slice:
		return e.fresh(x.X)
	case *ssa.ChangeType:
		return e.fresh(x.X)
	case *ssa.Convert:
		if isRefType(x.X.Type()) {
			return e.fresh(x.X)
		}
		return true
	case *ssa.TypeAssert:
		return e.fresh(x.X)
	case *ssa.Extract:
		if cl, ok := x.Tuple.(*ssa.Call); ok {
			return e.callFresh(cl, x.Index)
		}
		if ta, ok := x.Tuple.(*ssa.TypeAssert); ok {
			return e.fresh(ta.X)
		}
		if lk, ok := x.Tuple.(*ssa.Lookup); ok {
			_ = lk
			return false
		}
		return false
	case *ssa.Lookup:
		return false // element of a map: shared unless the map is fresh
	case *ssa.Index:
		return e.fresh(x.X)
	case *ssa.Field:
		return e.fresh(x.X)
	case *ssa.UnOp:
		if x.Op != token.MUL {
			return true
		}
		// load
		return e.loadFresh(x.X, 0)
	case *ssa.Call:
		return e.callFresh(x, 0)
	case *ssa.BinOp:
		return true // string concatenation etc.
	case *ssa.Range, *ssa.Next:
		return false
	}
	return false
}

// loadFresh: is the value loaded from addr fresh?
func (e *Eff) loadFresh(addr ssa.Value, depth int) bool {
	if depth > 6 {
		return false
	}
	{
		switch a := addr.(type) {
		case *ssa.Phi:
			// a pointer selected among several places (dst := &s.A / &s.B): every candidate
			for _, ed := range a.Edges {
				if ed == ssa.Value(a) {
					continue
				}
				if !e.loadFresh(ed, depth+1) {
					return false
				}
			}
			return len(a.Edges) > 0
		case *ssa.Alloc:
			// local cell: union of the values stored into it
			ok := true
			if rs := a.Referrers(); rs != nil {
				for _, r := range *rs {
					if st, isSt := r.(*ssa.Store); isSt && st.Addr == ssa.Value(a) && isRefType(st.Val.Type()) && !e.fresh(st.Val) {
						ok = false
					}
				}
			}
			return ok
		case *ssa.FreeVar:
			// captured cell: values stored into the cell by the enclosing function
			return e.cellFresh(a)
		case *ssa.FieldAddr:
			if !e.fresh(a.X) {
				return false
			}
			if n, f, ok := fieldOf(a); ok {
				if fv, seen := e.fieldFresh[fieldKey(n, f)]; seen {
					return fv
				}
			}
			return true
		case *ssa.Call:
			// a helper that hands out the address of one of the fields of its (fresh) argument:
			// dst := s.bucket(kind); *dst = append(*dst, x)
			if !e.fresh(a) {
				return false
			}
			cal := a.Call.StaticCallee()
			if cal == nil || cal.Blocks == nil {
				return false
			}
			ok := true
			n := 0
			eachInstr(cal, func(_ *ssa.BasicBlock, in ssa.Instruction) {
				r, isRet := in.(*ssa.Return)
				if !isRet || len(r.Results) == 0 {
					return
				}
				var visit func(v ssa.Value, d int)
				visit = func(v ssa.Value, d int) {
					if d > 6 {
						ok = false
						return
					}
					switch x := v.(type) {
					case *ssa.Phi:
						for _, ed := range x.Edges {
							if ed != v {
								visit(ed, d+1)
							}
						}
					case *ssa.FieldAddr:
						n++
						if nn, f, isF := fieldOf(x); isF {
							if fv, seen := e.fieldFresh[fieldKey(nn, f)]; seen && !fv {
								ok = false
							}
						} else {
							ok = false
						}
					default:
						ok = false
					}
				}
				visit(r.Results[0], 0)
			})
			return ok && n > 0
		case *ssa.IndexAddr:
			// an element that is itself a reference: fresh only if everything put into the
			// collection was fresh (a fresh slice of pointers to shared rules is not)
			if et := deref(a.Type()); isRefType(et) || types.IsInterface(et) {
				return e.deepFresh(a.X, 0)
			}
			return e.fresh(a.X)
		}
		return false
	}
}

func deref(t types.Type) types.Type {
	if p, ok := t.Underlying().(*types.Pointer); ok {
		return p.Elem()
	}
	return t
}

// deepFresh: v is a collection allocated by this activation AND every reference stored in it is
// fresh.  Conservative: collections returned by repository functions, loaded from fields or
// received as parameters count as holding shared references.
func (e *Eff) deepFresh(v ssa.Value, depth int) bool {
	if depth > 8 {
		return false
	}
	switch x := v.(type) {
	case *ssa.Const:
		return true
	case *ssa.MakeSlice:
		return true
	case *ssa.Alloc:
		// an array literal: its stores
		ok := true
		if rs := x.Referrers(); rs != nil {
			for _, r := range *rs {
				if ia, isIA := r.(*ssa.IndexAddr); isIA && ia.Referrers() != nil {
					for _, r2 := range *ia.Referrers() {
						if st, isSt := r2.(*ssa.Store); isSt && st.Addr == ssa.Value(ia) && isRefType(st.Val.Type()) && !e.fresh(st.Val) {
							ok = false
						}
					}
				}
			}
		}
		return ok
	case *ssa.Phi:
		for _, ed := range x.Edges {
			if ed == ssa.Value(x) {
				continue
			}
			if ph2, isPhi := ed.(*ssa.Phi); isPhi && ph2 == x {
				continue
			}
			if e.deepSeen == nil {
				e.deepSeen = map[ssa.Value]bool{}
			}
			if e.deepSeen[ed] {
				continue
			}
			e.deepSeen[ed] = true
			ok := e.deepFresh(ed, depth+1)
			delete(e.deepSeen, ed)
			if !ok {
				return false
			}
		}
		return true
	case *ssa.Slice:
		return e.deepFresh(x.X, depth+1)
	case *ssa.ChangeType:
		return e.deepFresh(x.X, depth+1)
	case *ssa.Call:
		if b, ok := x.Call.Value.(*ssa.Builtin); ok && b.Name() == "append" {
			if !e.deepFresh(x.Call.Args[0], depth+1) {
				return false
			}
			if len(x.Call.Args) < 2 {
				return true
			}
			// the appended elements arrive as a slice: a literal [n]T{...}[:] or a spread argument
			return e.deepFresh(x.Call.Args[1], depth+1)
		}
		for _, cal := range e.p.Callees(x) {
			if libPassthrough(calleeName(cal)) && len(x.Call.Args) > 0 {
				return e.deepFresh(x.Call.Args[0], depth+1)
			}
		}
		return false
	case *ssa.UnOp:
		if x.Op == token.MUL {
			if al, ok := x.X.(*ssa.Alloc); ok && al.Referrers() != nil {
				ok2 := true
				for _, r := range *al.Referrers() {
					if st, isSt := r.(*ssa.Store); isSt && st.Addr == ssa.Value(al) && !e.deepFresh(st.Val, depth+1) {
						ok2 = false
					}
				}
				return ok2
			}
		}
		return false
	}
	return false
}

func (e *Eff) cellFresh(fv *ssa.FreeVar) bool {
	fn := fv.Parent()
	par := fn.Parent()
	if par == nil {
		return false
	}
	idx := -1
	for i, v := range fn.FreeVars {
		if v == fv {
			idx = i
		}
	}
	ok := true
	eachInstr(par, func(_ *ssa.BasicBlock, in ssa.Instruction) {
		if mc, isMC := in.(*ssa.MakeClosure); isMC && mc.Fn == ssa.Value(fn) && idx < len(mc.Bindings) {
			if al, isAl := mc.Bindings[idx].(*ssa.Alloc); isAl {
				if rs := al.Referrers(); rs != nil {
					for _, r := range *rs {
						if st, isSt := r.(*ssa.Store); isSt && st.Addr == ssa.Value(al) && isRefType(st.Val.Type()) {
							save, saveM := e.cur, e.memo
							e.cur, e.memo = par, map[ssa.Value]int{}
							if !e.fresh(st.Val) {
								ok = false
							}
							e.cur, e.memo = save, saveM
						}
					}
				}
			} else {
				ok = false
			}
		}
	})
	return ok
}

func (e *Eff) callFresh(cl *ssa.Call, idx int) bool {
	cc := &cl.Call
	if b, ok := cc.Value.(*ssa.Builtin); ok {
		switch b.Name() {
		case "append":
			return e.appendSafe(cc.Args[0])
		}
		return true
	}
	cals := e.p.Callees(cl)
	if len(cals) == 0 {
		return false
	}
	for _, cal := range cals {
		if rf, ok := e.retFresh[cal]; ok {
			if idx >= len(rf) || !rf[idx] {
				return false
			}
			continue
		}
		name := calleeName(cal)
		switch {
		case libPassthrough(name):
			if len(cc.Args) == 0 || !e.fresh(cc.Args[0]) {
				return false
			}
		case strings.HasSuffix(name, ".Get") && strings.Contains(name, "syncutil.Pool"):
			// the pool hands out an object for exclusive use
		case libFreshResult(name):
		default:
			return false
		}
	}
	return true
}

// appendSafe: appending to v never writes memory visible to anyone else.
func (e *Eff) appendSafe(v ssa.Value) bool {
	if sl, ok := v.(*ssa.Slice); ok && sl.Max != nil && sl.High != nil && sl.Max == sl.High {
		return true // cap == len: append always reallocates
	}
	if ph, ok := v.(*ssa.Phi); ok {
		if e.memo[v] == 1 {
			return true
		}
		e.memo[v] = 1
		defer func() { e.memo[v] = 0 }()
		for _, ed := range ph.Edges {
			if !e.appendSafe(ed) {
				return false
			}
		}
		return true
	}
	return e.fresh(v)
}

var inplaceLib = []string{"slices.Delete", "slices.DeleteFunc", "slices.Sort", "slices.SortFunc", "slices.SortStableFunc", "slices.Reverse", "slices.Compact", "slices.Insert", "slices.Replace", "sort."}

// WritesFrom lists the writes through non-fresh references in the library
// functions reachable from roots.
// paramRoot returns the parameter an address/reference is derived from, if any.
// isSharedCellMutator: methods and functions of sync/atomic and sync.Map that change the cell their
// first argument points to.  They are race-free, so a lock analysis does not see them, but they are
// writes all the same.
func isSharedCellMutator(name string) bool {
	mut := []string{"Store", "Swap", "CompareAndSwap", "Add", "And", "Or", "LoadOrStore", "LoadAndDelete", "Delete", "CompareAndDelete", "Clear"}
	switch {
	case strings.HasPrefix(name, "(*sync/atomic."), strings.HasPrefix(name, "(*sync.Map)."):
		m := name[strings.LastIndex(name, ".")+1:]
		for _, x := range mut {
			if m == x {
				return true
			}
		}
	case strings.HasPrefix(name, "sync/atomic."):
		m := strings.TrimPrefix(name, "sync/atomic.")
		for _, x := range mut {
			if strings.HasPrefix(m, x) {
				return true
			}
		}
	}
	return false
}

// cellKey names the atomic cell / concurrent map an address denotes: the struct field or the
// package-level variable; anything else is named by the operation (and then always counted).
func cellKey(addr ssa.Value, op string) string {
	if n, f, ok := fieldOf(addr); ok {
		return fieldKey(n, f)
	}
	if g, ok := addr.(*ssa.Global); ok {
		return "global " + g.Name()
	}
	return op
}

func paramRoot(v ssa.Value, depth int) *ssa.Parameter {
	if depth > 8 {
		return nil
	}
	switch x := v.(type) {
	case *ssa.Parameter:
		return x
	case *ssa.FieldAddr:
		return paramRoot(x.X, depth+1)
	case *ssa.IndexAddr:
		return paramRoot(x.X, depth+1)
	case *ssa.Slice:
		return paramRoot(x.X, depth+1)
	case *ssa.UnOp:
		if x.Op == token.MUL {
			if fa, ok := x.X.(*ssa.FieldAddr); ok {
				return paramRoot(fa.X, depth+1)
			}
			if ph, ok := x.X.(*ssa.Phi); ok {
				return paramRoot(ph, depth+1)
			}
		}
	case *ssa.Phi:
		// all candidates derive from the same parameter
		var root *ssa.Parameter
		for _, ed := range x.Edges {
			if ed == ssa.Value(x) {
				continue
			}
			r := paramRoot(ed, depth+1)
			if r == nil || (root != nil && r != root) {
				return nil
			}
			root = r
		}
		return root
	}
	return nil
}

func paramIndex(fn *ssa.Function, p *ssa.Parameter) int {
	for i, q := range fn.Params {
		if q == p {
			return i
		}
	}
	return -1
}

func (e *Eff) WritesFrom(roots ...*ssa.Function) []Write {
	isRoot := map[*ssa.Function]bool{}
	for _, r := range roots {
		isRoot[r] = true
	}
	// writesParam[fn][i]: fn (an open, non-root function) writes through its i-th parameter; judged at its call sites
	writesParam := map[*ssa.Function]map[int]bool{}
	deferToCaller := func(fn *ssa.Function, ref ssa.Value) bool {
		if isRoot[fn] || !e.isOpen(fn) || fn.Parent() != nil {
			return false
		}
		p := paramRoot(ref, 0)
		if p == nil {
			return false
		}
		i := paramIndex(fn, p)
		if i < 0 {
			return false
		}
		if writesParam[fn] == nil {
			writesParam[fn] = map[int]bool{}
		}
		writesParam[fn][i] = true
		return true
	}
	reach := e.p.Reachable(roots...)
	var fns []*ssa.Function
	for fn := range reach {
		if e.p.IsLibFunc(fn) && fn.Blocks != nil {
			fns = append(fns, fn)
		}
	}
	sort.Slice(fns, func(i, j int) bool { return fns[i].String() < fns[j].String() })
	var out []Write
	// atomic cells / concurrent maps whose content some reachable function reads back
	cellsRead := map[string]bool{}
	for _, fn := range fns {
		eachInstr(fn, func(_ *ssa.BasicBlock, in ssa.Instruction) {
			ci, ok := in.(ssa.CallInstruction)
			if !ok || len(ci.Common().Args) == 0 {
				return
			}
			for _, cal := range e.p.Callees(ci) {
				name := calleeName(cal)
				if !strings.HasPrefix(name, "(*sync/atomic.") && !strings.HasPrefix(name, "(*sync.Map).") && !strings.HasPrefix(name, "sync/atomic.") {
					continue
				}
				m := name[strings.LastIndex(name, ".")+1:]
				reads := strings.HasPrefix(m, "Load") || strings.HasPrefix(m, "CompareAnd") || m == "Range" || strings.HasPrefix(m, "Swap")
				if v, isVal := in.(ssa.Value); isVal && !reads && (strings.HasPrefix(m, "Add") || strings.HasPrefix(m, "And") || strings.HasPrefix(m, "Or")) {
					if rs := v.Referrers(); rs != nil && len(*rs) > 0 {
						reads = true
					}
				}
				if reads {
					cellsRead[cellKey(ci.Common().Args[0], name)] = true
				}
			}
		})
	}
	for _, fn := range fns {
		e.cur = fn
		e.memo = map[ssa.Value]int{}
		eachInstr(fn, func(_ *ssa.BasicBlock, in ssa.Instruction) {
			switch in := in.(type) {
			case *ssa.Store:
				if _, isAlloc := in.Addr.(*ssa.Alloc); isAlloc {
					return
				}
				if !e.fresh(in.Addr) {
					if deferToCaller(fn, in.Addr) {
						return
					}
					what := "?"
					if n, f, ok := fieldOf(in.Addr); ok {
						what = fieldKey(n, f)
					} else if _, ok := in.Addr.(*ssa.IndexAddr); ok {
						what = "element"
					} else if g, ok := in.Addr.(*ssa.Global); ok {
						what = "global " + g.Name()
					}
					out = append(out, Write{fn, in, "store", what, "store through a reference to memory not allocated by this query"})
				}
			case *ssa.MapUpdate:
				// the map field of a struct received by value: the struct is a copy, the map is not
				if ld, ok := in.Map.(*ssa.UnOp); ok && ld.Op == token.MUL {
					if fa, ok := ld.X.(*ssa.FieldAddr); ok {
						if al, ok := fa.X.(*ssa.Alloc); ok && spilledParam(al) != nil {
							if n, f, ok := fieldOf(fa); ok {
								out = append(out, Write{fn, in, "mapupdate", fieldKey(n, f), "update of a map not allocated by this query"})
								return
							}
						}
					}
				}
				if !e.fresh(in.Map) {
					if deferToCaller(fn, in.Map) {
						return
					}
					what := "map"
					if ld, ok := in.Map.(*ssa.UnOp); ok {
						if n, f, ok := fieldOf(ld.X); ok {
							what = fieldKey(n, f)
						}
					}
					out = append(out, Write{fn, in, "mapupdate", what, "update of a map not allocated by this query"})
				}
			case ssa.CallInstruction:
				cc := in.Common()
				if b, ok := cc.Value.(*ssa.Builtin); ok {
					switch b.Name() {
					case "append":
						if !e.appendSafe(cc.Args[0]) {
							out = append(out, Write{fn, in, "append", "append", "append to a slice that shares its backing array with memory not allocated by this query (no capacity cap)"})
						}
					case "copy", "clear", "delete":
						if !e.fresh(cc.Args[0]) {
							out = append(out, Write{fn, in, "inplace", b.Name(), b.Name() + " on memory not allocated by this query"})
						}
					}
					return
				}
				for _, cal := range e.p.Callees(in) {
					if _, isLib := e.retFresh[cal]; isLib {
						continue
					}
					name := calleeName(cal)
					for _, p := range inplaceLib {
						if strings.HasPrefix(name, p) && len(cc.Args) > 0 && !e.fresh(cc.Args[0]) {
							out = append(out, Write{fn, in, "inplace", name, "in-place library operation on a slice not allocated by this query"})
						}
					}
					if isSharedCellMutator(name) && len(cc.Args) > 0 && !e.fresh(cc.Args[0]) {
						if deferToCaller(fn, cc.Args[0]) {
							continue
						}
						what := cellKey(cc.Args[0], name)
						if !cellsRead[what] && what != name {
							continue // a write-only cell (statistics counter): no query reads it back
						}
						out = append(out, Write{fn, in, "store", what, name + " on an atomic cell / concurrent map not allocated by this query (race-free, but state that later queries read)"})
					}
				}
			}
		})
	}
	// call sites of parameter-writing functions with shared arguments
	for pass := 0; pass < 3; pass++ {
		for _, fn := range fns {
			e.cur = fn
			e.memo = map[ssa.Value]int{}
			eachInstr(fn, func(_ *ssa.BasicBlock, in ssa.Instruction) {
				ci, ok := in.(ssa.CallInstruction)
				if !ok {
					return
				}
				for _, cal := range e.p.Callees(ci) {
					wp := writesParam[cal]
					if wp == nil {
						continue
					}
					args := ci.Common().Args
					for i := range wp {
						if i >= len(args) || e.fresh(args[i]) {
							continue
						}
						if pass == 0 && deferToCaller(fn, args[i]) {
							continue
						}
						if pass == 2 {
							out = append(out, Write{fn, in, "store", "argument of " + shortFn(cal), "shared memory is passed to " + shortFn(cal) + ", which writes through that parameter"})
						}
					}
				}
			})
		}
	}
	return out
}

// aliasingWrites is the slice-aliasing subset used by C02/C13: appends,
// element stores and in-place operations on non-fresh slices reachable from roots.
func aliasingWrites(c *Ctx, roots []*ssa.Function) []string {
	e := effOf(c)
	var out []string
	for _, w := range e.WritesFrom(roots...) {
		if w.Kind == "append" || w.Kind == "inplace" || (w.Kind == "store" && w.What == "element") {
			out = append(out, fmt.Sprintf("%s: %s: %s", c.P.Pos(w.Instr.Pos()), shortFn(w.Fn), w.Desc))
		}
	}
	return out
}

func effOf(c *Ctx) *Eff {
	if v, ok := c.Extra["__eff"]; ok {
		return v.(*Eff)
	}
	e := NewEff(c.P)
	c.Extra["__eff"] = e
	return e
}

// spilledParam: the local cell a holds a by-value parameter (the only store into it is that
// parameter).
func spilledParam(a *ssa.Alloc) *ssa.Parameter {
	rs := a.Referrers()
	if rs == nil {
		return nil
	}
	var p *ssa.Parameter
	for _, r := range *rs {
		if st, ok := r.(*ssa.Store); ok && st.Addr == ssa.Value(a) {
			pp, isP := st.Val.(*ssa.Parameter)
			if !isP || (p != nil && p != pp) {
				return nil
			}
			p = pp
		}
	}
	return p
}
