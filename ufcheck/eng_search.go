package main

import (
	"go/types"
	"sort"
	"strings"

	"golang.org/x/tools/go/ssa"
)

// Reasoning about the canonical search form exists(coll, pred) (see
// Gate.Search).

// witnessAxioms returns the conjunction of the facts "pred holds for the
// element coll[e]  =>  exists(coll, pred)" for every element expression
// coll[e] that occurs in f.  (An element expression that is evaluated is in
// range: an out-of-range index panics instead of producing a value.)
func witnessAxioms(u *U, f Ref, ex *E) Ref {
	if ex == nil || ex.Op != "exists" {
		return True
	}
	coll := ex.Args[0]
	pred := u.ToBool(ex.Args[1])
	var bv, bi *E
	for _, at := range u.AtomsOf(pred) {
		for _, x := range u.Collect(at, func(x *E) bool { return x.Op == "bvar" || x.Op == "bidx" }) {
			if x.Op == "bvar" {
				bv = x
			} else {
				bi = x
			}
		}
	}
	ax := True
	// a list taken from a map: a missing key yields the nil list, which has no elements
	if m, k := mapLookupOf(coll); m != nil {
		for _, at := range u.AtomsOf(f) {
			if at.Op == "extract" && at.Aux == "1" && at.Args[0].Op == "lookup" && at.Args[0].Aux == "commaok" && at.Args[0].Args[0] == m && at.Args[0].Args[1] == k {
				ax = u.bdd.And(ax, u.bdd.Imp(u.Atom(ex), u.Atom(at)))
			}
		}
		// an empty map has no key at all
		ax = u.bdd.And(ax, u.bdd.Imp(u.Atom(ex), u.bdd.Not(u.ToBool(u.Eq(u.Len(m), u.Int(0))))))
	}
	// an empty collection has no elements
	ax = u.bdd.And(ax, u.bdd.Imp(u.Atom(ex), u.bdd.Not(u.ToBool(u.Eq(u.Len(coll), u.Int(0))))))
	seen := map[*E]bool{}
	for _, at := range u.AtomsOf(f) {
		for _, el := range u.Collect(at, func(x *E) bool { return x.Op == "index" && x.Args[0] == coll }) {
			if seen[el] {
				continue
			}
			seen[el] = true
			sub := map[string]*E{}
			if bv != nil {
				sub[bv.key] = el
			}
			if bi != nil {
				sub[bi.key] = el.Args[1]
			}
			inst := u.SubstBool(pred, sub)
			ax = u.bdd.And(ax, u.bdd.Imp(inst, u.Atom(ex)))
		}
	}
	return ax
}

// sameAsExists compares a boolean result with exists(coll, pred): it returns
// (result can be true without a witness, a witness can be missed).
func sameAsExists(u *U, res Ref, ex *E) (extra, missed bool) {
	x := u.Atom(ex)
	ax := witnessAxioms(u, res, ex)
	extra = u.bdd.And(ax, u.bdd.And(res, u.bdd.Not(x))) != False
	missed = u.bdd.And(ax, u.bdd.And(x, u.bdd.Not(res))) != False
	return
}

// impliesNoElemCall reports whether cond implies that no element of coll
// satisfies callName(element, lit): cond => !exists(coll, callName(bvar, lit)).
func impliesNoElemCall(u *U, cond Ref, coll *E, callName, lit string) bool {
	for _, at := range u.AtomsOf(cond) {
		if at.Op != "exists" || at.Args[0] != coll || !u.bdd.Implies(cond, u.bdd.Not(u.Atom(at))) {
			continue
		}
		pr := u.ToBool(at.Args[1])
		pats := u.AtomsOf(pr)
		if len(pats) == 1 && pr == u.Atom(pats[0]) && pats[0].Op == "call" && pats[0].Aux == callName && len(pats[0].Args) == 2 &&
			pats[0].Args[0].Op == "bvar" && isStr(pats[0].Args[1], lit) {
			return true
		}
	}
	return false
}

// mapLookupOf: e is m[k] (plain form) or the value part of "v, ok := m[k]".
func mapLookupOf(e *E) (m, k *E) {
	if e == nil {
		return nil, nil
	}
	if e.Op == "extract" && e.Aux == "0" && e.Args[0].Op == "lookup" {
		e = e.Args[0]
	}
	if e.Op == "lookup" && len(e.Args) == 2 {
		return e.Args[0], e.Args[1]
	}
	return nil, nil
}

// StringAxioms returns the conjunction of the valid implications between the atoms in the support of
// f that the rules rely on: the empty string is contained in, a prefix of and a suffix of every
// string.  A rule that wants "f implies g up to these facts" checks Implies(And(f, axioms), g).
func (u *U) StringAxioms(f Ref) Ref {
	ats := u.AtomsOf(f)
	isEmpty := func(at *E) *E {
		if at.Op != "eq" {
			return nil
		}
		for i := 0; i < 2; i++ {
			x, k := at.Args[i], at.Args[1-i]
			if sv, ok := k.StrVal(); ok && sv == "" {
				return x
			}
			if x.Op == "len" && isIntConst(k, 0) {
				return x.Args[0]
			}
		}
		return nil
	}
	var ax Ref = True
	for _, e := range ats {
		y := isEmpty(e)
		if y == nil {
			continue
		}
		for _, c := range ats {
			if c.Op == "call" && len(c.Args) == 2 && c.Args[1] == y &&
				(c.Aux == "strings.Contains" || c.Aux == "strings.HasPrefix" || c.Aux == "strings.HasSuffix" || c.Aux == "bytes.Contains" || c.Aux == "bytes.HasPrefix" || c.Aux == "bytes.HasSuffix") {
				ax = u.bdd.And(ax, u.bdd.Imp(u.Atom(e), u.Atom(c)))
			}
		}
	}
	return ax
}

// leafPredicate: a bool method small enough to be read as part of its caller's decision (no loops,
// a handful of blocks).
func leafPredicate(callee *ssa.Function) bool {
	if callee.Signature.Recv() == nil || len(callee.Blocks) == 0 || len(callee.Blocks) > 6 || len(loopsOf(callee)) > 0 {
		return false
	}
	res := callee.Signature.Results()
	if res.Len() != 1 {
		return false
	}
	b, ok := res.At(0).Type().Underlying().(*types.Basic)
	return ok && b.Kind() == types.Bool
}

// FoldAxioms: strings.EqualFold(X[lo:hi], m) with a constant m whose first byte has no case variants
// (not a letter, ASCII) implies X[lo] == m[0]: the comparison proceeds rune by rune and such a rune
// folds only to itself.  Returned as the conjunction of the implications between atoms in the
// support of f.
func (u *U) FoldAxioms(f Ref) Ref {
	ats := u.AtomsOf(f)
	var ax Ref = True
	for _, ef := range ats {
		if ef.Op != "call" || (ef.Aux != "strings.EqualFold" && ef.Aux != "bytes.EqualFold") || len(ef.Args) != 2 {
			continue
		}
		for i := 0; i < 2; i++ {
			win, k := ef.Args[i], ef.Args[1-i]
			m, ok := k.StrVal()
			if !ok || m == "" || win.Op != "slice" || win.Args[1] == nil {
				continue
			}
			b0 := m[0]
			if b0 >= 0x80 || (b0 >= 'a' && b0 <= 'z') || (b0 >= 'A' && b0 <= 'Z') {
				continue
			}
			for _, ie := range ats {
				if ie.Op != "eq" {
					continue
				}
				for j := 0; j < 2; j++ {
					x, c := ie.Args[j], ie.Args[1-j]
					cv, isC := c.IntVal()
					if !isC || x.Op != "index" || x.Args[0] != win.Args[0] || x.Args[1] != win.Args[1] {
						continue
					}
					if cv == int64(b0) {
						ax = u.bdd.And(ax, u.bdd.Imp(u.Atom(ef), u.Atom(ie)))
					} else {
						ax = u.bdd.And(ax, u.bdd.Imp(u.Atom(ef), u.bdd.Not(u.Atom(ie))))
					}
				}
			}
		}
	}
	return ax
}

// theoryEmpty reports whether f has no model once the given axioms and linear integer arithmetic
// over the atoms are taken into account: every cube of f & ax is refuted by Fourier-Motzkin.
// On failure the surviving cube is described.
func theoryEmpty(u *U, f, ax Ref) (bool, string) {
	g := u.bdd.And(f, ax)
	if g == False {
		return true, ""
	}
	n := 0
	surv := ""
	u.bdd.Cubes(g, func(cube map[int]bool) {
		n++
		if surv != "" || n > 4096 {
			if n > 4096 && surv == "" {
				surv = "more than 4096 cases"
			}
			return
		}
		L := NewLin(u)
		for v, pos := range cube {
			L.assumeLiteral(u.atoms[v], pos)
		}
		L.resolveNeqs()
		if L.entails(newLin(), newLin(), -1) {
			return
		}
		var lits []string
		for v, pos := range cube {
			t := u.Show(u.atoms[v])
			if !pos {
				t = "!" + t
			}
			lits = append(lits, t)
		}
		sort.Strings(lits)
		surv = strings.Join(lits, " & ")
	})
	return surv == "", surv
}
