package main

// Reasoning about the canonical search form exists(coll, pred) (see
// Gate.Search).

// witnessAxioms returns the conjunction of the facts "pred holds for the
// element coll[e]  =>  exists(coll, pred)" for every element expression
// coll[e] that occurs in f.  (An element expression that is evaluated is in
// range: an out-of-range index panics instead of producing a value.)
func witnessAxioms(u *U, f Ref, ex *E) Ref {
	if ex == nil || ex.Op != "exists" {
		return True
	}
	coll := ex.Args[0]
	pred := u.ToBool(ex.Args[1])
	var bv, bi *E
	for _, at := range u.AtomsOf(pred) {
		for _, x := range u.Collect(at, func(x *E) bool { return x.Op == "bvar" || x.Op == "bidx" }) {
			if x.Op == "bvar" {
				bv = x
			} else {
				bi = x
			}
		}
	}
	ax := True
	// a list taken from a map: a missing key yields the nil list, which has no elements
	if m, k := mapLookupOf(coll); m != nil {
		for _, at := range u.AtomsOf(f) {
			if at.Op == "extract" && at.Aux == "1" && at.Args[0].Op == "lookup" && at.Args[0].Aux == "commaok" && at.Args[0].Args[0] == m && at.Args[0].Args[1] == k {
				ax = u.bdd.And(ax, u.bdd.Imp(u.Atom(ex), u.Atom(at)))
			}
		}
	}
	// an empty collection has no elements
	ax = u.bdd.And(ax, u.bdd.Imp(u.Atom(ex), u.bdd.Not(u.ToBool(u.Eq(u.Len(coll), u.Int(0))))))
	seen := map[*E]bool{}
	for _, at := range u.AtomsOf(f) {
		for _, el := range u.Collect(at, func(x *E) bool { return x.Op == "index" && x.Args[0] == coll }) {
			if seen[el] {
				continue
			}
			seen[el] = true
			sub := map[string]*E{}
			if bv != nil {
				sub[bv.key] = el
			}
			if bi != nil {
				sub[bi.key] = el.Args[1]
			}
			inst := u.SubstBool(pred, sub)
			ax = u.bdd.And(ax, u.bdd.Imp(inst, u.Atom(ex)))
		}
	}
	return ax
}

// sameAsExists compares a boolean result with exists(coll, pred): it returns
// (result can be true without a witness, a witness can be missed).
func sameAsExists(u *U, res Ref, ex *E) (extra, missed bool) {
	x := u.Atom(ex)
	ax := witnessAxioms(u, res, ex)
	extra = u.bdd.And(ax, u.bdd.And(res, u.bdd.Not(x))) != False
	missed = u.bdd.And(ax, u.bdd.And(x, u.bdd.Not(res))) != False
	return
}

// impliesNoElemCall reports whether cond implies that no element of coll
// satisfies callName(element, lit): cond => !exists(coll, callName(bvar, lit)).
func impliesNoElemCall(u *U, cond Ref, coll *E, callName, lit string) bool {
	for _, at := range u.AtomsOf(cond) {
		if at.Op != "exists" || at.Args[0] != coll || !u.bdd.Implies(cond, u.bdd.Not(u.Atom(at))) {
			continue
		}
		pr := u.ToBool(at.Args[1])
		pats := u.AtomsOf(pr)
		if len(pats) == 1 && pr == u.Atom(pats[0]) && pats[0].Op == "call" && pats[0].Aux == callName && len(pats[0].Args) == 2 &&
			pats[0].Args[0].Op == "bvar" && isStr(pats[0].Args[1], lit) {
			return true
		}
	}
	return false
}

// mapLookupOf: e is m[k] (plain form) or the value part of "v, ok := m[k]".
func mapLookupOf(e *E) (m, k *E) {
	if e == nil {
		return nil, nil
	}
	if e.Op == "extract" && e.Aux == "0" && e.Args[0].Op == "lookup" {
		e = e.Args[0]
	}
	if e.Op == "lookup" && len(e.Args) == 2 {
		return e.Args[0], e.Args[1]
	}
	return nil, nil
}
