package main

// Reasoning about the canonical search form exists(coll, pred) (see
// Gate.Search).

// witnessAxioms returns the conjunction of the facts "pred holds for the
// element coll[e]  =>  exists(coll, pred)" for every element expression
// coll[e] that occurs in f.  (An element expression that is evaluated is in
// range: an out-of-range index panics instead of producing a value.)
func witnessAxioms(u *U, f Ref, ex *E) Ref {
	if ex == nil || ex.Op != "exists" {
		return True
	}
	coll := ex.Args[0]
	pred := u.ToBool(ex.Args[1])
	var bv, bi *E
	for _, at := range u.AtomsOf(pred) {
		for _, x := range u.Collect(at, func(x *E) bool { return x.Op == "bvar" || x.Op == "bidx" }) {
			if x.Op == "bvar" {
				bv = x
			} else {
				bi = x
			}
		}
	}
	ax := True
	seen := map[*E]bool{}
	for _, at := range u.AtomsOf(f) {
		for _, el := range u.Collect(at, func(x *E) bool { return x.Op == "index" && x.Args[0] == coll }) {
			if seen[el] {
				continue
			}
			seen[el] = true
			sub := map[string]*E{}
			if bv != nil {
				sub[bv.key] = el
			}
			if bi != nil {
				sub[bi.key] = el.Args[1]
			}
			inst := u.SubstBool(pred, sub)
			ax = u.bdd.And(ax, u.bdd.Imp(inst, u.Atom(ex)))
		}
	}
	return ax
}

// sameAsExists compares a boolean result with exists(coll, pred): it returns
// (result can be true without a witness, a witness can be missed).
func sameAsExists(u *U, res Ref, ex *E) (extra, missed bool) {
	x := u.Atom(ex)
	ax := witnessAxioms(u, res, ex)
	extra = u.bdd.And(ax, u.bdd.And(res, u.bdd.Not(x))) != False
	missed = u.bdd.And(ax, u.bdd.And(x, u.bdd.Not(res))) != False
	return
}
