package main

import (
	"fmt"
	"go/token"
	"go/types"
	"strings"

	"golang.org/x/tools/go/ssa"
)

// checkClientValues: how one value of $client becomes an entry of the client
// set.  (a) every value is stored in one of the lists (a value that is neither an
// address nor a valid prefix is a name, never nothing); (b) an address is stored
// as the prefix of the parsed address itself, a prefix as the parsed prefix,
// masked; a name as written; (c) a quoted value loses exactly its first and last
// character (by position: a trim by character set also eats escaped quotes at
// the ends of the name).
func checkClientValues(c *Ctx, rule string) {
	c.Rule(rule, "WIRE/PDT", "every $client value becomes an entry: the parsed address / prefix or the name as written; quotes removed by position", 3)
	add := c.P.Method("rules", "clients", "add")
	lc := c.P.Func("rules", "loadClients")
	if add == nil || lc == nil {
		c.Fail(rule, "anchor:clients.add / loadClients", 0, "unresolved anchor")
		return
	}
	c.Fn(FuncName(add), FuncName(lc))
	{
		g := NewGate(c.P)
		g.Inline = inlineOnly()
		s := g.Eval(add)
		u := g.U
		ps := g.ParamExprs(add)
		recv, val := ps[0], ps[1]
		var stored Ref = False
		bad := ""
		for _, ef := range s.Effects {
			if ef.Kind != "store" || ef.Addr.Op != "faddr" || len(ef.Addr.Args) == 0 || ef.Addr.Args[0] != recv {
				continue
			}
			stored = u.bdd.Or(stored, ef.Cond)
			v := ef.Val
			if v.Op != "append" || len(v.Args) < 2 {
				bad = "a list of the client set is overwritten instead of appended to"
				continue
			}
			el := v.Args[len(v.Args)-1]
			switch {
			case el == val:
				// the name as written
			case el.Op == "call" && strings.HasSuffix(el.Aux, "netip.PrefixFrom") && len(el.Args) >= 1:
				ip := el.Args[0]
				if !(ip.Op == "extract" && ip.Aux == "0" && ip.Args[0].Op == "call" && strings.HasSuffix(ip.Args[0].Aux, "netip.ParseAddr") && ip.Args[0].Args[0] == val) {
					bad = "the prefix stored for an address value is built from " + clip(u.Show(ip), 80) + ", not from the parsed address itself: a client address in another spelling of the same family (e.g. IPv4-mapped) is no longer contained in it"
				}
			case el.Op == "call" && strings.HasSuffix(el.Aux, "netip.Prefix).Masked") && len(el.Args) >= 1:
				px := el.Args[0]
				if !(px.Op == "extract" && px.Aux == "0" && px.Args[0].Op == "call" && strings.HasSuffix(px.Args[0].Aux, "netip.ParsePrefix") && px.Args[0].Args[0] == val) {
					bad = "the prefix stored for a CIDR value is not the parsed prefix: " + clip(u.Show(px), 80)
				}
			default:
				bad = "an entry is stored that is neither the value as written nor its parsed address / prefix: " + clip(u.Show(el), 100)
			}
		}
		c.Check(bad == "", rule, shortFn(add)+": the entry is the parsed address / prefix or the name as written", add.Pos(), "append of PrefixFrom(ParseAddr(v)), ParsePrefix(v).Masked() or v", bad)
		var anyRet Ref = False
		for _, r := range s.Rets {
			anyRet = u.bdd.Or(anyRet, r.Cond)
		}
		c.Check(u.bdd.Implies(anyRet, stored), rule, shortFn(add)+": every value is stored", add.Pos(), "every return is preceded by an append to one of the lists",
			"a value can be dropped without being stored (when "+clip(u.ShowBool(u.bdd.And(anyRet, u.bdd.Not(stored))), 160)+"): the rule then has no $client restriction for it and does not count the modifier")
	}
	{
		g := NewGate(c.P)
		g.Inline = inlineOnly()
		s := g.Eval(lc)
		u := g.U
		bad := ""
		n := 0
		for _, ef := range s.Effects {
			if ef.Kind != "call" || ef.Call.Aux != calleeName(add) || len(ef.Call.Args) < 2 {
				continue
			}
			n++
			x := ef.Call.Args[1]
			var peel func(e *E) []*E
			peel = func(e *E) []*E {
				switch {
				case e.Op == "ite":
					return append(peel(e.Args[0]), peel(e.Args[1])...)
				case e.Op == "call" && e.Aux == "strings.ReplaceAll" && len(e.Args) >= 1:
					return peel(e.Args[0])
				}
				return []*E{e}
			}
			for _, b := range peel(x) {
				if u.Mentions(b, func(y *E) bool {
					return y.Op == "call" && (strings.HasPrefix(y.Aux, "strings.Trim") && y.Aux != "strings.TrimSpace")
				}) {
					bad = "the quotes of a quoted value are removed with " + clip(u.Show(b), 80) + " (a trim by character set): an escaped quote at the start or the end of the name is eaten as well, the stored name is not the one written"
				}
			}
		}
		if n == 0 {
			bad = "UNDECIDED: loadClients never hands a value to the client set"
		}
		c.Check(bad == "", rule, shortFn(lc)+": quotes removed by position", lc.Pos(), fmt.Sprintf("%d hand-over(s); the value is the text between the first and the last character, unescaped", n), bad)
	}
	_ = ssa.Value(nil)
}

// checkByteCopyLoops (TYFLOW): a loop written "for i := range s" over a string visits the first
// byte of every character only.  Reading s[i] there is fine for finding an ASCII delimiter, but a
// loop that copies the bytes it reads (into a builder, a buffer or a slice) loses the continuation
// bytes of every non-ASCII character: the option splitter turned
// $client='Мой ноутбук' into garbage that way.  Flagged: a range over a string whose character
// value is unused, whose index reads the same string, and whose byte is written somewhere.
func checkByteCopyLoops(c *Ctx, rule string) {
	c.Rule(rule, "TYFLOW", "a loop that copies a string byte by byte visits every byte, not only the first byte of every character", 1)
	n := 0
	for _, fn := range c.P.AllLibFuncs() {
		if fn.Pkg == nil || !strings.HasSuffix(fn.Pkg.Pkg.Path(), "/rules") {
			continue
		}
		// every loop that reads bytes of a string by an index
		eachInstr(fn, func(_ *ssa.BasicBlock, in ssa.Instruction) {
			// s[i] on a string (go/ssa: Index; Lookup in older releases)
			var lk ssa.Value
			var lkX, lkIndex ssa.Value
			switch x := in.(type) {
			case *ssa.Index:
				lk, lkX, lkIndex = x, x.X, x.Index
			case *ssa.Lookup:
				lk, lkX, lkIndex = x, x.X, x.Index
			default:
				return
			}
			if in.Parent() != fn {
				return
			}
			if b, isB := lkX.Type().Underlying().(*types.Basic); !isB || b.Info()&types.IsString == 0 {
				return
			}
			// does the byte get copied?
			copied := false
			var walk func(v ssa.Value, depth int)
			walk = func(v ssa.Value, depth int) {
				if depth > 4 || copied {
					return
				}
				rs := v.Referrers()
				if rs == nil {
					return
				}
				for _, r := range *rs {
					switch r := r.(type) {
					case ssa.CallInstruction:
						cc := r.Common()
						name := ""
						if cal := cc.StaticCallee(); cal != nil {
							name = calleeName(cal)
						}
						if b, ok := cc.Value.(*ssa.Builtin); ok && b.Name() == "append" {
							copied = true
						}
						if strings.HasSuffix(name, ".WriteByte") || strings.HasSuffix(name, ".WriteRune") {
							copied = true
						}
					case *ssa.Store:
						if r.Val == v {
							copied = true
						}
					case *ssa.Convert:
						walk(r, depth+1)
					case *ssa.Phi:
						walk(r, depth+1)
					case *ssa.Slice:
					}
				}
			}
			walk(lk, 0)
			if !copied {
				return
			}
			n++
			key := shortFn(fn) + ": bytes copied from " + lkX.Name()
			// where does the index come from?
			bad := ""
			var fromRange func(v ssa.Value, depth int) *ssa.Range
			fromRange = func(v ssa.Value, depth int) *ssa.Range {
				if depth > 4 {
					return nil
				}
				switch x := v.(type) {
				case *ssa.Extract:
					if nx, ok := x.Tuple.(*ssa.Next); ok && nx.IsString && x.Index == 1 {
						if rg, ok := nx.Iter.(*ssa.Range); ok {
							return rg
						}
					}
				case *ssa.Phi:
					for _, e := range x.Edges {
						if rg := fromRange(e, depth+1); rg != nil {
							return rg
						}
					}
				}
				return nil
			}
			if rg := fromRange(lkIndex, 0); rg != nil && rg.X == lkX {
				bad = "the bytes of " + lkX.Name() + " are read at the positions a range over the string yields, i.e. at the first byte of every character, and copied: the continuation bytes of non-ASCII characters are dropped (a $client name or another option value written in a non-Latin script is stored as garbage and never matches)"
			}
			c.Check(bad == "", rule, key, lk.Pos(), "the index runs over every byte (counted loop), or the characters themselves are copied", bad)
		})
	}
	if n == 0 {
		c.Fail(rule, "byte-copying loops", token.NoPos, "UNDECIDED: no loop that copies bytes of a string found in package rules (the option splitter is one)")
	}
}
