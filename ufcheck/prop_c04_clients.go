package main

import (
	"fmt"
	"strings"

	"golang.org/x/tools/go/ssa"
)

// checkClientValues: how one value of $client becomes an entry of the client
// set.  (a) every value is stored in one of the lists (a value that is neither an
// address nor a valid prefix is a name, never nothing); (b) an address is stored
// as the prefix of the parsed address itself, a prefix as the parsed prefix,
// masked; a name as written; (c) a quoted value loses exactly its first and last
// character (by position: a trim by character set also eats escaped quotes at
// the ends of the name).
func checkClientValues(c *Ctx, rule string) {
	c.Rule(rule, "WIRE/PDT", "every $client value becomes an entry: the parsed address / prefix or the name as written; quotes removed by position", 3)
	add := c.P.Method("rules", "clients", "add")
	lc := c.P.Func("rules", "loadClients")
	if add == nil || lc == nil {
		c.Fail(rule, "anchor:clients.add / loadClients", 0, "unresolved anchor")
		return
	}
	c.Fn(FuncName(add), FuncName(lc))
	{
		g := NewGate(c.P)
		g.Inline = inlineOnly()
		s := g.Eval(add)
		u := g.U
		ps := g.ParamExprs(add)
		recv, val := ps[0], ps[1]
		var stored Ref = False
		bad := ""
		for _, ef := range s.Effects {
			if ef.Kind != "store" || ef.Addr.Op != "faddr" || len(ef.Addr.Args) == 0 || ef.Addr.Args[0] != recv {
				continue
			}
			stored = u.bdd.Or(stored, ef.Cond)
			v := ef.Val
			if v.Op != "append" || len(v.Args) < 2 {
				bad = "a list of the client set is overwritten instead of appended to"
				continue
			}
			el := v.Args[len(v.Args)-1]
			switch {
			case el == val:
				// the name as written
			case el.Op == "call" && strings.HasSuffix(el.Aux, "netip.PrefixFrom") && len(el.Args) >= 1:
				ip := el.Args[0]
				if !(ip.Op == "extract" && ip.Aux == "0" && ip.Args[0].Op == "call" && strings.HasSuffix(ip.Args[0].Aux, "netip.ParseAddr") && ip.Args[0].Args[0] == val) {
					bad = "the prefix stored for an address value is built from " + clip(u.Show(ip), 80) + ", not from the parsed address itself: a client address in another spelling of the same family (e.g. IPv4-mapped) is no longer contained in it"
				}
			case el.Op == "call" && strings.HasSuffix(el.Aux, "netip.Prefix).Masked") && len(el.Args) >= 1:
				px := el.Args[0]
				if !(px.Op == "extract" && px.Aux == "0" && px.Args[0].Op == "call" && strings.HasSuffix(px.Args[0].Aux, "netip.ParsePrefix") && px.Args[0].Args[0] == val) {
					bad = "the prefix stored for a CIDR value is not the parsed prefix: " + clip(u.Show(px), 80)
				}
			default:
				bad = "an entry is stored that is neither the value as written nor its parsed address / prefix: " + clip(u.Show(el), 100)
			}
		}
		c.Check(bad == "", rule, shortFn(add)+": the entry is the parsed address / prefix or the name as written", add.Pos(), "append of PrefixFrom(ParseAddr(v)), ParsePrefix(v).Masked() or v", bad)
		var anyRet Ref = False
		for _, r := range s.Rets {
			anyRet = u.bdd.Or(anyRet, r.Cond)
		}
		c.Check(u.bdd.Implies(anyRet, stored), rule, shortFn(add)+": every value is stored", add.Pos(), "every return is preceded by an append to one of the lists",
			"a value can be dropped without being stored (when "+clip(u.ShowBool(u.bdd.And(anyRet, u.bdd.Not(stored))), 160)+"): the rule then has no $client restriction for it and does not count the modifier")
	}
	{
		g := NewGate(c.P)
		g.Inline = inlineOnly()
		s := g.Eval(lc)
		u := g.U
		bad := ""
		n := 0
		for _, ef := range s.Effects {
			if ef.Kind != "call" || ef.Call.Aux != calleeName(add) || len(ef.Call.Args) < 2 {
				continue
			}
			n++
			x := ef.Call.Args[1]
			var peel func(e *E) []*E
			peel = func(e *E) []*E {
				switch {
				case e.Op == "ite":
					return append(peel(e.Args[0]), peel(e.Args[1])...)
				case e.Op == "call" && e.Aux == "strings.ReplaceAll" && len(e.Args) >= 1:
					return peel(e.Args[0])
				}
				return []*E{e}
			}
			for _, b := range peel(x) {
				if u.Mentions(b, func(y *E) bool {
					return y.Op == "call" && (strings.HasPrefix(y.Aux, "strings.Trim") && y.Aux != "strings.TrimSpace")
				}) {
					bad = "the quotes of a quoted value are removed with " + clip(u.Show(b), 80) + " (a trim by character set): an escaped quote at the start or the end of the name is eaten as well, the stored name is not the one written"
				}
			}
		}
		if n == 0 {
			bad = "UNDECIDED: loadClients never hands a value to the client set"
		}
		c.Check(bad == "", rule, shortFn(lc)+": quotes removed by position", lc.Pos(), fmt.Sprintf("%d hand-over(s); the value is the text between the first and the last character, unescaped", n), bad)
	}
	_ = ssa.Value(nil)
}
