package main

import (
	"flag"
	"fmt"
	"os"
	"runtime/debug"
	"sort"
	"strconv"
	"strings"
	"time"
)

var subRun struct {
	jsonOut    string
	noEvidence bool
	merge      string
}

// PropFn runs the rule set of one property.
type PropFn func(c *Ctx)

type PropDef struct {
	ID          string
	Run         PropFn
	Explanation string
	Trusted     []string
	Assumptions []string
}

var props = map[string]*PropDef{}

func register(p *PropDef) { props[p.ID] = p }

var commonTrusted = []string{
	"go/types and go/ssa (x/tools v0.29.0) build a faithful SSA form of /repo's current working tree",
	"the gated evaluator (eng_gate.go): block reach conditions as BDDs over opaque atoms, φ as if-then-else, loops cut at headers, store-to-load forwarding keyed by syntactic address (distinct address expressions are assumed not to alias)",
	"library summaries: the table of side-effect-free standard-library functions (eng_gate.go pureCallPrefixes)",
}

func main() {
	repo := flag.String("repo", "/repo", "repository root")
	verif := flag.String("verif", "/verif", "verification root (evidence, known findings)")
	prop := flag.String("p", "", "property id (C01..C20)")
	tier := flag.String("tier", "quick", "quick|thorough")
	dump := flag.String("dump", "", "debug: dump the gated summary of pkg.Func or pkg.Type.Method")
	goarch := flag.String("goarch", "", "GOARCH override")
	goos := flag.String("goos", "", "GOOS override")
	jsonOut := flag.String("json", "", "write a machine-readable summary of the run to this file")
	noEvidence := flag.Bool("noevidence", false, "do not write evidence/replay files (sub-runs of the thorough tier)")
	listFuncs := flag.Bool("listfuncs", false, "print the names of all library functions (used to regenerate baseline_funcs.go)")
	merge := flag.String("merge", "", "directory with summaries of sub-runs (other build configurations, liveness runs) to merge into the evidence")
	flag.Parse()
	subRun.jsonOut, subRun.noEvidence, subRun.merge = *jsonOut, *noEvidence, *merge
	cfgGOOS, cfgGOARCH = *goos, *goarch

	start := time.Now()
	seed := int64(0)
	if s := os.Getenv("VERIF_SEED"); s != "" {
		seed, _ = strconv.ParseInt(s, 10, 64)
	}

	if *listFuncs {
		p, err := Load(*repo, *goos, *goarch, false)
		if err != nil {
			fmt.Fprintln(os.Stderr, err)
			os.Exit(2)
		}
		for _, fn := range p.AllLibFuncs() {
			if fn.Parent() == nil {
				fmt.Println(FuncName(fn))
			}
		}
		return
	}
	if *dump != "" {
		p, err := Load(*repo, *goos, *goarch, false)
		if err != nil {
			fmt.Fprintln(os.Stderr, err)
			os.Exit(2)
		}
		dumpFunc(p, *dump)
		return
	}

	if *prop == "all" {
		// tooling mode: every property on one loaded program, no evidence written; one RESULT line each
		subRun.noEvidence = true
		p, err := Load(*repo, *goos, *goarch, false)
		if err != nil {
			fmt.Fprintln(os.Stderr, err)
			fmt.Println("RESULT LOAD rc=1")
			os.Exit(1)
		}
		var ids []string
		for id := range props {
			ids = append(ids, id)
		}
		sort.Strings(ids)
		worst := 0
		for _, id := range ids {
			code := runPropOn(props[id], p, *verif, *tier, *goos, *goarch, seed, time.Now())
			fmt.Printf("RESULT %s rc=%d\n", id, code)
			if code > worst {
				worst = code
			}
		}
		os.Exit(worst)
	}
	pd := props[*prop]
	if pd == nil {
		var ids []string
		for id := range props {
			ids = append(ids, id)
		}
		sort.Strings(ids)
		fmt.Fprintf(os.Stderr, "unknown property %q; known: %s\n", *prop, strings.Join(ids, " "))
		os.Exit(2)
	}

	code := runProp(pd, *repo, *verif, *tier, *goos, *goarch, seed, start)
	os.Exit(code)
}

func runProp(pd *PropDef, repo, verif, tier, goos, goarch string, seed int64, start time.Time) (code int) {
	p, err := Load(repo, goos, goarch, false)
	var c *Ctx
	if err != nil {
		// fail closed: a tree that does not load or type-check is reported
		c = NewCtx(pd.ID, tier, nil)
		c.Rule(pd.ID+".LOAD", "LOAD", "the repository loads and type-checks", 0)
		c.Obs = append(c.Obs, &Ob{Rule: pd.ID + ".LOAD", Key: "load", Pos: "-", Status: "violation", st: StViolation, How: err.Error()})
		return c.Finish(verif, seed, start, pd.Explanation, pd.Trusted, pd.Assumptions)
	}
	return runPropOn(pd, p, verif, tier, goos, goarch, seed, start)
}

func runPropOn(pd *PropDef, p *Prog, verif, tier, goos, goarch string, seed int64, start time.Time) (code int) {
	c := NewCtx(pd.ID, tier, p)
	p.adopted = nil
	known, kerr := loadKnown(verif + "/known_findings.json")
	if kerr != nil {
		fmt.Fprintln(os.Stderr, kerr)
		return 2
	}
	c.Known = known
	func() {
		defer func() {
			if r := recover(); r != nil {
				c.Rule(pd.ID+".PANIC", "CORE", "the analysis completes", 0)
				c.Obs = append(c.Obs, &Ob{Rule: pd.ID + ".PANIC", Key: "analysis-panic", Pos: "-", Status: "violation", st: StViolation,
					How: fmt.Sprintf("analysis panicked (fail closed): %v\n%s", r, tail(string(debug.Stack()), 1800))})
			}
		}()
		pd.Run(c)
	}()
	c.Extra["packages_loaded"] = p.nPkgs
	c.Extra["config"] = map[string]string{"GOOS": goos, "GOARCH": goarch}
	return c.Finish(verif, seed, start, pd.Explanation, append(append([]string{}, commonTrusted...), pd.Trusted...), pd.Assumptions)
}

func tail(s string, n int) string {
	if len(s) > n {
		return s[:n]
	}
	return s
}

// resolve "rules.NewRule" or "rules.NetworkRule.Match" or ".NetworkEngine.MatchAll".
func resolveName(p *Prog, name string) (fnName string, ok bool) {
	return name, true
}

func dumpFunc(p *Prog, name string) {
	parts := strings.Split(name, ".")
	g := NewGate(p)
	g.Search = os.Getenv("UFCHECK_SEARCH") != ""
	g.Unroll = os.Getenv("UFCHECK_UNROLL") != ""
	g.ConstTables = os.Getenv("UFCHECK_UNROLL") != ""
	if os.Getenv("UFCHECK_NOINLINE") != "" {
		g.Inline = inlineOnly(strings.Split(os.Getenv("UFCHECK_NOINLINE"), ",")...)
	}
	for _, n := range strings.Split(os.Getenv("UFCHECK_PURE"), ",") {
		if n != "" {
			g.Pure[n] = true
		}
	}
	var s *Summary
	switch len(parts) {
	case 2:
		fn := p.Func(parts[0], parts[1])
		if fn == nil {
			fmt.Println("not found")
			return
		}
		s = g.Eval(fn)
	case 3:
		fn := p.Method(parts[0], parts[1], parts[2])
		if fn == nil {
			fmt.Println("not found")
			return
		}
		s = g.Eval(fn)
	default:
		fmt.Println("usage: -dump pkg.Func | pkg.Type.Method")
		return
	}
	fmt.Printf("func %s: %d return sites, %d effects, %d loops, panics=%s\n", FuncName(s.Fn), len(s.Rets), len(s.Effects), s.Loops, g.U.ShowBool(s.Panics))
	for i, r := range s.Rets {
		var vs []string
		for _, v := range r.Vals {
			vs = append(vs, g.U.Show(v))
		}
		fmt.Printf("  ret[%d] @%s when %s\n      -> %s\n", i, p.Pos(r.Pos), g.U.ShowBool(r.Cond), strings.Join(vs, " ; "))
	}
	for i, e := range s.Effects {
		d := ""
		switch e.Kind {
		case "store":
			d = g.U.Show(e.Addr) + " := " + g.U.Show(e.Val)
		case "call", "defer", "go", "panic":
			d = g.U.Show(e.Call)
		case "mapupdate":
			d = g.U.Show(e.Addr) + "[" + g.U.Show(e.Key) + "] = " + g.U.Show(e.Val)
		}
		fmt.Printf("  eff[%d] %s @%s when %s: %s\n", i, e.Kind, p.Pos(e.Pos), g.U.ShowBool(e.Cond), d)
	}
	if len(s.Rets) > 0 {
		for i := range s.Rets[0].Vals {
			fmt.Printf("  RESULT[%d] = %s\n", i, g.U.Show(g.RetExpr(s, i)))
		}
	}
}
